(* C02 — model of the whole class writer: duke::simple_class_writer::write and everything it
   calls (write_field, write_method, write_code's frame around the branch-offset loop,
   write_record_component, write_annotations_attribute, write_element_value*, the type-annotation
   writers, write_type_path, write_module) together with the constant-pool puts of
   simple_class_writer/pool.rs (PoolEntry::from_*, PoolWrite::put_*, put_bootstrap_method,
   PoolWrite::write).  Executable definitions only.

   Strings are the modified-UTF-8 bytes duke writes for them (jstring::from_string_to_vec; the
   encoding itself is not modelled).  Flag structs enter as their u16 value.  A writer is a state
   transformer over (constant pool, bootstrap-method table) that returns the bytes it wrote; the
   pool is the hash-consing pool of C02/Model.v with an entry keyed by its class-file bytes.

   The instructions of a method enter as: raw bytes (no pool operand, no label), opcode bytes +
   a constant whose pool index is inserted as u16 + trailing bytes, invokeinterface of a member
   reference (the count operand is computed by the model of get_arguments_size), ldc of a loadable
   (form chosen by the index), or one of the label-carrying instructions of C02/Model.v.  write_code's loop
   repeats the pool puts of its first attempt in every later attempt; puts are idempotent
   (C02_pool_put_idem), so the model performs them once, in instruction order, and then runs the
   loop of C02/Model.v on the resulting layout-level body. *)
From FB Require Export C02.Model C02.Encode C02.Frames.
Local Open Scope Z_scope.

Definition bytes := list N.
Definition u8 (z : Z) : bytes := [byte_of z].
Definition be64 (z : Z) : bytes := be32 (z / 4294967296) ++ be32 z.

(* ---------------- constant pool entries ---------------- *)
Inductive centry :=
| CUtf8 (s : bytes)
| CInteger (v : Z) | CFloat (b : Z) | CLong (v : Z) | CDouble (b : Z)
| CClass (n : Z) | CString (n : Z)
| CFieldRef (c nt : Z) | CMethodRef (c nt : Z) | CIMethodRef (c nt : Z)
| CNameAndType (n d : Z)
| CMethodHandle (k r : Z)
| CMethodType (d : Z)
| CDynamic (b nt : Z) | CInvokeDynamic (b nt : Z)
| CModule (n : Z) | CPackage (n : Z).

(* PoolWrite::write, one entry *)
Definition centry_bytes (c : centry) : bytes :=
  match c with
  | CUtf8 s => 1%N :: be16 (zlen s) ++ s
  | CInteger v => 3%N :: be32 v
  | CFloat b => 4%N :: be32 b
  | CLong v => 5%N :: be64 v
  | CDouble b => 6%N :: be64 b
  | CClass n => 7%N :: be16 n
  | CString n => 8%N :: be16 n
  | CFieldRef c nt => 9%N :: be16 c ++ be16 nt
  | CMethodRef c nt => 10%N :: be16 c ++ be16 nt
  | CIMethodRef c nt => 11%N :: be16 c ++ be16 nt
  | CNameAndType n d => 12%N :: be16 n ++ be16 d
  | CMethodHandle k r => 15%N :: byte_of k :: be16 r
  | CMethodType d => 16%N :: be16 d
  | CDynamic b nt => 17%N :: be16 b ++ be16 nt
  | CInvokeDynamic b nt => 18%N :: be16 b ++ be16 nt
  | CModule n => 19%N :: be16 n
  | CPackage n => 20%N :: be16 n
  end.
Definition centry_two (c : centry) : bool := match c with CLong _ | CDouble _ => true | _ => false end.
Definition mk (c : centry) : pentry := {| pe_two := centry_two c; pe_key := centry_bytes c |}.

(* ---------------- what the tree refers to ---------------- *)
Record memberref := { mr_class : bytes; mr_name : bytes; mr_desc : bytes }.
(* Handle: reference_kind 1..9; h_iface is the bool of InvokeStatic / InvokeSpecial (false otherwise) *)
Record handle := { h_kind : Z; h_ref : memberref; h_iface : bool }.
Inductive loadable :=
| LInt (v : Z) | LFloat (b : Z) | LLong (v : Z) | LDouble (b : Z)
| LClass (name : bytes) | LString (s : bytes)
| LHandle (h : handle) | LMethodType (d : bytes)
| LDynamic (name desc : bytes) (h : handle) (args : list loadable).

Definition bytes_eqb (a b : bytes) : bool := str_eqb a b.
Definition memberref_eqb (a b : memberref) : bool :=
  bytes_eqb (mr_class a) (mr_class b) && bytes_eqb (mr_name a) (mr_name b) && bytes_eqb (mr_desc a) (mr_desc b).
Definition handle_eqb (a b : handle) : bool :=
  (h_kind a =? h_kind b) && memberref_eqb (h_ref a) (h_ref b) && Bool.eqb (h_iface a) (h_iface b).

(* BootstrapMethodWrite: the handle and the pool indices of the arguments; the table in order *)
Definition bsment := (handle * list Z)%type.
Fixpoint zlist_eqb (a b : list Z) : bool :=
  match a, b with
  | [], [] => true
  | x :: a', y :: b' => (x =? y) && zlist_eqb a' b'
  | _, _ => false
  end.
Definition bsment_eqb (a b : bsment) : bool := handle_eqb (fst a) (fst b) && zlist_eqb (snd a) (snd b).
Fixpoint bsm_index (l : list bsment) (e : bsment) (k : Z) : option Z :=
  match l with
  | [] => None
  | x :: r => if bsment_eqb x e then Some k else bsm_index r e (k + 1)
  end.

Record wst := { w_pool : pool; w_bsm : list bsment }.
Definition wst_new : wst := {| w_pool := pool_new; w_bsm := [] |}.

(* Why the writer answered with an error: one constructor per place where the Rust code has `?` on a checked
   conversion, a `bail!` or a missing label, with the values that decide it (C02_write_class_errors). *)
Inductive ecause :=
| EPool (p : pool) (e : pentry)          (* PoolWrite::put: `count.checked_add(inc)` overflows u16 *)
| EBootstrap (n : Z)                     (* put_bootstrap_method: the table already holds n > 65535 entries *)
| ECount16 (n : Z)                       (* write_usize_as_u16: a count / length that does not fit u16 *)
| ECount8 (n : Z)                        (* write_usize_as_u8 *)
| ELen32 (n : Z)                         (* write_usize_as_u32: an attribute body / unknown attribute longer than u32 *)
| ENoMax                                 (* write_code: no max_stack / max_locals *)
| EArgs (desc : bytes)                   (* get_arguments_size: malformed descriptor or more than 255 argument slots *)
| ECode (es : body) (last : option label)  (* the branch-offset loop of write_code on the lowered body *)
| ELabel (labs : labmap) (ls : list label) (* a table refers to a label (one of ls) that the final label map does not hold *)
| EFrameOffset (prev off : Z)            (* a stack map frame not after the previous one *)
| EFrame (labs : labmap) (f : sframe)    (* a stack map frame that has no class-file form *)
| EUtf8 (p : pool)                       (* PoolWrite::write: a string of more than 65535 bytes *)
| EFuel.                                 (* model only: the loop ran out of fuel (excluded by C02_write_terminates) *)
Inductive wout (A : Type) : Type := WOK (a : A) | WERR (c : ecause) | WPANIC.
Arguments WOK {A} a. Arguments WERR {A} c. Arguments WPANIC {A}.

Definition W (A : Type) : Type := wst -> wout (A * wst).
Definition ret {A} (a : A) : W A := fun s => WOK (a, s).
Definition bind {A B} (m : W A) (f : A -> W B) : W B :=
  fun s => match m s with WOK (a, s') => f a s' | WERR c => WERR c | WPANIC => WPANIC end.
Definition lift_res {A} (c : ecause) (r : res A) : W A := fun s => match r with Ok a => WOK (a, s) | Err => WERR c end.
Definition lift_out {A} (c : ecause) (r : out A) : W A := fun s => match r with OK a => WOK (a, s) | ERR => WERR c | PANIC => WPANIC end.
Definition werr {A} (c : ecause) : W A := fun _ => WERR c.
Notation "x <- m ;; f" := (bind m (fun x => f)) (at level 61, m at next level, right associativity).
Fixpoint mapW {A B} (f : A -> W B) (l : list A) : W (list B) :=
  match l with
  | [] => ret []
  | x :: r => y <- f x ;; ys <- mapW f r ;; ret (y :: ys)
  end.
Fixpoint seqW {A} (l : list (W A)) : W (list A) :=
  match l with
  | [] => ret []
  | m :: r => y <- m ;; ys <- seqW r ;; ret (y :: ys)
  end.

(* PoolWrite::put *)
Definition put (c : centry) : W Z :=
  fun s => match pool_put (w_pool s) (mk c) with
           | Ok (p', i) => WOK (i, {| w_pool := p'; w_bsm := w_bsm s |})
           | Err => WERR (EPool (w_pool s) (mk c))
           end.
(* put_optional: 0 for None *)
Definition put_opt {A} (f : A -> W Z) (o : option A) : W Z := match o with Some a => f a | None => ret 0 end.

Definition put_utf8 (s : bytes) : W Z := put (CUtf8 s).
Definition put_class (name : bytes) : W Z := n <- put_utf8 name ;; put (CClass n).
Definition put_package (name : bytes) : W Z := n <- put_utf8 name ;; put (CPackage n).
Definition put_module (name : bytes) : W Z := n <- put_utf8 name ;; put (CModule n).
Definition put_string (s : bytes) : W Z := n <- put_utf8 s ;; put (CString n).
Definition put_nat (name desc : bytes) : W Z := n <- put_utf8 name ;; d <- put_utf8 desc ;; put (CNameAndType n d).
Definition put_fieldref (r : memberref) : W Z :=
  c <- put_class (mr_class r) ;; nt <- put_nat (mr_name r) (mr_desc r) ;; put (CFieldRef c nt).
Definition put_methodref (r : memberref) : W Z :=
  c <- put_class (mr_class r) ;; nt <- put_nat (mr_name r) (mr_desc r) ;; put (CMethodRef c nt).
Definition put_imethodref (r : memberref) : W Z :=
  c <- put_class (mr_class r) ;; nt <- put_nat (mr_name r) (mr_desc r) ;; put (CIMethodRef c nt).
Definition put_method_or_imethod (r : memberref) (iface : bool) : W Z :=
  if iface then put_imethodref r else put_methodref r.
(* PoolEntry::from_method_handle *)
Definition put_handle (h : handle) : W Z :=
  let k := h_kind h in
  r <- (if k <=? 4 then put_fieldref (h_ref h)
        else if (k =? 5) || (k =? 8) then put_methodref (h_ref h)
        else if (k =? 6) || (k =? 7) then put_method_or_imethod (h_ref h) (h_iface h)
        else put_imethodref (h_ref h)) ;;
  put (CMethodHandle k r).

(* put_bootstrap_method, after the arguments have been put *)
Definition put_bsm_entry (e : bsment) : W Z :=
  fun s => match bsm_index (w_bsm s) e 0 with
           | Some i => WOK (i, s)
           | None => let index := zlen (w_bsm s) in
                     if u16max <? index then WERR (EBootstrap index)
                     else WOK (index, {| w_pool := w_pool s; w_bsm := w_bsm s ++ [e] |})
           end.

(* PoolEntry::from_loadable + put; from_dynamic: name_and_type, then the arguments, then the table entry *)
Fixpoint put_loadable (l : loadable) : W Z :=
  match l with
  | LInt v => put (CInteger v)
  | LFloat b => put (CFloat b)
  | LLong v => put (CLong v)
  | LDouble b => put (CDouble b)
  | LClass n => put_class n
  | LString s => put_string s
  | LHandle h => put_handle h
  | LMethodType d => n <- put_utf8 d ;; put (CMethodType n)
  | LDynamic name desc h args =>
      nt <- put_nat name desc ;;
      idxs <- (fix go (a : list loadable) : W (list Z) :=
                 match a with
                 | [] => ret []
                 | x :: r => i <- put_loadable x ;; is <- go r ;; ret (i :: is)
                 end) args ;;
      b <- put_bsm_entry (h, idxs) ;;
      put (CDynamic b nt)
  end.
Definition put_invoke_dynamic (name desc : bytes) (h : handle) (args : list loadable) : W Z :=
  nt <- put_nat name desc ;;
  idxs <- mapW put_loadable args ;;
  b <- put_bsm_entry (h, idxs) ;;
  put (CInvokeDynamic b nt).

(* ---------------- lengths and framing ---------------- *)
Definition write_usize_as_u8 (n : Z) : res bytes := if 255 <? n then Err else Ok [byte_of n].
Definition w_u16len (n : Z) : W bytes := lift_res (ECount16 n) (write_usize_as_u16 n).
Definition w_u8len (n : Z) : W bytes := lift_res (ECount8 n) (write_usize_as_u8 n).

(* write_attribute: the body first (its puts come first), then the name, then the measured length *)
Definition wattr (name : bytes) (body : W bytes) : W bytes :=
  b <- body ;; i <- put_utf8 name ;; lift_res (ELen32 (zlen b)) (write_attribute i b).
(* write_attribute_fix_length followed by the writes of the call site: the name first, the literal
   length, then what the call site writes *)
Definition wattr_fix (name : bytes) (len : Z) (body : W bytes) : W bytes :=
  i <- put_utf8 name ;; l <- lift_res (ELen32 len) (write_usize_as_u32 len) ;; b <- body ;; ret (be16 i ++ l ++ b).
(* an unknown attribute / SourceDebugExtension: name, u32 length of the bytes, the bytes *)
Definition wattr_raw (name : bytes) (content : bytes) : W bytes :=
  i <- put_utf8 name ;; l <- lift_res (ELen32 (zlen content)) (write_usize_as_u32 (zlen content)) ;; ret (be16 i ++ l ++ content).
(* `attribute_count += 1; …` per attribute, then write_usize_as_u16(attribute_count) and the buffer *)
Definition wattrs (l : list (W bytes)) : W bytes :=
  bs <- seqW l ;; c <- w_u16len (zlen l) ;; ret (c ++ concat bs).
(* write_slice with a u16 count *)
Definition wslice16 {A} (f : A -> W bytes) (l : list A) : W bytes :=
  c <- w_u16len (zlen l) ;; bs <- mapW f l ;; ret (c ++ concat bs).
Definition wslice8 {A} (f : A -> W bytes) (l : list A) : W bytes :=
  c <- w_u8len (zlen l) ;; bs <- mapW f l ;; ret (c ++ concat bs).
Definition oattr {A} (o : option A) (f : A -> W bytes) : list (W bytes) := match o with Some a => [f a] | None => [] end.
Definition battr (b : bool) (m : W bytes) : list (W bytes) := if b then [m] else [].
Definition nattr {A} (l : list A) (f : list A -> W bytes) : list (W bytes) := match l with [] => [] | _ => [f l] end.
Definition idx16 (f : W Z) : W bytes := i <- f ;; ret (be16 i).

(* attribute names (class_constants::attribute), as bytes *)
Definition s_Deprecated : bytes := [68;101;112;114;101;99;97;116;101;100]%N.
Definition s_Synthetic : bytes := [83;121;110;116;104;101;116;105;99]%N.
Definition s_InnerClasses : bytes := [73;110;110;101;114;67;108;97;115;115;101;115]%N.
Definition s_EnclosingMethod : bytes := [69;110;99;108;111;115;105;110;103;77;101;116;104;111;100]%N.
Definition s_Signature : bytes := [83;105;103;110;97;116;117;114;101]%N.
Definition s_SourceFile : bytes := [83;111;117;114;99;101;70;105;108;101]%N.
Definition s_SourceDebugExtension : bytes := [83;111;117;114;99;101;68;101;98;117;103;69;120;116;101;110;115;105;111;110]%N.
Definition s_RVAnn : bytes := [82;117;110;116;105;109;101;86;105;115;105;98;108;101;65;110;110;111;116;97;116;105;111;110;115]%N.
Definition s_RIAnn : bytes := [82;117;110;116;105;109;101;73;110;118;105;115;105;98;108;101;65;110;110;111;116;97;116;105;111;110;115]%N.
Definition s_RVTAnn : bytes := [82;117;110;116;105;109;101;86;105;115;105;98;108;101;84;121;112;101;65;110;110;111;116;97;116;105;111;110;115]%N.
Definition s_RITAnn : bytes := [82;117;110;116;105;109;101;73;110;118;105;115;105;98;108;101;84;121;112;101;65;110;110;111;116;97;116;105;111;110;115]%N.
Definition s_Module : bytes := [77;111;100;117;108;101]%N.
Definition s_ModulePackages : bytes := [77;111;100;117;108;101;80;97;99;107;97;103;101;115]%N.
Definition s_ModuleMainClass : bytes := [77;111;100;117;108;101;77;97;105;110;67;108;97;115;115]%N.
Definition s_NestHost : bytes := [78;101;115;116;72;111;115;116]%N.
Definition s_NestMembers : bytes := [78;101;115;116;77;101;109;98;101;114;115]%N.
Definition s_PermittedSubclasses : bytes := [80;101;114;109;105;116;116;101;100;83;117;98;99;108;97;115;115;101;115]%N.
Definition s_Record : bytes := [82;101;99;111;114;100]%N.
Definition s_BootstrapMethods : bytes := [66;111;111;116;115;116;114;97;112;77;101;116;104;111;100;115]%N.
Definition s_ConstantValue : bytes := [67;111;110;115;116;97;110;116;86;97;108;117;101]%N.
Definition s_Code : bytes := [67;111;100;101]%N.
Definition s_Exceptions : bytes := [69;120;99;101;112;116;105;111;110;115]%N.
Definition s_AnnotationDefault : bytes := [65;110;110;111;116;97;116;105;111;110;68;101;102;97;117;108;116]%N.
Definition s_MethodParameters : bytes := [77;101;116;104;111;100;80;97;114;97;109;101;116;101;114;115]%N.
Definition s_StackMapTable : bytes := [83;116;97;99;107;77;97;112;84;97;98;108;101]%N.
Definition s_LineNumberTable : bytes := [76;105;110;101;78;117;109;98;101;114;84;97;98;108;101]%N.
Definition s_LocalVariableTable : bytes := [76;111;99;97;108;86;97;114;105;97;98;108;101;84;97;98;108;101]%N.
Definition s_LocalVariableTypeTable : bytes := [76;111;99;97;108;86;97;114;105;97;98;108;101;84;121;112;101;84;97;98;108;101]%N.

(* ---------------- annotations ---------------- *)
(* the constant of an element value of tag B C D F I J S Z s *)
Inductive econst := ECInt (v : Z) | ECFloat (b : Z) | ECLong (v : Z) | ECDouble (b : Z) | ECUtf8 (s : bytes).
Inductive elem :=
| EConst (tag : N) (c : econst)
| EEnum (type_name const_name : bytes)
| EClass (d : bytes)
| EAnnot (type : bytes) (pairs : list (bytes * elem))
| EArray (vs : list elem).
Definition annotation := (bytes * list (bytes * elem))%type.

Definition put_econst (c : econst) : W Z :=
  match c with
  | ECInt v => put (CInteger v)
  | ECFloat b => put (CFloat b)
  | ECLong v => put (CLong v)
  | ECDouble b => put (CDouble b)
  | ECUtf8 s => put_utf8 s
  end.

(* write_element_value_unnamed; the count of a list is written before its elements *)
Fixpoint write_elem (e : elem) : W bytes :=
  match e with
  | EConst tag c => i <- put_econst c ;; ret (tag :: be16 i)
  | EEnum tn cn => a <- put_utf8 tn ;; b <- put_utf8 cn ;; ret (101%N :: be16 a ++ be16 b)
  | EClass d => a <- put_utf8 d ;; ret (99%N :: be16 a)
  | EAnnot ty pairs =>
      a <- put_utf8 ty ;;
      c <- w_u16len (zlen pairs) ;;
      ps <- (fix go (l : list (bytes * elem)) : W (list bytes) :=
               match l with
               | [] => ret []
               | (n, v) :: r => i <- put_utf8 n ;; b <- write_elem v ;; rest <- go r ;; ret ((be16 i ++ b) :: rest)
               end) pairs ;;
      ret (64%N :: be16 a ++ c ++ concat ps)
  | EArray vs =>
      c <- w_u16len (zlen vs) ;;
      bs <- (fix go (l : list elem) : W (list bytes) :=
               match l with
               | [] => ret []
               | v :: r => b <- write_elem v ;; rest <- go r ;; ret (b :: rest)
               end) vs ;;
      ret (91%N :: c ++ concat bs)
  end.
(* write_element_values_named *)
Definition write_pairs (pairs : list (bytes * elem)) : W bytes :=
  wslice16 (fun p => i <- put_utf8 (fst p) ;; b <- write_elem (snd p) ;; ret (be16 i ++ b)) pairs.
(* write_annotations_attribute *)
Definition write_annotations (l : list annotation) : W bytes :=
  wslice16 (fun a => i <- put_utf8 (fst a) ;; b <- write_pairs (snd a) ;; ret (be16 i ++ b)) l.

(* ---------------- type annotations ---------------- *)
(* target_info by shape; ty is the target_type byte the writer emits for the variant.  P is the
   type of code positions: a label in the tree *)
Inductive target (P : Type) :=
| TTypeParameter (ty : N) (idx : Z)                 (* u8 *)
| TSupertype (ty : N) (idx : Z)                     (* u16; Extends = 65535 *)
| TTypeParameterBound (ty : N) (p b : Z)            (* u8 u8 *)
| TEmpty (ty : N)
| TFormalParameter (ty : N) (idx : Z)               (* u8 *)
| TThrows (ty : N) (idx : Z)                        (* u16 *)
| TLocalVar (ty : N) (table : list (P * P * Z))     (* ranges (start, end), local index *)
| TCatch (ty : N) (idx : Z)                         (* u16 *)
| TOffset (ty : N) (at_ : P)
| TTypeArgument (ty : N) (at_ : P) (idx : Z).       (* u16 offset, u8 *)
Arguments TTypeParameter {P}. Arguments TSupertype {P}. Arguments TTypeParameterBound {P}. Arguments TEmpty {P}.
Arguments TFormalParameter {P}. Arguments TThrows {P}. Arguments TLocalVar {P}. Arguments TCatch {P}.
Arguments TOffset {P}. Arguments TTypeArgument {P}.
Record type_annotation (P : Type) := { ta_target : target P; ta_path : list (Z * Z); ta_type : bytes; ta_pairs : list (bytes * elem) }.
Arguments Build_type_annotation {P}. Arguments ta_target {P}. Arguments ta_path {P}. Arguments ta_type {P}. Arguments ta_pairs {P}.

(* write_type_reference / write_type_reference_code; positions resolved by labels.try_get / try_get_range *)
Definition write_target (labs : labmap) (t : target label) : W bytes :=
  match t with
  | TTypeParameter ty i => ret (ty :: u8 i)
  | TSupertype ty i => ret (ty :: be16 i)
  | TTypeParameterBound ty p b => ret (ty :: u8 p ++ u8 b)
  | TEmpty ty => ret [ty]
  | TFormalParameter ty i => ret (ty :: u8 i)
  | TThrows ty i => ret (ty :: be16 i)
  | TLocalVar ty table =>
      c <- w_u16len (zlen table) ;;
      es <- mapW (fun e => r <- lift_out (ELabel labs [fst (fst e); snd (fst e)]) (try_get_range labs (fst (fst e), snd (fst e))) ;;
                           ret (be16 (fst r) ++ be16 (snd r) ++ be16 (snd e))) table ;;
      ret (ty :: c ++ concat es)
  | TCatch ty i => ret (ty :: be16 i)
  | TOffset ty l => p <- lift_out (ELabel labs [l]) (try_get labs l) ;; ret (ty :: be16 p)
  | TTypeArgument ty l i => p <- lift_out (ELabel labs [l]) (try_get labs l) ;; ret (ty :: be16 p ++ u8 i)
  end.
(* write_type_path: (type_path_kind, type_argument_index) pairs *)
Definition write_type_path (path : list (Z * Z)) : W bytes :=
  wslice8 (fun s => ret (u8 (fst s) ++ u8 (snd s))) path.
(* write_type_annotations_attribute / _code *)
Definition write_type_annotations (labs : labmap) (l : list (type_annotation label)) : W bytes :=
  wslice16 (fun a => t <- write_target labs (ta_target a) ;; p <- write_type_path (ta_path a) ;;
                     i <- put_utf8 (ta_type a) ;; ps <- write_pairs (ta_pairs a) ;;
                     ret (t ++ p ++ be16 i ++ ps)) l.

Definition raw_attr := (bytes * bytes)%type.    (* tree::attribute::Attribute: name, bytes *)
Definition wunknown (a : raw_attr) : W bytes := wattr_raw (fst a) (snd a).

(* the four annotation attributes, written when non-empty *)
Record annots := { an_vis : list annotation; an_invis : list annotation;
                   an_tvis : list (type_annotation label); an_tinvis : list (type_annotation label) }.
Definition w_annots (labs : labmap) (a : annots) : list (W bytes) :=
  nattr (an_vis a) (fun l => wattr s_RVAnn (write_annotations l)) ++
  nattr (an_invis a) (fun l => wattr s_RIAnn (write_annotations l)) ++
  nattr (an_tvis a) (fun l => wattr s_RVTAnn (write_type_annotations labs l)) ++
  nattr (an_tinvis a) (fun l => wattr s_RITAnn (write_type_annotations labs l)).
Definition w_signature (o : option bytes) : list (W bytes) :=
  oattr o (fun s => wattr_fix s_Signature 2 (idx16 (put_utf8 s))).

(* ---------------- fields ---------------- *)
Inductive cvalue := CVInt (v : Z) | CVFloat (b : Z) | CVLong (v : Z) | CVDouble (b : Z) | CVString (s : bytes).
Definition put_constant_value (c : cvalue) : W Z :=
  match c with
  | CVInt v => put (CInteger v) | CVFloat b => put (CFloat b) | CVLong v => put (CLong v) | CVDouble b => put (CDouble b)
  | CVString s => put_string s
  end.
Record cfield := {
  f_access : Z; f_name : bytes; f_desc : bytes;
  f_deprecated : bool; f_synthetic : bool;
  f_constant : option cvalue; f_signature : option bytes;
  f_annots : annots; f_unknown : list raw_attr }.
Definition write_field (f : cfield) : W bytes :=
  n <- put_utf8 (f_name f) ;; d <- put_utf8 (f_desc f) ;;
  a <- wattrs (battr (f_deprecated f) (wattr_fix s_Deprecated 0 (ret [])) ++
               battr (f_synthetic f) (wattr_fix s_Synthetic 0 (ret [])) ++
               oattr (f_constant f) (fun c => wattr_fix s_ConstantValue 2 (idx16 (put_constant_value c))) ++
               w_signature (f_signature f) ++
               w_annots [] (f_annots f) ++
               map wunknown (f_unknown f)) ;;
  ret (be16 (f_access f) ++ be16 n ++ be16 d ++ a).

(* ---------------- record components ---------------- *)
Record crecord := { rc_name : bytes; rc_desc : bytes; rc_signature : option bytes; rc_annots : annots; rc_unknown : list raw_attr }.
Definition write_record_component (r : crecord) : W bytes :=
  n <- put_utf8 (rc_name r) ;; d <- put_utf8 (rc_desc r) ;;
  a <- wattrs (w_signature (rc_signature r) ++ w_annots [] (rc_annots r) ++ map wunknown (rc_unknown r)) ;;
  ret (be16 n ++ be16 d ++ a).

(* ---------------- module ---------------- *)
Record mrequires := { rq_name : bytes; rq_flags : Z; rq_version : option bytes }.
Record mexports := { ex_name : bytes; ex_flags : Z; ex_to : list bytes }.          (* exports and opens *)
Record mprovides := { pv_name : bytes; pv_with : list bytes }.
Record cmodule := { m_name : bytes; m_flags : Z; m_version : option bytes;
                    m_requires : list mrequires; m_exports : list mexports; m_opens : list mexports;
                    m_uses : list bytes; m_provides : list mprovides }.
Definition write_module (m : cmodule) : W bytes :=
  n <- put_module (m_name m) ;; v <- put_opt put_utf8 (m_version m) ;;
  rq <- wslice16 (fun r => a <- put_module (rq_name r) ;; b <- put_opt put_utf8 (rq_version r) ;;
                           ret (be16 a ++ be16 (rq_flags r) ++ be16 b)) (m_requires m) ;;
  ex <- wslice16 (fun e => a <- put_package (ex_name e) ;; t <- wslice16 (fun x => idx16 (put_module x)) (ex_to e) ;;
                           ret (be16 a ++ be16 (ex_flags e) ++ t)) (m_exports m) ;;
  op <- wslice16 (fun e => a <- put_package (ex_name e) ;; t <- wslice16 (fun x => idx16 (put_module x)) (ex_to e) ;;
                           ret (be16 a ++ be16 (ex_flags e) ++ t)) (m_opens m) ;;
  us <- wslice16 (fun x => idx16 (put_class x)) (m_uses m) ;;
  pv <- wslice16 (fun p => a <- put_class (pv_name p) ;; t <- wslice16 (fun x => idx16 (put_class x)) (pv_with p) ;;
                           ret (be16 a ++ t)) (m_provides m) ;;
  ret (be16 n ++ be16 (m_flags m) ++ be16 v ++ rq ++ ex ++ op ++ us ++ pv).

(* ---------------- code ---------------- *)
(* the constant of an instruction with a u16 pool operand *)
Inductive iconst :=
| KClass (name : bytes)
| KField (r : memberref)
| KMethod (r : memberref)          (* put_method_ref, or put_method_ref_or_interface_method_ref with false *)
| KIMethod (r : memberref)         (* put_interface_method_ref, or … with true *)
| KIndy (name desc : bytes) (h : handle) (args : list loadable).
Definition put_iconst (k : iconst) : W Z :=
  match k with
  | KClass n => put_class n
  | KField r => put_fieldref r
  | KMethod r => put_methodref r
  | KIMethod r => put_imethodref r
  | KIndy n d h a => put_invoke_dynamic n d h a
  end.
Inductive cinsn :=
| IRaw (bs : bytes)
| ICp (pre : bytes) (k : iconst) (post : bytes)
| IIface (r : memberref)           (* invokeinterface: the count operand is computed from the descriptor *)
| ILdc (l : loadable)
| IBr (k : kind) (l : label)
| ITSwitch (d : label) (low high : Z) (ts : list label)
| ILSwitch (d : label) (ps : list (Z * label)).
(* `x.descriptor.as_inner().starts_with('D') || … starts_with('J')` *)
Definition is_long_or_double (l : loadable) : bool :=
  match l with
  | LLong _ | LDouble _ => true
  | LDynamic _ desc _ _ => match desc with c :: _ => (c =? 68)%N || (c =? 74)%N | [] => false end
  | _ => false
  end.
(* ---- modified UTF-8 of a string of code points, written from JVMS 4.4.7: NUL as C0 80, one / two / three bytes,
   a supplementary character as a surrogate pair of 2 x 3 bytes; an unpaired surrogate (a JavaStr can hold one) as the
   three bytes of its code unit.  Used as specification (C02_invokeinterface_count) and to check, on every whole-class
   case, the strings the harness' own encoder produced (C02/Run.v). ---- *)
Definition enc3 (c : N) : bytes := [224 + c / 4096; 128 + (c / 64) mod 64; 128 + c mod 64]%N.
Definition enc_char (c : N) : bytes :=
  if (c =? 0)%N then [192; 128]%N
  else if (c <? 128)%N then [c]
  else if (c <? 2048)%N then [192 + c / 64; 128 + c mod 64]%N
  else if (c <? 65536)%N then enc3 c
  else enc3 (55296 + (c - 65536) / 1024) ++ enc3 (56320 + (c - 65536) mod 1024).
Definition mutf8 (s : list N) : bytes := flat_map enc_char s.

(* ---- MethodDescriptorSlice::get_arguments_size (duke/src/tree/descriptor.rs) ----
   The descriptor is the modified-UTF-8 form of the JavaStr the Rust code iterates over char by char.
   `chars.next()` consumes one char: 1 byte (< 0x80), 2 bytes (0xC0..0xDF), 3 bytes (0xE0..0xEF); a
   supplementary character is ONE char of the JavaStr and a surrogate pair (2 x 3 bytes) in modified
   UTF-8.  The ASCII characters the code looks for ( ) D J [ L ; are single bytes that never occur
   inside a multi-byte sequence. *)
Definition next_char (s : bytes) : option bytes :=
  match s with
  | [] => None
  | c :: r =>
      if (c <? 128)%N then Some r
      else if (c <? 224)%N then Some (skipn 1 r)
      else match r with
           | c1 :: _ :: r' =>
               if (c =? 237)%N && (160 <=? c1)%N && (c1 <=? 175)%N then
                 match r' with
                 | d0 :: d1 :: _ :: r'' => if (d0 =? 237)%N && (176 <=? d1)%N then Some r'' else Some r'
                 | _ => Some r'
                 end
               else Some r'
           | _ => Some []
           end
  end.
(* `while chars.next_if_eq(&'[').is_some() { }` *)
Fixpoint skip_brackets (s : bytes) : bytes :=
  match s with c :: r => if (c =? 91)%N then skip_brackets r else s | [] => [] end.
(* `let mut char = chars.next()?; while char != ';' { char = chars.next()?; }` *)
Fixpoint skip_semi (s : bytes) : option bytes :=
  match s with [] => None | c :: r => if (c =? 59)%N then Some r else skip_semi r end.
(* `size.checked_add(n)` on u8 *)
Definition add_u8 (size n : Z) : res Z := if 255 <? size + n then Err else Ok (size + n).
(* the loop; every iteration consumes at least one byte: fuel = S (length s) suffices (args_loop_fuel) *)
Fixpoint args_loop (fuel : nat) (s : bytes) (size : Z) : res Z :=
  match fuel with
  | O => Err
  | S f =>
      match s with
      | [] => Err                                             (* chars.next() = None: abrupt ending *)
      | c :: r =>
          if (c =? 41)%N then Ok size                          (* ')' *)
          else if (c =? 68)%N || (c =? 74)%N then              (* 'D' | 'J' *)
            match add_u8 size 2 with Ok z => args_loop f r z | Err => Err end
          else
            match skip_brackets s with
            | [] => Err
            | c1 :: r1 =>
                match (if (c1 =? 76)%N then skip_semi r1 else next_char (c1 :: r1)) with
                | None => Err
                | Some r2 => match add_u8 size 1 with Ok z => args_loop f r2 z | Err => Err end
                end
            end
      end
  end.
Definition args_size (desc : bytes) : res Z :=
  match desc with
  | c :: r => if (c =? 40)%N then args_loop (S (length r)) r 1 else Err
  | [] => Err
  end.

(* the pool puts of one instruction, and its layout-level entry *)
Definition lower_insn (i : cinsn) : W entry :=
  match i with
  | IRaw bs => ret (Plain bs)
  | ICp pre k post => x <- put_iconst k ;; ret (Plain (pre ++ be16 x ++ post))
  | IIface r =>
      x <- put_imethodref r ;; n <- lift_res (EArgs (mr_desc r)) (args_size (mr_desc r)) ;;
      ret (Plain (185%N :: be16 x ++ [byte_of n; 0%N]))
  | ILdc l =>
      x <- put_loadable l ;;
      ret (Plain (match ldc_choose (is_long_or_double l) x with
                  | LDC i => 18%N :: u8 i
                  | LDC_W i => 19%N :: be16 i
                  | LDC2_W i => 20%N :: be16 i
                  end))
  | IBr k l => ret (Br k l)
  | ITSwitch d low high ts => ret (TSwitch d low high ts)
  | ILSwitch d ps => ret (LSwitch d ps)
  end.

(* verification types and frames of the tree: Object carries the class name *)
Inductive cvti := CVSimple (tag : N) | CVObject (name : bytes) | CVUninit (l : label).
Inductive cframe := CFSame | CFSame1 (s : cvti) | CFChop (k : Z) | CFAppend (ls : list cvti) | CFFull (ls ss : list cvti).
Definition lower_vti (v : cvti) : W vti :=
  match v with
  | CVSimple t => ret (VSimple t)
  | CVObject n => i <- put_class n ;; ret (VObject i)
  | CVUninit l => ret (VUninit l)
  end.
Definition lower_frame (f : cframe) : W sframe :=
  match f with
  | CFSame => ret FSame
  | CFSame1 s => v <- lower_vti s ;; ret (FSame1 v)
  | CFChop k => ret (FChop k)
  | CFAppend ls => vs <- mapW lower_vti ls ;; ret (FAppend vs)
  | CFFull ls ss => a <- mapW lower_vti ls ;; b <- mapW lower_vti ss ;; ret (FFull a b)
  end.

Record cexception := { x_start : label; x_end : label; x_handler : label; x_catch : option bytes }.
Record clocalvar := { lv_start : label; lv_end : label; lv_name : bytes; lv_desc : option bytes; lv_sig : option bytes; lv_index : Z }.
Record ccode := {
  c_max : option (Z * Z);
  c_insns : list (option label * option cframe * cinsn);
  c_last : option label;
  c_exceptions : list cexception;
  c_lines : option (list (label * Z));
  c_locals : option (list clocalvar);
  c_tvis : list (type_annotation label); c_tinvis : list (type_annotation label);
  c_unknown : list raw_attr }.

Definition opt_count {A B} (f : A -> option B) (l : list A) : Z :=
  zlen (filter (fun x => match f x with Some _ => true | None => false end) l).

(* one local variable (type) table entry: the range, then the puts *)
Definition w_lv (labs : labmap) (v : clocalvar) (d : bytes) : W bytes :=
  r <- lift_out (ELabel labs [lv_start v; lv_end v]) (try_get_range labs (lv_start v, lv_end v)) ;;
  n <- put_utf8 (lv_name v) ;; x <- put_utf8 d ;;
  ret (be16 (fst r) ++ be16 (snd r) ++ be16 n ++ be16 x ++ be16 (lv_index v)).

(* the StackMapTable body: the frames in instruction order, a class put where an Object type is written *)
Fixpoint w_frames (labs : labmap) (prev : option Z) (frs : list (Z * cframe)) : W (list bytes) :=
  match frs with
  | [] => ret []
  | (off, f) :: r =>
      d <- lift_out (EFrameOffset (match prev with Some p => p | None => 0 end) off) (delta_of prev off) ;;
      sf <- lower_frame f ;;
      b <- lift_out (EFrame labs sf) (emit_frame labs d sf) ;;
      rest <- w_frames labs (Some off) r ;;
      ret (b :: rest)
  end.
Fixpoint cframes_at (pos : list Z) (is : list (option label * option cframe * cinsn)) : list (Z * cframe) :=
  match pos, is with
  | p :: pos', (_, Some f, _) :: is' => (p, f) :: cframes_at pos' is'
  | _ :: pos', (_, None, _) :: is' => cframes_at pos' is'
  | _, _ => []
  end.

(* write_code.  Also returns the code array, the label map and the positions of the instructions in the
   final attempt (for the statement of the theorems). *)
Definition write_code_attr (c : ccode) : W (bytes * (bytes * labmap * list Z)) :=
  match c_max c with
  | None => werr ENoMax
  | Some (max_stack, max_locals) =>
      es <- mapW (fun i => e <- lower_insn (snd i) ;; ret (fst (fst i), e)) (c_insns c) ;;
      match wc_loop (S (length es)) [] es (c_last c) with
      | None => werr EFuel                                     (* excluded by C02_write_terminates *)
      | Some ERR => werr (ECode es (c_last c))
      | Some PANIC => fun _ => WPANIC
      | Some (OK (w, labs, Wd)) =>
          exc <- wslice16 (fun x =>
                   t <- lift_out (ELabel labs [x_start x; x_end x; x_handler x]) (try_get3 labs (x_start x, x_end x, x_handler x)) ;;
                   ct <- put_opt put_class (x_catch x) ;;
                   ret (be16 (fst (fst t)) ++ be16 (snd (fst t)) ++ be16 (snd t) ++ be16 ct)) (c_exceptions c) ;;
          let frs := cframes_at (run_pos Wd 0%N init es) (c_insns c) in
          attrs <- wattrs (
            nattr frs (fun frs => wattr s_StackMapTable (
                         n <- w_u16len (zlen frs) ;; fb <- w_frames labs None frs ;; ret (n ++ concat fb))) ++
            oattr (c_lines c) (fun l => wattr s_LineNumberTable (
                         wslice16 (fun e => p <- lift_out (ELabel labs [fst e]) (try_get labs (fst e)) ;; ret (be16 p ++ be16 (snd e))) l)) ++
            match c_locals c with
            | None => []
            | Some lvs =>
                (if 0 <? opt_count lv_desc lvs then
                   [wattr s_LocalVariableTable (
                      n <- w_u16len (opt_count lv_desc lvs) ;;
                      es <- mapW (fun v => match lv_desc v with Some d => w_lv labs v d | None => ret [] end) lvs ;;
                      ret (n ++ concat es))] else []) ++
                (if 0 <? opt_count lv_sig lvs then
                   [wattr s_LocalVariableTypeTable (
                      n <- w_u16len (opt_count lv_sig lvs) ;;
                      es <- mapW (fun v => match lv_sig v with Some d => w_lv labs v d | None => ret [] end) lvs ;;
                      ret (n ++ concat es))] else [])
            end ++
            nattr (c_tvis c) (fun l => wattr s_RVTAnn (write_type_annotations labs l)) ++
            nattr (c_tinvis c) (fun l => wattr s_RITAnn (write_type_annotations labs l)) ++
            map wunknown (c_unknown c)) ;;
          (* code_length was checked by the loop (0 < length <= 65535) *)
          ret (be16 max_stack ++ be16 max_locals ++ frame_code w ++ exc ++ attrs, (w, labs, run_pos Wd 0%N init es))
      end
  end.

(* ---------------- methods ---------------- *)
Record cmethod := {
  md_access : Z; md_name : bytes; md_desc : bytes;
  md_deprecated : bool; md_synthetic : bool;
  md_code : option ccode;
  md_exceptions : option (list bytes);
  md_signature : option bytes;
  md_annots : annots;
  md_default : option elem;
  md_parameters : option (list (option bytes * Z));
  md_unknown : list raw_attr }.
(* the Code attribute's code array and label map, for the method that has one *)
Definition code_aux := option (bytes * labmap * list Z).
Definition write_method (m : cmethod) : W (bytes * code_aux) :=
  n <- put_utf8 (md_name m) ;; d <- put_utf8 (md_desc m) ;;
  dep <- seqW (battr (md_deprecated m) (wattr_fix s_Deprecated 0 (ret [])) ++
               battr (md_synthetic m) (wattr_fix s_Synthetic 0 (ret []))) ;;
  code <- match md_code m with
          | None => ret ([], None)
          | Some c =>
              (* write_attribute(.., CODE, |w, pool| write_code(..)) *)
              r <- write_code_attr c ;; i <- put_utf8 s_Code ;; a <- lift_res (ELen32 (zlen (fst r))) (write_attribute i (fst r)) ;;
              ret ([a], Some (snd r))
          end ;;
  rest <- seqW (oattr (md_exceptions m) (fun l => wattr s_Exceptions (wslice16 (fun x => idx16 (put_class x)) l)) ++
                w_signature (md_signature m) ++
                w_annots [] (md_annots m) ++
                oattr (md_default m) (fun e => wattr s_AnnotationDefault (write_elem e)) ++
                oattr (md_parameters m) (fun l => wattr s_MethodParameters (
                        wslice8 (fun p => i <- put_opt put_utf8 (fst p) ;; ret (be16 i ++ be16 (snd p))) l)) ++
                map wunknown (md_unknown m)) ;;
  let all := dep ++ fst code ++ rest in
  c <- w_u16len (zlen all) ;;
  ret (be16 (md_access m) ++ be16 n ++ be16 d ++ c ++ concat all, snd code).

(* ---------------- the class ---------------- *)
Record cinner := { ic_inner : bytes; ic_outer : option bytes; ic_name : option bytes; ic_flags : Z }.
Record cclass := {
  k_minor : Z; k_major : Z; k_access : Z;
  k_name : bytes; k_super : option bytes; k_interfaces : list bytes;
  k_fields : list cfield; k_methods : list cmethod;
  k_deprecated : bool; k_synthetic : bool;
  k_inner : option (list cinner);
  k_enclosing : option (bytes * option (bytes * bytes));
  k_signature : option bytes;
  k_source_file : option bytes;
  k_source_debug : option bytes;
  k_annots : annots;
  k_module : option cmodule;
  k_module_packages : option (list bytes);
  k_module_main : option bytes;
  k_nest_host : option bytes;
  k_nest_members : option (list bytes);
  k_permitted : option (list bytes);
  k_record : list crecord;
  k_unknown : list raw_attr }.

(* the BootstrapMethods attribute: written when put_bootstrap_method was called at least once; the
   handles are put now (this can add pool entries but no table entries) *)
Definition w_bootstrap : list (W bytes) :=
  [fun s => match w_bsm s with
            | [] => WOK ([], s)
            | tbl => wattr s_BootstrapMethods (
                       n <- w_u16len (zlen tbl) ;;
                       es <- mapW (fun e => h <- put_handle (fst e) ;; c <- w_u16len (zlen (snd e)) ;;
                                            ret (be16 h ++ c ++ flat_map be16 (snd e))) tbl ;;
                       ret (n ++ concat es)) s
            end].
(* PoolWrite::write: count, then the entries in insertion order; a Utf8 longer than 65535 bytes is an error *)
Definition pool_bytes (p : pool) : res bytes :=
  let es := frev (p_inner p) in
  if existsb (fun e => match pe_key e with 1%N :: r => 65537 <? zlen r | _ => false end) es then Err
  else Ok (be16 (p_count p) ++ flat_map pe_key es).

Definition MAGIC : bytes := [202; 254; 186; 190]%N.

Record class_aux := { a_codes : list code_aux; a_bsm : list bsment; a_pool : pool }.

Definition write_class_aux (t : cclass) : wout (bytes * class_aux) :=
  let body : W (bytes * list code_aux * list bsment) :=
    this <- put_class (k_name t) ;;
    super <- put_opt put_class (k_super t) ;;
    ifs <- wslice16 (fun x => idx16 (put_class x)) (k_interfaces t) ;;
    fields <- wslice16 write_field (k_fields t) ;;
    nm <- w_u16len (zlen (k_methods t)) ;;
    methods <- mapW write_method (k_methods t) ;;
    pre <- seqW (
      battr (k_deprecated t) (wattr_fix s_Deprecated 0 (ret [])) ++
      battr (k_synthetic t) (wattr_fix s_Synthetic 0 (ret [])) ++
      oattr (k_inner t) (fun l => wattr s_InnerClasses (
              wslice16 (fun ic => a <- put_class (ic_inner ic) ;; b <- put_opt put_class (ic_outer ic) ;;
                                  c <- put_opt put_utf8 (ic_name ic) ;;
                                  ret (be16 a ++ be16 b ++ be16 c ++ be16 (ic_flags ic))) l)) ++
      oattr (k_enclosing t) (fun e => wattr_fix s_EnclosingMethod 4 (
              a <- put_class (fst e) ;; b <- put_opt (fun nd => put_nat (fst nd) (snd nd)) (snd e) ;; ret (be16 a ++ be16 b))) ++
      w_signature (k_signature t) ++
      oattr (k_source_file t) (fun s => wattr_fix s_SourceFile 2 (idx16 (put_utf8 s))) ++
      oattr (k_source_debug t) (fun s => wattr_raw s_SourceDebugExtension s) ++
      w_annots [] (k_annots t) ++
      oattr (k_module t) (fun m => wattr s_Module (write_module m)) ++
      oattr (k_module_packages t) (fun l => wattr s_ModulePackages (wslice16 (fun x => idx16 (put_package x)) l)) ++
      oattr (k_module_main t) (fun c => wattr_fix s_ModuleMainClass 2 (idx16 (put_class c))) ++
      oattr (k_nest_host t) (fun c => wattr_fix s_NestHost 2 (idx16 (put_class c))) ++
      oattr (k_nest_members t) (fun l => wattr s_NestMembers (wslice16 (fun x => idx16 (put_class x)) l)) ++
      oattr (k_permitted t) (fun l => wattr s_PermittedSubclasses (wslice16 (fun x => idx16 (put_class x)) l)) ++
      nattr (k_record t) (fun l => wattr s_Record (wslice16 write_record_component l))) ;;
    tbl <- (fun s => WOK (w_bsm s, s)) ;;         (* pool.bootstrap_methods.take() *)
    bsm <- seqW w_bootstrap ;;
    unk <- mapW wunknown (k_unknown t) ;;
    let bsm' := filter (fun b => negb (match b with [] => true | _ => false end)) bsm in
    let all := pre ++ bsm' ++ unk in
    c <- w_u16len (zlen all) ;;
    ret (be16 (k_access t) ++ be16 this ++ be16 super ++ ifs ++ fields ++ nm ++ concat (map fst methods) ++ c ++ concat all,
         map snd methods, tbl) in
  match body wst_new with
  | WOK ((rest, codes, tbl), s) =>
      match pool_bytes (w_pool s) with
      | Ok pb => WOK (MAGIC ++ be16 (k_minor t) ++ be16 (k_major t) ++ pb ++ rest,
                      {| a_codes := codes; a_bsm := tbl; a_pool := w_pool s |})
      | Err => WERR (EUtf8 (w_pool s))
      end
  | WERR c => WERR c
  | WPANIC => WPANIC
  end.
(* duke::write_class as the harness observes it: bytes, an error, or a panic *)
Definition write_class (t : cclass) : out bytes :=
  match write_class_aux t with WOK (bs, _) => OK bs | WERR _ => ERR | WPANIC => PANIC end.
