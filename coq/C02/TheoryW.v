(* C02 — a closed form of the final wide set for method bodies without switches.
   The loop of write_code ends with a set W of instruction indices.  For a body without tableswitch / lookupswitch
   (no padding, so the size of an instruction does not depend on its position) every distance between two instructions
   grows when the wide set grows.  Hence an index that made an attempt start over (an unresolved narrow reference that does
   not fit 16 bits under the layout of W) does not fit under any larger set that leaves it narrow: every set C on which an
   attempt succeeds and that contains W contains that index.  So the final W is the LEAST set on which an attempt
   succeeds: attempt W = ADone, and W is included in every C with attempt C = ADone.
   (With switches the layout is not monotone: padding can shrink when W grows.) *)
From FB Require Import C02.Model C02.Encode C02.Theory1 C02.Theory2 C02.Theory3.
Local Open Scope Z_scope.

Definition noswitch (e : entry) : Prop := match e with TSwitch _ _ _ _ | LSwitch _ _ => False | _ => True end.
Definition switch_free (b : body) : Prop := Forall (fun le => noswitch (snd le)) b.
Definition wsub (W C : list N) : Prop := forall i, memN i W = true -> memN i C = true.

(* two layouts side by side (W: the smaller set): the same labels are bound, and the distance from the current position
   back to every bound label is no smaller under C *)
Definition linv (pW : Z) (labsW : labmap) (pC : Z) (labsC : labmap) : Prop :=
  forall l, match lget labsW l, lget labsC l with
            | Some tW, Some tC => 0 <= pW - tW <= pC - tC
            | None, None => True
            | _, _ => False
            end.
(* a pending reference written at oW / oC and the label l it waits for *)
Definition pinv (oW oC : Z) (labsW labsC : labmap) (l : label) : Prop :=
  match lget labsW l, lget labsC l with
  | Some tW, Some tC => 0 <= tW - oW <= tC - oC
  | None, None => True
  | _, _ => False
  end.

Lemma lget_bind lb p labs l :
  lget (bind_lab lb p labs) l = match lb with Some k => if N.eqb k l then Some p else lget labs l | None => lget labs l end.
Proof. destruct lb; reflexivity. Qed.

Lemma linv_bind pW lW pC lC lb : linv pW lW pC lC -> linv pW (bind_lab lb pW lW) pC (bind_lab lb pC lC).
Proof. intros H l. rewrite !lget_bind. destruct lb as [k|]; [|apply H]. destruct (N.eqb k l); [lia|apply H]. Qed.
Lemma linv_shift pW lW pC lC a c : linv pW lW pC lC -> 0 <= a <= c -> linv (pW + a) lW (pC + c) lC.
Proof. intros H Hac l. specialize (H l). destruct (lget lW l), (lget lC l); try exact H. lia. Qed.
Lemma pinv_bind oW oC pW pC lW lC lb l :
  0 <= pW - oW <= pC - oC -> pinv oW oC lW lC l -> pinv oW oC (bind_lab lb pW lW) (bind_lab lb pC lC) l.
Proof. intros Hd H. unfold pinv. rewrite !lget_bind. destruct lb as [k|]; [|apply H]. destruct (N.eqb k l); [lia|apply H]. Qed.

Lemma fits16_false_back d : 0 <= d -> fits16 (- d) = false -> 32768 < d.
Proof. intros H0 H. unfold fits16 in H. apply andb_false_iff in H as [H|H]; [apply Z.leb_gt in H|apply Z.leb_gt in H]; lia. Qed.
Lemma wide_mono W C pW lW pC lC i e :
  wsub W C -> linv pW lW pC lC -> is_wide W lW pW i e = true -> is_wide C lC pC i e = true.
Proof.
  intros Hs Hi. destruct e as [bs|k l|d lo hi ts|d ps]; cbn [is_wide]; try discriminate.
  specialize (Hi l). destruct (lget lW l) as [tW|], (lget lC l) as [tC|]; try contradiction.
  - intros H. apply negb_true_iff in H. apply negb_true_iff.
    assert (H1 : 32768 < pW - tW).
    { apply fits16_false_back; [lia|]. replace (- (pW - tW)) with (tW - pW) by lia. exact H. }
    unfold fits16. apply andb_false_iff. left. apply Z.leb_gt. lia.
  - apply Hs.
Qed.
Lemma esize_mono cW cC pW pC e : noswitch e -> (cW = true -> cC = true) -> 0 <= esize cW pW e <= esize cC pC e.
Proof.
  intros Hn H. destruct e as [bs|[op iv|op wop] l|d lo hi ts|d ps]; cbn [esize noswitch] in *; try contradiction.
  - pose proof (zlen_nonneg bs). lia.
  - destruct cW, cC; try lia; specialize (H eq_refl); discriminate.
  - destruct cW, cC; try lia; specialize (H eq_refl); discriminate.
Qed.

Lemma sim_run W C : wsub W C -> forall b i pW lW pC lC, switch_free b -> linv pW lW pC lC ->
  linv (pW + isize (items_run W i pW lW b)) (labs_run W i pW lW b) (pC + isize (items_run C i pC lC b)) (labs_run C i pC lC b)
  /\ 0 <= isize (items_run W i pW lW b) <= isize (items_run C i pC lC b).
Proof.
  intros Hs. induction b as [|[lb e] r IH]; intros i pW lW pC lC Hf Hi; cbn [items_run labs_run isize].
  - rewrite !Z.add_0_r. split; [exact Hi|lia].
  - inversion Hf as [|? ? He Hr]; subst. cbn [snd] in He.
    pose proof (linv_bind _ _ _ _ lb Hi) as Hi1.
    pose proof (esize_mono _ _ pW pC e He (wide_mono W C pW _ pC _ i e Hs Hi1)) as Hsz.
    rewrite !isize_app, !isize_sym_items.
    destruct (IH (N.succ i) _ _ _ _ Hr (linv_shift _ _ _ _ _ _ Hi1 Hsz)) as [A B].
    split; [|lia]. rewrite !Z.add_assoc. exact A.
Qed.

Lemma sim_pending W C : wsub W C -> forall b i pW lW pC lC oW oC l, switch_free b -> linv pW lW pC lC ->
  0 <= pW - oW <= pC - oC -> pinv oW oC lW lC l ->
  pinv oW oC (labs_run W i pW lW b) (labs_run C i pC lC b) l /\
  0 <= (pW + isize (items_run W i pW lW b)) - oW <= (pC + isize (items_run C i pC lC b)) - oC.
Proof.
  intros Hs. induction b as [|[lb e] r IH]; intros i pW lW pC lC oW oC l Hf Hi Hd Hp; cbn [items_run labs_run isize].
  - rewrite !Z.add_0_r. split; [exact Hp|lia].
  - inversion Hf as [|? ? He Hr]; subst. cbn [snd] in He.
    pose proof (linv_bind _ _ _ _ lb Hi) as Hi1.
    pose proof (esize_mono _ _ pW pC e He (wide_mono W C pW _ pC _ i e Hs Hi1)) as Hsz.
    rewrite !isize_app, !isize_sym_items, !Z.add_assoc.
    apply IH; [exact Hr|apply linv_shift; assumption|lia|apply pinv_bind; assumption].
Qed.

Lemma mkref_narrow labs o i l o' i' l' w : mkref labs w o i l = IRef false o' i' l' -> w = false /\ lget labs l = None /\ o' = o /\ i' = i /\ l' = l.
Proof. unfold mkref. destruct (lget labs l); [discriminate|]. intros [= -> -> -> ->]. repeat split; reflexivity. Qed.

Lemma sim_items W C : wsub W C -> forall b i pW lW pC lC, switch_free b -> linv pW lW pC lC ->
  forall oW idx l, In (IRef false oW idx l) (items_run W i pW lW b) -> memN idx C = false ->
  exists oC, In (IRef false oC idx l) (items_run C i pC lC b) /\
             pinv oW oC (labs_run W i pW lW b) (labs_run C i pC lC b) l /\
             0 <= (pW + isize (items_run W i pW lW b)) - oW <= (pC + isize (items_run C i pC lC b)) - oC.
Proof.
  intros Hs. induction b as [|[lb e] r IH]; intros i pW lW pC lC Hf Hi oW idx l Hin Hc; cbn [items_run labs_run isize] in *; [contradiction|].
  inversion Hf as [|? ? He Hr]; subst. cbn [snd] in He.
  pose proof (linv_bind _ _ _ _ lb Hi) as Hi1.
  set (lW1 := bind_lab lb pW lW) in *. set (lC1 := bind_lab lb pC lC) in *.
  pose proof (esize_mono _ _ pW pC e He (wide_mono W C pW lW1 pC lC1 i e Hs Hi1)) as Hsz.
  rewrite !isize_app, !isize_sym_items, !Z.add_assoc.
  apply in_app_or in Hin as [Hin|Hin].
  - (* the reference is written by this instruction: it is narrow and unresolved under W, hence under C *)
    assert (Hshape : exists k l0, e = Br k l0 /\ is_wide W lW1 pW i e = false /\ lget lW1 l0 = None /\ oW = pW /\ idx = i /\ l = l0).
    { destruct e as [bs|[op iv|op wop] l0|d lo hi ts|d ps]; cbn [noswitch] in He; try contradiction; cbn [sym_items] in Hin.
      - destruct Hin as [H|[]]. discriminate.
      - destruct (is_wide W lW1 pW i (Br (KCond op iv) l0)) eqn:Ew; cbn [In] in Hin; destruct Hin as [H|[H|[]]]; try discriminate.
        + apply mkref_narrow in H as (H & _). discriminate.
        + apply mkref_narrow in H as (_ & Hn & -> & -> & ->). exists (KCond op iv), l0. repeat split; auto.
      - destruct (is_wide W lW1 pW i (Br (KJump op wop) l0)) eqn:Ew; cbn [In] in Hin; destruct Hin as [H|[H|[]]]; try discriminate.
        + apply mkref_narrow in H as (H & _). discriminate.
        + apply mkref_narrow in H as (_ & Hn & -> & -> & ->). exists (KJump op wop), l0. repeat split; auto. }
    destruct Hshape as (k & l0 & -> & Ew & Hn & -> & -> & ->).
    assert (HnC : lget lC1 l0 = None).
    { specialize (Hi1 l0). rewrite Hn in Hi1. destruct (lget lC1 l0); [contradiction|reflexivity]. }
    assert (EwC : is_wide C lC1 pC i (Br k l0) = false) by (cbn [is_wide]; rewrite HnC; exact Hc).
    rewrite Ew, EwC in *.
    assert (E3 : esize false pW (Br k l0) = 3 /\ esize false pC (Br k l0) = 3) by (destruct k; split; reflexivity).
    destruct E3 as [E3 E3']. rewrite E3, E3' in *.
    exists pC. split.
    { apply in_or_app. left. destruct k; cbn [sym_items]; right; left; unfold mkref; rewrite HnC; reflexivity. }
    apply (sim_pending W C Hs r (N.succ i) (pW + 3) lW1 (pC + 3) lC1 pW pC l0 Hr); [apply linv_shift; [exact Hi1|lia]|lia|].
    unfold pinv. rewrite Hn, HnC. exact I.
  - destruct (IH (N.succ i) _ _ _ _ Hr (linv_shift _ _ _ _ _ _ Hi1 Hsz) oW idx l Hin Hc) as (oC & A & B & D).
    exists oC. split; [apply in_or_app; right; exact A|]. split; assumption.
Qed.

(* ---- resolve ---- *)
Lemma rmap_restart f r i : rmap f r = RRestart i -> r = RRestart i.
Proof. destruct r; cbn [rmap]; try discriminate. intros H. exact H. Qed.
Lemma rmap_done f r w : rmap f r = RDone w -> exists w0, r = RDone w0.
Proof. destruct r; cbn [rmap]; try discriminate. intros _. eexists. reflexivity. Qed.
Lemma resolve_restart_in labs : forall its i, resolve labs its = RRestart i ->
  exists o l t, In (IRef false o i l) its /\ lget labs l = Some t /\ fits16 (t - o) = false.
Proof.
  induction its as [|[bs|w o j l] r IH]; intros i; cbn [resolve]; [discriminate| |].
  - intros H. apply rmap_restart in H. destruct (IH _ H) as (o & l & t & A & B & D). exists o, l, t. split; [right; exact A|split; assumption].
  - destruct (lget labs l) as [t|] eqn:El; [|discriminate]. destruct w.
    + intros H. apply rmap_restart in H. destruct (IH _ H) as (o' & l' & t' & A & B & D). exists o', l', t'. split; [right; exact A|split; assumption].
    + destruct (fits16 (t - o)) eqn:Ef.
      * intros H. apply rmap_restart in H. destruct (IH _ H) as (o' & l' & t' & A & B & D). exists o', l', t'. split; [right; exact A|split; assumption].
      * intros [= <-]. exists o, l, t. split; [left; reflexivity|split; assumption].
Qed.
Lemma resolve_done_all labs : forall its w, resolve labs its = RDone w ->
  forall o i l, In (IRef false o i l) its -> exists t, lget labs l = Some t /\ fits16 (t - o) = true.
Proof.
  induction its as [|[bs|w o j l] r IH]; intros w0; cbn [resolve]; intros H o' i' l' Hin; [contradiction| |].
  - destruct Hin as [Hin|Hin]; [discriminate|]. apply rmap_done in H as (w1 & H). exact (IH _ H _ _ _ Hin).
  - destruct (lget labs l) as [t|] eqn:El; [|discriminate]. destruct w.
    + destruct Hin as [Hin|Hin]; [discriminate|]. apply rmap_done in H as (w1 & H). exact (IH _ H _ _ _ Hin).
    + destruct (fits16 (t - o)) eqn:Ef; [|discriminate]. destruct Hin as [Hin|Hin].
      * injection Hin as <- <- <-. exists t. split; assumption.
      * apply rmap_done in H as (w1 & H). exact (IH _ H _ _ _ Hin).
Qed.

Lemma attempt_restart_items W b last i :
  attempt W b last = ARestart i ->
  resolve (finish_map last (isize (items_run W 0%N 0 [] b)) (labs_run W 0%N 0 [] b)) (items_run W 0%N 0 [] b) = RRestart i.
Proof.
  unfold attempt. destruct (run W 0%N init b) as [s| |] eqn:E; try discriminate.
  pose proof (run_extends _ _ _ _ _ E) as (R1 & R2 & R3 & R4).
  cbn [init s_w s_unw s_len s_labs rev app] in R1, R2, R3, R4.
  unfold frev. rewrite <- !rev_alt. rewrite R1, R2. rewrite patch_items0. unfold finish_labels. rewrite R3, R4. cbn [Z.add].
  unfold finish_map.
  destruct (resolve _ (items_run W 0%N 0 [] b)) as [bs|j|] eqn:Er; try discriminate.
  - destruct ((_ =? 0) || _); discriminate.
  - intros [= <-]. reflexivity.
Qed.

Lemma linv_nil : linv 0 [] 0 []. Proof. intros l. exact I. Qed.

(* an index that makes the attempt with W start over is in every larger set on which an attempt succeeds *)
Theorem restart_blocks W C b last i :
  switch_free b -> wsub W C -> attempt W b last = ARestart i -> memN i C = false ->
  forall wc labsc, attempt C b last <> ADone wc labsc.
Proof.
  intros Hf Hs Hr Hc wc labsc Hd.
  apply attempt_restart_items in Hr. apply resolve_restart_in in Hr as (oW & l & tW & Hin & Hl & Hfit).
  destruct (sim_items W C Hs b 0%N 0 [] 0 [] Hf linv_nil oW i l Hin Hc) as (oC & HinC & Hp & Hlen).
  destruct (sim_run W C Hs b 0%N 0 [] 0 [] Hf linv_nil) as [_ Hsz].
  apply attempt_done in Hd. cbv zeta in Hd. destruct Hd as (Hres & -> & Hsize & _).
  destruct (resolve_done_all _ _ _ Hres _ _ _ HinC) as (tC & HlC & HfitC).
  set (lenW := isize (items_run W 0%N 0 [] b)) in *. set (lenC := isize (items_run C 0%N 0 [] b)) in *.
  rewrite !Z.add_0_l in Hlen.
  assert (Hd : 0 <= tW - oW <= tC - oC).
  { unfold finish_map in Hl, HlC. destruct last as [ll|]; cbn [lget] in Hl, HlC.
    - destruct (N.eqb ll l).
      + injection Hl as <-. injection HlC as <-. rewrite !Z.mod_small by lia. lia.
      + unfold pinv in Hp. rewrite Hl, HlC in Hp. exact Hp.
    - unfold pinv in Hp. rewrite Hl, HlC in Hp. exact Hp. }
  unfold fits16 in Hfit, HfitC. apply andb_true_iff in HfitC as [_ H2]. apply Z.leb_le in H2.
  apply andb_false_iff in Hfit as [H|H]; apply Z.leb_gt in H; lia.
Qed.

Lemma wsub_cons i W C : wsub W C -> memN i C = true -> wsub (i :: W) C.
Proof.
  intros Hs Hi j Hj. unfold memN in Hj. cbn [existsb] in Hj. apply orb_true_iff in Hj as [Hj|Hj].
  - apply N.eqb_eq in Hj. subst. exact Hi.
  - apply Hs, Hj.
Qed.
Theorem final_wide_least_gen b last : switch_free b -> forall fuel W w labs Wf C wc labsc,
  wsub W C -> attempt C b last = ADone wc labsc -> wc_loop fuel W b last = Some (OK (w, labs, Wf)) -> wsub Wf C.
Proof.
  intros Hf. induction fuel as [|f IH]; intros W w labs Wf C wc labsc Hs Hd; cbn [wc_loop]; [discriminate|].
  destruct (attempt W b last) as [w0 labs0|i| |] eqn:E; try discriminate.
  - intros [= <- <- <-]. exact Hs.
  - intros H. refine (IH _ _ _ _ _ _ _ _ Hd H). apply wsub_cons; [exact Hs|].
    destruct (memN i C) eqn:Ec; [reflexivity|]. exfalso. exact (restart_blocks W C b last i Hf Hs E Ec wc labsc Hd).
Qed.

(* the closed form: the wide set the loop ends with is the least set on which an attempt succeeds *)
Theorem final_wide_least b last w labs W :
  switch_free b -> wc_loop (S (length b)) [] b last = Some (OK (w, labs, W)) ->
  attempt W b last = ADone w labs /\
  forall C wc labsc, attempt C b last = ADone wc labsc -> forall i, In i W -> In i C.
Proof.
  intros Hf Hw. split.
  - destruct (wc_loop_W b last _ [] w labs W (NoDup_nil _) (fun i (H : In i []) => match H with end) Hw) as (_ & _ & _ & H). exact H.
  - intros C wc labsc Hd i Hi. apply memN_In. apply (final_wide_least_gen b last Hf (S (length b)) [] w labs W C wc labsc); [intros j Hj; discriminate|exact Hd|exact Hw|].
    apply memN_In. exact Hi.
Qed.

(* with a switch the layout is not monotone: widening the goto moves the tableswitch from offset 3 to offset 5, its
   padding shrinks from 0 to 2 bytes... and the statement above is not claimed.  Non-vacuity of the theorem: the far
   forward conditional of C02_far_conditional_widens is switch-free and ends with W = [0]. *)
Definition ex_w : body :=
  (None, Br (KCond 153 154) 7%N) :: repeat (None, Plain [0%N]) (N.to_nat 32765) ++ [(Some 7%N, Plain [177%N])].
Theorem wide_example : switch_free ex_w /\
  match wc_loop (S (length ex_w)) [] ex_w None with Some (OK (_, _, [0%N])) => True | _ => False end.
Proof.
  split.
  - unfold ex_w, switch_free. constructor; [exact I|]. apply Forall_app. split; [apply Forall_forall; intros x Hx; apply repeat_spec in Hx; subst; exact I|repeat constructor].
  - vm_compute. exact I.
Qed.

(* with a switch there is no least set.  goto L0; L0: ifeq L1; 3 x nop; tableswitch (at offset 9: two bytes of padding);
   32743 x nop; L1: return.  The ifeq is 32768 bytes before L1: the loop ends with W = [1].  But the attempt with C = [0]
   (the goto written as goto_w although it fits) succeeds as well: the tableswitch moves to offset 11, its padding shrinks to
   nothing, and the ifeq is 32766 bytes before L1.  [1] and [0] are both minimal. *)
Definition ex_sw : body :=
  (None, Br (KJump 167 200) 1%N) :: (Some 1%N, Br (KCond 153 154) 2%N) :: repeat (None, Plain [0%N]) 3 ++
  (None, TSwitch 2%N 0 0 [2%N]) :: repeat (None, Plain [0%N]) (N.to_nat 32743) ++ [(Some 2%N, Plain [177%N])].
Definition sw_check : bool :=
  match wc_loop (S (length ex_sw)) [] ex_sw None, attempt [0%N] ex_sw None with
  | Some (OK (w, _, [1%N])), ADone w' _ => (zlen w =? 32776) && (zlen w' =? 32772)
  | _, _ => false
  end.
Theorem switch_not_least : sw_check = true.
Proof. vm_compute. reflexivity. Qed.
