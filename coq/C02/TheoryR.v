(* C02 — why the whole-class writer answers with an error.  The model names the place of every error
   (C02/Class.v [ecause]: one constructor per `?` on a checked conversion, `bail!` or missing label of the
   Rust code, carrying the values that decide it).  Here: whenever write_class_aux answers WERR c, the
   condition that belongs to c holds of the carried values (a count above its width, a pool that is full,
   a descriptor whose arguments do not fit, a label no instruction carries, a frame without class-file
   form, the code loop failing — for which C02_write_fails_cleanly lists the causes), and the causes that
   belong to a method body name a method of the tree. *)
From FB Require Import C02.Model C02.Encode C02.Theory1 C02.Theory2 C02.Theory3 C02.Theory4 C02.Theory5 C02.Theory6 C02.Theory7 C02.Theory8 C02.Frames C02.TheoryF
  C02.Class C02.Decode C02.Facts C02.TheoryC1 C02.TheoryC2 C02.TheoryC3 C02.TheoryC4 C02.TheoryC5 C02.TheoryC6 C02.TheoryC7 C02.TheoryC8 C02.TheoryC10 C02.TheoryC11 C02.TheoryB1.
Local Open Scope Z_scope.

(* ---- what each cause says ---- *)
Definition unresolved (labs : labmap) (vs : list vti) : Prop := exists l, In (VUninit l) vs /\ lget labs l = None.
Definition frame_unwritable (labs : labmap) (f : sframe) : Prop :=
  match f with
  | FSame => False
  | FSame1 s => unresolved labs [s]
  | FChop k => ~ (1 <= k <= 3)
  | FAppend ls => ~ (1 <= zlen ls <= 3) \/ unresolved labs ls
  | FFull ls ss => 65535 < zlen ls \/ 65535 < zlen ss \/ unresolved labs ls \/ unresolved labs ss
  end.
Definition ecause_holds (c : ecause) : Prop :=
  match c with
  | EPool p e => pfind (p_map p) e = None /\ 65535 < p_count p + (if pe_two e then 2 else 1)
  | EBootstrap n => 65535 < n
  | ECount16 n => 65535 < n
  | ECount8 n => 255 < n
  | ELen32 n => 4294967295 < n
  | ENoMax => True
  | EArgs d => args_size d = Err
  | ECode es last => wc_loop (S (length es)) [] es last = Some ERR
  | ELabel labs ls => exists l, In l ls /\ lget labs l = None
  | EFrameOffset prev off => off <= prev
  | EFrame labs f => frame_unwritable labs f
  | EUtf8 p => exists e r, In e (p_inner p) /\ pe_key e = 1%N :: r /\ 65537 < zlen r
  | EFuel => False
  end.
(* causes that only a method body can raise *)
Definition noncode (c : ecause) : Prop :=
  match c with ENoMax | EArgs _ | ECode _ _ | EFuel | EFrameOffset _ _ | EFrame _ _ | ELabel _ _ => False | _ => True end.

Definition wc {A} (m : W A) (P : ecause -> Prop) : Prop := forall s c, m s = WERR c -> P c.
Lemma wc_weaken {A} (m : W A) (P Q : ecause -> Prop) : wc m P -> (forall c, P c -> Q c) -> wc m Q.
Proof. intros H HPQ s c E. apply HPQ, (H s c E). Qed.
Lemma wc_ret {A} (a : A) P : wc (ret a) P. Proof. intros s c H. discriminate. Qed.
Lemma wc_bind {A B} (m : W A) (f : A -> W B) P : wc m P -> (forall a, wc (f a) P) -> wc (bind m f) P.
Proof. intros H1 H2 s c. unfold bind. destruct (m s) as [[a s1]|c0|] eqn:E; [apply H2|intros [= <-]; apply (H1 _ _ E)|discriminate]. Qed.
Lemma wc_lift_res {A} c (x : res A) (P : ecause -> Prop) : (x = Err -> P c) -> wc (lift_res c x) P.
Proof. intros H s c0. unfold lift_res. destruct x; [discriminate|]. intros [= <-]. apply H. reflexivity. Qed.
Lemma wc_lift_out {A} c (x : out A) (P : ecause -> Prop) : (x = ERR -> P c) -> wc (lift_out c x) P.
Proof. intros H s c0. unfold lift_out. destruct x; try discriminate. intros [= <-]. apply H. reflexivity. Qed.
Lemma wc_werr {A} c (P : ecause -> Prop) : P c -> wc (@werr A c) P.
Proof. intros H s c0 [= <-]. exact H. Qed.
Lemma wc_mapW {A B} (f : A -> W B) l P : (forall x, In x l -> wc (f x) P) -> wc (mapW f l) P.
Proof.
  induction l as [|x l IH]; intros H; cbn [mapW]; [apply wc_ret|].
  apply wc_bind; [apply H; left; reflexivity|]. intros y. apply wc_bind; [apply IH; intros z Hz; apply H; right; exact Hz|]. intros ys. apply wc_ret.
Qed.
Lemma wc_seqW {A} (l : list (W A)) P : (forall m, In m l -> wc m P) -> wc (seqW l) P.
Proof.
  induction l as [|x l IH]; intros H; cbn [seqW]; [apply wc_ret|].
  apply wc_bind; [apply H; left; reflexivity|]. intros y. apply wc_bind; [apply IH; intros z Hz; apply H; right; exact Hz|]. intros ys. apply wc_ret.
Qed.

(* a predicate on causes that accepts every cause of the primitives when its condition holds *)
Definition basic (P : ecause -> Prop) : Prop := forall c, ecause_holds c -> noncode c -> P c.
Lemma basic_nc : basic (fun c => ecause_holds c /\ noncode c). Proof. intros c H1 H2. split; assumption. Qed.

Lemma wc_put P c : basic P -> wc (put c) P.
Proof.
  intros HP s c0. unfold put. destruct (pool_put (w_pool s) (mk c)) as [[p' i]|] eqn:E; [discriminate|]. intros [= <-].
  apply HP; [|exact I]. cbn [ecause_holds]. unfold pool_put in E. destruct (pfind _ _); [discriminate|].
  destruct (u16max <? _) eqn:E2; [|discriminate]. apply Z.ltb_lt in E2. unfold u16max in E2. split; [reflexivity|exact E2].
Qed.
Lemma wc_put_bsm_entry P e : basic P -> wc (put_bsm_entry e) P.
Proof.
  intros HP s c0. unfold put_bsm_entry. destruct (bsm_index _ _ _); [discriminate|]. destruct (u16max <? _) eqn:E; [|discriminate].
  intros [= <-]. apply HP; [|exact I]. cbn [ecause_holds]. apply Z.ltb_lt in E. exact E.
Qed.
Lemma wc_u16len P n : basic P -> wc (w_u16len n) P.
Proof. intros HP. apply wc_lift_res. unfold write_usize_as_u16. destruct (65535 <? n) eqn:E; [|discriminate]. intros _. apply HP; [|exact I]. apply Z.ltb_lt in E. exact E. Qed.
Lemma wc_u8len P n : basic P -> wc (w_u8len n) P.
Proof. intros HP. apply wc_lift_res. unfold write_usize_as_u8. destruct (255 <? n) eqn:E; [|discriminate]. intros _. apply HP; [|exact I]. apply Z.ltb_lt in E. exact E. Qed.
Lemma wc_u32 P n : basic P -> wc (lift_res (ELen32 n) (write_usize_as_u32 n)) P.
Proof. intros HP. apply wc_lift_res. unfold write_usize_as_u32. destruct (4294967295 <? n) eqn:E; [|discriminate]. intros _. apply HP; [|exact I]. apply Z.ltb_lt in E. exact E. Qed.
Lemma wc_write_attribute P i b : basic P -> wc (lift_res (ELen32 (zlen b)) (write_attribute i b)) P.
Proof.
  intros HP. apply wc_lift_res. unfold write_attribute, write_usize_as_u32. destruct (4294967295 <? zlen b) eqn:E; [|discriminate].
  intros _. apply HP; [|exact I]. apply Z.ltb_lt in E. exact E.
Qed.

Create HintDb wc.
Ltac wc1 := match goal with
  | |- wc (ret _) _ => apply wc_ret
  | |- wc (put _) _ => apply wc_put; assumption
  | |- wc (put_bsm_entry _) _ => apply wc_put_bsm_entry; assumption
  | |- wc (w_u16len _) _ => apply wc_u16len; assumption
  | |- wc (w_u8len _) _ => apply wc_u8len; assumption
  | |- wc (lift_res (ELen32 (zlen _)) (write_attribute _ _)) _ => apply wc_write_attribute; assumption
  | |- wc (lift_res (ELen32 _) (write_usize_as_u32 _)) _ => apply wc_u32; assumption
  | |- wc (bind _ _) _ => apply wc_bind; [|intros ?]
  | |- wc (match ?o with Some _ => _ | None => _ end) _ => destruct o
  | |- wc (if ?b then _ else _) _ => destruct b
  end.
Ltac wcg := repeat wc1; auto with wc.

Lemma wc_put_utf8 P s : basic P -> wc (put_utf8 s) P. Proof. intros HP. unfold put_utf8. wcg. Qed.
#[global] Hint Resolve wc_put_utf8 : wc.
Lemma wc_put_class P n : basic P -> wc (put_class n) P. Proof. intros HP. unfold put_class. wcg. Qed.
Lemma wc_put_package P n : basic P -> wc (put_package n) P. Proof. intros HP. unfold put_package. wcg. Qed.
Lemma wc_put_module P n : basic P -> wc (put_module n) P. Proof. intros HP. unfold put_module. wcg. Qed.
Lemma wc_put_string P n : basic P -> wc (put_string n) P. Proof. intros HP. unfold put_string. wcg. Qed.
Lemma wc_put_nat P n d : basic P -> wc (put_nat n d) P. Proof. intros HP. unfold put_nat. wcg. Qed.
#[global] Hint Resolve wc_put_class wc_put_package wc_put_module wc_put_string wc_put_nat : wc.
Lemma wc_put_fieldref P r : basic P -> wc (put_fieldref r) P. Proof. intros HP. unfold put_fieldref. wcg. Qed.
Lemma wc_put_methodref P r : basic P -> wc (put_methodref r) P. Proof. intros HP. unfold put_methodref. wcg. Qed.
Lemma wc_put_imethodref P r : basic P -> wc (put_imethodref r) P. Proof. intros HP. unfold put_imethodref. wcg. Qed.
#[global] Hint Resolve wc_put_fieldref wc_put_methodref wc_put_imethodref : wc.
Lemma wc_put_handle P h : basic P -> wc (put_handle h) P. Proof. intros HP. unfold put_handle, put_method_or_imethod. wcg. Qed.
#[global] Hint Resolve wc_put_handle : wc.
Lemma wc_put_opt {A} P (f : A -> W Z) o : (forall a, wc (f a) P) -> wc (put_opt f o) P.
Proof. intros H. destruct o; cbn [put_opt]; [apply H|apply wc_ret]. Qed.
Lemma wc_put_loadable P l : basic P -> wc (put_loadable l) P.
Proof.
  intros HP. induction l as [v|v|v|v|n|s|h|d|n d h args IH] using loadable_ind2; cbn [put_loadable]; try (wcg; fail).
  rewrite go_is_mapW. wcg. apply wc_mapW. intros x Hx. rewrite Forall_forall in IH. apply IH, Hx.
Qed.
#[global] Hint Resolve wc_put_loadable : wc.
Lemma wc_put_invoke_dynamic P n d h a : basic P -> wc (put_invoke_dynamic n d h a) P.
Proof. intros HP. unfold put_invoke_dynamic. wcg. apply wc_mapW. intros; apply wc_put_loadable, HP. Qed.
#[global] Hint Resolve wc_put_invoke_dynamic : wc.
Lemma wc_put_iconst P k : basic P -> wc (put_iconst k) P. Proof. intros HP. destruct k; cbn [put_iconst]; auto with wc. Qed.
Lemma wc_put_econst P k : basic P -> wc (put_econst k) P. Proof. intros HP. destruct k; cbn [put_econst]; wcg. Qed.
Lemma wc_put_constant_value P k : basic P -> wc (put_constant_value k) P. Proof. intros HP. destruct k; cbn [put_constant_value]; wcg. Qed.
#[global] Hint Resolve wc_put_iconst wc_put_econst wc_put_constant_value : wc.

Lemma wc_wslice16 {A} P (f : A -> W bytes) l : basic P -> (forall x, In x l -> wc (f x) P) -> wc (wslice16 f l) P.
Proof. intros HP H. unfold wslice16. wcg. apply wc_mapW, H. Qed.
Lemma wc_wslice8 {A} P (f : A -> W bytes) l : basic P -> (forall x, In x l -> wc (f x) P) -> wc (wslice8 f l) P.
Proof. intros HP H. unfold wslice8. wcg. apply wc_mapW, H. Qed.
Lemma wc_wattr P name body : basic P -> wc body P -> wc (wattr name body) P.
Proof. intros HP H. unfold wattr. wcg. Qed.
Lemma wc_wattr_fix P name len body : basic P -> wc body P -> wc (wattr_fix name len body) P.
Proof. intros HP H. unfold wattr_fix. wcg. Qed.
Lemma wc_wattr_raw P name content : basic P -> wc (wattr_raw name content) P.
Proof. intros HP. unfold wattr_raw. wcg. Qed.
Lemma wc_wattrs P l : basic P -> (forall m, In m l -> wc m P) -> wc (wattrs l) P.
Proof. intros HP H. unfold wattrs. wcg. apply wc_seqW, H. Qed.
Lemma wc_idx16 P m : wc m P -> wc (idx16 m) P.
Proof. intros H. unfold idx16. wcg. Qed.
#[global] Hint Resolve wc_wattr_raw : wc.

Lemma wc_write_elem P e : basic P -> wc (write_elem e) P.
Proof.
  intros HP. induction e as [t k|a b|d|ty ps IH|vs IH] using elem_ind2; cbn [write_elem]; try (wcg; fail).
  - apply wc_bind; [auto with wc|intros a]. apply wc_bind; [wcg|intros c]. apply wc_bind; [|intros; apply wc_ret].
    clear -IH HP. induction ps as [|[n v] r IHr]; [apply wc_ret|]. inversion IH as [|? ? Hv Hr]; subst. cbn [snd] in Hv.
    apply wc_bind; [auto with wc|intros i]. apply wc_bind; [exact Hv|intros b]. apply wc_bind; [apply IHr, Hr|intros; apply wc_ret].
  - apply wc_bind; [wcg|intros c]. apply wc_bind; [|intros; apply wc_ret].
    clear -IH. induction vs as [|v r IHr]; [apply wc_ret|]. inversion IH as [|? ? Hv Hr]; subst.
    apply wc_bind; [exact Hv|intros b]. apply wc_bind; [apply IHr, Hr|intros; apply wc_ret].
Qed.
#[global] Hint Resolve wc_write_elem : wc.
Lemma wc_write_pairs P ps : basic P -> wc (write_pairs ps) P.
Proof. intros HP. unfold write_pairs. apply wc_wslice16; [exact HP|]. intros x _. wcg. Qed.
#[global] Hint Resolve wc_write_pairs : wc.
Lemma wc_write_annotations P l : basic P -> wc (write_annotations l) P.
Proof. intros HP. unfold write_annotations. apply wc_wslice16; [exact HP|]. intros x _. wcg. Qed.
#[global] Hint Resolve wc_write_annotations : wc.
Lemma wc_write_type_path P p : basic P -> wc (write_type_path p) P.
Proof. intros HP. unfold write_type_path. apply wc_wslice8; [exact HP|]. intros x _. wcg. Qed.
#[global] Hint Resolve wc_write_type_path : wc.

(* labels *)
Definition lab_ok (P : ecause -> Prop) : Prop := forall labs ls, (exists l, In l ls /\ lget labs l = None) -> P (ELabel labs ls).
Lemma wc_try_get P labs l : lab_ok P -> wc (lift_out (ELabel labs [l]) (try_get labs l)) P.
Proof. intros HL. apply wc_lift_out. unfold try_get. destruct (lget labs l) eqn:E; [discriminate|]. intros _. apply HL. exists l. split; [left; reflexivity|exact E]. Qed.
Lemma wc_try_get_range P labs a b : lab_ok P -> wc (lift_out (ELabel labs [a; b]) (try_get_range labs (a, b))) P.
Proof.
  intros HL. apply wc_lift_out. unfold try_get_range, try_get. cbn [fst snd].
  destruct (lget labs a) eqn:Ea; [|intros _; apply HL; exists a; split; [left; reflexivity|exact Ea]].
  destruct (lget labs b) eqn:Eb; [destruct (_ <? _); discriminate|]. intros _. apply HL. exists b. split; [right; left; reflexivity|exact Eb].
Qed.
Lemma wc_try_get3 P labs a b c : lab_ok P -> wc (lift_out (ELabel labs [a; b; c]) (try_get3 labs (a, b, c))) P.
Proof.
  intros HL. apply wc_lift_out. unfold try_get3, try_get. cbn [fst snd].
  destruct (lget labs a) eqn:Ea; [|intros _; apply HL; exists a; split; [left; reflexivity|exact Ea]].
  destruct (lget labs b) eqn:Eb; [|intros _; apply HL; exists b; split; [right; left; reflexivity|exact Eb]].
  destruct (lget labs c) eqn:Ec; [discriminate|]. intros _. apply HL. exists c. split; [right; right; left; reflexivity|exact Ec].
Qed.
Lemma wc_write_target P labs t : basic P -> lab_ok P -> wc (write_target labs t) P.
Proof.
  intros HP HL. destruct t; cbn [write_target]; wcg; try (apply wc_try_get, HL).
  apply wc_mapW. intros [[x1 x2] x3] _. cbn [fst snd]. apply wc_bind; [apply wc_try_get_range, HL|intros; apply wc_ret].
Qed.
Lemma wc_write_type_annotations P labs l : basic P -> lab_ok P -> wc (write_type_annotations labs l) P.
Proof. intros HP HL. unfold write_type_annotations. apply wc_wslice16; [exact HP|]. intros a _. apply wc_bind; [apply wc_write_target; assumption|intros t]. wcg. Qed.

(* without a label map (outside a method body) no label is looked up *)
Definition target_nolabel (t : target label) : Prop :=
  match t with TLocalVar _ tb => tb = [] | TOffset _ _ | TTypeArgument _ _ _ => False | _ => True end.

Lemma in_app_Q {A} (Q : A -> Prop) a b : (forall m, In m a -> Q m) -> (forall m, In m b -> Q m) -> forall m, In m (a ++ b) -> Q m.
Proof. intros H1 H2 m Hin. apply in_app_or in Hin as [H|H]; auto. Qed.
Lemma wc_battr P b m0 : wc m0 P -> forall m, In m (battr b m0) -> wc m P.
Proof. intros H m. destruct b; cbn [battr In]; [intros [<-|[]]; exact H|contradiction]. Qed.
Lemma wc_oattr {A} P (o : option A) f : (forall a, wc (f a) P) -> forall m, In m (oattr o f) -> wc m P.
Proof. intros H m. destruct o; cbn [oattr In]; [intros [<-|[]]; apply H|contradiction]. Qed.
Lemma wc_nattr {A} P (l : list A) f : (forall a, wc (f a) P) -> forall m, In m (nattr l f) -> wc m P.
Proof. intros H m. destruct l; cbn [nattr In]; [contradiction|intros [<-|[]]; apply H]. Qed.
Lemma wc_w_annots P labs a : basic P -> lab_ok P -> forall m, In m (w_annots labs a) -> wc m P.
Proof.
  intros HP HL. unfold w_annots. repeat apply in_app_Q; apply wc_nattr; intros l; apply wc_wattr; auto with wc; apply wc_write_type_annotations; assumption.
Qed.
Lemma wc_w_signature P o : basic P -> forall m, In m (w_signature o) -> wc m P.
Proof. intros HP. unfold w_signature. apply wc_oattr. intros s. apply wc_wattr_fix; [exact HP|]. apply wc_idx16. auto with wc. Qed.
Lemma wc_wunknowns P u : basic P -> forall m, In m (map wunknown u) -> wc m P.
Proof. intros HP m Hin. apply in_map_iff in Hin as (a & <- & _). unfold wunknown. auto with wc. Qed.

(* ---- the Code attribute ---- *)
Definition code_info (c0 : ccode) (c : ecause) : Prop :=
  match c with
  | ENoMax => c_max c0 = None
  | EArgs d => exists i r, In i (c_insns c0) /\ snd i = IIface r /\ d = mr_desc r
  | ECode es last => last = c_last c0 /\ map fst es = map (fun i => fst (fst i)) (c_insns c0) /\
                     Forall2 (fun i le => shape (snd i) (snd le)) (c_insns c0) es
  | _ => True
  end.
Definition Pcode (c0 : ccode) (c : ecause) : Prop := ecause_holds c /\ code_info c0 c.
Lemma basic_Pcode c0 : basic (Pcode c0).
Proof. intros c H1 H2. split; [exact H1|]. destruct c; cbn [noncode] in H2; try contradiction; exact I. Qed.
Lemma lab_ok_Pcode c0 : lab_ok (Pcode c0).
Proof. intros labs ls H. split; [exact H|exact I]. Qed.
#[global] Hint Resolve basic_Pcode lab_ok_Pcode basic_nc : wc.

Lemma wc_lower_insn c0 i : In i (c_insns c0) -> wc (lower_insn (snd i)) (Pcode c0).
Proof.
  intros Hin. pose proof (basic_Pcode c0) as HP. destruct (snd i) as [bs|pre k post|r|l|kd l|d lo hi ts|d ps] eqn:Ei; cbn [lower_insn]; wcg.
  apply wc_lift_res. intros E. split; [exact E|]. cbn [code_info]. exists i, r. auto.
Qed.
Lemma wc_lower_vti P v : basic P -> wc (lower_vti v) P. Proof. intros HP. destruct v; cbn [lower_vti]; wcg. Qed.
#[global] Hint Resolve wc_lower_vti : wc.
Lemma wc_lower_frame P f : basic P -> wc (lower_frame f) P.
Proof. intros HP. destruct f; cbn [lower_frame]; wcg; apply wc_mapW; intros; auto with wc. Qed.
#[global] Hint Resolve wc_lower_frame : wc.

Lemma emit_vti_err labs v : emit_vti labs v = ERR -> unresolved labs [v].
Proof.
  destruct v as [t|i|l]; cbn [emit_vti]; try discriminate. unfold try_get. destruct (lget labs l) eqn:E; [discriminate|].
  intros _. exists l. split; [left; reflexivity|exact E].
Qed.
Lemma emit_vtis_err labs vs : emit_vtis labs vs = ERR -> unresolved labs vs.
Proof.
  unfold emit_vtis. induction vs as [|v vs IH]; cbn [mapM_out]; [discriminate|].
  destruct (emit_vti labs v) eqn:Ev.
  - destruct (mapM_out (emit_vti labs) vs) eqn:Er; try discriminate. intros _. destruct (IH eq_refl) as (l & Hl & Hn). exists l. split; [right; exact Hl|exact Hn].
  - intros _. destruct (emit_vti_err _ _ Ev) as (l & [Hl|[]] & Hn). exists l. split; [left; exact Hl|exact Hn].
  - discriminate.
Qed.
Lemma emit_frame_err labs d f : emit_frame labs d f = ERR -> frame_unwritable labs f.
Proof.
  destruct f as [|s|k|ls|ls ss]; cbn [emit_frame frame_unwritable].
  - discriminate.
  - destruct (emit_vti labs s) eqn:E; try discriminate. intros _. apply emit_vti_err, E.
  - destruct ((1 <=? k) && (k <=? 3)) eqn:E; [discriminate|]. intros _ [H1 H2]. apply Z.leb_le in H1, H2. rewrite H1, H2 in E. discriminate.
  - destruct ((1 <=? zlen ls) && (zlen ls <=? 3)) eqn:E.
    + destruct (emit_vtis labs ls) eqn:Ev; try discriminate. intros _. right. apply emit_vtis_err, Ev.
    + intros _. left. intros [H1 H2]. apply Z.leb_le in H1, H2. rewrite H1, H2 in E. discriminate.
  - destruct (65535 <? zlen ls) eqn:E1; [intros _; left; apply Z.ltb_lt, E1|].
    destruct (emit_vtis labs ls) eqn:Ev1; try discriminate.
    + destruct (65535 <? zlen ss) eqn:E2; [intros _; right; left; apply Z.ltb_lt, E2|].
      destruct (emit_vtis labs ss) eqn:Ev2; try discriminate. intros _. right. right. right. apply emit_vtis_err, Ev2.
    + intros _. right. right. left. apply emit_vtis_err, Ev1.
Qed.
Definition frame_ok (P : ecause -> Prop) : Prop :=
  (forall labs f, frame_unwritable labs f -> P (EFrame labs f)) /\ (forall p off, off <= p -> P (EFrameOffset p off)).
Lemma frame_ok_Pcode c0 : frame_ok (Pcode c0).
Proof. split; intros; (split; [assumption|exact I]). Qed.
Lemma wc_w_frames P labs : basic P -> frame_ok P -> forall frs prev, wc (w_frames labs prev frs) P.
Proof.
  intros HP [HF HO]. induction frs as [|[off f] frs IH]; intros prev; cbn [w_frames]; [apply wc_ret|].
  apply wc_bind.
  { apply wc_lift_out. destruct prev as [p|]; cbn [delta_of]; [|discriminate]. destruct (off - p - 1 <? 0) eqn:E; [|discriminate].
    intros _. apply HO. apply Z.ltb_lt in E. lia. }
  intros d. apply wc_bind; [auto with wc|intros sf]. apply wc_bind; [|intros b; apply wc_bind; [apply IH|intros; apply wc_ret]].
  apply wc_lift_out. intros E. apply HF. exact (emit_frame_err _ _ _ E).
Qed.
Lemma wc_w_lv P labs v d : basic P -> lab_ok P -> wc (w_lv labs v d) P.
Proof. intros HP HL. unfold w_lv. apply wc_bind; [apply wc_try_get_range, HL|intros r]. wcg. Qed.

Lemma wc_code_tail c ms ml es w labs Wd : wc (code_tail c ms ml es w labs Wd) (Pcode c).
Proof.
  pose proof (basic_Pcode c) as HP. pose proof (lab_ok_Pcode c) as HL. pose proof (frame_ok_Pcode c) as HF.
  unfold code_tail. apply wc_bind.
  { apply wc_wslice16; [exact HP|]. intros x _. apply wc_bind; [apply wc_try_get3, HL|intros t]. apply wc_bind; [apply wc_put_opt; auto with wc|intros; apply wc_ret]. }
  intros exc. apply wc_bind; [|intros; apply wc_ret]. apply wc_wattrs; [exact HP|].
  repeat apply in_app_Q.
  - apply wc_nattr. intros frs. apply wc_wattr; [exact HP|]. wcg. apply wc_w_frames; assumption.
  - apply wc_oattr. intros l. apply wc_wattr; [exact HP|]. apply wc_wslice16; [exact HP|]. intros e _. apply wc_bind; [apply wc_try_get, HL|intros; apply wc_ret].
  - destruct (c_locals c) as [lvs|]; [|intros m []]. apply in_app_Q.
    + destruct (0 <? opt_count lv_desc lvs); [|intros m []]. intros m [<-|[]]. apply wc_wattr; [exact HP|]. wcg. apply wc_mapW. intros v _. destruct (lv_desc v); [apply wc_w_lv; assumption|apply wc_ret].
    + destruct (0 <? opt_count lv_sig lvs); [|intros m []]. intros m [<-|[]]. apply wc_wattr; [exact HP|]. wcg. apply wc_mapW. intros v _. destruct (lv_sig v); [apply wc_w_lv; assumption|apply wc_ret].
  - apply wc_nattr. intros l. apply wc_wattr; [exact HP|]. apply wc_write_type_annotations; assumption.
  - apply wc_nattr. intros l. apply wc_wattr; [exact HP|]. apply wc_write_type_annotations; assumption.
  - apply wc_wunknowns, HP.
Qed.

Theorem wc_write_code_attr c : wc (write_code_attr c) (Pcode c).
Proof.
  intros s e. rewrite write_code_attr_unfold. destruct (c_max c) as [[ms ml]|] eqn:Em.
  2:{ intros [= <-]. split; [exact I|exact Em]. }
  destruct (mapW _ (c_insns c) s) as [[es s1]|c1|] eqn:El; try discriminate.
  2:{ intros [= <-]. revert El. apply wc_mapW. intros i Hin. apply wc_bind; [apply wc_lower_insn, Hin|intros; apply wc_ret]. }
  destruct (lower_all_shape _ _ _ _ El) as [Hes Hsh].
  destruct (wc_loop _ _ es (c_last c)) as [[[[w labs] Wd]| |]|] eqn:Ew; try discriminate.
  - apply wc_code_tail.
  - intros [= <-]. split; [exact Ew|]. cbn [code_info]. auto.
  - exfalso. exact (write_terminates _ _ Ew).
Qed.

(* the loop's own causes (C02_write_fails_cleanly) for a body that comes from a well-formed tree *)
Theorem code_cause_explained c es :
  ccode_ok c = true -> cspans_ok c = true ->
  ecause_holds (ECode es (c_last c)) -> code_info c (ECode es (c_last c)) ->
  exists Wd, attempt Wd es (c_last c) = AErr /\ cause Wd es (c_last c).
Proof.
  intros Hok Hsp Hw (_ & Hes & Hsh). cbn [ecause_holds] in Hw. unfold ccode_ok in Hok. bsplit.
  assert (Hu : unique_labels es (c_last c)).
  { unfold unique_labels. rewrite body_labels_map, Hes, <- insn_labels_map. apply nodupN_spec. assumption. }
  assert (Hspans : spans_ok es = true) by (apply (spans_shape _ _ Hsh), Hsp).
  pose proof (write_fails_cleanly es (c_last c) Hu Hspans) as Hfc. rewrite Hw in Hfc. exact Hfc.
Qed.

(* ---- fields, record components, module: only counts, lengths and the pool ---- *)
Definition Pnc (c : ecause) : Prop := ecause_holds c /\ noncode c.
(* type annotations outside a method body look up no label: the empty label map is never consulted when the targets
   are the ones legal there; for the error theorem it is enough that a lookup failing on the empty map is reported as
   ELabel [] ..., which does hold (no label is in the empty map) — but it is a code cause; so member-level writers get
   the predicate that also admits ELabel on the empty map *)
Definition Pmem (c : ecause) : Prop := ecause_holds c /\ (noncode c \/ exists ls, c = ELabel [] ls).
Lemma basic_Pmem : basic Pmem. Proof. intros c H1 H2. split; [exact H1|left; exact H2]. Qed.
Lemma lab_ok_Pmem_nil : forall ls, (exists l, In l ls /\ lget [] l = None) -> Pmem (ELabel [] ls).
Proof. intros ls H. split; [exact H|right; exists ls; reflexivity]. Qed.
#[global] Hint Resolve basic_Pmem : wc.

Lemma wc_try_get_nil l : wc (lift_out (ELabel [] [l]) (try_get [] l)) Pmem.
Proof. apply wc_lift_out. intros _. apply lab_ok_Pmem_nil. exists l. split; [left; reflexivity|reflexivity]. Qed.
Lemma wc_write_target_nil t : wc (write_target [] t) Pmem.
Proof.
  pose proof basic_Pmem as HP. destruct t; cbn [write_target]; wcg; try apply wc_try_get_nil.
  apply wc_mapW. intros [[x1 x2] x3] _. cbn [fst snd]. apply wc_bind; [|intros; apply wc_ret].
  apply wc_lift_out. intros _. apply lab_ok_Pmem_nil. exists x1. split; [left; reflexivity|reflexivity].
Qed.
Lemma wc_write_type_annotations_nil l : wc (write_type_annotations [] l) Pmem.
Proof. pose proof basic_Pmem as HP. unfold write_type_annotations. apply wc_wslice16; [exact HP|]. intros a _. apply wc_bind; [apply wc_write_target_nil|intros t]. wcg. Qed.
Lemma wc_w_annots_nil a : forall m, In m (w_annots [] a) -> wc m Pmem.
Proof.
  pose proof basic_Pmem as HP. unfold w_annots. repeat apply in_app_Q; apply wc_nattr; intros l; apply wc_wattr; auto with wc; apply wc_write_type_annotations_nil.
Qed.

Ltac rfin := first
  [ apply wc_w_signature; solve [auto with wc] | apply wc_wunknowns; solve [auto with wc] | apply wc_w_annots_nil
  | apply wc_battr, wc_wattr_fix; [solve [auto with wc]|apply wc_ret]
  | apply wc_nattr; intros; apply wc_wattr; [solve [auto with wc]|first [solve [auto with wc]|apply wc_write_type_annotations_nil]] ].
Lemma wc_write_field f : wc (write_field f) Pmem.
Proof.
  pose proof basic_Pmem as HP. unfold write_field. apply wc_bind; [auto with wc|intros n]. apply wc_bind; [auto with wc|intros d].
  apply wc_bind; [|intros a; apply wc_ret]. apply wc_wattrs; [exact HP|].
  repeat apply in_app_Q; try rfin.
  apply wc_oattr. intros c. apply wc_wattr_fix; [exact HP|]. apply wc_idx16. auto with wc.
Qed.
Lemma wc_write_record_component r : wc (write_record_component r) Pmem.
Proof.
  pose proof basic_Pmem as HP. unfold write_record_component. apply wc_bind; [auto with wc|intros n]. apply wc_bind; [auto with wc|intros d].
  apply wc_bind; [|intros a; apply wc_ret]. apply wc_wattrs; [exact HP|].
  repeat apply in_app_Q; rfin.
Qed.
Lemma wc_write_module P m : basic P -> wc (write_module m) P.
Proof.
  intros HP. unfold write_module. wcg; try (apply wc_put_opt; auto with wc);
  apply wc_wslice16; try exact HP; intros x _; wcg; try (apply wc_put_opt; auto with wc); try (apply wc_wslice16; [exact HP|]; intros y _; apply wc_idx16; auto with wc); try (apply wc_idx16; auto with wc).
Qed.

(* ---- methods ---- *)
Definition method_info (m : cmethod) (c : ecause) : Prop :=
  match c with
  | ENoMax | EArgs _ | ECode _ _ => exists c0, md_code m = Some c0 /\ code_info c0 c
  | _ => True
  end.
Definition Pmeth (m : cmethod) (c : ecause) : Prop := ecause_holds c /\ method_info m c.
Lemma Pmem_Pmeth m c : Pmem c -> Pmeth m c.
Proof. intros [H1 [H2|(ls & ->)]]; (split; [exact H1|]); [destruct c; cbn [noncode] in H2; try contradiction; exact I|exact I]. Qed.
Lemma Pcode_Pmeth m c0 c : md_code m = Some c0 -> Pcode c0 c -> Pmeth m c.
Proof. intros Hm [H1 H2]. split; [exact H1|]. destruct c; cbn [method_info]; try exact I; exists c0; auto. Qed.
Lemma basic_Pmeth m : basic (Pmeth m). Proof. intros c H1 H2. apply Pmem_Pmeth, basic_Pmem; assumption. Qed.

Lemma wc_write_method m : wc (write_method m) (Pmeth m).
Proof.
  pose proof (basic_Pmeth m) as HP. unfold write_method.
  apply wc_bind; [auto with wc|intros n]. apply wc_bind; [auto with wc|intros d].
  apply wc_bind.
  { apply wc_seqW. apply in_app_Q; apply wc_battr, wc_wattr_fix; try exact HP; apply wc_ret. }
  intros dep. apply wc_bind.
  { destruct (md_code m) as [c|] eqn:Em; [|apply wc_ret].
    apply wc_bind; [eapply wc_weaken; [apply wc_write_code_attr|intros e He; exact (Pcode_Pmeth m c e Em He)]|intros r]. wcg. }
  intros code. apply wc_bind.
  { apply wc_seqW.
    apply in_app_Q; [apply wc_oattr; intros l; apply wc_wattr; [exact HP|]; apply wc_wslice16; [exact HP|]; intros x _; apply wc_idx16; auto with wc|].
    apply in_app_Q; [apply wc_w_signature, HP|].
    apply in_app_Q; [intros w Hw; eapply wc_weaken; [apply (wc_w_annots_nil _ _ Hw)|apply Pmem_Pmeth]|].
    apply in_app_Q; [apply wc_oattr; intros e; apply wc_wattr; [exact HP|]; auto with wc|].
    apply in_app_Q; [apply wc_oattr; intros l; apply wc_wattr; [exact HP|]; apply wc_wslice8; [exact HP|]; intros x _; wcg; apply wc_put_opt; auto with wc|].
    apply wc_wunknowns, HP. }
  intros rest. wcg.
Qed.

(* ---- the class ---- *)
Definition class_info (t : cclass) (c : ecause) : Prop :=
  match c with
  | ENoMax | EArgs _ | ECode _ _ => exists m c0, In m (k_methods t) /\ md_code m = Some c0 /\ code_info c0 c
  | _ => True
  end.
Definition Pclass (t : cclass) (c : ecause) : Prop := ecause_holds c /\ class_info t c.
Lemma Pmem_Pclass t c : Pmem c -> Pclass t c.
Proof. intros [H1 [H2|(ls & ->)]]; (split; [exact H1|]); [destruct c; cbn [noncode] in H2; try contradiction; exact I|exact I]. Qed.
Lemma basic_Pclass t : basic (Pclass t). Proof. intros c H1 H2. apply Pmem_Pclass, basic_Pmem; assumption. Qed.

Lemma wc_w_bootstrap P : basic P -> forall m, In m w_bootstrap -> wc m P.
Proof.
  intros HP m [<-|[]] s c. destruct (w_bsm s) as [|e tb]; [discriminate|].
  apply wc_wattr; [exact HP|]. wcg. apply wc_mapW. intros x _. wcg.
Qed.

Theorem write_class_errors t c : write_class_aux t = WERR c -> Pclass t c.
Proof.
  unfold write_class_aux.
  match goal with |- match ?body wst_new with _ => _ end = _ -> _ =>
    assert (Hb : wc body (Pclass t)); [|destruct (body wst_new) as [[[[rest codes] tbl] sF]|c0|] eqn:E] end.
  2:{ destruct (pool_bytes (w_pool sF)) eqn:Ep; [discriminate|]. intros [= <-]. split; [|exact I]. cbn [ecause_holds].
      unfold pool_bytes in Ep. destruct (existsb _ _) eqn:Ex; [|discriminate]. apply existsb_exists in Ex as (e & Hin & He).
      destruct (pe_key e) as [|k r] eqn:Ek; [discriminate|]. destruct k as [|[p|p|]]; try discriminate. exists e, r. split; [|split; [exact Ek|apply Z.ltb_lt, He]].
      unfold frev in Hin. rewrite <- rev_alt in Hin. apply in_rev, Hin. }
  2:{ intros [= <-]. exact (Hb _ _ E). }
  2:{ discriminate. }
  pose proof (basic_Pclass t) as HP.
  apply wc_bind; [auto with wc|intros this]. apply wc_bind; [apply wc_put_opt; auto with wc|intros super].
  apply wc_bind; [apply wc_wslice16; [exact HP|]; intros x _; apply wc_idx16; auto with wc|intros ifs].
  apply wc_bind; [apply wc_wslice16; [exact HP|]; intros x _; eapply wc_weaken; [apply wc_write_field|apply Pmem_Pclass]|intros fields].
  apply wc_bind; [wcg|intros nm].
  apply wc_bind.
  { apply wc_mapW. intros m Hin. eapply wc_weaken; [apply wc_write_method|]. intros e [H1 H2]. split; [exact H1|].
    destruct e; cbn [method_info class_info] in *; try exact I; destruct H2 as (c0 & Hm & Hc); exists m, c0; auto. }
  intros methods. apply wc_bind.
  { apply wc_seqW.
    apply in_app_Q; [apply wc_battr, wc_wattr_fix; [exact HP|apply wc_ret]|].
    apply in_app_Q; [apply wc_battr, wc_wattr_fix; [exact HP|apply wc_ret]|].
    apply in_app_Q; [apply wc_oattr; intros l; apply wc_wattr; [exact HP|]; apply wc_wslice16; [exact HP|]; intros ic _; wcg; apply wc_put_opt; auto with wc|].
    apply in_app_Q; [apply wc_oattr; intros e; apply wc_wattr_fix; [exact HP|]; wcg; apply wc_put_opt; intros nd; auto with wc|].
    apply in_app_Q; [apply wc_w_signature, HP|].
    apply in_app_Q; [apply wc_oattr; intros s; apply wc_wattr_fix; [exact HP|]; apply wc_idx16; auto with wc|].
    apply in_app_Q; [apply wc_oattr; intros s; auto with wc|].
    apply in_app_Q; [intros w Hw; eapply wc_weaken; [apply (wc_w_annots_nil _ _ Hw)|apply Pmem_Pclass]|].
    apply in_app_Q; [apply wc_oattr; intros m; apply wc_wattr; [exact HP|]; apply wc_write_module, HP|].
    apply in_app_Q; [apply wc_oattr; intros l; apply wc_wattr; [exact HP|]; apply wc_wslice16; [exact HP|]; intros x _; apply wc_idx16; auto with wc|].
    apply in_app_Q; [apply wc_oattr; intros s; apply wc_wattr_fix; [exact HP|]; apply wc_idx16; auto with wc|].
    apply in_app_Q; [apply wc_oattr; intros s; apply wc_wattr_fix; [exact HP|]; apply wc_idx16; auto with wc|].
    apply in_app_Q; [apply wc_oattr; intros l; apply wc_wattr; [exact HP|]; apply wc_wslice16; [exact HP|]; intros x _; apply wc_idx16; auto with wc|].
    apply in_app_Q; [apply wc_oattr; intros l; apply wc_wattr; [exact HP|]; apply wc_wslice16; [exact HP|]; intros x _; apply wc_idx16; auto with wc|].
    apply wc_nattr. intros l. apply wc_wattr; [exact HP|]. apply wc_wslice16; [exact HP|]. intros x _. eapply wc_weaken; [apply wc_write_record_component|apply Pmem_Pclass]. }
  intros pre. apply wc_bind; [intros s c0; discriminate|intros tbl].
  apply wc_bind; [apply wc_seqW, wc_w_bootstrap, HP|intros bsm].
  apply wc_bind; [apply wc_mapW; intros a _; unfold wunknown; auto with wc|intros unk].
  wcg.
Qed.

Theorem write_class_err_causes t : write_class t = ERR -> exists c, write_class_aux t = WERR c /\ ecause_holds c /\ class_info t c.
Proof.
  unfold write_class. destruct (write_class_aux t) as [[bs aux]|c|] eqn:E; try discriminate. intros _.
  exists c. split; [reflexivity|]. exact (write_class_errors t c E).
Qed.

(* ---- examples: the cause is computed by the model ---- *)
Definition no_annots : annots := {| an_vis := []; an_invis := []; an_tvis := []; an_tinvis := [] |}.
Definition class_of (c : ccode) : cclass :=
  let m := {| md_access := 9; md_name := [109]%N; md_desc := [40; 41; 86]%N; md_deprecated := false; md_synthetic := false;
              md_code := Some c; md_exceptions := None; md_signature := None; md_annots := no_annots;
              md_default := None; md_parameters := None; md_unknown := [] |} in
  {| k_minor := 0; k_major := 52; k_access := 33; k_name := [65]%N; k_super := None; k_interfaces := []; k_fields := []; k_methods := [m];
     k_deprecated := false; k_synthetic := false; k_inner := None; k_enclosing := None; k_signature := None; k_source_file := None;
     k_source_debug := None; k_annots := no_annots; k_module := None;
     k_module_packages := None; k_module_main := None; k_nest_host := None; k_nest_members := None; k_permitted := None;
     k_record := []; k_unknown := [] |}.
Definition code_of (mx : option (Z * Z)) (is : list (option label * option cframe * cinsn)) (lines : option (list (label * Z))) : ccode :=
  {| c_max := mx; c_insns := is; c_last := None; c_exceptions := []; c_lines := lines; c_locals := None; c_tvis := []; c_tinvis := []; c_unknown := [] |}.
Definition d256 : bytes := 40%N :: repeat 73%N 255 ++ [41; 86]%N.                 (* (I x 255)V : 256 slots with `this` *)
Definition iface_ref (d : bytes) : memberref := {| mr_class := [73]%N; mr_name := [99]%N; mr_desc := d |}.
Theorem error_examples :
  write_class_aux (class_of (code_of None [(None, None, IRaw [177]%N)] None)) = WERR ENoMax /\
  write_class_aux (class_of (code_of (Some (1, 1)) [(None, None, IIface (iface_ref d256)); (None, None, IRaw [177]%N)] None)) = WERR (EArgs d256) /\
  write_class_aux (class_of (code_of (Some (1, 1)) [(Some 1%N, None, IRaw [177]%N)] (Some [(7%N, 3)]))) = WERR (ELabel [(1%N, 0)] [7%N]) /\
  write_class_aux (class_of (code_of (Some (1, 1)) [(None, None, IBr (KJump 167 200) 5%N)] None)) = WERR (ECode [(None, Br (KJump 167 200) 5%N)] None) /\
  write_class_aux (class_of (code_of (Some (1, 1)) [(Some 1%N, Some (CFChop 4), IRaw [177]%N)] None)) = WERR (EFrame [(1%N, 0)] (FChop 4)) /\
  write_class_aux (class_of (code_of (Some (1, 1)) [] None)) = WERR (ECode [] None).
Proof. vm_compute. repeat split; reflexivity. Qed.
