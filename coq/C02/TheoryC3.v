(* C02 — whole-class theorems, part 3: decoding what sequences, counted lists and attribute frames
   of the writer produce. *)
From FB Require Import C02.Model C02.Encode C02.Theory2 C02.Theory6 C02.Theory8 C02.Frames C02.TheoryF C02.Class C02.Decode
  C02.TheoryC1 C02.TheoryC2.
Local Open Scope Z_scope.
Local Arguments Z.add : simpl never.
Local Arguments Z.sub : simpl never.
Local Arguments Z.mul : simpl never.
Local Opaque be16 be32 be64.

(* ---- the head of a parser chain ---- *)
Lemma pb_some {A B} (P : parser A) (K : A -> parser B) bs a r : P bs = Some (a, r) -> pbind P K bs = K a r.
Proof. unfold pbind. intros ->. reflexivity. Qed.
Lemma pb_u16 {B} (K : Z -> parser B) z r : idx_ok z -> pbind p_u16 K (be16 z ++ r) = K z r.
Proof. intros H. apply pb_some, p_u16_be16, H. Qed.
Lemma pb_u8 {B} (K : Z -> parser B) z r : 0 <= z <= 255 -> pbind p_u8 K (u8 z ++ r) = K z r.
Proof. intros H. apply pb_some, p_u8_u8, H. Qed.
Lemma pb_u8N {B} (K : Z -> parser B) (t : N) r : pbind p_u8 K (t :: r) = K (Z.of_N t) r.
Proof. reflexivity. Qed.
Lemma pb_u32 {B} (K : Z -> parser B) z r : 0 <= z < 4294967296 -> pbind p_u32 K (be32 z ++ r) = K z r.
Proof. intros H. apply pb_some, p_u32_be32, H. Qed.
Lemma pb_idx {A B} (g : cpool -> Z -> option A) (K : A -> parser B) x p i p' c r :
  refers0 g x p i -> pool_ext p p' -> agrees p' c -> pbind (p_idx g c) K (be16 i ++ r) = K x r.
Proof.
  intros [Hi Hg] He Ha. unfold p_idx, pbind. rewrite p_u16_be16 by exact Hi. unfold plift.
  rewrite (Hg p' c He Ha). reflexivity.
Qed.
Lemma pb_dec {A B} (P : cpool -> parser A) (K : A -> parser B) x p bs p' c r :
  decodes P x p bs -> pool_ext p p' -> agrees p' c -> pbind (P c) K (bs ++ r) = K x r.
Proof. intros H He Ha. apply pb_some, (H p' c r He Ha). Qed.
Lemma pb_take {B} (K : bytes -> parser B) l r : pbind (p_take (Z.to_nat (zlen l))) K (l ++ r) = K l r.
Proof. apply pb_some, p_take_zlen. Qed.

Lemma decodes_idx {A} (g : cpool -> Z -> option A) x p i : refers0 g x p i -> decodes (p_idx g) x p (be16 i).
Proof.
  intros [Hi Hg] p' c rest He Ha. unfold p_idx, pbind. rewrite p_u16_be16 by exact Hi. unfold plift. rewrite (Hg p' c He Ha). reflexivity.
Qed.

(* ---- counted lists ---- *)
Lemma p_rep_ok {A} (P : parser A) : forall (xs : list A) (bss : list bytes) rest,
  Forall2 (fun x b => forall r, P (b ++ r) = Some (x, r)) xs bss ->
  p_rep (length xs) P (concat bss ++ rest) = Some (xs, rest).
Proof.
  induction xs as [|x xs IH]; intros bss rest H; inversion H as [|? b ? bs Hx Hxs]; subst; cbn [p_rep length concat app]; [reflexivity|].
  rewrite <- app_assoc. unfold pbind at 1. rewrite Hx. unfold pbind. rewrite (IH _ _ Hxs). reflexivity.
Qed.

Lemma decodes_list16 {A} (P : cpool -> parser A) (xs : list A) p bss :
  zlen xs <= 65535 ->
  Forall2 (fun x b => decodes P x p b) xs bss ->
  decodes (fun c => p_list16 (P c)) xs p (be16 (zlen xs) ++ concat bss).
Proof.
  intros Hl H p' c rest He Ha. unfold p_list16. rewrite <- app_assoc, pb_u16 by (unfold idx_ok; pose proof (zlen_nonneg xs); lia).
  replace (Z.to_nat (zlen xs)) with (length xs) by (unfold zlen; lia).
  apply p_rep_ok. eapply Forall2_impl'; [|exact H]. intros x b Hd r. apply (Hd p' c r He Ha).
Qed.
Lemma decodes_list8 {A} (P : cpool -> parser A) (xs : list A) p bss :
  zlen xs <= 255 ->
  Forall2 (fun x b => decodes P x p b) xs bss ->
  decodes (fun c => p_list8 (P c)) xs p (byte_of (zlen xs) :: concat bss).
Proof.
  intros Hl H p' c rest He Ha. unfold p_list8. rewrite <- app_comm_cons. unfold pbind at 1.
  rewrite p_u8_byte by (pose proof (zlen_nonneg xs); lia).
  replace (Z.to_nat (zlen xs)) with (length xs) by (unfold zlen; lia).
  apply p_rep_ok. eapply Forall2_impl'; [|exact H]. intros x b Hd r. apply (Hd p' c r He Ha).
Qed.

Lemma w_u16len_spec n : wspec (w_u16len n) (fun _ a => a = be16 n /\ n <= 65535).
Proof.
  unfold w_u16len. apply wspec_lift_res. intros a p. unfold write_usize_as_u16.
  destruct (65535 <? n) eqn:E; [discriminate|]. apply Z.ltb_ge in E. intros [= <-]. split; [reflexivity|exact E].
Qed.
Lemma w_u8len_spec n : wspec (w_u8len n) (fun _ a => a = [byte_of n] /\ n <= 255).
Proof.
  unfold w_u8len. apply wspec_lift_res. intros a p. unfold write_usize_as_u8.
  destruct (255 <? n) eqn:E; [discriminate|]. apply Z.ltb_ge in E. intros [= <-]. split; [reflexivity|exact E].
Qed.

Lemma wslice16_spec {A} (f : A -> W bytes) (P : cpool -> parser A) (l : list A) :
  (forall x, In x l -> wspec (f x) (decodes P x)) ->
  wspec (wslice16 f l) (decodes (fun c => p_list16 (P c)) l).
Proof.
  intros Hf. unfold wslice16. eapply wspec_bind; [apply w_u16len_spec|]. intros cnt p0 [-> Hn].
  eapply wspec_bind.
  - apply (wspec_mapW f (fun x p b => decodes P x p b)); [intros x p p' b He Hd; exact (decodes_mono P x p p' b He Hd)|exact Hf].
  - intros bs p1 Hbs. apply wspec_ret. intros p He1 He0. apply decodes_list16; [exact Hn|].
    eapply Forall2_impl'; [|exact Hbs]. intros x b Hd. exact (decodes_mono P x p1 p b He1 Hd).
Qed.
Lemma wslice8_spec {A} (f : A -> W bytes) (P : cpool -> parser A) (l : list A) :
  (forall x, In x l -> wspec (f x) (decodes P x)) ->
  wspec (wslice8 f l) (decodes (fun c => p_list8 (P c)) l).
Proof.
  intros Hf. unfold wslice8. eapply wspec_bind; [apply w_u8len_spec|]. intros cnt p0 [-> Hn].
  eapply wspec_bind.
  - apply (wspec_mapW f (fun x p b => decodes P x p b)); [intros x p p' b He Hd; exact (decodes_mono P x p p' b He Hd)|exact Hf].
  - intros bs p1 Hbs. apply wspec_ret. intros p He1 He0. apply decodes_list8; [exact Hn|].
    eapply Forall2_impl'; [|exact Hbs]. intros x b Hd. exact (decodes_mono P x p1 p b He1 Hd).
Qed.

(* an index written as u16 *)
Lemma idx16_spec {A} (m : W Z) (g : cpool -> Z -> option A) x : wspec m (refers g x) -> wspec (idx16 m) (decodes (p_idx g) x).
Proof.
  intros H. unfold idx16. eapply wspec_bind; [exact H|]. intros i p0 Hi. apply wspec_ret. intros p He.
  apply decodes_idx. eapply refers0_mono; [exact He|apply Hi].
Qed.
Lemma idx16_spec0 {A} (m : W Z) (g : cpool -> Z -> option A) x : wspec m (refers0 g x) -> wspec (idx16 m) (decodes (p_idx g) x).
Proof.
  intros H. unfold idx16. eapply wspec_bind; [exact H|]. intros i p0 Hi. apply wspec_ret. intros p He.
  apply decodes_idx. eapply refers0_mono; [exact He|apply Hi].
Qed.
Lemma idx_list_spec {A} (put_x : A -> W Z) (g : cpool -> Z -> option A) l :
  (forall x, wspec (put_x x) (refers g x)) ->
  wspec (wslice16 (fun x => idx16 (put_x x)) l) (decodes (fun c => p_list16 (p_idx g c)) l).
Proof. intros H. apply wslice16_spec. intros x _. apply idx16_spec, H. Qed.

(* ---- attribute frames ---- *)
Lemma write_attribute_ok i b bs : write_attribute i b = Ok bs -> bs = be16 i ++ be32 (zlen b) ++ b /\ zlen b < 4294967296.
Proof.
  unfold write_attribute, write_usize_as_u32. destruct (4294967295 <? zlen b) eqn:E; [discriminate|]. apply Z.ltb_ge in E.
  intros [= <-]. split; [reflexivity|lia].
Qed.
Lemma p_block_ok {A} (P : parser A) x b rest : P b = Some (x, []) -> p_block (zlen b) P (b ++ rest) = Some (x, rest).
Proof. intros H. unfold p_block. rewrite pb_take, H. reflexivity. Qed.

Lemma p_attr_with_known {A} c (bodyf : bytes -> option (parser A)) unk name i (Pb : parser A) b x rest :
  get_utf8 c i = Some name -> idx_ok i -> bodyf name = Some Pb -> zlen b < 4294967296 -> Pb b = Some (x, []) ->
  p_attr_with c bodyf unk (be16 i ++ be32 (zlen b) ++ b ++ rest) = Some (x, rest).
Proof.
  intros Hn Hi Hb Hl Hp. unfold p_attr_with. unfold p_idx. unfold pbind at 1. unfold pbind at 1.
  rewrite p_u16_be16 by exact Hi. unfold plift. rewrite Hn.
  rewrite pb_u32 by (pose proof (zlen_nonneg b); lia). rewrite Hb. apply p_block_ok, Hp.
Qed.
Lemma p_attr_with_unknown {A} c (bodyf : bytes -> option (parser A)) unk name i b rest :
  get_utf8 c i = Some name -> idx_ok i -> bodyf name = None -> zlen b < 4294967296 ->
  p_attr_with c bodyf unk (be16 i ++ be32 (zlen b) ++ b ++ rest) = Some (unk name b, rest).
Proof.
  intros Hn Hi Hb Hl. unfold p_attr_with. unfold p_idx. unfold pbind at 1. unfold pbind at 1.
  rewrite p_u16_be16 by exact Hi. unfold plift. rewrite Hn.
  rewrite pb_u32 by (pose proof (zlen_nonneg b); lia). rewrite Hb. rewrite pb_take. reflexivity.
Qed.

(* write_attribute(name, |w, pool| body): generic in the attribute parser *)
Lemma wattr_gen {A D} name (body : W bytes) (P : cpool -> parser A) (x : A)
  (bodyf : cpool -> bytes -> option (parser D)) unk (d : D) :
  (forall c b, P c b = Some (x, []) -> exists Pb, bodyf c name = Some Pb /\ Pb b = Some (d, [])) ->
  wspec body (decodes P x) ->
  wspec (wattr name body) (decodes (fun c => p_attr_with c (bodyf c) unk) d).
Proof.
  intros Hb Hbody. unfold wattr. eapply wspec_bind; [exact Hbody|]. intros b p0 Hd.
  eapply wspec_bind; [apply put_utf8_spec|]. intros i p1 Hi.
  apply wspec_lift_res. intros bs p Hw He1 He0. apply write_attribute_ok in Hw as [-> Hl].
  intros p' c rest He Ha. rewrite <- !app_assoc.
  assert (Hpb : P c b = Some (x, [])).
  { specialize (Hd p' c [] ltac:(eauto with pext) Ha). rewrite app_nil_r in Hd. exact Hd. }
  destruct (Hb c b Hpb) as (Pb & Hf & Hr).
  eapply p_attr_with_known; eauto.
  - apply (refers_get _ _ _ _ p' c Hi); eauto with pext.
  - apply (refers_idx _ _ _ _ Hi).
Qed.
(* write_attribute_fix_length(name, len) followed by writes of exactly len bytes *)
Lemma wattr_fix_gen {A D} name len (body : W bytes) (P : cpool -> parser A) (x : A)
  (bodyf : cpool -> bytes -> option (parser D)) unk (d : D) :
  (forall c b, P c b = Some (x, []) -> exists Pb, bodyf c name = Some Pb /\ Pb b = Some (d, [])) ->
  wspec body (fun p b => decodes P x p b /\ zlen b = len) ->
  wspec (wattr_fix name len body) (decodes (fun c => p_attr_with c (bodyf c) unk) d).
Proof.
  intros Hb Hbody. unfold wattr_fix. eapply wspec_bind; [apply put_utf8_spec|]. intros i p0 Hi.
  eapply wspec_bind.
  { apply wspec_lift_res. intros a p Ha. exact Ha. }
  intros l p1 Hl. cbn beta in Hl.
  eapply wspec_bind; [exact Hbody|]. intros b p2 [Hd Hlen].
  apply wspec_ret. intros p He2 He1 He0.
  unfold write_usize_as_u32 in Hl. destruct (4294967295 <? len) eqn:E; [discriminate|]. apply Z.ltb_ge in E. injection Hl as <-.
  intros p' c rest He Ha. rewrite <- !app_assoc. subst len.
  assert (Hpb : P c b = Some (x, [])).
  { specialize (Hd p' c [] ltac:(eauto with pext) Ha). rewrite app_nil_r in Hd. exact Hd. }
  destruct (Hb c b Hpb) as (Pb & Hf & Hr).
  eapply p_attr_with_known; eauto; try lia.
  - apply (refers_get _ _ _ _ p' c Hi); eauto with pext.
  - apply (refers_idx _ _ _ _ Hi).
Qed.
(* name, u32 length, bytes: an attribute whose name is not predefined at the location *)
Lemma wattr_raw_unknown {D} name content (bodyf : cpool -> bytes -> option (parser D)) unk :
  (forall c, bodyf c name = None) ->
  wspec (wattr_raw name content) (decodes (fun c => p_attr_with c (bodyf c) unk) (unk name content)).
Proof.
  intros Hb. unfold wattr_raw. eapply wspec_bind; [apply put_utf8_spec|]. intros i p0 Hi.
  eapply wspec_bind.
  { apply wspec_lift_res. intros a p Ha. exact Ha. }
  intros l p1 Hl. cbn beta in Hl. apply wspec_ret. intros p He1 He0.
  unfold write_usize_as_u32 in Hl. destruct (4294967295 <? zlen content) eqn:E; [discriminate|]. apply Z.ltb_ge in E. injection Hl as <-.
  intros p' c rest He Ha. rewrite <- !app_assoc.
  eapply p_attr_with_unknown; eauto; try lia.
  - apply (refers_get _ _ _ _ p' c Hi); eauto with pext.
  - apply (refers_idx _ _ _ _ Hi).
Qed.

(* attribute lists: `attribute_count`, then the buffer *)
Lemma wspec_seqW2 {A D} (R : D -> pool -> A -> Prop) :
  (forall d p p' b, pool_ext p p' -> R d p b -> R d p' b) ->
  forall ws ds, Forall2 (fun w d => wspec w (R d)) ws ds ->
  wspec (seqW ws) (fun p bs => Forall2 (fun d b => R d p b) ds bs).
Proof.
  intros Hmono ws ds H. induction H as [|w d ws ds Hw Hws IH]; cbn [seqW].
  - apply wspec_ret. intros p. constructor.
  - eapply wspec_bind; [exact Hw|]. intros b p0 Hb.
    eapply wspec_bind; [exact IH|]. intros bs p1 Hbs.
    apply wspec_ret. intros p He1 He0. constructor.
    + eapply Hmono; [|exact Hb]. exact He0.
    + eapply Forall2_impl'; [|exact Hbs]. intros y c Hyc. eapply Hmono; [|exact Hyc]. exact He1.
Qed.
Lemma Forall2_len {A B} (R : A -> B -> Prop) l l' : Forall2 R l l' -> length l = length l'.
Proof. induction 1; cbn [length]; congruence. Qed.

Lemma wattrs_spec {D} (Pa : cpool -> parser D) (ws : list (W bytes)) (ds : list D) :
  Forall2 (fun w d => wspec w (decodes Pa d)) ws ds ->
  wspec (wattrs ws) (decodes (fun c => p_list16 (Pa c)) ds).
Proof.
  intros H. unfold wattrs.
  assert (Hlen : zlen ws = zlen ds) by (unfold zlen; rewrite (Forall2_len _ _ _ H); reflexivity).
  eapply wspec_bind.
  - apply (wspec_seqW2 (fun d p b => decodes Pa d p b)); [intros d p p' b He Hd; exact (decodes_mono Pa d p p' b He Hd)|exact H].
  - intros bs p0 Hbs. eapply wspec_bind; [apply w_u16len_spec|]. intros cnt p1 [-> Hn].
    apply wspec_ret. intros p He1 He0. rewrite Hlen in *. apply decodes_list16; [exact Hn|].
    eapply Forall2_impl'; [|exact Hbs]. intros d b Hd. apply (decodes_mono Pa d p0 p b); [eauto with pext|exact Hd].
Qed.
