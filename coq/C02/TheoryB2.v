(* C02 — the bootstrap-method table, part 2: the bootstrap_method_attr_index written into a
   CONSTANT_Dynamic / CONSTANT_InvokeDynamic entry selects, in the table that is written as the
   BootstrapMethods attribute, the entry (handle, argument indices) of that instruction / constant,
   and every argument index designates the argument (recursively for nested dynamic constants). *)
From FB Require Import C02.Model C02.Encode C02.Theory1 C02.Theory2 C02.Theory3 C02.Theory4 C02.Theory5 C02.Theory6 C02.Theory7 C02.Theory8 C02.Frames C02.TheoryF
  C02.Class C02.Decode C02.Facts C02.TheoryC1 C02.TheoryC2 C02.TheoryC3 C02.TheoryC4 C02.TheoryC5 C02.TheoryC6 C02.TheoryC7 C02.TheoryC8 C02.TheoryC9 C02.TheoryC10 C02.TheoryC11 C02.TheoryB1.
Local Open Scope Z_scope.
Local Arguments Z.add : simpl never.
Local Arguments Z.sub : simpl never.
Local Arguments Z.mul : simpl never.
Local Opaque be16 be32 be64.

(* ---- what an index designates, the bootstrap table included ---- *)
Fixpoint ldenotes (p : pool) (tbl : list bsment) (l : loadable) (x : Z) {struct l} : Prop :=
  match l with
  | LDynamic n d h args =>
      exists b nt idxs, resolves p x (CDynamic b nt) /\ refers get_nat (n, d) p nt /\
        0 <= b /\ nth_error tbl (Z.to_nat b) = Some (h, idxs) /\
        (fix go (a : list loadable) (is : list Z) {struct a} : Prop :=
           match a, is with
           | [], [] => True
           | y :: a', i :: is' => ldenotes p tbl y i /\ go a' is'
           | _, _ => False
           end) args idxs
  | _ => loadable_refers p l x
  end.
Lemma go_Forall2 p tbl : forall args idxs,
  (fix go (a : list loadable) (is : list Z) {struct a} : Prop :=
     match a, is with
     | [], [] => True
     | y :: a', i :: is' => ldenotes p tbl y i /\ go a' is'
     | _, _ => False
     end) args idxs <-> Forall2 (ldenotes p tbl) args idxs.
Proof.
  induction args as [|y a IH]; intros [|i is].
  - split; [constructor|trivial].
  - split; [contradiction|intros H; inversion H].
  - split; [contradiction|intros H; inversion H].
  - split.
    + intros [H1 H2]. constructor; [exact H1|apply IH, H2].
    + intros H. inversion H; subst. split; [assumption|apply IH; assumption].
Qed.
Lemma ldenotes_dyn p tbl n d h args x :
  ldenotes p tbl (LDynamic n d h args) x <->
  exists b nt idxs, resolves p x (CDynamic b nt) /\ refers get_nat (n, d) p nt /\
    0 <= b /\ nth_error tbl (Z.to_nat b) = Some (h, idxs) /\ Forall2 (ldenotes p tbl) args idxs.
Proof.
  cbn [ldenotes]. split; intros (b & nt & idxs & H1 & H2 & H3 & H4 & H5); exists b, nt, idxs;
    (split; [exact H1|split; [exact H2|split; [exact H3|split; [exact H4|apply (go_Forall2 p tbl); exact H5]]]]).
Qed.
Lemma ldenotes_refers p tbl l x : ldenotes p tbl l x -> loadable_refers p l x.
Proof. destruct l; cbn [ldenotes loadable_refers]; auto. intros (b & nt & idxs & H1 & H2 & _). exists b, nt. split; assumption. Qed.

Lemma Forall_Forall2_impl {A B} (P : A -> Prop) (R R' : A -> B -> Prop) l l' :
  Forall P l -> (forall a b, P a -> R a b -> R' a b) -> Forall2 R l l' -> Forall2 R' l l'.
Proof. intros HP Himp F. induction F as [|a b l l' Hab F IH]; constructor; inversion HP; subst; auto. Qed.

Lemma ldenotes_mono p p' tbl tbl' l : pool_ext p p' -> bsm_ext tbl tbl' -> forall x, ldenotes p tbl l x -> ldenotes p' tbl' l x.
Proof.
  intros Hp Ht. induction l as [v|v|v|v|n|s|h|d|n d h args IH] using loadable_ind2; intros x;
    try (cbn [ldenotes]; apply loadable_refers_mono; exact Hp).
  rewrite !ldenotes_dyn. intros (b & nt & idxs & H1 & H2 & H3 & H4 & H5). exists b, nt, idxs.
  split; [eapply resolves_mono; eauto|]. split; [eapply refers_mono; eauto|]. split; [exact H3|]. split; [eapply bsm_ext_nth; eauto|].
  eapply Forall_Forall2_impl; [exact IH| |exact H5]. intros a i Ha. apply Ha.
Qed.

Definition idenotes (p : pool) (tbl : list bsment) (k : iconst) (x : Z) : Prop :=
  match k with
  | KIndy n d h args =>
      exists b nt idxs, resolves p x (CInvokeDynamic b nt) /\ refers get_nat (n, d) p nt /\
        0 <= b /\ nth_error tbl (Z.to_nat b) = Some (h, idxs) /\ Forall2 (ldenotes p tbl) args idxs
  | _ => iconst_refers p k x
  end.
Lemma idenotes_mono p p' tbl tbl' k x : pool_ext p p' -> bsm_ext tbl tbl' -> idenotes p tbl k x -> idenotes p' tbl' k x.
Proof.
  intros Hp Ht. destruct k as [n|r|r|r|n d h args]; cbn [idenotes]; try (apply iconst_refers_mono; exact Hp).
  intros (b & nt & idxs & H1 & H2 & H3 & H4 & H5). exists b, nt, idxs.
  split; [eapply resolves_mono; eauto|]. split; [eapply refers_mono; eauto|]. split; [exact H3|]. split; [eapply bsm_ext_nth; eauto|].
  eapply Forall2_impl'; [|exact H5]. intros a i. apply ldenotes_mono; assumption.
Qed.

(* ---- put_bootstrap_method: the index returned selects the entry ---- *)
Lemma zlist_eqb_eq : forall a b, zlist_eqb a b = true -> a = b.
Proof.
  induction a as [|x a IH]; intros [|y b]; cbn [zlist_eqb]; try discriminate; [reflexivity|].
  intros H. apply andb_true_iff in H as [H1 H2]. apply Z.eqb_eq in H1. subst y. f_equal. apply IH, H2.
Qed.
Lemma memberref_eqb_eq a b : memberref_eqb a b = true -> a = b.
Proof.
  destruct a as [c n d], b as [c' n' d']. unfold memberref_eqb, bytes_eqb. cbn [mr_class mr_name mr_desc]. intros H.
  apply andb_true_iff in H as [H H3]. apply andb_true_iff in H as [H1 H2].
  apply str_eqb_eq in H1, H2, H3. subst. reflexivity.
Qed.
Lemma handle_eqb_eq a b : handle_eqb a b = true -> a = b.
Proof.
  destruct a as [k r i], b as [k' r' i']. unfold handle_eqb. cbn [h_kind h_ref h_iface]. intros H.
  apply andb_true_iff in H as [H H3]. apply andb_true_iff in H as [H1 H2].
  apply Z.eqb_eq in H1. apply memberref_eqb_eq in H2. apply eqb_prop in H3. subst. reflexivity.
Qed.
Lemma bsment_eqb_eq (a b : bsment) : bsment_eqb a b = true -> a = b.
Proof.
  destruct a as [h is], b as [h' is']. unfold bsment_eqb. cbn [fst snd]. intros H. apply andb_true_iff in H as [H1 H2].
  apply handle_eqb_eq in H1. apply zlist_eqb_eq in H2. subst. reflexivity.
Qed.
Lemma bsm_index_nth e : forall l k j, bsm_index l e k = Some j -> k <= j /\ nth_error l (Z.to_nat (j - k)) = Some e.
Proof.
  induction l as [|x l IH]; intros k j; cbn [bsm_index]; [discriminate|].
  destruct (bsment_eqb x e) eqn:E.
  - intros [= <-]. apply bsment_eqb_eq in E. subst x. rewrite Z.sub_diag. split; [lia|reflexivity].
  - intros H. apply IH in H as [H1 H2]. split; [lia|].
    replace (Z.to_nat (j - k)) with (S (Z.to_nat (j - (k + 1)))) by lia. exact H2.
Qed.
Lemma put_bsm_entry_nth e s b s' :
  put_bsm_entry e s = WOK (b, s') -> 0 <= b /\ nth_error (w_bsm s') (Z.to_nat b) = Some e /\ w_pool s' = w_pool s.
Proof.
  unfold put_bsm_entry. destruct (bsm_index (w_bsm s) e 0) as [j|] eqn:E.
  - intros [= <- <-]. apply bsm_index_nth in E as [H1 H2]. rewrite Z.sub_0_r in H2. auto.
  - destruct (u16max <? _); [discriminate|]. intros [= <- <-]. cbn [w_bsm w_pool]. split; [apply zlen_nonneg|]. split; [|reflexivity].
    unfold zlen. rewrite Nat2Z.id. rewrite nth_error_app2 by lia. rewrite Nat.sub_diag. reflexivity.
Qed.
Lemma put_keeps_bsm c s i s' : put c s = WOK (i, s') -> w_bsm s' = w_bsm s.
Proof. unfold put. destruct (pool_put _ _) as [[p' j]|]; [|discriminate]. intros [= _ <-]. reflexivity. Qed.

(* ---- loadable constants ---- *)
Definition den_at (l : loadable) : Prop :=
  loadable_ok l = true -> forall s x s', winv s -> put_loadable l s = WOK (x, s') -> ldenotes (w_pool s') (w_bsm s') l x.

Lemma args_denote : forall args, Forall den_at args -> forallb loadable_ok args = true ->
  forall s idxs s', winv s -> mapW put_loadable args s = WOK (idxs, s') ->
  winv s' /\ Forall idx_ok idxs /\ Forall2 (ldenotes (w_pool s') (w_bsm s')) args idxs.
Proof.
  induction args as [|y a IH]; intros Hall Hok s idxs s' Hi H; cbn [mapW] in H.
  - apply ret_ok in H as [-> ->]. split; [exact Hi|split; constructor].
  - inversion Hall as [|? ? Hy Ha]; subst. cbn [forallb] in Hok. apply andb_true_iff in Hok as [Oy Oa].
    apply bind_ok in H as (i & sa & Ry & H). apply bind_ok in H as (is & sb & Ra & H). apply ret_ok in H as [-> Hs]. subst sb.
    destruct (put_loadable_spec y Oy _ _ _ Hi Ry) as (Ia & _ & Qi).
    destruct (IH Ha Oa _ _ _ Ia Ra) as (Ib & Qis & Fa).
    assert (Eab : st_ext sa s'). { revert Ra. apply wmono_mapW. intros z _. apply wmono_put_loadable. }
    split; [exact Ib|]. split; [constructor; assumption|]. constructor; [|exact Fa].
    destruct Eab as [Ep Eb]. apply (ldenotes_mono _ _ _ _ y Ep Eb). exact (Hy Oy _ _ _ Hi Ry).
Qed.

Lemma put_loadable_denotes l : den_at l.
Proof.
  induction l as [v|v|v|v|n|s0|h|d|n d h args IH] using loadable_ind2; intros Hok s x s' Hi H;
    try (destruct (put_loadable_refers _ Hok _ _ _ Hi H) as (_ & _ & Q); exact Q).
  rewrite loadable_ok_dyn in Hok. apply andb_true_iff in Hok as [Hh Ha].
  cbn [put_loadable] in H. rewrite go_is_mapW in H.
  apply bind_ok in H as (nt & s1 & R1 & H). destruct (put_nat_spec n d _ _ _ Hi R1) as (I1 & _ & Q1).
  apply bind_ok in H as (idxs & s2 & R2 & H). destruct (args_denote args IH Ha _ _ _ I1 R2) as (I2 & Qidx & F2).
  apply bind_ok in H as (b & s3 & R3 & H). destruct (put_bsm_entry_spec h idxs Hh Qidx _ _ _ I2 R3) as (I3 & _ & Qb).
  destruct (put_bsm_entry_nth _ _ _ _ R3) as (Hb0 & Hnth & _).
  assert (E12 : st_ext s1 s2). { revert R2. apply wmono_mapW. intros z _. apply wmono_put_loadable. }
  pose proof (wmono_put_bsm_entry _ _ _ _ R3) as E23. pose proof (wmono_put _ _ _ _ H) as E34.
  assert (Hwf : centry_wf (CDynamic b nt)) by (split; [exact Qb|apply (refers_idx _ _ _ _ Q1)]).
  destruct (put_spec _ Hwf _ _ _ I3 H) as (_ & _ & Qx).
  apply ldenotes_dyn. exists b, nt, idxs. split; [exact Qx|].
  split. { eapply refers_mono; [|exact Q1]. destruct E12, E23, E34. eauto with pext. }
  split; [exact Hb0|]. split. { rewrite (put_keeps_bsm _ _ _ _ H). exact Hnth. }
  eapply Forall2_impl'; [|exact F2]. intros a i. apply ldenotes_mono.
  - destruct E23, E34. eauto with pext.
  - destruct E23 as [_ E23], E34 as [_ E34]. eapply bsm_ext_trans; eassumption.
Qed.

Lemma put_iconst_denotes k : iconst_ok k = true ->
  forall s x s', winv s -> put_iconst k s = WOK (x, s') -> idenotes (w_pool s') (w_bsm s') k x.
Proof.
  intros Hok s x s' Hi H. destruct k as [n|r|r|r|n d h args];
    try (destruct (put_iconst_refers _ Hok _ _ _ Hi H) as (_ & _ & Q); exact Q).
  cbn [iconst_ok] in Hok. apply andb_true_iff in Hok as [Hh Ha]. cbn [put_iconst] in H. unfold put_invoke_dynamic in H.
  apply bind_ok in H as (nt & s1 & R1 & H). destruct (put_nat_spec n d _ _ _ Hi R1) as (I1 & _ & Q1).
  assert (Hall : Forall den_at args) by (apply Forall_forall; intros a _; apply put_loadable_denotes).
  apply bind_ok in H as (idxs & s2 & R2 & H). destruct (args_denote args Hall Ha _ _ _ I1 R2) as (I2 & Qidx & F2).
  apply bind_ok in H as (b & s3 & R3 & H). destruct (put_bsm_entry_spec h idxs Hh Qidx _ _ _ I2 R3) as (I3 & _ & Qb).
  destruct (put_bsm_entry_nth _ _ _ _ R3) as (Hb0 & Hnth & _).
  assert (E12 : st_ext s1 s2). { revert R2. apply wmono_mapW. intros z _. apply wmono_put_loadable. }
  pose proof (wmono_put_bsm_entry _ _ _ _ R3) as E23. pose proof (wmono_put _ _ _ _ H) as E34.
  assert (Hwf : centry_wf (CInvokeDynamic b nt)) by (split; [exact Qb|apply (refers_idx _ _ _ _ Q1)]).
  destruct (put_spec _ Hwf _ _ _ I3 H) as (_ & _ & Qx).
  cbn [idenotes]. exists b, nt, idxs. split; [exact Qx|].
  split. { eapply refers_mono; [|exact Q1]. destruct E12, E23, E34. eauto with pext. }
  split; [exact Hb0|]. split. { rewrite (put_keeps_bsm _ _ _ _ H). exact Hnth. }
  eapply Forall2_impl'; [|exact F2]. intros a i. apply ldenotes_mono.
  - destruct E23, E34. eauto with pext.
  - destruct E23 as [_ E23], E34 as [_ E34]. eapply bsm_ext_trans; eassumption.
Qed.

(* ---- instructions ---- *)
Definition lowered2 (p : pool) (tbl : list bsment) (i : cinsn) (e : entry) : Prop :=
  match i with
  | ICp pre k post => exists x, e = Plain (pre ++ be16 x ++ post) /\ idenotes p tbl k x
  | ILdc l => exists x, e = Plain (ldc_bytes l x) /\ ldenotes p tbl l x
  | _ => True
  end.
Lemma lowered2_mono p p' tbl tbl' i e : pool_ext p p' -> bsm_ext tbl tbl' -> lowered2 p tbl i e -> lowered2 p' tbl' i e.
Proof.
  intros Hp Ht. destruct i; cbn [lowered2]; auto.
  - intros (x & H1 & H2). exists x. split; [exact H1|eapply idenotes_mono; eauto].
  - intros (x & H1 & H2). exists x. split; [exact H1|eapply ldenotes_mono; eauto].
Qed.
Lemma lower_insn_den i : cinsn_ok i = true ->
  forall s e s', winv s -> lower_insn i s = WOK (e, s') -> lowered2 (w_pool s') (w_bsm s') i e.
Proof.
  intros Hok s e s' Hi H. destruct i; cbn [lowered2]; try exact I; cbn [lower_insn cinsn_ok] in *.
  - apply bind_ok in H as (x & s1 & R & H). apply ret_ok in H as [-> ->]. exists x. split; [reflexivity|]. exact (put_iconst_denotes _ Hok _ _ _ Hi R).
  - apply bind_ok in H as (x & s1 & R & H). apply ret_ok in H as [-> ->]. exists x. split; [reflexivity|]. exact (put_loadable_denotes _ Hok _ _ _ Hi R).
Qed.
Lemma lower_all_den : forall (is : list (option label * option cframe * cinsn)),
  forallb (fun i => cinsn_ok (snd i)) is = true ->
  forall s es s', winv s -> mapW (fun i => e <- lower_insn (snd i) ;; ret (fst (fst i), e)) is s = WOK (es, s') ->
  winv s' /\ Forall2 (fun i le => lowered2 (w_pool s') (w_bsm s') (snd i) (snd le)) is es.
Proof.
  induction is as [|i is IH]; intros Hok s es s' Hi H; cbn [mapW] in H.
  - apply ret_ok in H as [-> ->]. split; [exact Hi|constructor].
  - cbn [forallb] in Hok. apply andb_true_iff in Hok as [A B].
    apply bind_ok in H as (le & s1 & R1 & H). apply bind_ok in H as (les & s2 & R2 & H). apply ret_ok in H as [-> Hs]. subst s2.
    apply bind_ok in R1 as (e & s0 & Re & R1). apply ret_ok in R1 as [-> Hs]. subst s1.
    destruct (lower_insn_spec _ A _ _ _ Hi Re) as (I0 & _ & _).
    destruct (IH B _ _ _ I0 R2) as (I2 & F).
    assert (E : st_ext s0 s'). { revert R2. apply wmono_mapW. intros z _. mo. }
    split; [exact I2|]. constructor; [|exact F]. cbn [snd]. destruct E as [Ep Eb].
    apply (lowered2_mono _ _ _ _ _ _ Ep Eb). exact (lower_insn_den _ A _ _ _ Hi Re).
Qed.

(* ---- the code array ---- *)
Definition operand_den (p : pool) (tbl : list bsment) (w : bytes) (q : Z) (i : cinsn) : Prop :=
  match i with
  | ICp pre k post => exists x, bytes_at w q (pre ++ be16 x ++ post) /\ idenotes p tbl k x
  | ILdc l => exists x, bytes_at w q (ldc_bytes l x) /\ ldenotes p tbl l x
  | _ => True
  end.
Lemma operand_den_mono p p' tbl tbl' w q i : pool_ext p p' -> bsm_ext tbl tbl' -> operand_den p tbl w q i -> operand_den p' tbl' w q i.
Proof.
  intros Hp Ht. destruct i; cbn [operand_den]; auto.
  - intros (x & H1 & H2). exists x. split; [exact H1|eapply idenotes_mono; eauto].
  - intros (x & H1 & H2). exists x. split; [exact H1|eapply ldenotes_mono; eauto].
Qed.

Definition code_den (p : pool) (tbl : list bsment) (c : ccode) (a : bytes * labmap * list Z) : Prop :=
  Forall2 (fun i q => operand_den p tbl (fst (fst a)) q (snd i)) (c_insns c) (snd a).
Lemma code_den_mono p p' tbl tbl' c a : pool_ext p p' -> bsm_ext tbl tbl' -> code_den p tbl c a -> code_den p' tbl' c a.
Proof. intros Hp Ht F. eapply Forall2_impl'; [|exact F]. intros i q. apply operand_den_mono; assumption. Qed.

Lemma code_tail_result c ms ml es w labs Wd s r s' :
  code_tail c ms ml es w labs Wd s = WOK (r, s') -> snd r = (w, labs, run_pos Wd 0%N init es).
Proof.
  unfold code_tail. intros H. apply bind_ok in H as (exc & s1 & _ & H). apply bind_ok in H as (attrs & s2 & _ & H).
  apply ret_ok in H as [-> _]. reflexivity.
Qed.

Theorem code_bootstrap c : ccode_ok c = true ->
  forall s r s', winv s -> write_code_attr c s = WOK (r, s') -> code_den (w_pool s') (w_bsm s') c (snd r).
Proof.
  intros Hok s r s' Hi H. unfold ccode_ok in Hok. bsplit. rewrite write_code_attr_unfold in H.
  destruct (c_max c) as [[ms ml]|]; [|discriminate].
  destruct (mapW _ (c_insns c) s) as [[es s1]|?c|] eqn:El; try discriminate.
  assert (Hcok : forallb (fun i => cinsn_ok (snd i)) (c_insns c) = true).
  { match goal with H : forallb _ (c_insns c) = true |- _ => rewrite forallb_forall in H; apply forallb_forall; intros i Hin; specialize (H i Hin) end.
    bsplit. assumption. }
  destruct (lower_all_den _ Hcok _ _ _ Hi El) as (I1 & Flow).
  destruct (lower_all_shape _ _ _ _ El) as [Hes _].
  destruct (wc_loop _ _ es (c_last c)) as [[[[w labs] Wd]| |]|] eqn:Ew; try discriminate.
  assert (Hu : unique_labels es (c_last c)).
  { unfold unique_labels. rewrite body_labels_map, Hes, <- insn_labels_map. apply nodupN_spec. assumption. }
  destruct (wc_loop_encode _ _ _ _ _ Hu Ew) as (Henc & Hpos & Hcl).
  rewrite (code_tail_result _ _ _ _ _ _ _ _ _ _ H). unfold code_den. cbn [fst snd].
  pose proof (wmono_code_tail _ _ _ _ _ _ _ _ _ _ H) as [Ep Eb].
  apply Forall2_nth.
  - rewrite Hpos, positions_length by exact Hcl. rewrite <- (map_length fst es), Hes, map_length. reflexivity.
  - intros k i q Hk Hq. destruct (Forall2_nth_inv _ _ _ _ _ Flow Hk) as ([lb e] & He & Hlo). cbn [snd] in Hlo. rewrite Hpos in Hq.
    apply (operand_den_mono _ _ _ _ _ _ _ Ep Eb).
    destruct (snd i) as [bs|pre kk post|rr|l|kd l|d lo hi ts|d ps]; cbn [operand_den lowered2] in *; try exact I.
    + destruct Hlo as (x & -> & Hx). exists x. split; [|exact Hx].
      destruct (encode_plain_at _ _ _ _ _ _ _ _ _ Henc He Hq) as (a & b & Hw & Hl). exists a, b. split; [exact Hw|lia].
    + destruct Hlo as (x & -> & Hx). exists x. split; [|exact Hx].
      destruct (encode_plain_at _ _ _ _ _ _ _ _ _ Henc He Hq) as (a & b & Hw & Hl). exists a, b. split; [exact Hw|lia].
Qed.

(* ---- methods ---- *)
Definition method_den (p : pool) (tbl : list bsment) (m : cmethod) (ca : code_aux) : Prop :=
  match md_code m, ca with
  | Some c, Some a => code_den p tbl c a
  | None, None => True
  | _, _ => False
  end.
Lemma method_den_mono p p' tbl tbl' m ca : pool_ext p p' -> bsm_ext tbl tbl' -> method_den p tbl m ca -> method_den p' tbl' m ca.
Proof. intros Hp Ht. unfold method_den. destruct (md_code m), ca; auto. apply code_den_mono; assumption. Qed.

Lemma write_method_den m : cmethod_ok m = true ->
  forall s r s', winv s -> write_method m s = WOK (r, s') -> method_den (w_pool s') (w_bsm s') m (snd r).
Proof.
  intros Hok s r s' Hi H. unfold cmethod_ok in Hok. bsplit. unfold write_method in H.
  apply bind_ok in H as (n & s1 & R1 & H). destruct (put_utf8_spec _ _ _ _ Hi R1) as (I1 & _ & _).
  apply bind_ok in H as (d & s2 & R2 & H). destruct (put_utf8_spec _ _ _ _ I1 R2) as (I2 & _ & _).
  apply bind_ok in H as (dep & s3 & R3 & H).
  assert (I3 : winv s3).
  { refine (proj1 (lseq_of AtMethod _ (leafs (fa_flag (md_deprecated m) ADeprecated) ++ leafs (fa_flag (md_synthetic m) ASynthetic)) _ _ _ _ I2 R3)).
    apply Forall2_app'.
    - apply (w_flag_spec AtMethod); [reflexivity|left; split; reflexivity].
    - apply (w_flag_spec AtMethod); [reflexivity|right; split; reflexivity]. }
  apply bind_ok in H as (code & s4 & R4 & H).
  assert (T : st_ext s4 s' /\ snd r = snd code).
  { apply bind_ok in H as (rest & s5 & R5 & H). apply bind_ok in H as (cnt & s6 & R6 & H). apply ret_ok in H as [-> Hs]. subst s6.
    split; [|reflexivity]. eapply st_ext_trans; [|apply (wmono_lift_res _ _ _ _ _ R6)]. revert R5. apply wmono_seqW.
    repeat apply in_app_P; try mfin.
    - apply wmono_oattr. intros l. apply wmono_wattr, wmono_wslice16. intros x _. apply wmono_idx16. auto with wmono.
    - apply wmono_oattr. intros e. apply wmono_wattr. auto with wmono.
    - apply wmono_oattr. intros l. apply wmono_wattr, wmono_wslice8. intros x _. mo. apply wmono_put_opt. auto with wmono. }
  destruct T as [[Ep Eb] ->]. unfold method_den.
  destruct (md_code m) as [c|].
  - apply bind_ok in R4 as (rc & s5 & Rc & R4). apply bind_ok in R4 as (i & s6 & Ri & R4). apply bind_ok in R4 as (a & s7 & Ra & R4).
    apply ret_ok in R4 as [-> Hs]. subst s7. cbn [snd].
    apply (code_den_mono (w_pool s5) _ (w_bsm s5)); [| |apply (code_bootstrap c ltac:(assumption) _ _ _ I3 Rc)].
    + eapply pool_ext_trans; [|exact Ep]. eapply pool_ext_trans; [apply (wmono_put_utf8 _ _ _ _ Ri)|apply (wmono_lift_res _ _ _ _ _ Ra)].
    + eapply bsm_ext_trans; [|exact Eb]. eapply bsm_ext_trans; [apply (wmono_put_utf8 _ _ _ _ Ri)|apply (wmono_lift_res _ _ _ _ _ Ra)].
  - apply ret_ok in R4 as [-> _]. exact I.
Qed.

Lemma methods_den : forall ms, forallb cmethod_ok ms = true ->
  forall s rs s', winv s -> mapW write_method ms s = WOK (rs, s') ->
  winv s' /\ Forall2 (fun m r => method_den (w_pool s') (w_bsm s') m (snd r)) ms rs.
Proof.
  induction ms as [|m ms IH]; intros Hok s rs s' Hi H; cbn [mapW] in H.
  - apply ret_ok in H as [-> ->]. split; [exact Hi|constructor].
  - cbn [forallb] in Hok. apply andb_true_iff in Hok as [A B].
    apply bind_ok in H as (r & s1 & R1 & H). apply bind_ok in H as (rs' & s2 & R2 & H). apply ret_ok in H as [-> Hs]. subst s2.
    destruct (write_method_spec m A _ _ _ Hi R1) as (I1 & _ & _).
    destruct (IH B _ _ _ I1 R2) as (I2 & F).
    assert (E : st_ext s1 s'). { revert R2. apply wmono_mapW. intros z _. apply wmono_write_method. }
    split; [exact I2|]. constructor; [|exact F]. destruct E as [Ep Eb].
    apply (method_den_mono _ _ _ _ _ _ Ep Eb). exact (write_method_den m A _ _ _ Hi R1).
Qed.

(* ---- the class ---- *)
Theorem bootstrap_resolves t bs aux :
  cclass_ok t = true -> write_class_aux t = WOK (bs, aux) ->
  Forall2 (method_den (a_pool aux) (a_bsm aux)) (k_methods t) (a_codes aux).
Proof.
  intros Hok Hw. pose proof Hok as Hok0. unfold cclass_ok in Hok. bsplit. okfacts.
  unfold write_class_aux in Hw.
  match type of Hw with match ?body wst_new with _ => _ end = _ => destruct (body wst_new) as [[[[rest codes] tbl] sF]|?c|] eqn:Hbody; try discriminate end.
  destruct (pool_bytes (w_pool sF)) as [pb|] eqn:Hpb; [|discriminate]. injection Hw as <- <-. cbn [a_pool a_bsm a_codes].
  apply bind_ok in Hbody as (this & s1 & R1 & Hbody). destruct (wspec_run _ _ _ _ _ (put_class_spec (k_name t)) winv_new R1) as (I1 & E1 & Q1).
  apply bind_ok in Hbody as (super & s2 & R2 & Hbody).
  destruct (wspec_run _ _ _ _ _ (put_opt_spec put_class get_class (k_super t) put_class_spec) I1 R2) as (I2 & E2 & Q2).
  apply bind_ok in Hbody as (ifs & s3 & R3 & Hbody).
  destruct (wspec_run _ _ _ _ _ (idx_list_spec put_class get_class (k_interfaces t) put_class_spec) I2 R3) as (I3 & E3 & Q3).
  apply bind_ok in Hbody as (fields & s4 & R4 & Hbody).
  assert (S4 : wspec (wslice16 write_field (k_fields t)) (fun p b => exists ys, mapO fa_field (k_fields t) = Some ys /\ decodes (fun c => p_list16 (p_member AtField c)) ys p b)).
  { apply wslice16_spec_gen. intros f Hin. match goal with H : forallb cfield_ok _ = true |- _ => rewrite forallb_forall in H; destruct (write_field_spec f (H _ Hin)) as (d & Hd & Hwf) end.
    eapply wspec_weaken; [exact Hwf|]. intros p b Hdec. exists d. split; assumption. }
  destruct (wspec_run _ _ _ _ _ S4 I3 R4) as (I4 & E4 & _).
  apply bind_ok in Hbody as (nm & s5 & R5 & Hbody). destruct (wspec_run _ _ _ _ _ (w_u16len_spec _) I4 R5) as (I5 & E5 & _).
  apply bind_ok in Hbody as (methods & s6 & R6 & Hbody).
  assert (Hms : forallb cmethod_ok (k_methods t) = true) by assumption.
  destruct (methods_den _ Hms _ _ _ I5 R6) as (I6 & F6).
  apply bind_ok in Hbody as (pre & s7 & R7 & Hbody).
  assert (E67 : st_ext s6 s7). { revert R7. apply wmono_seqW, wmono_class_pre. }
  apply bind_ok in Hbody as (tbl' & s8 & R8 & Hbody). injection R8 as <- <-.
  apply bind_ok in Hbody as (bsm & s9 & R9 & Hbody).
  assert (E79 : st_ext s7 s9). { revert R9. apply wmono_seqW, wmono_w_bootstrap. }
  apply bind_ok in Hbody as (unk & s10 & R10 & Hbody).
  assert (E910 : st_ext s9 s10). { revert R10. apply wmono_mapW. intros a _. unfold wunknown. auto with wmono. }
  apply bind_ok in Hbody as (cnt & s11 & R11 & Hbody). pose proof (wmono_lift_res _ _ _ _ _ R11) as E1011.
  apply ret_ok in Hbody as [Hret Hs]. subst s11. injection Hret as _ -> ->.
  clear -F6 E67 E79 E910 E1011. induction F6 as [|m r ms rs Hmr F IH]; cbn [map]; constructor; [|exact IH].
  apply (method_den_mono (w_pool s6) _ (w_bsm s6)); [| |exact Hmr].
  - destruct E67, E79, E910, E1011. eauto 8 with pext.
  - apply E67.
Qed.

(* the table of the theorem is the BootstrapMethods attribute the independent decoder finds in the file *)
Theorem bootstrap_table_written t aux d :
  facts_of t aux = Some d -> a_bsm aux <> [] -> In (ABootstrapMethods (a_bsm aux)) (d_attrs d).
Proof.
  unfold facts_of. destruct (mapO fa_field (k_fields t)); [|discriminate]. cbn [obind].
  destruct (mapO2 fa_method (k_methods t) (a_codes aux)); [|discriminate]. cbn [obind].
  destruct (fa_annots [] (k_annots t)); [|discriminate]. cbn [obind].
  destruct (mapO fa_record (k_record t)); [|discriminate]. cbn [obind].
  intros [= <-] Hne. cbn [d_attrs]. rewrite !in_app_iff. do 14 right. left.
  destruct (a_bsm aux); [contradiction|left; reflexivity].
Qed.

(* ---- example: an invokedynamic whose argument is a dynamic constant with its own bootstrap method ---- *)
Definition exb_h2 : handle := {| h_kind := 6; h_ref := {| mr_class := [66]%N; mr_name := [103]%N; mr_desc := [40; 41; 73]%N |}; h_iface := false |}.
Definition exb_insns : list (option label * option cframe * cinsn) :=
  [ (None, None, ICp [186]%N (KIndy [109]%N [40; 41; 86]%N ex_handle [LDynamic [99]%N [73]%N exb_h2 [LInt 5]; LInt 7]) [0; 0]%N);
    (None, None, ILdc (LDynamic [99]%N [73]%N exb_h2 [LInt 5]));
    (None, None, IRaw [177]%N) ].
Definition exb_class : cclass :=
  let m := {| md_access := 9; md_name := [109]%N; md_desc := [40; 41; 86]%N; md_deprecated := false; md_synthetic := false;
              md_code := Some {| c_max := Some (2, 0); c_insns := exb_insns; c_last := None; c_exceptions := []; c_lines := None; c_locals := None;
                                 c_tvis := []; c_tinvis := []; c_unknown := [] |};
              md_exceptions := None; md_signature := None; md_annots := {| an_vis := []; an_invis := []; an_tvis := []; an_tinvis := [] |};
              md_default := None; md_parameters := None; md_unknown := [] |} in
  {| k_minor := 0; k_major := 55; k_access := 33; k_name := [65]%N; k_super := None; k_interfaces := []; k_fields := []; k_methods := [m];
     k_deprecated := false; k_synthetic := false; k_inner := None; k_enclosing := None; k_signature := None; k_source_file := None;
     k_source_debug := None; k_annots := {| an_vis := []; an_invis := []; an_tvis := []; an_tinvis := [] |}; k_module := None;
     k_module_packages := None; k_module_main := None; k_nest_host := None; k_nest_members := None; k_permitted := None;
     k_record := []; k_unknown := [] |}.
Theorem bootstrap_example :
  cclass_ok exb_class = true /\
  exists bs aux, write_class_aux exb_class = WOK (bs, aux) /\ length (a_bsm aux) = 2%nat /\
    map fst (a_bsm aux) = [exb_h2; ex_handle] /\ map (fun e => length (snd e)) (a_bsm aux) = [1%nat; 2%nat].
Proof. split; [vm_compute; reflexivity|]. eexists. eexists. split; [vm_compute; reflexivity|]. repeat split; reflexivity. Qed.

(* ---- the statements in the form pinned in Props/C02.v ---- *)
Theorem bsm_only_grows :
  (forall e s i s', put_bsm_entry e s = WOK (i, s') ->
     0 <= i /\ nth_error (w_bsm s') (Z.to_nat i) = Some e /\ w_pool s' = w_pool s /\ exists r, w_bsm s' = w_bsm s ++ r) /\
  (forall l s i s', put_loadable l s = WOK (i, s') -> pool_ext (w_pool s) (w_pool s') /\ exists r, w_bsm s' = w_bsm s ++ r) /\
  (forall n d h a s i s', put_invoke_dynamic n d h a s = WOK (i, s') -> pool_ext (w_pool s) (w_pool s') /\ exists r, w_bsm s' = w_bsm s ++ r) /\
  (forall m s r s', write_method m s = WOK (r, s') -> pool_ext (w_pool s) (w_pool s') /\ exists r, w_bsm s' = w_bsm s ++ r).
Proof.
  split; [|split; [|split]].
  - intros e s i s' H. destruct (put_bsm_entry_nth _ _ _ _ H) as (H1 & H2 & H3). pose proof (wmono_put_bsm_entry _ _ _ _ H) as [_ H4]. auto.
  - intros l s i s' H. exact (wmono_put_loadable _ _ _ _ H).
  - intros n d h a s i s' H. exact (wmono_put_invoke_dynamic _ _ _ _ _ _ _ H).
  - intros m s r s' H. exact (wmono_write_method _ _ _ _ H).
Qed.

Theorem bootstrap_resolves_explicit t bs aux :
  cclass_ok t = true -> write_class_aux t = WOK (bs, aux) ->
  Forall2 (fun m ca =>
    match md_code m, ca with
    | Some c, Some (w, labs, pos) =>
        Forall2 (fun i q =>
          match snd i with
          | ICp pre (KIndy n d h args) post =>
              exists x b nt idxs, bytes_at w q (pre ++ be16 x ++ post) /\ resolves (a_pool aux) x (CInvokeDynamic b nt) /\
                refers get_nat (n, d) (a_pool aux) nt /\ 0 <= b /\ nth_error (a_bsm aux) (Z.to_nat b) = Some (h, idxs) /\
                Forall2 (ldenotes (a_pool aux) (a_bsm aux)) args idxs
          | ILdc l => exists x, bytes_at w q (ldc_bytes l x) /\ ldenotes (a_pool aux) (a_bsm aux) l x
          | _ => True
          end) (c_insns c) pos
    | None, None => True
    | _, _ => False
    end) (k_methods t) (a_codes aux).
Proof.
  intros Hok Hw. eapply Forall2_impl'; [|exact (bootstrap_resolves t bs aux Hok Hw)].
  intros m ca. unfold method_den. destruct (md_code m) as [c|], ca as [[[w labs] pos]|]; auto.
  unfold code_den. cbn [fst snd]. intros F. eapply Forall2_impl'; [|exact F]. intros i q H. cbv beta in H.
  destruct (snd i) as [bs0|pre kk post|rr|l|kd l|d lo hi ts|d ps]; cbn [operand_den] in H; try exact I.
  - destruct kk as [n|r|r|r|n d h args]; try exact I. destruct H as (x & Hb & (b & nt & idxs & H1 & H2 & H3 & H4 & H5)).
    exists x, b, nt, idxs. auto 10.
  - exact H.
Qed.
