(* C17 — theory, part 8: the event equivalence of the replay theorems and generic list lemmas.

   Reading delivers the attributes of one item in FILE order (and the flags after them); accept()
   delivers them in its own fixed order (flags first).  The equivalence therefore compares

     - the attribute-level events of one item (class, field, method, Code, record component) as a
       multiset: [perm_rel R a b] = some permutation of [a] is related to [b] element by element;
     - a Code event with the same max_stack / max_locals / frames and equivalent attribute events,
       a record component event with the same index, name, descriptor and equivalent events;
     - a table visited after the loop by the rows it holds ([same_rows]: an attribute without rows
       contributes no row, so it is not part of what a visitor can observe);
     - the fields in order and the methods in order, each with its index, header and equivalent events. *)
From Coq Require Import Permutation.
From FB Require Import C17.Model C17.Struct C17.Replay.

(* ---------- permutation up to a relation ---------- *)
Definition perm_rel {A} (R : A -> A -> Prop) (a b : list A) : Prop :=
  exists a', Permutation a a' /\ Forall2 R a' b.

Lemma perm_rel_nil {A} (R : A -> A -> Prop) : perm_rel R [] [].
Proof. exists []. split; constructor. Qed.

Lemma perm_rel_app {A} (R : A -> A -> Prop) a b c d :
  perm_rel R a b -> perm_rel R c d -> perm_rel R (a ++ c) (b ++ d).
Proof.
  intros (a' & Pa & Fa) (c' & Pc & Fc). exists (a' ++ c'). split.
  - apply Permutation_app; assumption.
  - apply Forall2_app; assumption.
Qed.

Lemma perm_rel_perm_l {A} (R : A -> A -> Prop) a a0 b :
  Permutation a a0 -> perm_rel R a0 b -> perm_rel R a b.
Proof. intros P (a' & Pa & Fa). exists a'. split; [eapply Permutation_trans; eassumption|assumption]. Qed.

Lemma perm_rel_of_Forall2 {A} (R : A -> A -> Prop) a b : Forall2 R a b -> perm_rel R a b.
Proof. intros F. exists a. split; [apply Permutation_refl|assumption]. Qed.

Lemma perm_rel_refl {A} (R : A -> A -> Prop) : (forall x, R x x) -> forall a, perm_rel R a a.
Proof.
  intros Hr a. apply perm_rel_of_Forall2. induction a; constructor; auto.
Qed.

(* one more contribution [x] somewhere in the middle on the left, at the end on the right *)
Lemma perm_rel_insert {A} (R : A -> A -> Prop) a1 a2 x b y :
  perm_rel R (a1 ++ a2) b -> Forall2 R x y -> perm_rel R (a1 ++ x ++ a2) (b ++ y).
Proof.
  intros H F. apply perm_rel_perm_l with ((a1 ++ a2) ++ x).
  - rewrite <- app_assoc. apply Permutation_app_head. apply Permutation_app_comm.
  - apply perm_rel_app; [assumption|apply perm_rel_of_Forall2; assumption].
Qed.

Lemma perm_rel_weaken {A} (R S : A -> A -> Prop) a b :
  (forall x y, In y b -> R x y -> S x y) -> perm_rel R a b -> perm_rel S a b.
Proof.
  intros H (a' & P & F). exists a'. split; [assumption|].
  clear P. induction F as [|x y l l' Hxy F IH]; constructor.
  - apply H; [left; reflexivity|assumption].
  - apply IH. intros u w Hw. apply H. right; assumption.
Qed.

(* ---------- the equivalence of events ---------- *)
Definition opt_rel {A} (R : A -> A -> Prop) (a b : option A) : Prop :=
  match a, b with Some x, Some y => R x y | None, None => True | _, _ => False end.

(* the rows two tables hold: the same parsed rows, in the same order, each from the same kind of attribute
   (how the rows are grouped into attributes is not something a visitor is told) *)
Definition same_rows (a b : list (str * list row)) : Prop := flat_rows a = flat_rows b.

(* events without nested events: EAttr, EFlags, EDeferred *)
Definition sim_leaf (a b : ev) : Prop :=
  match a, b with
  | EDeferred s1 l1, EDeferred s2 l2 => s1 = s2 /\ same_rows l1 l2
  | _, _ => a = b
  end.
Definition sim_leaves : list ev -> list ev -> Prop := perm_rel sim_leaf.

(* one attribute-level event of a method or a class *)
Definition sim_item (a b : ev) : Prop :=
  match a, b with
  | ECode a1 ms1 ml1 fs1 xr1 es1, ECode a2 ms2 ml2 fs2 xr2 es2 =>
      a1 = a2 /\ ms1 = ms2 /\ ml1 = ml2 /\ fs1 = fs2 /\ xr1 = xr2 /\ sim_leaves es1 es2
  | ERc a1 k1 n1 d1 es1, ERc a2 k2 n2 d2 es2 =>
      a1 = a2 /\ k1 = k2 /\ n1 = n2 /\ d1 = d2 /\ opt_rel sim_leaves es1 es2
  | _, _ => sim_leaf a b
  end.
Definition sim_items : list ev -> list ev -> Prop := perm_rel sim_item.

Definition sim_member (a b : ev) : Prop :=
  match a, b with
  | EField k1 a1 n1 d1 es1, EField k2 a2 n2 d2 es2 =>
      k1 = k2 /\ a1 = a2 /\ n1 = n2 /\ d1 = d2 /\ opt_rel sim_items es1 es2
  | EMethod k1 a1 n1 d1 es1, EMethod k2 a2 n2 d2 es2 =>
      k1 = k2 /\ a1 = a2 /\ n1 = n2 /\ d1 = d2 /\ opt_rel sim_items es1 es2
  | _, _ => False
  end.

Definition is_field (e : ev) : bool := match e with EField _ _ _ _ _ => true | _ => false end.
Definition is_method (e : ev) : bool := match e with EMethod _ _ _ _ _ => true | _ => false end.
Definition is_attr_level (e : ev) : bool := negb (is_field e || is_method e).

(* what two visitors saw of one class *)
Definition sim_trace (a b : option (list ev)) : Prop :=
  opt_rel (fun x y =>
             sim_items (filter is_attr_level x) (filter is_attr_level y)
             /\ Forall2 sim_member (filter is_field x) (filter is_field y)
             /\ Forall2 sim_member (filter is_method x) (filter is_method y)) a b.

Lemma sim_leaf_refl e : sim_leaf e e.
Proof. destruct e; cbn; try reflexivity. split; reflexivity. Qed.

Definition leaf_ev (e : ev) : bool :=
  match e with EAttr _ _ _ | EFlags _ _ | EDeferred _ _ => true | _ => false end.

Lemma sim_item_leaf a b : leaf_ev b = true -> sim_item a b -> sim_leaf a b.
Proof. destruct b; try discriminate; intros _; destruct a; cbn; auto. Qed.

Lemma sim_leaf_item a b : leaf_ev b = true -> sim_leaf a b -> sim_item a b.
Proof. destruct b; try discriminate; intros _; destruct a; cbn; auto. Qed.

Lemma sim_items_leaves a b : forallb leaf_ev b = true -> sim_items a b -> sim_leaves a b.
Proof.
  intros Hb. apply perm_rel_weaken. intros x y Hy. apply sim_item_leaf.
  rewrite forallb_forall in Hb. apply Hb. exact Hy.
Qed.

(* ---------- small list facts ---------- *)
Lemma filter_all_true {A} (f : A -> bool) l : (forall x, In x l -> f x = true) -> filter f l = l.
Proof.
  induction l as [|x l IH]; intros H; [reflexivity|]. cbn [filter].
  rewrite (H x (or_introl eq_refl)). f_equal. apply IH. intros y Hy. apply H. right; exact Hy.
Qed.
Lemma filter_all_false {A} (f : A -> bool) l : (forall x, In x l -> f x = false) -> filter f l = [].
Proof.
  induction l as [|x l IH]; intros H; [reflexivity|]. cbn [filter].
  rewrite (H x (or_introl eq_refl)). apply IH. intros y Hy. apply H. right; exact Hy.
Qed.

Lemma flat_map_ext_in {A B} (f g : A -> list B) l : (forall x, In x l -> f x = g x) -> flat_map f l = flat_map g l.
Proof.
  induction l as [|x l IH]; intros H; [reflexivity|]. cbn [flat_map].
  rewrite (H x (or_introl eq_refl)), IH; [reflexivity|]. intros y Hy. apply H. right; exact Hy.
Qed.

Lemma filter_flat_map {A B} (p : B -> bool) (f : A -> list B) l :
  filter p (flat_map f l) = flat_map (fun x => filter p (f x)) l.
Proof.
  induction l as [|x l IH]; [reflexivity|]. cbn [flat_map]. rewrite filter_app, IH. reflexivity.
Qed.
