(* C17 — the vocabulary of the generated attribute tables (AttrTable.v is data over these types).

   One [arm] is one arm of a `match attribute_name.as_java_str() { … }` in
   duke/src/class_reader.rs:

       name if name == attribute::X && !interests.y => reader.skip(length as i64)?,   PName X, GNotInterested y, ASkip
       name if name == attribute::X => { … }                                          PName X, GAlways, <action of the body>
       _ if !interests.unknown_attributes => reader.skip(length as i64)?,             PAny, GNotInterested …, ASkip
       _ => { read_u8_vec(length) … visit_unknown_attribute }                         PAny, GAlways, AReadLen true

   Arms are tried in order, exactly like the Rust match. *)
From FB Require Export Base.Str.

Inductive pat := PName (name : str) | PAny.
Inductive guard := GAlways | GNotInterested (flag : str).

(* how a grammar-parsed attribute reaches the visitor *)
Inductive deliv :=
| DNow                                (* a visit_* / finish_* call inside the arm *)
| DStore (slot : str) (once : bool).  (* kept in a local variable of the reader; [once] = insert_if_empty
                                         (a second attribute filling the same slot is an error) *)

Inductive action :=
| ASkip                               (* reader.skip(length) *)
| AFlag (which : N)                   (* 0: is_deprecated = true, 1: is_synthetic = true; consumes nothing *)
| AParse (d : deliv)                  (* the body is parsed by its own grammar; `length` is not consulted *)
| AReadLen (unknown : bool)           (* read_u8_vec(length): exactly `length` bytes are read and delivered;
                                         unknown = true: visit_unknown_attribute, false: a named visit *)
| ACode (skip_on_decline : bool)      (* visit_code(): Some => read_code, None => skip(length) or nothing *)
| ARecord (once : bool).              (* components_length × read_record_component *)

Record arm := mkArm { a_pat : pat; a_guard : guard; a_act : action }.

(* one attribute loop of the reader *)
Record ctx_table := mkCtx {
  t_arms : list arm;
  t_flags_event : bool;         (* visit_deprecated_and_synthetic_attribute after the loop *)
  t_deferred : list str;        (* slots delivered after the loop when filled (code: line_number_table) *)
  t_interests : list str;       (* fields of the context's *Interests struct, in declaration order *)
}.

Record reader_tables := mkTables {
  rt_class : ctx_table;
  rt_field : ctx_table;
  rt_method : ctx_table;
  rt_code : ctx_table;
  rt_rc : ctx_table;
  (* ControlFlow::Break(visitor) => { skip_attributes(reader)?; Ok(visitor) } present in that function *)
  rt_break_class : bool;
  rt_break_field : bool;
  rt_break_method : bool;
  rt_break_rc : bool;
  rt_skip_attributes_ok : bool; (* fn skip_attributes has the expected count / (u16,u32,skip) loop shape *)
  rt_member_header : N;         (* reader.skip(2 + 2 + 2) in the first pass over fields and methods *)
  rt_honours_fields : bool;     (* second pass: `if interests.fields { read_field } else { skip(header); skip_attributes }` *)
  rt_honours_methods : bool;
}.
