(* C17 — theory, part 3: class files as nested records of attributes with explicit lengths, their
   encoding, the well-formedness predicate, and the position theorem: whatever the visitor skips
   or declines, a read consumes exactly the bytes of one class. *)
From FB Require Import C17.Model C17.Theory C17.Theory2.

Arguments N.add : simpl never.
Arguments N.mul : simpl never.
Arguments N.div : simpl never.
Arguments N.modulo : simpl never.

(* the bodies that are parsed by their own grammar: the grammar consumes exactly the declared length *)
Definition g_resp_plain (g : grammar) (p : pool) (ct : ctx_table) (a : pattr) : Prop :=
  forall name d r, pool_utf8 p (p_nidx a) = Some name -> act_full ct name = Some (AParse d) ->
    g name (p_len a) (p_body a ++ r) = Some (p_len a).

Definition g_resp_attr (g : grammar) (p : pool) (T : reader_tables) (ct : ctx_table) (a : attr) : Prop :=
  match a with
  | AtPlain pa => g_resp_plain g p ct pa
  | AtCode _ _ _ _ _ _ _ attrs => Forall (g_resp_plain g p (rt_code T)) attrs
  | AtRecord _ _ comps => Forall (fun c => Forall (g_resp_plain g p (rt_rc T)) (snd c)) comps
  end.

Record wf (g : grammar) (T : reader_tables) (c : cls) (h : header) : Prop := mkWf {
  wf_hdr : forall r, read_header (c_hdr c ++ r) = Ok (h, r);
  wf_fields : forallb (wf_member_b (h_pool h) T KLeaf (rt_field T)) (c_fields c) = true;
  wf_methods : forallb (wf_member_b (h_pool h) T KMethod (rt_method T)) (c_methods c) = true;
  wf_cattrs : wf_attrs_b (h_pool h) T KClass (rt_class T) (c_attrs c) = true;
  wf_g_fields : Forall (fun m => Forall (g_resp_attr g (h_pool h) T (rt_field T)) (m_attrs m)) (c_fields c);
  wf_g_methods : Forall (fun m => Forall (g_resp_attr g (h_pool h) T (rt_method T)) (m_attrs m)) (c_methods c);
  wf_g_cattrs : Forall (g_resp_attr g (h_pool h) T (rt_class T)) (c_attrs c);
}.

(* for the grammar of the correspondence run the g-hypotheses follow from the boolean check *)
Lemma g_len_resp p ct a : wf_plain_b p ct a = true -> g_resp_plain g_len p ct a.
Proof. intros _ name d r _ _. reflexivity. Qed.

(* ---------- honest lengths: skip_attributes steps over an encoded attribute list ---------- *)
Definition honest (a : attr) : Prop := attr_len a = elen (attr_body a).

Lemma wf_plain_honest p ct a : wf_plain_b p ct a = true -> p_len a = elen (p_body a).
Proof.
  unfold wf_plain_b. destruct (pool_utf8 p (p_nidx a)); [|discriminate].
  intros H. apply andb_prop in H as [H _]. apply N.eqb_eq in H. exact H.
Qed.

Lemma wf_attr_honest p T k ct a : wf_attr_b p T k ct a = true -> honest a.
Proof.
  destruct a as [pa | nidx len ms ml code nexc exc attrs | nidx len comps]; unfold honest; cbn [wf_attr_b attr_len attr_body].
  - apply wf_plain_honest.
  - intros H. repeat (apply andb_prop in H as [H ?]).
    match goal with E : (len =? _) = true |- _ => apply N.eqb_eq in E; exact E end.
  - intros H. repeat (apply andb_prop in H as [H ?]).
    match goal with E : (len =? _) = true |- _ => apply N.eqb_eq in E; exact E end.
Qed.

Lemma skip_attrs_loop_ok l : Forall honest l -> forall rest,
  skip_attrs_loop (length l) (flat_map enc_attr l ++ rest) = Ok rest.
Proof.
  induction 1 as [|a l Ha _ IH]; intros rest; [reflexivity|].
  cbn [length skip_attrs_loop flat_map]. unfold enc_attr at 1.
  rewrite <- !app_assoc, rd16_e16, rd32_e32.
  rewrite (skipN_app_eq (attr_body a) _ _ Ha). apply IH.
Qed.

Lemma skip_attributes_ok l rest : Forall honest l -> skip_attributes (enc_attrs l ++ rest) = Ok rest.
Proof.
  intros H. unfold skip_attributes, enc_attrs. rewrite <- app_assoc, rd16_e16, to_nat_elen.
  apply skip_attrs_loop_ok. exact H.
Qed.

Lemma honest_plain_list p ct l : forallb (wf_plain_b p ct) l = true -> Forall honest (map AtPlain l).
Proof.
  induction l as [|a l IH]; cbn [forallb map]; intros H; constructor.
  - apply andb_prop in H as [H _]. unfold honest. cbn. eapply wf_plain_honest; eauto.
  - apply andb_prop in H as [_ H]. auto.
Qed.

Lemma flat_map_plain l : flat_map enc_attr (map AtPlain l) = flat_map enc_pattr l.
Proof. induction l as [|a l IH]; [reflexivity|]. cbn [map flat_map]. rewrite IH. reflexivity. Qed.

Lemma enc_pattrs_attrs l : enc_pattrs l = enc_attrs (map AtPlain l).
Proof. unfold enc_pattrs, enc_attrs, elen. rewrite map_length, flat_map_plain. reflexivity. Qed.

Lemma skip_pattrs_ok p ct l rest : forallb (wf_plain_b p ct) l = true -> skip_attributes (enc_pattrs l ++ rest) = Ok rest.
Proof. intros H. rewrite enc_pattrs_attrs. apply skip_attributes_ok. eapply honest_plain_list; eauto. Qed.

Lemma wf_attrs_honest p T k ct l : forallb (wf_attr_b p T k ct) l = true -> Forall honest l.
Proof.
  induction l as [|a l IH]; cbn [forallb]; intros H; constructor.
  - apply andb_prop in H as [H _]. eapply wf_attr_honest; eauto.
  - apply andb_prop in H as [_ H]. auto.
Qed.

(* the first pass of `read` over the members *)
Lemma skip6 a b c r : skipN (e16 a ++ e16 b ++ e16 c ++ r) 6 = Ok r.
Proof. unfold e16. cbn. destruct r; reflexivity. Qed.

Lemma skip_members_loop_ok p T k ct l : forallb (wf_member_b p T k ct) l = true -> forall rest,
  skip_members_loop 6 (length l) (flat_map enc_member l ++ rest) = Ok rest.
Proof.
  induction l as [|m l IH]; intros H rest; [reflexivity|].
  cbn [forallb] in H. apply andb_prop in H as [Hm Hl].
  cbn [length skip_members_loop flat_map]. unfold enc_member at 1.
  rewrite <- !app_assoc, skip6.
  unfold wf_member_b, wf_attrs_b in Hm. apply andb_prop in Hm as [Hm _]. apply andb_prop in Hm as [Hm _].
  rewrite skip_attributes_ok by (eapply wf_attrs_honest; eauto).
  apply IH. exact Hl.
Qed.

Lemma skip_members_ok p T k ct l rest : forallb (wf_member_b p T k ct) l = true ->
  skip_members 6 (enc_members l ++ rest) = Ok rest.
Proof.
  intros H. unfold skip_members, enc_members. rewrite <- app_assoc, rd16_e16, to_nat_elen.
  eapply skip_members_loop_ok; eauto.
Qed.

(* ---------- the specification: what a visitor receives, computed from the structure ---------- *)
Definition act_under (ct : ctx_table) (m : mask) (name : str) : option action :=
  if keep (t_arms ct) m name then act_full ct name else Some ASkip.

Definition plain_result (act : option action) (name : str) (a : pattr) (st : lstate) : lstate :=
  match act with
  | Some (AFlag w) => mkL (l_events st) (if w =? 0 then true else l_dep st) (if w =? 0 then l_syn st else true)
                          (l_slots st) (l_record st) (l_rc st)
  | Some (AParse DNow) => l_emit st (EAttr name false (p_body a))
  | Some (AParse (DStore s _)) => mkL (l_events st) (l_dep st) (l_syn st) ((s, (name, p_body a)) :: l_slots st) (l_record st) (l_rc st)
  | Some (AReadLen _) => l_emit st (EAttr name true (p_body a))
  | _ => st
  end.

Definition spec_plain (p : pool) (ct : ctx_table) (m : mask) (st : lstate) (a : pattr) : lstate :=
  match pool_utf8 p (p_nidx a) with
  | Some name => plain_result (act_under ct m name) name a st
  | None => st
  end.
Definition spec_plains (p : pool) (ct : ctx_table) (m : mask) (l : list pattr) (st : lstate) : lstate :=
  fold_left (spec_plain p ct m) l st.

Definition spec_code (p : pool) (T : reader_tables) (cm : mask) (attr : str) (ms ml : N) (xr : list row) (attrs : list pattr) : ev :=
  let st := spec_plains p (rt_code T) cm attrs l_init in
  ECode attr ms ml (frame_sources st) xr (loop_events (rt_code T) cm st).

Definition spec_rc (p : pool) (T : reader_tables) (v : visitor) (attr : str) (k : nat) (c : N * N * list pattr) : ev :=
  ERc attr k (fst (fst c)) (snd (fst c))
    (match v_rc v k with
     | Some m => Some (loop_events (rt_rc T) m (spec_plains p (rt_rc T) m (snd c) l_init))
     | None => None
     end).

Definition push_rc (p : pool) (T : reader_tables) (v : visitor) (attr : str) (st : lstate) (c : N * N * list pattr) : lstate :=
  mkL (spec_rc p T v attr (l_rc st) c :: l_events st) (l_dep st) (l_syn st) (l_slots st) (l_record st) (S (l_rc st)).
Definition spec_rcs (p : pool) (T : reader_tables) (v : visitor) (attr : str) (comps : list (N * N * list pattr)) (st : lstate) : lstate :=
  fold_left (push_rc p T v attr) comps st.

Definition set_record (st : lstate) : lstate := mkL (l_events st) (l_dep st) (l_syn st) (l_slots st) true (l_rc st).

Definition spec_attr (p : pool) (T : reader_tables) (v : visitor) (ct : ctx_table) (m : mask) (kc : option mask)
    (st : lstate) (a : attr) : lstate :=
  match a with
  | AtPlain pa => spec_plain p ct m st pa
  | AtCode nidx _ ms ml _ nexc exc attrs =>
      match pool_utf8 p nidx with
      | Some name =>
          if keep (t_arms ct) m name
          then l_emit st (match kc with Some cm => spec_code p T cm name ms ml (exc_rows nexc exc) attrs | None => ECodeDeclined name end)
          else st
      | None => st
      end
  | AtRecord nidx _ comps =>
      match pool_utf8 p nidx with
      | Some name => if keep (t_arms ct) m name then spec_rcs p T v name comps (set_record st) else st
      | None => st
      end
  end.
Definition spec_attrs (p : pool) (T : reader_tables) (v : visitor) (ct : ctx_table) (m : mask) (kc : option mask)
    (l : list attr) (st : lstate) : lstate :=
  fold_left (spec_attr p T v ct m kc) l st.

Definition spec_field (p : pool) (T : reader_tables) (v : visitor) (k : nat) (mb : member) : ev :=
  EField k (m_access mb) (m_name mb) (m_desc mb)
    (match v_field v k with
     | Some m => Some (loop_events (rt_field T) m (spec_attrs p T v (rt_field T) m None (m_attrs mb) l_init))
     | None => None
     end).
Definition spec_method (p : pool) (T : reader_tables) (v : visitor) (k : nat) (mb : member) : ev :=
  EMethod k (m_access mb) (m_name mb) (m_desc mb)
    (match v_method v k with
     | Some m => Some (loop_events (rt_method T) m (spec_attrs p T v (rt_method T) m (v_code v k) (m_attrs mb) l_init))
     | None => None
     end).

Fixpoint spec_members (skip : bool) (f : nat -> member -> ev) (k : nat) (l : list member) : list ev :=
  match l with
  | [] => []
  | mb :: l' => (if skip then [] else [f k mb]) ++ spec_members skip f (S k) l'
  end.

Definition spec_class (T : reader_tables) (v : visitor) (h : header) (c : cls) : option (list ev) :=
  if v_accept_class v then
    Some (loop_events (rt_class T) (v_class v) (spec_attrs (h_pool h) T v (rt_class T) (v_class v) None (c_attrs c) l_init)
          ++ spec_members (rt_honours_fields T && negb (interested (v_class v) FIELDS)) (spec_field (h_pool h) T v) 0 (c_fields c)
          ++ spec_members (rt_honours_methods T && negb (interested (v_class v) METHODS)) (spec_method (h_pool h) T v) 0 (c_methods c))
  else None.
