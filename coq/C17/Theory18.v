(* C17 — theory, part 18: WHERE a visitor is handed WHICH attribute, and with which parsed value.

   [attr_at t pl e]: in trace t the visitor at place pl (the class visitor, the visitor of the k-th field / method,
   the code visitor of the k-th method, the visitor of the k-th record component) receives the attribute event e.
   The events carry the attribute's body; [attr_value] (Values.v) is the parsed value the visitor is handed for it
   (annotations as element_value trees, AnnotationDefault, Signature, SourceFile).

     - [project_attr_at]: the projection hands a place exactly the attributes the full trace hands it, provided the
       visitor wants them there ([wanted]: class and member accepted, the interest flags that govern the attribute
       and the items around it) — nothing else, nothing changed;
     - [sim_attr_at]: traces equivalent in the sense of the replay theorems hand every place the same attributes;
     - with the theorems of parts 4, 6, 13 and 14: what a partial or declining visitor READS, and what it is handed
       when the tree is REPLAYED into it, are the same attribute bodies, hence the same parsed values, as the full
       read reports for that place ([read_values_projection], [replay_values], [replay_values_known]). *)
From Coq Require Import Permutation PeanoNat.
From FB Require Import C17.Model C17.Theory C17.Theory2 C17.Theory3 C17.Theory4 C17.Theory5 C17.Struct C17.Replay
  C17.Theory6 C17.Theory8 C17.Theory9 C17.Theory10 C17.Theory11 C17.Theory13 C17.Theory14 C17.Theory15 C17.Theory16 C17.Theory7 C17.AttrTable C17.AcceptTable
  C17.Values C17.ValuesGen C17.Theory17.

Inductive place :=
| PClass
| PField (k : nat)
| PMethod (k : nat)
| PCode (k : nat) (attr : str)      (* the Code attribute (name attr) of the k-th method *)
| PRc (k : nat) (attr : str).       (* the k-th record component (of the attribute named attr: Record) *)

Definition attr_at (t : option (list ev)) (pl : place) (e : ev) : Prop :=
  exists es, t = Some es /\
  match pl with
  | PClass => In e es
  | PField k => exists a n d fes, In (EField k a n d (Some fes)) es /\ In e fes
  | PMethod k => exists a n d mes, In (EMethod k a n d (Some mes)) es /\ In e mes
  | PCode k attr => exists a n d mes ms ml fs xr ces,
      In (EMethod k a n d (Some mes)) es /\ In (ECode attr ms ml fs xr ces) mes /\ In e ces
  | PRc k attr => exists n d res, In (ERc attr k n d (Some res)) es /\ In e res
  end.

(* ---------- equivalent traces ---------- *)
Lemma sim_item_attr_l n r b y : sim_item (EAttr n r b) y -> y = EAttr n r b.
Proof. destruct y; cbn [sim_item sim_leaf]; intros H; symmetry; exact H. Qed.
Lemma sim_item_attr_r n r b x : sim_item x (EAttr n r b) -> x = EAttr n r b.
Proof. destruct x; cbn [sim_item sim_leaf]; intros H; exact H. Qed.
Lemma sim_leaf_attr_l n r b y : sim_leaf (EAttr n r b) y -> y = EAttr n r b.
Proof. destruct y; cbn [sim_leaf]; intros H; symmetry; exact H. Qed.
Lemma sim_leaf_attr_r n r b x : sim_leaf x (EAttr n r b) -> x = EAttr n r b.
Proof. destruct x; cbn [sim_leaf]; intros H; exact H. Qed.

Lemma sim_items_attr_l x y n r b : sim_items x y -> In (EAttr n r b) x -> In (EAttr n r b) y.
Proof. intros H Hin. destruct (perm_rel_in_l _ _ _ _ H Hin) as (e & He & Hs). rewrite (sim_item_attr_l _ _ _ _ Hs) in He. exact He. Qed.
Lemma sim_items_attr_r x y n r b : sim_items x y -> In (EAttr n r b) y -> In (EAttr n r b) x.
Proof. intros H Hin. destruct (perm_rel_in_r _ _ _ _ H Hin) as (e & He & Hs). rewrite (sim_item_attr_r _ _ _ _ Hs) in He. exact He. Qed.
Lemma sim_leaves_attr_l x y n r b : sim_leaves x y -> In (EAttr n r b) x -> In (EAttr n r b) y.
Proof. intros H Hin. destruct (perm_rel_in_l _ _ _ _ H Hin) as (e & He & Hs). rewrite (sim_leaf_attr_l _ _ _ _ Hs) in He. exact He. Qed.
Lemma sim_leaves_attr_r x y n r b : sim_leaves x y -> In (EAttr n r b) y -> In (EAttr n r b) x.
Proof. intros H Hin. destruct (perm_rel_in_r _ _ _ _ H Hin) as (e & He & Hs). rewrite (sim_leaf_attr_r _ _ _ _ Hs) in He. exact He. Qed.

Lemma in_filter_attr_level e es : is_attr_level e = true -> In e es -> In e (filter is_attr_level es).
Proof. intros H Hin. apply filter_In. split; assumption. Qed.
Lemma in_filter_field k a n d es0 es : In (EField k a n d es0) es -> In (EField k a n d es0) (filter is_field es).
Proof. intros H. apply filter_In. split; [exact H|reflexivity]. Qed.

Lemma sim_attr_at_l x y : sim_trace (Some x) (Some y) ->
  forall pl n r b, attr_at (Some x) pl (EAttr n r b) -> attr_at (Some y) pl (EAttr n r b).
Proof.
  cbn [sim_trace opt_rel]. intros (Ha & Hf & Hm) pl n r b (es & [= <-] & H). exists y. split; [reflexivity|].
  destruct pl as [|k|k|k attr|k attr].
  - pose proof (sim_items_attr_l _ _ _ _ _ Ha (in_filter_attr_level (EAttr n r b) _ eq_refl H)) as H1.
    apply filter_In in H1 as [H1 _]. exact H1.
  - destruct H as (a & nn & d & fes & Hin & He).
    destruct (Forall2_in_l _ _ _ _ Hf (in_filter_field _ _ _ _ _ _ Hin)) as (e' & He' & Hs).
    apply filter_In in He' as [He' _].
    destruct e' as [| | | | | |k' a' n' d' es'|]; cbn [sim_member] in Hs; try contradiction.
    destruct Hs as (<- & <- & <- & <- & Ho). destruct es' as [fes'|]; cbn [opt_rel] in Ho; [|contradiction].
    exists a, nn, d, fes'. split; [exact He'|exact (sim_items_attr_l _ _ _ _ _ Ho He)].
  - destruct H as (a & nn & d & mes & Hin & He).
    destruct (Forall2_in_l _ _ _ _ Hm (in_filter_method _ _ _ _ _ _ Hin)) as (e' & He' & Hs).
    apply filter_In in He' as [He' _].
    destruct e' as [| | | | | | |k' a' n' d' es']; cbn [sim_member] in Hs; try contradiction.
    destruct Hs as (<- & <- & <- & <- & Ho). destruct es' as [mes'|]; cbn [opt_rel] in Ho; [|contradiction].
    exists a, nn, d, mes'. split; [exact He'|exact (sim_items_attr_l _ _ _ _ _ Ho He)].
  - destruct H as (a & nn & d & mes & ms & ml & fs & xr & ces & Hin & Hc & He).
    destruct (Forall2_in_l _ _ _ _ Hm (in_filter_method _ _ _ _ _ _ Hin)) as (e' & He' & Hs).
    apply filter_In in He' as [He' _].
    destruct e' as [| | | | | | |k' a' n' d' es']; cbn [sim_member] in Hs; try contradiction.
    destruct Hs as (<- & <- & <- & <- & Ho). destruct es' as [mes'|]; cbn [opt_rel] in Ho; [|contradiction].
    destruct (perm_rel_in_l _ _ _ _ Ho Hc) as (c' & Hc' & Hsc).
    destruct c' as [| | | |attr' ms' ml' fs' xr' ces'| | |]; cbn [sim_item sim_leaf] in Hsc; try discriminate.
    destruct Hsc as (<- & <- & <- & <- & <- & Hl).
    exists a, nn, d, mes', ms, ml, fs, xr, ces'. repeat split; [exact He'|exact Hc'|exact (sim_leaves_attr_l _ _ _ _ _ Hl He)].
  - destruct H as (nn & d & res & Hin & He).
    destruct (perm_rel_in_l _ _ _ _ Ha (in_filter_attr_level (ERc attr k nn d (Some res)) _ eq_refl Hin)) as (c' & Hc' & Hsc).
    apply filter_In in Hc' as [Hc' _].
    destruct c' as [| | | | |attr' k' n' d' es'| |]; cbn [sim_item sim_leaf] in Hsc; try discriminate.
    destruct Hsc as (<- & <- & <- & <- & Ho). destruct es' as [res'|]; cbn [opt_rel] in Ho; [|contradiction].
    exists nn, d, res'. split; [exact Hc'|exact (sim_leaves_attr_l _ _ _ _ _ Ho He)].
Qed.

Lemma sim_attr_at_r x y : sim_trace (Some x) (Some y) ->
  forall pl n r b, attr_at (Some y) pl (EAttr n r b) -> attr_at (Some x) pl (EAttr n r b).
Proof.
  cbn [sim_trace opt_rel]. intros (Ha & Hf & Hm) pl n r b (es & [= <-] & H). exists x. split; [reflexivity|].
  destruct pl as [|k|k|k attr|k attr].
  - pose proof (sim_items_attr_r _ _ _ _ _ Ha (in_filter_attr_level (EAttr n r b) _ eq_refl H)) as H1.
    apply filter_In in H1 as [H1 _]. exact H1.
  - destruct H as (a & nn & d & fes & Hin & He).
    destruct (Forall2_in_r _ _ _ _ Hf (in_filter_field _ _ _ _ _ _ Hin)) as (e' & He' & Hs).
    apply filter_In in He' as [He' _].
    destruct e' as [| | | | | |k' a' n' d' es'|]; cbn [sim_member] in Hs; try contradiction.
    destruct Hs as (-> & -> & -> & -> & Ho). destruct es' as [fes'|]; cbn [opt_rel] in Ho; [|contradiction].
    exists a, nn, d, fes'. split; [exact He'|exact (sim_items_attr_r _ _ _ _ _ Ho He)].
  - destruct H as (a & nn & d & mes & Hin & He).
    destruct (Forall2_in_r _ _ _ _ Hm (in_filter_method _ _ _ _ _ _ Hin)) as (e' & He' & Hs).
    apply filter_In in He' as [He' _].
    destruct e' as [| | | | | | |k' a' n' d' es']; cbn [sim_member] in Hs; try contradiction.
    destruct Hs as (-> & -> & -> & -> & Ho). destruct es' as [mes'|]; cbn [opt_rel] in Ho; [|contradiction].
    exists a, nn, d, mes'. split; [exact He'|exact (sim_items_attr_r _ _ _ _ _ Ho He)].
  - destruct H as (a & nn & d & mes & ms & ml & fs & xr & ces & Hin & Hc & He).
    destruct (Forall2_in_r _ _ _ _ Hm (in_filter_method _ _ _ _ _ _ Hin)) as (e' & He' & Hs).
    apply filter_In in He' as [He' _].
    destruct e' as [| | | | | | |k' a' n' d' es']; cbn [sim_member] in Hs; try contradiction.
    destruct Hs as (-> & -> & -> & -> & Ho). destruct es' as [mes'|]; cbn [opt_rel] in Ho; [|contradiction].
    destruct (perm_rel_in_r _ _ _ _ Ho Hc) as (c' & Hc' & Hsc).
    destruct c' as [| | | |attr' ms' ml' fs' xr' ces'| | |]; cbn [sim_item sim_leaf] in Hsc; try discriminate.
    destruct Hsc as (-> & -> & -> & -> & -> & Hl).
    exists a, nn, d, mes', ms, ml, fs, xr, ces'. repeat split; [exact He'|exact Hc'|exact (sim_leaves_attr_r _ _ _ _ _ Hl He)].
  - destruct H as (nn & d & res & Hin & He).
    destruct (perm_rel_in_r _ _ _ _ Ha (in_filter_attr_level (ERc attr k nn d (Some res)) _ eq_refl Hin)) as (c' & Hc' & Hsc).
    apply filter_In in Hc' as [Hc' _].
    destruct c' as [| | | | |attr' k' n' d' es'| |]; cbn [sim_item sim_leaf] in Hsc; try discriminate.
    destruct Hsc as (-> & -> & -> & -> & Ho). destruct es' as [res'|]; cbn [opt_rel] in Ho; [|contradiction].
    exists nn, d, res'. split; [exact Hc'|exact (sim_leaves_attr_r _ _ _ _ _ Ho He)].
Qed.

(* traces equivalent in the sense of the replay theorems hand every place the same attributes with the same bodies *)
Theorem sim_attr_at a b : sim_trace a b ->
  forall pl n r body, attr_at a pl (EAttr n r body) <-> attr_at b pl (EAttr n r body).
Proof.
  destruct a as [x|], b as [y|]; cbn [sim_trace opt_rel]; try contradiction.
  - intros H pl n r body. split; [apply (sim_attr_at_l x y H)|apply (sim_attr_at_r x y H)].
  - intros _ pl n r body. split; intros (es & H & _); discriminate H.
Qed.

(* ---------- the projection ---------- *)
Definition fields_seen (T : reader_tables) (v : visitor) : bool := negb (rt_honours_fields T && negb (interested (v_class v) FIELDS)).
Definition methods_seen (T : reader_tables) (v : visitor) : bool := negb (rt_honours_methods T && negb (interested (v_class v) METHODS)).

(* the visitor wants the attribute [name] at place [pl]: it accepts the class and the item, and the interest flags that
   govern the attribute (and the Code / Record attribute around it, and the fields / methods of the class) are set *)
Definition wanted (T : reader_tables) (v : visitor) (pl : place) (name : str) : Prop :=
  v_accept_class v = true /\
  match pl with
  | PClass => keep_ct (rt_class T) (v_class v) name = true
  | PField k => fields_seen T v = true /\ exists m, v_field v k = Some m /\ keep_ct (rt_field T) m name = true
  | PMethod k => methods_seen T v = true /\ exists m, v_method v k = Some m /\ keep_ct (rt_method T) m name = true
  | PCode k attr => methods_seen T v = true /\ exists m cm, v_method v k = Some m /\ keep_ct (rt_method T) m attr = true
                      /\ v_code v k = Some cm /\ keep_ct (rt_code T) cm name = true
  | PRc k attr => keep_ct (rt_class T) (v_class v) attr = true /\ exists m, v_rc v k = Some m /\ keep_ct (rt_rc T) m name = true
  end.

Ltac absurd_in H :=
  cbn [In] in H; repeat match type of H with _ \/ _ => destruct H as [H|H] end; first [discriminate H | contradiction].

Lemma proj_ev0_attr ct m e0 n r b : In (EAttr n r b) (proj_ev0 ct m e0) <-> e0 = EAttr n r b /\ keep_ct ct m n = true.
Proof.
  destruct e0 as [name raw body| dp sy | slot srcs | attr | attr ms ml fs xr ces | attr k nn dd es | |]; cbn [proj_ev0].
  - destruct (keep_ct ct m name) eqn:E.
    + split; [intros [[= -> -> ->]|[]]; split; [reflexivity|exact E]|intros [[= -> -> ->] _]; left; reflexivity].
    + split; [intros []|intros [Heq Hk]; injection Heq as -> -> ->; congruence].
  - split; [intros [H|[]]; discriminate H|intros [H _]; discriminate H].
  - cbv zeta. destruct (table_delivered ct m slot (filter (fun x => keep_ct ct m (fst x)) srcs)); (split; [intros Hin; absurd_in Hin|intros [Hx _]; discriminate Hx]).
  - split; [intros [H|[]]; discriminate H|intros [H _]; discriminate H].
  - split; [intros [H|[]]; discriminate H|intros [H _]; discriminate H].
  - split; [intros [H|[]]; discriminate H|intros [H _]; discriminate H].
  - split; [intros [H|[]]; discriminate H|intros [H _]; discriminate H].
  - split; [intros [H|[]]; discriminate H|intros [H _]; discriminate H].
Qed.

Lemma flat_proj_ev0_attr ct m es n r b :
  In (EAttr n r b) (flat_map (proj_ev0 ct m) es) <-> In (EAttr n r b) es /\ keep_ct ct m n = true.
Proof.
  rewrite in_flat_map. split.
  - intros (e0 & He0 & H). apply proj_ev0_attr in H as [-> Hk]. split; assumption.
  - intros [Hin Hk]. exists (EAttr n r b). split; [exact Hin|]. apply proj_ev0_attr. split; [reflexivity|exact Hk].
Qed.

Lemma proj_ev_attr T v ct m kc e0 n r b : In (EAttr n r b) (proj_ev T v ct m kc e0) <-> e0 = EAttr n r b /\ keep_ct ct m n = true.
Proof.
  destruct e0 as [name raw body| dp sy | slot srcs | attr | attr ms ml fs xr ces | attr k nn dd es | |];
    try exact (proj_ev0_attr ct m _ n r b); cbn [proj_ev].
  - destruct (keep_ct ct m attr); (split; [intros Hin; absurd_in Hin|intros [Hx _]; discriminate Hx]).
  - destruct (keep_ct ct m attr); [destruct kc|]; (split; [intros Hin; absurd_in Hin|intros [Hx _]; discriminate Hx]).
  - destruct (keep_ct ct m attr); (split; [intros Hin; absurd_in Hin|intros [Hx _]; discriminate Hx]).
Qed.

Lemma flat_proj_ev_attr T v ct m kc es n r b :
  In (EAttr n r b) (flat_map (proj_ev T v ct m kc) es) <-> In (EAttr n r b) es /\ keep_ct ct m n = true.
Proof.
  rewrite in_flat_map. split.
  - intros (e0 & He0 & H). apply proj_ev_attr in H as [-> Hk]. split; assumption.
  - intros [Hin Hk]. exists (EAttr n r b). split; [exact Hin|]. apply proj_ev_attr. split; [reflexivity|exact Hk].
Qed.

(* a Code event of the projection comes from a Code event of the trace that the method wants, with visit_code() accepting *)
Lemma proj_ev_code_iff T v ct m kc e0 attr ms ml fs xr ces :
  In (ECode attr ms ml fs xr ces) (proj_ev T v ct m kc e0) <->
  exists fs0 ces0 cm, e0 = ECode attr ms ml fs0 xr ces0 /\ keep_ct ct m attr = true /\ kc = Some cm
    /\ fs = filter (keep_ct (rt_code T) cm) fs0 /\ ces = flat_map (proj_ev0 (rt_code T) cm) ces0.
Proof.
  split.
  - destruct e0 as [name raw body| dp sy | slot srcs | attr0 | attr0 ms0 ml0 fs0 xr0 ces0 | attr0 k nn dd es | |]; cbn [proj_ev proj_ev0].
    + destruct (keep_ct ct m name); [intros [H|[]]; discriminate H|intros []].
    + intros [H|[]]; discriminate H.
    + cbv zeta. destruct (table_delivered ct m slot (filter (fun x => keep_ct ct m (fst x)) srcs)); [intros [H|[]]; discriminate H|intros []].
    + destruct (keep_ct ct m attr0); [intros [H|[]]; discriminate H|intros []].
    + destruct (keep_ct ct m attr0) eqn:E; [|intros []]. destruct kc as [cm|]; [|intros [H|[]]; discriminate H].
      intros [[= -> -> -> <- -> <-]|[]]. exists fs0, ces0, cm. repeat split; try reflexivity. exact E.
    + destruct (keep_ct ct m attr0); [intros [H|[]]; discriminate H|intros []].
    + intros [H|[]]; discriminate H.
    + intros [H|[]]; discriminate H.
  - intros (fs0 & ces0 & cm & -> & Hk & -> & -> & ->). cbn [proj_ev]. rewrite Hk. left. reflexivity.
Qed.

Lemma proj_ev_rc_iff T v ct m kc e0 attr k nn dd res :
  In (ERc attr k nn dd (Some res)) (proj_ev T v ct m kc e0) <->
  exists res0 m', e0 = ERc attr k nn dd (Some res0) /\ keep_ct ct m attr = true /\ v_rc v k = Some m'
    /\ res = flat_map (proj_ev0 (rt_rc T) m') res0.
Proof.
  split.
  - destruct e0 as [name raw body| dp sy | slot srcs | attr0 | attr0 ms0 ml0 fs0 xr0 ces0 | attr0 k0 n0 d0 es | |]; cbn [proj_ev proj_ev0].
    + destruct (keep_ct ct m name); [intros [H|[]]; discriminate H|intros []].
    + intros [H|[]]; discriminate H.
    + cbv zeta. destruct (table_delivered ct m slot (filter (fun x => keep_ct ct m (fst x)) srcs)); [intros [H|[]]; discriminate H|intros []].
    + destruct (keep_ct ct m attr0); [intros [H|[]]; discriminate H|intros []].
    + destruct (keep_ct ct m attr0); [|intros []]. destruct kc; intros [H|[]]; discriminate H.
    + destruct (keep_ct ct m attr0) eqn:E; [|intros []].
      intros [[= -> -> -> -> H]|[]]. destruct (v_rc v k) as [m'|]; [|discriminate H].
      destruct es as [res0|]; [|discriminate H]. cbn [option_map] in H. injection H as <-.
      exists res0, m'. repeat split; try reflexivity. exact E.
    + intros [H|[]]; discriminate H.
    + intros [H|[]]; discriminate H.
  - intros (res0 & m' & -> & Hk & Hv & ->). cbn [proj_ev]. rewrite Hk, Hv. left. reflexivity.
Qed.

(* members *)
Lemma proj_member_field_iff T v e0 k a nn dd fes :
  In (EField k a nn dd (Some fes)) (proj_member T v e0) <->
  fields_seen T v = true /\ exists fes0 m, e0 = EField k a nn dd (Some fes0) /\ v_field v k = Some m
    /\ fes = flat_map (proj_ev T v (rt_field T) m None) fes0.
Proof.
  unfold fields_seen. split.
  - destruct e0 as [name raw body| dp sy | slot srcs | attr0 | attr0 ms0 ml0 fs0 xr0 ces0 | attr0 k0 n0 d0 es | k0 a0 n0 d0 es | k0 a0 n0 d0 es];
      cbn [proj_member proj_ev proj_ev0].
    + destruct (keep_ct (rt_class T) (v_class v) name); [intros [H|[]]; discriminate H|intros []].
    + intros [H|[]]; discriminate H.
    + cbv zeta. destruct (table_delivered (rt_class T) (v_class v) slot (filter (fun x => keep_ct (rt_class T) (v_class v) (fst x)) srcs)); [intros [H|[]]; discriminate H|intros []].
    + destruct (keep_ct (rt_class T) (v_class v) attr0); [intros [H|[]]; discriminate H|intros []].
    + destruct (keep_ct (rt_class T) (v_class v) attr0); [intros [H|[]]; discriminate H|intros []].
    + destruct (keep_ct (rt_class T) (v_class v) attr0); [intros [H|[]]; discriminate H|intros []].
    + destruct (rt_honours_fields T && negb (interested (v_class v) FIELDS)); [intros []|].
      intros [[= -> -> -> -> H]|[]]. split; [reflexivity|].
      destruct (v_field v k) as [m|]; [|discriminate H]. destruct es as [fes0|]; [|discriminate H].
      cbn [option_map] in H. injection H as <-. exists fes0, m. repeat split; reflexivity.
    + destruct (rt_honours_methods T && negb (interested (v_class v) METHODS)); [intros []|intros [H|[]]; discriminate H].
  - intros (Hs & fes0 & m & -> & Hv & ->). cbn [proj_member]. apply negb_true_iff in Hs. rewrite Hs, Hv. left. reflexivity.
Qed.

Lemma proj_member_method_iff T v e0 k a nn dd mes :
  In (EMethod k a nn dd (Some mes)) (proj_member T v e0) <->
  methods_seen T v = true /\ exists mes0 m, e0 = EMethod k a nn dd (Some mes0) /\ v_method v k = Some m
    /\ mes = flat_map (proj_ev T v (rt_method T) m (v_code v k)) mes0.
Proof.
  unfold methods_seen. split.
  - destruct e0 as [name raw body| dp sy | slot srcs | attr0 | attr0 ms0 ml0 fs0 xr0 ces0 | attr0 k0 n0 d0 es | k0 a0 n0 d0 es | k0 a0 n0 d0 es];
      cbn [proj_member proj_ev proj_ev0].
    + destruct (keep_ct (rt_class T) (v_class v) name); [intros [H|[]]; discriminate H|intros []].
    + intros [H|[]]; discriminate H.
    + cbv zeta. destruct (table_delivered (rt_class T) (v_class v) slot (filter (fun x => keep_ct (rt_class T) (v_class v) (fst x)) srcs)); [intros [H|[]]; discriminate H|intros []].
    + destruct (keep_ct (rt_class T) (v_class v) attr0); [intros [H|[]]; discriminate H|intros []].
    + destruct (keep_ct (rt_class T) (v_class v) attr0); [intros [H|[]]; discriminate H|intros []].
    + destruct (keep_ct (rt_class T) (v_class v) attr0); [intros [H|[]]; discriminate H|intros []].
    + destruct (rt_honours_fields T && negb (interested (v_class v) FIELDS)); [intros []|intros [H|[]]; discriminate H].
    + destruct (rt_honours_methods T && negb (interested (v_class v) METHODS)); [intros []|].
      intros [[= -> -> -> -> H]|[]]. split; [reflexivity|].
      destruct (v_method v k) as [m|]; [|discriminate H]. destruct es as [mes0|]; [|discriminate H].
      cbn [option_map] in H. injection H as <-. exists mes0, m. repeat split; reflexivity.
  - intros (Hs & mes0 & m & -> & Hv & ->). cbn [proj_member]. apply negb_true_iff in Hs. rewrite Hs, Hv. left. reflexivity.
Qed.

(* class-level events pass through proj_ev; a member never projects to a class-level event *)
Lemma proj_member_attr T v e0 n r b :
  In (EAttr n r b) (proj_member T v e0) <-> e0 = EAttr n r b /\ keep_ct (rt_class T) (v_class v) n = true.
Proof.
  destruct e0 as [name raw body| dp sy | slot srcs | attr0 | attr0 ms0 ml0 fs0 xr0 ces0 | attr0 k0 n0 d0 es | k0 a0 n0 d0 es | k0 a0 n0 d0 es];
    try exact (proj_ev_attr T v (rt_class T) (v_class v) None _ n r b); cbn [proj_member].
  - destruct (rt_honours_fields T && negb (interested (v_class v) FIELDS)); (split; [intros Hin; absurd_in Hin|intros [Hx _]; discriminate Hx]).
  - destruct (rt_honours_methods T && negb (interested (v_class v) METHODS)); (split; [intros Hin; absurd_in Hin|intros [Hx _]; discriminate Hx]).
Qed.

Lemma proj_member_rc T v e0 attr k nn dd res :
  In (ERc attr k nn dd (Some res)) (proj_member T v e0) <->
  exists res0 m', e0 = ERc attr k nn dd (Some res0) /\ keep_ct (rt_class T) (v_class v) attr = true /\ v_rc v k = Some m'
    /\ res = flat_map (proj_ev0 (rt_rc T) m') res0.
Proof.
  destruct e0 as [name raw body| dp sy | slot srcs | attr0 | attr0 ms0 ml0 fs0 xr0 ces0 | attr0 k0 n0 d0 es | k0 a0 n0 d0 es | k0 a0 n0 d0 es];
    try exact (proj_ev_rc_iff T v (rt_class T) (v_class v) None _ attr k nn dd res); cbn [proj_member].
  - destruct (rt_honours_fields T && negb (interested (v_class v) FIELDS));
      (split; [intros Hin; absurd_in Hin|intros (? & ? & Hx & _); discriminate Hx]).
  - destruct (rt_honours_methods T && negb (interested (v_class v) METHODS));
      (split; [intros Hin; absurd_in Hin|intros (? & ? & Hx & _); discriminate Hx]).
Qed.

(* the projection hands a place exactly the attributes of the full trace that the visitor wants there *)
Theorem project_attr_at T v t pl n r b :
  attr_at (project T v t) pl (EAttr n r b) <-> attr_at t pl (EAttr n r b) /\ wanted T v pl n.
Proof.
  unfold project, wanted. destruct (v_accept_class v).
  2: { split; [intros (es & H & _); discriminate H|intros [_ [H _]]; discriminate H]. }
  destruct t as [es0|]; cbn [option_map].
  2: { split; [intros (es & H & _); discriminate H|intros [(es & H & _) _]; discriminate H]. }
  split.
  - intros (es & [= <-] & H). destruct pl as [|k|k|k attr|k attr].
    + apply in_flat_map in H as (e0 & He0 & H). apply proj_member_attr in H as [-> Hk].
      split; [exists es0; split; [reflexivity|exact He0]|split; [reflexivity|exact Hk]].
    + destruct H as (a & nn & d & fes & Hin & He). apply in_flat_map in Hin as (e0 & He0 & Hin).
      apply proj_member_field_iff in Hin as (Hs & fes0 & m & -> & Hv & ->).
      apply flat_proj_ev_attr in He as [He Hk].
      split; [exists es0; split; [reflexivity|]; exists a, nn, d, fes0; split; assumption|].
      split; [reflexivity|]. split; [exact Hs|]. exists m. split; assumption.
    + destruct H as (a & nn & d & mes & Hin & He). apply in_flat_map in Hin as (e0 & He0 & Hin).
      apply proj_member_method_iff in Hin as (Hs & mes0 & m & -> & Hv & ->).
      apply flat_proj_ev_attr in He as [He Hk].
      split; [exists es0; split; [reflexivity|]; exists a, nn, d, mes0; split; assumption|].
      split; [reflexivity|]. split; [exact Hs|]. exists m. split; assumption.
    + destruct H as (a & nn & d & mes & ms & ml & fs & xr & ces & Hin & Hc & He). apply in_flat_map in Hin as (e0 & He0 & Hin).
      apply proj_member_method_iff in Hin as (Hs & mes0 & m & -> & Hv & ->).
      apply in_flat_map in Hc as (c0 & Hc0 & Hc).
      apply proj_ev_code_iff in Hc as (fs0 & ces0 & cm & -> & Hka & Hkc & -> & ->).
      apply flat_proj_ev0_attr in He as [He Hk].
      split; [exists es0; split; [reflexivity|]; exists a, nn, d, mes0, ms, ml, fs0, xr, ces0; repeat split; assumption|].
      split; [reflexivity|]. split; [exact Hs|]. exists m, cm. repeat split; assumption.
    + destruct H as (nn & d & res & Hin & He). apply in_flat_map in Hin as (e0 & He0 & Hin).
      apply proj_member_rc in Hin as (res0 & m' & -> & Hka & Hv & ->).
      apply flat_proj_ev0_attr in He as [He Hk].
      split; [exists es0; split; [reflexivity|]; exists nn, d, res0; split; assumption|].
      split; [reflexivity|]. split; [exact Hka|]. exists m'. split; assumption.
  - intros [(es & [= <-] & H) [_ Hw]]. eexists. split; [reflexivity|]. destruct pl as [|k|k|k attr|k attr].
    + apply in_flat_map. exists (EAttr n r b). split; [exact H|]. apply proj_member_attr. split; [reflexivity|exact Hw].
    + destruct H as (a & nn & d & fes0 & Hin & He). destruct Hw as (Hs & m & Hv & Hk).
      exists a, nn, d, (flat_map (proj_ev T v (rt_field T) m None) fes0). split.
      * apply in_flat_map. eexists. split; [exact Hin|]. apply proj_member_field_iff. split; [exact Hs|].
        exists fes0, m. repeat split; [exact Hv].
      * apply flat_proj_ev_attr. split; assumption.
    + destruct H as (a & nn & d & mes0 & Hin & He). destruct Hw as (Hs & m & Hv & Hk).
      exists a, nn, d, (flat_map (proj_ev T v (rt_method T) m (v_code v k)) mes0). split.
      * apply in_flat_map. eexists. split; [exact Hin|]. apply proj_member_method_iff. split; [exact Hs|].
        exists mes0, m. repeat split; [exact Hv].
      * apply flat_proj_ev_attr. split; assumption.
    + destruct H as (a & nn & d & mes0 & ms & ml & fs0 & xr & ces0 & Hin & Hc & He). destruct Hw as (Hs & m & cm & Hv & Hka & Hkc & Hk).
      exists a, nn, d, (flat_map (proj_ev T v (rt_method T) m (v_code v k)) mes0), ms, ml,
        (filter (keep_ct (rt_code T) cm) fs0), xr, (flat_map (proj_ev0 (rt_code T) cm) ces0). repeat split.
      * apply in_flat_map. eexists. split; [exact Hin|]. apply proj_member_method_iff. split; [exact Hs|].
        exists mes0, m. repeat split; [exact Hv].
      * apply in_flat_map. eexists. split; [exact Hc|]. apply proj_ev_code_iff. exists fs0, ces0, cm. repeat split; assumption.
      * apply flat_proj_ev0_attr. split; assumption.
    + destruct H as (nn & d & res0 & Hin & He). destruct Hw as (Hka & m' & Hv & Hk).
      exists nn, d, (flat_map (proj_ev0 (rt_rc T) m') res0). split.
      * apply in_flat_map. eexists. split; [exact Hin|]. apply proj_member_rc. exists res0, m'. repeat split; assumption.
      * apply flat_proj_ev0_attr. split; assumption.
Qed.

(* ---------- the parsed values ---------- *)
(* in trace t the visitor at place pl is handed, for an attribute named [name], the parsed value [val] *)
(* the location number of a place (the grammar of a type annotations attribute depends on it): 0 class, 1 field, 2 method,
   3 Code, 4 record component *)
Definition loc_of (pl : place) : N :=
  match pl with PClass => 0 | PField _ => 1 | PMethod _ => 2 | PCode _ _ => 3 | PRc _ _ => 4 end.

Definition value_at (X : xtable) (V : vnames) (rs : resolver) (t : option (list ev)) (pl : place) (name : str) (val : list N) : Prop :=
  exists raw body, attr_at t pl (EAttr name raw body) /\ attr_value X V rs (loc_of pl) name raw body = Some val.

Theorem project_value_at X V rs T v t pl name val :
  value_at X V rs (project T v t) pl name val <-> value_at X V rs t pl name val /\ wanted T v pl name.
Proof.
  unfold value_at. split.
  - intros (raw & body & Hat & Hv). apply project_attr_at in Hat as [Hat Hw]. split; [exists raw, body; split; assumption|exact Hw].
  - intros [(raw & body & Hat & Hv) Hw]. exists raw, body. split; [apply project_attr_at; split; assumption|exact Hv].
Qed.

Theorem sim_value_at X V rs a b : sim_trace a b ->
  forall pl name val, value_at X V rs a pl name val <-> value_at X V rs b pl name val.
Proof.
  intros H pl name val. unfold value_at. split; intros (raw & body & Hat & Hv); exists raw, body; (split; [|exact Hv]).
  - apply (sim_attr_at a b H). exact Hat.
  - apply (sim_attr_at a b H). exact Hat.
Qed.

(* reading: what a visitor is handed at a place is what the full visitor is handed there, if it wants it — and nothing else *)
Theorem read_values_projection X V rs T g c h : tables_ok T = true -> wf g T c h ->
  forall v rest t_v, read_class g T v (enc c ++ rest) = Ok (t_v, rest) ->
  forall pl name val,
    value_at X V rs t_v pl name val <-> value_at X V rs (spec_class T (v_full T) h c) pl name val /\ wanted T v pl name.
Proof.
  intros HT Hwf v rest t_v Hr pl name val.
  destruct (partial_is_projection T g c h HT Hwf v rest) as (t_full & Hfull & Hv).
  rewrite (position_independent T g c h HT Hwf (v_full T) rest) in Hfull. injection Hfull as <-.
  rewrite Hv in Hr. injection Hr as <-.
  apply project_value_at.
Qed.

(* replaying: the tree of the full read hands every visitor, at every place, exactly the values the projection holds *)
Theorem replay_values X V rs T AT : tables_ok T = true -> accept_ok T AT = true ->
  forall t_full tree, build true T AT t_full = Ok tree ->
  forall v pl name val,
    value_at X V rs (accept_class T AT v tree) pl name val <-> value_at X V rs t_full pl name val /\ wanted T v pl name.
Proof.
  intros HT HA t_full tree Hb v pl name val.
  rewrite (sim_value_at X V rs _ _ (replay_is_projection T AT HT HA t_full tree Hb v)). apply project_value_at.
Qed.

Theorem replay_values_known X V rs T AT : tables_ok T = true -> accept_ok T AT = true ->
  forall t_full tree, build false T AT t_full = Ok tree -> replay_inexact T AT t_full = false ->
  forall v pl name val,
    value_at X V rs (accept_class T AT v tree) pl name val <-> value_at X V rs t_full pl name val /\ wanted T v pl name.
Proof.
  intros HT HA t_full tree Hb Hk v pl name val.
  rewrite (sim_value_at X V rs _ _ (replay_known T AT HT HA t_full tree Hb Hk v)). apply project_value_at.
Qed.

(* ---------- everything together, for the code as it is, with decidable hypotheses only ---------- *)
Theorem values_total c : wf_b tables c = true -> once_b tables accept_tables_gen c = true ->
  replay_inexact tables accept_tables_gen (full_of c) = false ->
  exists tree, build false tables accept_tables_gen (full_of c) = Ok tree
    /\ forall rs v rest, exists t_v, read_class g_len tables v (enc c ++ rest) = Ok (t_v, rest)
         /\ forall pl name val,
              (value_at xtable_gen vnames_gen rs t_v pl name val
               <-> value_at xtable_gen vnames_gen rs (full_of c) pl name val /\ wanted tables v pl name)
              /\ (value_at xtable_gen vnames_gen rs (accept_class tables accept_tables_gen v tree) pl name val
                  <-> value_at xtable_gen vnames_gen rs t_v pl name val).
Proof.
  intros Hwf Honce Hk. destruct (replay_total c Hwf Honce) as (tree & Hb & _ & Hall). exists tree. split; [exact Hb|].
  intros rs v rest. destruct (Hall Hk v rest) as (t_v & Hread & Hsim & _). exists t_v. split; [exact Hread|].
  intros pl name val. split.
  - exact (read_values_projection xtable_gen vnames_gen rs tables g_len c (header_of c) generated_tables_ok
             (wf_b_wf tables c Hwf) v rest t_v Hread pl name val).
  - apply sim_value_at. exact Hsim.
Qed.

(* non-vacuity: `class A` with the attribute Signature -> #4 "LA;" satisfies the hypotheses; the full visitor wants the
   attribute at the class and is handed the string at index 4, whatever the resolver *)
Definition w_one_signature : cls := mkC w_hdr3 [] [] [AtPlain (mkP 3 2 [0;4])].
Definition values_example : Prop :=
  wf_b tables w_one_signature = true /\ once_b tables accept_tables_gen w_one_signature = true
  /\ replay_inexact tables accept_tables_gen (full_of w_one_signature) = false
  /\ wanted tables (v_full tables) PClass nSignature
  /\ forall rs, value_at xtable_gen vnames_gen rs (full_of w_one_signature) PClass nSignature [rs_str rs 4].
Theorem values_example_holds : values_example.
Proof.
  unfold values_example. repeat split; try (vm_compute; reflexivity).
  intros rs. exists false, [0;4]. split.
  - eexists. split; [vm_compute; reflexivity|]. cbn [In]. left. reflexivity.
  - reflexivity.
Qed.

(* the same for type annotations, whose value depends on the place: `class A` with RuntimeVisibleTypeAnnotations { @B on the
   super class (target_type 0x10, index 65535) } and a method m()V whose Code carries RuntimeVisibleTypeAnnotations { @B on the
   `new` at offset 0 (0x44) }.  The full visitor is handed, at the class and at the Code, the target type and target info as
   numbers, the empty path and the annotation with its type resolved.
   constant pool: 1 "A", 2 Class #1, 3 "RuntimeVisibleTypeAnnotations", 4 "LB;", 5 "Code", 6 "m", 7 "()V" *)
Definition nRVTA : str := nth 0 type_annotation_attrs_gen [].
Definition w_hdr4 : bytes :=
  [202;254;186;190; 0;0; 0;52] ++ e16 8
  ++ utf8 [65] ++ [7;0;1] ++ utf8 nRVTA ++ utf8 [76;66;59] ++ utf8 nCode ++ utf8 [109] ++ utf8 [40;41;86]
  ++ [0;33; 0;2; 0;0; 0;0].
Definition w_ta_code_attrs : list pattr := [mkP 3 10 [0;1; 68; 0;0; 0; 0;4; 0;0]].
Definition w_type_annotations : cls :=
  mkC w_hdr4 [] [mkM 1 6 7 [AtCode 5 (elen (code_body 2 1 [187;0;2;87;177] 0 [] w_ta_code_attrs)) 2 1 [187;0;2;87;177] 0 [] w_ta_code_attrs]]
      [AtPlain (mkP 3 10 [0;1; 16; 255;255; 0; 0;4; 0;0])].
Definition type_values_example : Prop :=
  wf_b tables w_type_annotations = true /\ once_b tables accept_tables_gen w_type_annotations = true
  /\ replay_inexact tables accept_tables_gen (full_of w_type_annotations) = false
  /\ wanted tables (v_full tables) PClass nRVTA /\ wanted tables (v_full tables) (PCode 0 nCode) nRVTA
  /\ forall rs, value_at xtable_gen vnames_gen rs (full_of w_type_annotations) PClass nRVTA [1; 16; 65535; 0; rs_str rs 4; 0]
              /\ value_at xtable_gen vnames_gen rs (full_of w_type_annotations) (PCode 0 nCode) nRVTA [1; 68; 0; 0; rs_str rs 4; 0].
Theorem type_values_example_holds : type_values_example.
Proof.
  unfold type_values_example. repeat split; try (vm_compute; reflexivity).
  - exists (t_interests method_table), (t_interests code_table). repeat split; vm_compute; reflexivity.
  - exists false, [0;1; 16; 255;255; 0; 0;4; 0;0]. split; [|vm_compute; reflexivity].
    eexists. split; [vm_compute; reflexivity|]. cbn [In]. left. reflexivity.
  - exists false, [0;1; 68; 0;0; 0; 0;4; 0;0]. split; [|vm_compute; reflexivity].
    eexists. split; [vm_compute; reflexivity|]. cbn [loc_of].
    do 9 eexists. split; [right; right; left; reflexivity|]. split; [left; reflexivity|]. left. reflexivity.
Qed.
