(* C17 — executable model of the replay half: the tree-building visitor
   (duke/src/visitor/implementations/tree.rs) and the `accept` functions of duke/src/tree/*.rs.
   Definitions only.

   Both are DRIVEN by tables: which visit call an attribute's reader arm makes, which tree field
   that visit call stores into and how, and the statements of accept() in source order come from
   AcceptTable.v (generated from the Rust source at every check); which arm handles an attribute
   name comes from the reader's dispatch tables (AttrTable.v).

   The tree is the event content the builder stores per field.  Attribute contents stay opaque, as
   in the reader model: the content of an `Option<T>` / `Vec<T>` field is the body (bytes) of the
   attribute that was parsed into it.  What the model does know about a body is its leading u16
   (number of annotations / rows), because that decides `is_empty()`:

     Option<T>      insert_if_empty         VBody body                      (a second fill is Err)
     Vec<T>         extend                  absent when nothing was appended, otherwise VBody of the
                                            body that encodes the elements (two extends = the body
                                            with both counts added and both element lists appended)
     Option<Vec<>>  insert_if_empty         VRows: the rows the table holds, in the order they were collected, each
                    (line_numbers, local_variables)   tagged with the attribute it came from (for `Lv`: which of
                                            descriptor / signature is Some — [at_lv_kinds]); an attribute without
                                            rows leaves no row, so the tree does not remember it
     Vec<Attribute> push                    it_unknown (name, bytes) in push order
     Option<Code>, Vec<RecordComponent>, Vec<Field>, Vec<Method>: nested items

   [build] is total on event lists; it answers Err where the real builder answers Err (`only one X
   attribute is allowed`) and on event lists that are no visitor protocol at all (a second
   visit_deprecated_and_synthetic_attribute, a record component index out of sequence, a declined
   member — the tree builder never declines).  With [strict = true] it additionally refuses the
   two situations in which a tree cannot tell what the reader said (see Theory11: they are the
   known class of the replay theorem):  an annotations attribute without annotations, a second
   attribute extending / overwriting an already filled field.  (A LocalVariable(Type)Table without rows
   was the third until the reader and Code::accept agreed on one rule for it: [t_whole] / SLocals.) *)
From FB Require Export C17.Model C17.Struct.

Fixpoint assoc {A} (k : str) (l : list (str * A)) : option A :=
  match l with
  | [] => None
  | (k', v) :: l' => if str_eqb k k' then Some v else assoc k l'
  end.
(* the first key that maps to [v] *)
Fixpoint rassoc (v : str) (l : list (str * str)) : option str :=
  match l with
  | [] => None
  | (k, v') :: l' => if str_eqb v v' then Some k else rassoc v l'
  end.
Fixpoint find_row (V : str) (l : list brow) : option brow :=
  match l with
  | [] => None
  | r :: l' => if str_eqb V (b_visit r) then Some r else find_row V l'
  end.

Fixpoint fold_res {A B} (f : A -> B -> res A) (l : list B) (a : A) : res A :=
  match l with
  | [] => Ok a
  | x :: l' => match f a x with Ok a' => fold_res f l' a' | Err => Err end
  end.

Fixpoint mapi_from {A B} (f : nat -> A -> B) (k : nat) (l : list A) : list B :=
  match l with
  | [] => []
  | x :: l' => f k x :: mapi_from f (S k) l'
  end.

Definition is_nil {A} (l : list A) : bool := match l with [] => true | _ => false end.

(* ---------- the tree ---------- *)
Inductive sval := VBody (b : bytes) | VRows (l : list (str * row)).

(* the rows a table event hands over, each tagged with the attribute it came from *)
Definition flat_rows (srcs : list (str * list row)) : list (str * row) :=
  flat_map (fun x => map (pair (fst x)) (snd x)) srcs.
(* a row list as an event: accept() has the rows, not the attributes they were grouped in *)
Definition one_each (l : list (str * row)) : list (str * list row) := map (fun r => (fst r, [snd r])) l.

(* the attribute-level content of one class / field / method / Code / record component;
   K = the type of the nested items (Code of a method, record components of a class) *)
Record titem (K : Type) := mkTI {
  it_flags : option (bool * bool);            (* has_deprecated_attribute, has_synthetic_attribute; None = not visited yet *)
  it_slots : list (str * sval);               (* filled fields, by tree field name *)
  it_unknown : list (str * bytes);            (* attributes: Vec<Attribute> *)
  it_code : option (N * N * list str * list row * K);  (* code: max_stack, max_locals, the attributes that supply frames,
                                                 exception_table (parsed rows), the Code titem *)
  it_rcs : list (N * N * K);                  (* record_components: name, descriptor, the component's titem *)
}.
Arguments mkTI {K}.
Arguments it_flags {K}.
Arguments it_slots {K}.
Arguments it_unknown {K}.
Arguments it_code {K}.
Arguments it_rcs {K}.

Definition empty_item {K} : titem K := mkTI None [] [] None [].

Record class_tree := mkCT {
  t_item : titem (titem unit);
  t_fields : list (N * N * N * titem unit);            (* access, name, descriptor *)
  t_methods : list (N * N * N * titem (titem unit));
}.

(* ---------- what the model knows about a body ---------- *)
Definition count_of (b : bytes) : N := match rd16 b with Ok (n, _) => n | Err => 0 end.
(* the body that encodes the elements of [a] followed by those of [b] *)
Definition merge (a b : bytes) : bytes := e16 (count_of a + count_of b) ++ skipn 2 a ++ skipn 2 b.

(* ---------- the tree builder ---------- *)
Definition set_slot {K} (f : str) (v : sval) (st : titem K) : titem K :=
  mkTI (it_flags st) ((f, v) :: it_slots st) (it_unknown st) (it_code st) (it_rcs st).

Definition fill {K} (strict : bool) (row : brow) (b : bytes) (st : titem K) : res (titem K) :=
  let f := b_field row in
  match b_mode row with
  | MOnce =>
      match assoc f (it_slots st) with Some _ => Err | None => Ok (set_slot f (VBody b) st) end
  | MSet =>
      match assoc f (it_slots st) with
      | Some _ => if strict then Err else Ok (set_slot f (VBody b) st)
      | None => Ok (set_slot f (VBody b) st)
      end
  | MExtend =>
      if count_of b =? 0 then (if strict then Err else Ok st)
      else match assoc f (it_slots st) with
           | None => Ok (set_slot f (VBody b) st)
           | Some (VBody a) => if strict then Err else Ok (set_slot f (VBody (merge a b)) st)
           | Some (VRows _) => Err
           end
  | MPush => Err
  end.

(* attribute name -> the row of the builder that the visit call of its reader arm selects *)
Definition row_of (ac : accept_ctx) (name : str) : option brow :=
  match assoc name (ac_visits ac) with Some V => find_row V (ac_builder ac) | None => None end.

(* the reader arm of [name] collects into the reader's local table [slot] *)
Definition stores_into (ct : ctx_table) (slot name : str) : bool :=
  match act_full ct name with Some (AParse (DStore s _)) => str_eqb s slot | _ => false end.

Record nbuild (K : Type) := mkNB {
  nb_code : list str -> list ev -> res K;      (* frames sources, events of the Code attribute *)
  nb_rc : list ev -> res K;
}.
Arguments mkNB {K}.
Arguments nb_code {K}.
Arguments nb_rc {K}.

Definition build_step {K} (strict : bool) (ct : ctx_table) (ac : accept_ctx) (nb : nbuild K)
    (st : titem K) (e : ev) : res (titem K) :=
  match e with
  | EAttr name raw body =>
      match act_full ct name with
      | Some (AReadLen true) =>                       (* the default arm: visit_unknown_attribute -> attributes.push *)
          if raw then Ok (mkTI (it_flags st) (it_slots st) (it_unknown st ++ [(name, body)]) (it_code st) (it_rcs st)) else Err
      | Some (AParse DNow) =>
          if raw then Err else match row_of ac name with Some row => fill strict row body st | None => Err end
      | Some (AReadLen false) =>
          if raw then match row_of ac name with Some row => fill strict row body st | None => Err end else Err
      | _ => Err
      end
  | EFlags d s =>
      (* visit_deprecated_and_synthetic_attribute: called exactly once by the levels that have it *)
      match t_flags_event ct, it_flags st with
      | true, None => Ok (mkTI (Some (d, s)) (it_slots st) (it_unknown st) (it_code st) (it_rcs st))
      | _, _ => Err
      end
  | EDeferred slot srcs =>
      match assoc slot (ac_deferred ac) with
      | None => Err
      | Some V =>
        match find_row V (ac_builder ac) with
        | None => Err
        | Some row =>
          if negb (forallb (fun x => stores_into ct slot (fst x)) srcs) then Err
          else if strict && is_nil srcs then Err                (* no reader hands over a table that no attribute filled *)
          else match b_mode row, assoc (b_field row) (it_slots st) with
               | MOnce, None => Ok (set_slot (b_field row) (VRows (flat_rows srcs)) st)
               | _, _ => Err
               end
        end
      end
  | ECode attr ms ml fs xr es =>
      match act_full ct attr, row_of ac attr with
      | Some (ACode _), Some row =>
          match b_mode row, it_code st with
          | MOnce, None =>
              match nb_code nb fs es with
              | Ok k => Ok (mkTI (it_flags st) (it_slots st) (it_unknown st) (Some (ms, ml, fs, xr, k)) (it_rcs st))
              | Err => Err
              end
          | _, _ => Err
          end
      | _, _ => Err
      end
  | ERc attr k n d (Some es) =>
      match act_full ct attr, row_of ac attr with
      | Some (ARecord _), Some row =>
          match b_mode row with
          | MPush =>
              if Nat.eqb k (length (it_rcs st)) then
                match nb_rc nb es with
                | Ok c => Ok (mkTI (it_flags st) (it_slots st) (it_unknown st) (it_code st) (it_rcs st ++ [(n, d, c)]))
                | Err => Err
                end
              else Err
          | _ => Err
          end
      | _, _ => Err
      end
  | _ => Err
  end.

(* the struct has its fields in a fixed order: filled fields are listed in the order of the builder's table *)
Definition norm_slots (fields : list str) (s : list (str * sval)) : list (str * sval) :=
  flat_map (fun f => match assoc f s with Some v => [(f, v)] | None => [] end) fields.
Definition builder_fields (ac : accept_ctx) : list str := map b_field (ac_builder ac).

Definition finish_item {K} (ct : ctx_table) (ac : accept_ctx) (st : titem K) : res (titem K) :=
  if Bool.eqb (match it_flags st with Some _ => true | None => false end) (t_flags_event ct)
  then Ok (mkTI (it_flags st) (norm_slots (builder_fields ac) (it_slots st)) (it_unknown st) (it_code st) (it_rcs st))
  else Err.

Definition build_item {K} (strict : bool) (ct : ctx_table) (ac : accept_ctx) (nb : nbuild K) (es : list ev) : res (titem K) :=
  match fold_res (build_step strict ct ac nb) es empty_item with
  | Ok st => finish_item ct ac st
  | Err => Err
  end.

Definition nb0 : nbuild unit := mkNB (fun _ _ => Err) (fun _ => Err).

Definition build_code (strict : bool) (T : reader_tables) (AT : accept_tables) (fs : list str) (es : list ev) : res (titem unit) :=
  if forallb (stores_into (rt_code T) STACK_MAP_FRAME) fs then build_item strict (rt_code T) (at_code AT) nb0 es else Err.
Definition build_rc (strict : bool) (T : reader_tables) (AT : accept_tables) (es : list ev) : res (titem unit) :=
  build_item strict (rt_rc T) (at_rc AT) nb0 es.
Definition nb1 (strict : bool) (T : reader_tables) (AT : accept_tables) : nbuild (titem unit) :=
  mkNB (build_code strict T AT) (build_rc strict T AT).

Definition build_class_step (strict : bool) (T : reader_tables) (AT : accept_tables) (st : class_tree) (e : ev) : res class_tree :=
  match e with
  | EField k a n d (Some es) =>
      if Nat.eqb k (length (t_fields st)) then
        match build_item strict (rt_field T) (at_field AT) nb0 es with
        | Ok it => Ok (mkCT (t_item st) (t_fields st ++ [(a, n, d, it)]) (t_methods st))
        | Err => Err
        end
      else Err
  | EMethod k a n d (Some es) =>
      if Nat.eqb k (length (t_methods st)) then
        match build_item strict (rt_method T) (at_method AT) (nb1 strict T AT) es with
        | Ok it => Ok (mkCT (t_item st) (t_fields st) (t_methods st ++ [(a, n, d, it)]))
        | Err => Err
        end
      else Err
  | EField _ _ _ _ None | EMethod _ _ _ _ None => Err
  | e =>
      match build_step strict (rt_class T) (at_class AT) (nb1 strict T AT) (t_item st) e with
      | Ok it => Ok (mkCT it (t_fields st) (t_methods st))
      | Err => Err
      end
  end.

Definition build_class (strict : bool) (T : reader_tables) (AT : accept_tables) (es : list ev) : res class_tree :=
  match fold_res (build_class_step strict T AT) es (mkCT empty_item [] []) with
  | Ok st =>
      match finish_item (rt_class T) (at_class AT) (t_item st) with
      | Ok it => Ok (mkCT it (t_fields st) (t_methods st))
      | Err => Err
      end
  | Err => Err
  end.

(* the tree builder as a MultiClassVisitor: it accepts the class *)
Definition build (strict : bool) (T : reader_tables) (AT : accept_tables) (t : option (list ev)) : res class_tree :=
  match t with Some es => build_class strict T AT es | None => Err end.

(* ---------- accept() ---------- *)
Record naccept (K : Type) := mkNA {
  na_code : str -> N -> N -> list str -> list row -> K -> list ev;   (* attribute name of the visit, max_stack, max_locals, frames, exception table, the Code titem *)
  na_rc : str -> nat -> N -> N -> K -> ev;
}.
Arguments mkNA {K}.
Arguments na_code {K}.
Arguments na_rc {K}.

Definition raw_of (ct : ctx_table) (name : str) : bool :=
  match act_full ct name with Some (AReadLen _) => true | _ => false end.

(* the interest flag that Code::accept's filter consults for a row that came from attribute [name] *)
Definition kind_flag (AT : accept_tables) (kinds : list (str * str)) (name : str) : option str :=
  match assoc name (at_lv_kinds AT) with Some k => assoc k kinds | None => None end.

Definition run_step {K} (ct : ctx_table) (ac : accept_ctx) (AT : accept_tables) (na : naccept K)
    (m : mask) (st : titem K) (s : astep) : list ev :=
  match s with
  | SFlags => [match it_flags st with Some (d, sy) => EFlags d sy | None => EFlags false false end]
  | SOpt flag f V | SVec flag f V =>
      if interested m flag then
        match assoc f (it_slots st) with
        | Some (VBody b) =>
            match rassoc V (ac_visits ac) with Some name => [EAttr name (raw_of ct name) b] | None => [] end
        | Some (VRows l) =>
            match rassoc V (ac_deferred ac) with Some slot => [EDeferred slot (one_each l)] | None => [] end
        | None => []
        end
      else []
  | SUnknown flag _ _ =>
      if interested m flag then map (fun p => EAttr (fst p) true (snd p)) (it_unknown st) else []
  | SLocals flags f V kinds whole =>
      if existsb (interested m) flags then
        match assoc f (it_slots st), rassoc V (ac_deferred ac) with
        | Some (VRows l), Some slot =>
            (* `.filter(|lv| (lv.k1.is_some() && interests.g1) || (lv.k2.is_some() && interests.g2))`: row by row, order kept *)
            let kept := filter (fun r => match kind_flag AT kinds (fst r) with Some g => interested m g | None => false end) l in
            (* `if !t.is_empty() || (interests.w1 && interests.w2)` *)
            if negb (is_nil kept) || forallb (interested m) whole then [EDeferred slot (one_each kept)] else []
        | _, _ => []
        end
      else []
  | SCode flag _ V =>
      if interested m flag then
        match it_code st, rassoc V (ac_visits ac) with
        | Some (ms, ml, fs, xr, k), Some attr => na_code na attr ms ml fs xr k
        | _, _ => []
        end
      else []
  | SRecord flag _ V =>
      if interested m flag then
        match rassoc V (ac_visits ac) with
        | Some attr => mapi_from (fun i c => na_rc na attr i (fst (fst c)) (snd (fst c)) (snd c)) 0 (it_rcs st)
        | None => []
        end
      else []
  | SMembers _ _ _ _ | SMax | SInsns _ | SExc | SLast => []
  end.

Definition accept_item {K} (ct : ctx_table) (ac : accept_ctx) (AT : accept_tables) (na : naccept K) (m : mask) (st : titem K) : list ev :=
  flat_map (run_step ct ac AT na m st) (ac_steps ac).

Definition na0 : naccept unit := mkNA (fun _ _ _ _ _ _ => []) (fun _ _ _ _ _ => EFlags false false).

(* the flag of `let frame = if interests.x { instruction.frame } else { None }` *)
Definition frames_flag (AT : accept_tables) : str :=
  match flat_map (fun s => match s with SInsns f => [f] | _ => [] end) (ac_steps (at_code AT)) with
  | f :: _ => f
  | [] => []
  end.

(* `code_visitor.visit_exception_table(self.exception_table)?;` is a statement of Code::accept (unconditional) *)
Definition exc_replayed (AT : accept_tables) : bool :=
  existsb (fun s => match s with SExc => true | _ => false end) (ac_steps (at_code AT)).

(* Code::accept: `if let Some(mut code_visitor) = visitor.visit_code()? { … } Ok(visitor)` *)
Definition accept_code (T : reader_tables) (AT : accept_tables) (kc : option mask) (attr : str) (ms ml : N) (fs : list str) (xr : list row) (k : titem unit) : list ev :=
  [match kc with
   | Some cm => ECode attr ms ml (if interested cm (frames_flag AT) then fs else []) (if exc_replayed AT then xr else [])
                      (accept_item (rt_code T) (at_code AT) AT na0 cm k)
   | None => ECodeDeclined attr
   end].

(* RecordComponent::accept: Break => Ok(visitor) *)
Definition accept_rc (T : reader_tables) (AT : accept_tables) (v : visitor) (attr : str) (i : nat) (n d : N) (k : titem unit) : ev :=
  ERc attr i n d (match v_rc v i with
                  | Some m' => Some (accept_item (rt_rc T) (at_rc AT) AT na0 m' k)
                  | None => None
                  end).

(* kc = what visit_code() of the method at hand answers (None at the class level, which has no Code) *)
Definition na1 (T : reader_tables) (AT : accept_tables) (v : visitor) (kc : option mask) : naccept (titem unit) :=
  mkNA (accept_code T AT kc) (accept_rc T AT v).

Definition accept_field (T : reader_tables) (AT : accept_tables) (v : visitor) (k : nat) (f : N * N * N * titem unit) : ev :=
  EField k (fst (fst (fst f))) (snd (fst (fst f))) (snd (fst f))
    (match v_field v k with
     | Some m => Some (accept_item (rt_field T) (at_field AT) AT na0 m (snd f))
     | None => None
     end).
Definition accept_method (T : reader_tables) (AT : accept_tables) (v : visitor) (k : nat) (f : N * N * N * titem (titem unit)) : ev :=
  EMethod k (fst (fst (fst f))) (snd (fst (fst f))) (snd (fst f))
    (match v_method v k with
     | Some m => Some (accept_item (rt_method T) (at_method AT) AT (na1 T AT v (v_code v k)) m (snd f))
     | None => None
     end).

Definition run_class_step (T : reader_tables) (AT : accept_tables) (v : visitor) (t : class_tree) (s : astep) : list ev :=
  match s with
  | SMembers flag _ _ false => if interested (v_class v) flag then mapi_from (accept_field T AT v) 0 (t_fields t) else []
  | SMembers flag _ _ true => if interested (v_class v) flag then mapi_from (accept_method T AT v) 0 (t_methods t) else []
  | s => run_step (rt_class T) (at_class AT) AT (na1 T AT v None) (v_class v) (t_item t) s
  end.

(* ClassFile::accept: visit_class -> Break => Ok(visitor) *)
Definition accept_class (T : reader_tables) (AT : accept_tables) (v : visitor) (t : class_tree) : option (list ev) :=
  if v_accept_class v then Some (flat_map (run_class_step T AT v t) (ac_steps (at_class AT))) else None.
