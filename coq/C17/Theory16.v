(* C17 — theory, part 16: the tree builder SUCCEEDS on the full read of every well-formed class in which
   no item carries two attributes of one at-most-once kind ([build_succeeds]) — the hypothesis
   `build … = Ok tree` of the replay theorems is thereby discharged for all such classes.

   Route: the events of one attribute loop are  (1) the loop events in file order — named attributes,
   unknown attributes, Code, record components —, (2) the tables visited after the loop, (3) the flags.
   An invariant of the builder state ([P1]: which fields are filled, all of them by bodies, Code at most
   once, record components counted) is carried along the attribute list; the finite checks on the
   generated tables ([accept_ok], and [build_ok] below) say that every event finds its builder row, with a
   mode that accepts it.  Code and record components are the same lemma one level down; the class is the
   join of its attribute loop, its fields and its methods ([class_fold_join]). *)
From Coq Require Import Permutation PeanoNat.
From FB Require Import C17.Model C17.Theory C17.Theory2 C17.Theory3 C17.Theory4 C17.Theory5 C17.Struct C17.Replay
  C17.Theory6 C17.Theory7 C17.Theory8 C17.Theory9 C17.Theory10 C17.Theory11 C17.Theory12 C17.Theory13 C17.Theory14
  C17.Theory15 C17.AttrTable C17.AcceptTable.

Arguments N.add : simpl never.
Arguments N.mul : simpl never.

(* ---------- one more finite check of the generated tables ---------- *)
(* the tables visited after the loop are distinct, and their visit calls are not the visit call of any arm
   (so the field such a table is stored in is not a field that an attribute of the loop fills) *)
Definition ctx_build_ok (ct : ctx_table) (ac : accept_ctx) : bool :=
  nodup_b (t_deferred ct)
  && forallb (fun sv => negb (is_some (rassoc (snd sv) (ac_visits ac)))) (ac_deferred ac).
Definition build_ok (T : reader_tables) (AT : accept_tables) : bool :=
  ctx_build_ok (rt_class T) (at_class AT) && ctx_build_ok (rt_field T) (at_field AT)
  && ctx_build_ok (rt_method T) (at_method AT) && ctx_build_ok (rt_code T) (at_code AT)
  && ctx_build_ok (rt_rc T) (at_rc AT).

Lemma generated_build_ok : build_ok tables accept_tables_gen = true.
Proof. vm_compute. reflexivity. Qed.

(* ---------- the hypothesis: no at-most-once attribute twice in one item ---------- *)
Definition named_act (a : option action) : bool :=
  match a with Some (AParse DNow) | Some (AReadLen false) => true | _ => false end.

(* the tree field that the attribute's visit call fills, and whether it is insert_if_empty *)
Definition tree_field (p : pool) (ct : ctx_table) (ac : accept_ctx) (a : attr) : option (str * bool) :=
  match a with
  | AtPlain pa =>
    match pool_utf8 p (p_nidx pa) with
    | Some name =>
        if named_act (act_full ct name) then
          match row_of ac name with
          | Some row => Some (b_field row, match b_mode row with MOnce => true | _ => false end)
          | None => None
          end
        else None
    | None => None
    end
  | _ => None
  end.

Fixpoint fields_once_ok (p : pool) (ct : ctx_table) (ac : accept_ctx) (filled : list str) (l : list attr) : bool :=
  match l with
  | [] => true
  | a :: l' =>
    match tree_field p ct ac a with
    | Some (f, once) => (negb once || negb (mem f filled)) && fields_once_ok p ct ac (f :: filled) l'
    | None => fields_once_ok p ct ac filled l'
    end
  end.

Definition is_code_attr (a : attr) : bool := match a with AtCode _ _ _ _ _ _ _ _ => true | _ => false end.
Fixpoint count_code (l : list attr) : nat :=
  match l with [] => O | a :: l' => (if is_code_attr a then 1 else 0) + count_code l' end.

Definition once_attrs_b (p : pool) (ct : ctx_table) (ac : accept_ctx) (l : list attr) : bool :=
  fields_once_ok p ct ac [] l && Nat.leb (count_code l) 1.
Definition once_pattrs_b (p : pool) (ct : ctx_table) (ac : accept_ctx) (l : list pattr) : bool :=
  once_attrs_b p ct ac (map AtPlain l).

(* … in the attribute list, and in the Code / the record components it holds *)
Definition once_attr_deep (p : pool) (T : reader_tables) (AT : accept_tables) (a : attr) : bool :=
  match a with
  | AtPlain _ => true
  | AtCode _ _ _ _ _ _ _ attrs => once_pattrs_b p (rt_code T) (at_code AT) attrs
  | AtRecord _ _ comps => forallb (fun c => once_pattrs_b p (rt_rc T) (at_rc AT) (snd c)) comps
  end.
Definition once_item_b (p : pool) (T : reader_tables) (AT : accept_tables) (ct : ctx_table) (ac : accept_ctx) (l : list attr) : bool :=
  once_attrs_b p ct ac l && forallb (once_attr_deep p T AT) l.

Definition once_b (T : reader_tables) (AT : accept_tables) (c : cls) : bool :=
  let p := h_pool (header_of c) in
  forallb (fun m => once_item_b p T AT (rt_field T) (at_field AT) (m_attrs m)) (c_fields c)
  && forallb (fun m => once_item_b p T AT (rt_method T) (at_method AT) (m_attrs m)) (c_methods c)
  && once_item_b p T AT (rt_class T) (at_class AT) (c_attrs c).

(* ---------- small facts ---------- *)
Lemma nodup_field_row rows r1 r2 : nodup_b (map b_field rows) = true -> In r1 rows -> In r2 rows -> b_field r1 = b_field r2 -> r1 = r2.
Proof.
  induction rows as [|r rows IH]; intros Hnd H1 H2 Hf; [destruct H1|].
  cbn [map nodup_b] in Hnd. apply andb_prop in Hnd as [Hn Hnd]. apply negb_true_iff in Hn.
  assert (Hnot : forall r', In r' rows -> b_field r' <> b_field r).
  { intros r' Hr' E. assert (mem (b_field r) (map b_field rows) = true); [|congruence].
    unfold mem. apply existsb_exists. exists (b_field r'). split; [apply in_map; exact Hr'|rewrite E; apply str_eqb_refl]. }
  destruct H1 as [<-|H1], H2 as [<-|H2]; try reflexivity.
  - exfalso. exact (Hnot r2 H2 (eq_sym Hf)).
  - exfalso. exact (Hnot r1 H1 Hf).
  - exact (IH Hnd H1 H2 Hf).
Qed.

Lemma mem_cons x y l : mem x (y :: l) = str_eqb x y || mem x l.
Proof. reflexivity. Qed.

Lemma is_some_true {A} (o : option A) : is_some o = true -> exists x, o = Some x.
Proof. destruct o; [eexists; reflexivity|discriminate]. Qed.

(* a named attribute of the loop: its arm, its visit call, its builder row *)
Lemma named_entry ct except ac AT name act :
  ctx_ok ct except = true -> ctx_facts ct ac AT ->
  act_full ct name = Some act -> (act = AParse DNow \/ act = AReadLen false \/ (exists sk, act = ACode sk) \/ (exists o, act = ARecord o)) ->
  exists V row g s, assoc name (ac_visits ac) = Some V /\ find_row V (ac_builder ac) = Some row /\ row_of ac name = Some row
    /\ gov ct name = Some g /\ unique_step (entry_comp act row) (ac_steps ac) = Some s /\ entry_step_ok act row g V s = true.
Proof.
  intros Hct CF Ha Hk.
  destruct (act_full_arm ct except name act Hct Ha) as [Hin|[He _]].
  2: { subst act. destruct Hk as [H|[H|[[? H]|[? H]]]]; discriminate H. }
  pose proof (cf_cov _ _ _ CF) as Hcov. unfold arms_covered in Hcov. apply andb_prop in Hcov as [Hcov _].
  pose proof (forallb_In' _ _ _ Hcov Hin) as Hc. cbn [a_pat a_guard a_act] in Hc.
  assert (Hs : is_some (assoc name (ac_visits ac)) = true).
  { destruct Hk as [->|[->|[[sk ->]|[o ->]]]]; exact Hc. }
  destruct (is_some_true _ Hs) as (V & HV).
  pose proof (forallb_In' _ _ _ (cf_visits _ _ _ CF) (assoc_In _ _ _ HV)) as Hv.
  unfold visit_entry_ok in Hv. cbn [fst snd] in Hv. rewrite Ha in Hv.
  apply andb_prop in Hv as [_ Hv].
  destruct (find_row V (ac_builder ac)) as [row|] eqn:Er; [|discriminate].
  destruct (gov ct name) as [g|] eqn:Eg; [|discriminate].
  destruct (unique_step (entry_comp act row) (ac_steps ac)) as [s|] eqn:Eu; [|discriminate].
  exists V, row, g, s. unfold row_of. rewrite HV, Er. repeat split; try reflexivity; assumption.
Qed.

(* ---------- the invariant of the builder state along the loop events ---------- *)
Record P1 {K} (ct : ctx_table) (ac : accept_ctx) (st : lstate) (b : titem K) (filled : list str) (cb : nat) : Prop := mkP1 {
  p1_slots : forall f v, assoc f (it_slots b) = Some v -> mem f filled = true /\ exists body, v = VBody body;
  p1_named : forall f, mem f filled = true -> exists name V row, assoc name (ac_visits ac) = Some V /\ find_row V (ac_builder ac) = Some row /\ b_field row = f;
  p1_code : it_code b <> None -> cb = 1%nat;
  p1_rcs : length (it_rcs b) = l_rc st;
  p1_flags : it_flags b = None;
}.

Definition Built {K} (ct : ctx_table) (ac : accept_ctx) (nb : nbuild K) (st : lstate) (b : titem K) : Prop :=
  fold_res (build_step false ct ac nb) (rev (l_events st)) empty_item = Ok b.

Lemma built_emit {K} ct ac (nb : nbuild K) st b e b' :
  Built ct ac nb st b -> build_step false ct ac nb b e = Ok b' -> Built ct ac nb (l_emit st e) b'.
Proof.
  unfold Built, l_emit. cbn [l_events rev]. intros H Hs. rewrite fold_res_app, H. cbn [fold_res]. rewrite Hs. reflexivity.
Qed.

Lemma mem_weaken x y l : mem x l = true -> mem x (y :: l) = true.
Proof. intros H. rewrite mem_cons, H. apply orb_true_r. Qed.

Lemma P1_more_filled {K} ct ac st (b : titem K) filled cb f name V row :
  P1 ct ac st b filled cb -> assoc name (ac_visits ac) = Some V -> find_row V (ac_builder ac) = Some row -> b_field row = f ->
  P1 ct ac st b (f :: filled) cb.
Proof.
  intros [H1 H2 H3 H4 H5] HV Hr Hf. constructor; try assumption.
  - intros f' v Hv. destruct (H1 f' v Hv) as [Hm Hb]. split; [apply mem_weaken; exact Hm|exact Hb].
  - intros f' Hm. rewrite mem_cons in Hm. apply orb_prop in Hm as [Hm|Hm]; [|exact (H2 f' Hm)].
    apply str_eqb_eq in Hm. subst f'. exists name, V, row. auto.
Qed.

Lemma P1_set_slot {K} ct ac st (b : titem K) filled cb f body name V row :
  P1 ct ac st b filled cb -> assoc name (ac_visits ac) = Some V -> find_row V (ac_builder ac) = Some row -> b_field row = f ->
  P1 ct ac st (set_slot f (VBody body) b) (f :: filled) cb.
Proof.
  intros HP HV Hr Hf. destruct (P1_more_filled ct ac st b filled cb f name V row HP HV Hr Hf) as [H1 H2 H3 H4 H5].
  constructor; cbn [set_slot it_slots it_code it_rcs it_flags]; try assumption.
  intros f' v. cbn [assoc]. destruct (str_eqb_spec f' f) as [->|_].
  - intros [= <-]. split; [rewrite mem_cons, str_eqb_refl; reflexivity|eexists; reflexivity].
  - apply H1.
Qed.

(* the state of the reader changes without an event *)
Lemma P1_same_events {K} ct ac st st' (b : titem K) filled cb :
  l_rc st' = l_rc st -> P1 ct ac st b filled cb -> P1 ct ac st' b filled cb.
Proof. intros E [H1 H2 H3 H4 H5]. constructor; try assumption. rewrite E. exact H4. Qed.

(* filling a field from a named attribute succeeds *)
Lemma fill_succeeds {K} row body (b : titem K) :
  b_mode row <> MPush ->
  (b_mode row = MOnce -> assoc (b_field row) (it_slots b) = None) ->
  (forall v, assoc (b_field row) (it_slots b) = Some v -> exists a, v = VBody a) ->
  exists b', fill false row body b = Ok b' /\ (b' = b \/ exists body', b' = set_slot (b_field row) (VBody body') b).
Proof.
  intros Hnp Honce Hbody. unfold fill. destruct (b_mode row) eqn:Em.
  - rewrite (Honce eq_refl). eexists. split; [reflexivity|]. right. eexists. reflexivity.
  - destruct (assoc (b_field row) (it_slots b)); eexists; (split; [reflexivity|]); right; eexists; reflexivity.
  - destruct (count_of body =? 0); [eexists; split; [reflexivity|left; reflexivity]|].
    destruct (assoc (b_field row) (it_slots b)) as [v|] eqn:Ev.
    + destruct (Hbody v eq_refl) as (a & ->). eexists. split; [reflexivity|]. right. eexists. reflexivity.
    + eexists. split; [reflexivity|]. right. eexists. reflexivity.
  - congruence.
Qed.

(* ---------- what the nested levels must provide ---------- *)
Record nested_builds {K} (p : pool) (T : reader_tables) (nb : nbuild K) (l : list attr) : Prop := mkNBs {
  nbs_code : forall nidx len ms ml code nexc exc attrs, In (AtCode nidx len ms ml code nexc exc attrs) l ->
      let stc := spec_plains p (rt_code T) (t_interests (rt_code T)) attrs l_init in
      exists k, nb_code nb (frame_sources stc) (loop_events (rt_code T) (t_interests (rt_code T)) stc) = Ok k;
  nbs_rc : forall nidx len comps c, In (AtRecord nidx len comps) l -> In c comps ->
      exists k, nb_rc nb (loop_events (rt_rc T) (t_interests (rt_rc T)) (spec_plains p (rt_rc T) (t_interests (rt_rc T)) (snd c) l_init)) = Ok k;
}.

Lemma nested_builds_tail {K} p T (nb : nbuild K) a l : nested_builds p T nb (a :: l) -> nested_builds p T nb l.
Proof.
  intros [H1 H2]. constructor.
  - intros. eapply H1. right. eassumption.
  - intros. eapply H2; [right; eassumption|assumption].
Qed.

(* ---------- one attribute ---------- *)
Lemma rcs_step {K} T ct ac (nb : nbuild K) p attr row V :
  act_full ct attr <> None -> (exists o, act_full ct attr = Some (ARecord o)) ->
  assoc attr (ac_visits ac) = Some V -> find_row V (ac_builder ac) = Some row -> b_mode row = MPush ->
  forall comps st b filled cb,
    (forall c, In c comps -> exists k, nb_rc nb (loop_events (rt_rc T) (t_interests (rt_rc T)) (spec_plains p (rt_rc T) (t_interests (rt_rc T)) (snd c) l_init)) = Ok k) ->
    Built ct ac nb st b -> P1 ct ac st b filled cb ->
    exists b', Built ct ac nb (spec_rcs p T (v_full T) attr comps st) b' /\ P1 ct ac (spec_rcs p T (v_full T) attr comps st) b' filled cb.
Proof.
  intros _ (o & Ha) HV Hr Hm. induction comps as [|c comps IH]; intros st b filled cb Hn HB HP.
  - exists b. split; assumption.
  - unfold spec_rcs. cbn [fold_left]. fold (spec_rcs p T (v_full T) attr comps (push_rc p T (v_full T) attr st c)).
    destruct (Hn c (or_introl eq_refl)) as (k & Hk).
    set (e := spec_rc p T (v_full T) attr (l_rc st) c).
    assert (He : e = ERc attr (l_rc st) (fst (fst c)) (snd (fst c)) (Some (loop_events (rt_rc T) (t_interests (rt_rc T)) (spec_plains p (rt_rc T) (t_interests (rt_rc T)) (snd c) l_init)))).
    { unfold e, spec_rc. cbn [v_full v_rc]. reflexivity. }
    set (b1 := mkTI (it_flags b) (it_slots b) (it_unknown b) (it_code b) (it_rcs b ++ [(fst (fst c), snd (fst c), k)])).
    assert (Hstep : build_step false ct ac nb b e = Ok b1).
    { rewrite He. cbn [build_step]. unfold row_of. rewrite Ha, HV, Hr, Hm.
      rewrite (p1_rcs _ _ _ _ _ _ HP), Nat.eqb_refl, Hk. reflexivity. }
    apply (IH (push_rc p T (v_full T) attr st c) b1 filled cb).
    + intros c' Hc'. apply Hn. right. exact Hc'.
    + unfold Built, push_rc. cbn [l_events rev]. fold e. unfold Built in HB.
      rewrite fold_res_app, HB. cbn [fold_res]. rewrite Hstep. reflexivity.
    + destruct HP as [H1 H2 H3 H4 H5]. constructor; unfold b1, push_rc; cbn [it_slots it_code it_rcs it_flags l_rc]; try assumption.
      rewrite app_length, H4. cbn [length]. lia.
Qed.

Lemma attr_step {K} p T AT k ct except ac (nb : nbuild K) kc a st b filled cb :
  ctx_ok ct except = true -> ctx_facts ct ac AT -> (Struct.is_method k = true -> kc = Some (t_interests (rt_code T))) ->
  wf_attr_b p T k ct a = true ->
  match tree_field p ct ac a with
  | Some (f, once) => negb once || negb (mem f filled) = true
  | None => True
  end ->
  (cb + (if is_code_attr a then 1 else 0) <= 1)%nat ->
  nested_builds p T nb [a] ->
  Built ct ac nb st b -> P1 ct ac st b filled cb ->
  let st' := spec_attr p T (v_full T) ct (t_interests ct) kc st a in
  exists b', Built ct ac nb st' b'
    /\ P1 ct ac st' b' (match tree_field p ct ac a with Some (f, _) => f :: filled | None => filled end)
                       (cb + (if is_code_attr a then 1 else 0)).
Proof.
  intros Hct CF Hkc Hwf Honce Hcb Hn HB HP. cbv zeta.
  destruct a as [pa | nidx len ms ml code nexc exc attrs | nidx len comps]; cbn [spec_attr is_code_attr tree_field] in *.
  - (* a plain attribute *)
    replace (cb + 0)%nat with cb by lia.
    cbn [wf_attr_b] in Hwf. unfold wf_plain_b in Hwf. unfold spec_plain.
    destruct (pool_utf8 p (p_nidx pa)) as [name|]; [|discriminate].
    rewrite (act_under_full ct except name Hct).
    destruct (act_full ct name) as [act|] eqn:Ea; [|apply andb_prop in Hwf as [_ Hwf]; discriminate].
    destruct act as [| w | [|s o] | [|] | sk | o]; cbn [plain_result named_act] in *.
    + (* skipped under the full mask: nothing happens *)
      exists b. split; assumption.
    + (* a flag *)
      exists b. split; [exact HB|]. apply (P1_same_events ct ac st); [reflexivity|exact HP].
    + (* parsed and visited at once *)
      destruct (named_entry ct except ac AT name _ Hct CF Ea (or_introl eq_refl)) as (V & row & g & s & HV & Hr & Hrow & Hg & Hu & Hs).
      rewrite Hrow in *.
      assert (Hmode : b_mode row <> MPush).
      { intros Em. unfold entry_step_ok in Hs. rewrite Em in Hs. discriminate. }
      destruct (fill_succeeds row (p_body pa) b Hmode) as (b' & Hfill & Hb').
      { intros Em. rewrite Em in Honce. cbn [negb orb] in Honce. apply negb_true_iff in Honce.
        destruct (assoc (b_field row) (it_slots b)) as [v|] eqn:Ev; [|reflexivity].
        destruct (p1_slots _ _ _ _ _ _ HP _ _ Ev) as [Hm _]. congruence. }
      { intros v Ev. exact (proj2 (p1_slots _ _ _ _ _ _ HP _ _ Ev)). }
      exists b'. split.
      * apply (built_emit ct ac nb st b _ b' HB). cbn [build_step]. rewrite Ea, Hrow. exact Hfill.
      * destruct Hb' as [->|(body' & ->)].
        -- apply (P1_same_events ct ac st); [reflexivity|]. exact (P1_more_filled ct ac st b filled cb (b_field row) name V row HP HV Hr eq_refl).
        -- apply (P1_same_events ct ac st); [reflexivity|]. exact (P1_set_slot ct ac st b filled cb (b_field row) body' name V row HP HV Hr eq_refl).
    + (* stored in a local of the reader *)
      exists b. split; [exact HB|]. apply (P1_same_events ct ac st); [reflexivity|exact HP].
    + (* the default arm *)
      eexists. split.
      * apply (built_emit ct ac nb st b _ _ HB). cbn [build_step]. rewrite Ea. reflexivity.
      * destruct HP as [H1 H2 H3 H4 H5]. constructor; cbn [it_slots it_code it_rcs it_flags l_emit l_rc]; assumption.
    + (* read by length, named visit *)
      destruct (named_entry ct except ac AT name _ Hct CF Ea (or_intror (or_introl eq_refl))) as (V & row & g & s & HV & Hr & Hrow & Hg & Hu & Hs).
      rewrite Hrow in *.
      assert (Hmode : b_mode row <> MPush).
      { intros Em. unfold entry_step_ok in Hs. rewrite Em in Hs. discriminate. }
      destruct (fill_succeeds row (p_body pa) b Hmode) as (b' & Hfill & Hb').
      { intros Em. rewrite Em in Honce. cbn [negb orb] in Honce. apply negb_true_iff in Honce.
        destruct (assoc (b_field row) (it_slots b)) as [v|] eqn:Ev; [|reflexivity].
        destruct (p1_slots _ _ _ _ _ _ HP _ _ Ev) as [Hm _]. congruence. }
      { intros v Ev. exact (proj2 (p1_slots _ _ _ _ _ _ HP _ _ Ev)). }
      exists b'. split.
      * apply (built_emit ct ac nb st b _ b' HB). cbn [build_step]. rewrite Ea, Hrow. exact Hfill.
      * destruct Hb' as [->|(body' & ->)].
        -- apply (P1_same_events ct ac st); [reflexivity|]. exact (P1_more_filled ct ac st b filled cb (b_field row) name V row HP HV Hr eq_refl).
        -- apply (P1_same_events ct ac st); [reflexivity|]. exact (P1_set_slot ct ac st b filled cb (b_field row) body' name V row HP HV Hr eq_refl).
    + apply andb_prop in Hwf as [_ Hwf]. discriminate.
    + apply andb_prop in Hwf as [_ Hwf]. discriminate.
  - (* Code *)
    cbn [wf_attr_b] in Hwf. repeat (apply andb_prop in Hwf; destruct Hwf as [Hwf ?]).
    destruct (pool_utf8 p nidx) as [name|]; [|discriminate].
    destruct (act_full ct name) as [[| | | |sk|]|] eqn:Ea; try discriminate.
    fold (keep_ct ct (t_interests ct) name). rewrite (keep_full ct except name Hct). rewrite (Hkc Hwf).
    destruct (named_entry ct except ac AT name _ Hct CF Ea (or_intror (or_intror (or_introl (ex_intro _ sk eq_refl))))) as (V & row & g & s & HV & Hr & Hrow & Hg & Hu & Hs).
    assert (Hmode : b_mode row = MOnce).
    { unfold entry_step_ok in Hs. destruct (b_mode row); try discriminate. reflexivity. }
    destruct (nbs_code _ _ _ _ Hn nidx len ms ml code nexc exc attrs (or_introl eq_refl)) as (kk & Hk). cbv zeta in Hk.
    assert (Hnone : it_code b = None).
    { destruct (it_code b) eqn:E; [|reflexivity]. assert (cb = 1%nat) by (apply (p1_code _ _ _ _ _ _ HP); congruence). lia. }
    eexists. split.
    + apply (built_emit ct ac nb st b _ _ HB). unfold spec_code. cbn [build_step]. rewrite Ea, Hrow, Hmode, Hnone, Hk. reflexivity.
    + destruct HP as [Q1 Q2 Q3 Q4 Q5]. constructor; cbn [it_slots it_code it_rcs it_flags l_emit l_rc]; try assumption.
      intros _. lia.
  - (* Record *)
    replace (cb + 0)%nat with cb by lia.
    cbn [wf_attr_b] in Hwf. repeat (apply andb_prop in Hwf; destruct Hwf as [Hwf ?]).
    destruct (pool_utf8 p nidx) as [name|]; [|discriminate].
    destruct (act_full ct name) as [[| | | | |o]|] eqn:Ea; try discriminate.
    fold (keep_ct ct (t_interests ct) name). rewrite (keep_full ct except name Hct).
    destruct (named_entry ct except ac AT name _ Hct CF Ea (or_intror (or_intror (or_intror (ex_intro _ o eq_refl))))) as (V & row & g & s & HV & Hr & Hrow & Hg & Hu & Hs).
    assert (Hmode : b_mode row = MPush).
    { unfold entry_step_ok in Hs. destruct (b_mode row); try discriminate. reflexivity. }
    apply (rcs_step T ct ac nb p name row V (ltac:(rewrite Ea; discriminate)) (ex_intro _ o Ea) HV Hr Hmode comps (set_record st) b filled cb).
    + intros c Hc. exact (nbs_rc _ _ _ _ Hn nidx len comps c (or_introl eq_refl) Hc).
    + unfold Built, set_record. cbn [l_events]. exact HB.
    + apply (P1_same_events ct ac st); [reflexivity|exact HP].
Qed.

(* ---------- all attributes of the loop ---------- *)
Lemma nested_builds_head {K} p T (nb : nbuild K) a l : nested_builds p T nb (a :: l) -> nested_builds p T nb [a].
Proof.
  intros [H1 H2]. constructor.
  - intros nidx len ms ml code nexc exc attrs [->|[]]. eapply H1. left. reflexivity.
  - intros nidx len comps c [->|[]] Hc. eapply H2; [left; reflexivity|exact Hc].
Qed.

Lemma attrs_phase1 {K} p T AT k ct except ac (nb : nbuild K) kc :
  ctx_ok ct except = true -> ctx_facts ct ac AT -> (Struct.is_method k = true -> kc = Some (t_interests (rt_code T))) ->
  forall l st b filled cb,
    forallb (wf_attr_b p T k ct) l = true ->
    fields_once_ok p ct ac filled l = true -> (cb + count_code l <= 1)%nat ->
    nested_builds p T nb l ->
    Built ct ac nb st b -> P1 ct ac st b filled cb ->
    exists b' filled' cb', Built ct ac nb (spec_attrs p T (v_full T) ct (t_interests ct) kc l st) b'
       /\ P1 ct ac (spec_attrs p T (v_full T) ct (t_interests ct) kc l st) b' filled' cb'.
Proof.
  intros Hct CF Hkc. induction l as [|a l IH]; intros st b filled cb Hwf Honce Hcb Hn HB HP.
  - exists b, filled, cb. split; assumption.
  - cbn [forallb] in Hwf. apply andb_prop in Hwf as [Hwa Hwl].
    cbn [count_code] in Hcb. cbn [fields_once_ok] in Honce.
    unfold spec_attrs. cbn [fold_left]. fold (spec_attrs p T (v_full T) ct (t_interests ct) kc l (spec_attr p T (v_full T) ct (t_interests ct) kc st a)).
    assert (Hone : match tree_field p ct ac a with Some (f, once) => negb once || negb (mem f filled) = true | None => True end).
    { destruct (tree_field p ct ac a) as [[f once]|]; [|exact I]. apply andb_prop in Honce as [H _]. exact H. }
    destruct (attr_step p T AT k ct except ac nb kc a st b filled cb Hct CF Hkc Hwa Hone ltac:(lia) (nested_builds_head _ _ _ _ _ Hn) HB HP)
      as (b1 & HB1 & HP1).
    refine (IH _ b1 _ _ Hwl _ _ (nested_builds_tail _ _ _ _ _ Hn) HB1 HP1).
    + destruct (tree_field p ct ac a) as [[f once]|]; [apply andb_prop in Honce as [_ H]; exact H|exact Honce].
    + lia.
Qed.

(* the locals of the reader hold what the storing arms put there *)
Definition slots_inv (ct : ctx_table) (st : lstate) : Prop :=
  forall s name body, In (s, (name, body)) (l_slots st) -> stores_into ct s name = true.

Lemma rcs_slots p T v attr comps : forall st, l_slots (spec_rcs p T v attr comps st) = l_slots st.
Proof.
  induction comps as [|c comps IH]; intros st; [reflexivity|].
  unfold spec_rcs. cbn [fold_left]. fold (spec_rcs p T v attr comps (push_rc p T v attr st c)). rewrite IH. reflexivity.
Qed.

Lemma attrs_slots_inv p T v ct except kc l : ctx_ok ct except = true ->
  forall st, slots_inv ct st -> slots_inv ct (spec_attrs p T v ct (t_interests ct) kc l st).
Proof.
  intros Hct. induction l as [|a l IH]; intros st H; [exact H|].
  unfold spec_attrs. cbn [fold_left]. apply IH.
  destruct a as [pa | nidx len ms ml code nexc exc attrs | nidx len comps]; cbn [spec_attr].
  - unfold spec_plain. destruct (pool_utf8 p (p_nidx pa)) as [name|]; [|exact H].
    rewrite (act_under_full ct except name Hct).
    destruct (act_full ct name) as [[| w | [|s o] | u | sk | o]|] eqn:Ea; cbn [plain_result]; try exact H.
    intros s' name' body' [[= <- <- <-]|Hin]; [|exact (H _ _ _ Hin)].
    unfold stores_into. rewrite Ea. apply str_eqb_refl.
  - destruct (pool_utf8 p nidx) as [name|]; [|exact H]. destruct (keep (t_arms ct) (t_interests ct) name); [|exact H].
    destruct kc; exact H.
  - destruct (pool_utf8 p nidx) as [name|]; [|exact H]. destruct (keep (t_arms ct) (t_interests ct) name); [|exact H].
    intros s name' body Hin. rewrite rcs_slots in Hin. exact (H _ _ _ Hin).
Qed.

Lemma slots_inv_init ct : slots_inv ct l_init.
Proof. intros s name body []. Qed.

Lemma slot_sources_stored ct st slot : slots_inv ct st ->
  forallb (fun x => stores_into ct slot (fst x)) (slot_sources ct st slot) = true.
Proof.
  intros H. unfold slot_sources. apply forallb_forall. intros x Hx.
  apply in_map_iff in Hx as ([s [name body]] & <- & Hin). cbn [fst snd].
  apply filter_In in Hin as [Hin Hs]. cbn [fst] in Hs. apply str_eqb_eq in Hs. subst s.
  apply in_rev in Hin. exact (H _ _ _ Hin).
Qed.

Lemma frame_sources_stored ct st : slots_inv ct st -> forallb (stores_into ct STACK_MAP_FRAME) (frame_sources st) = true.
Proof.
  intros H. unfold frame_sources. apply forallb_forall. intros n Hn.
  apply in_map_iff in Hn as ([s [name body]] & <- & Hin). cbn [fst snd].
  apply filter_In in Hin as [Hin Hs]. cbn [fst snd] in Hs. apply andb_prop in Hs as [Hs _]. apply str_eqb_eq in Hs. subst s.
  apply in_rev in Hin. exact (H _ _ _ Hin).
Qed.

(* ---------- the tables visited after the loop ---------- *)
Record P2 {K} (ct : ctx_table) (ac : accept_ctx) (b : titem K) (done : list str) : Prop := mkP2 {
  p2_slots : forall f v, assoc f (it_slots b) = Some v ->
      (exists name V row, assoc name (ac_visits ac) = Some V /\ find_row V (ac_builder ac) = Some row /\ b_field row = f)
      \/ (exists slot V row, mem slot done = true /\ assoc slot (ac_deferred ac) = Some V /\ find_row V (ac_builder ac) = Some row /\ b_field row = f);
  p2_flags : it_flags b = None;
}.

Lemma assoc_rassoc_some k (l : list (str * str)) v : assoc k l = Some v -> rassoc v l <> None.
Proof.
  induction l as [|[k' v'] l IH]; cbn [assoc rassoc]; [discriminate|].
  destruct (str_eqb_spec k k') as [->|_].
  - intros [= ->]. rewrite str_eqb_refl. discriminate.
  - intros H. destruct (str_eqb v v'); [discriminate|exact (IH H)].
Qed.

Lemma deferred_phase {K} ct ac AT (nb : nbuild K) m st :
  ctx_facts ct ac AT -> ctx_build_ok ct ac = true -> slots_inv ct st ->
  forall slots b done,
    (forall s, In s slots -> mem s (t_deferred ct) = true) ->
    nodup_b slots = true -> (forall s, In s slots -> mem s done = false) ->
    P2 ct ac b done ->
    exists b' done', fold_res (build_step false ct ac nb)
                       (flat_map (fun slot => if table_delivered ct m slot (slot_sources ct st slot)
                                              then [EDeferred slot (slot_sources ct st slot)] else []) slots) b = Ok b'
                     /\ P2 ct ac b' done'.
Proof.
  intros CF Hbo Hsl. apply andb_prop in Hbo as [_ Hdis].
  induction slots as [|slot slots IH]; intros b done Hin Hnd Hnot HP.
  - exists b, done. split; [reflexivity|exact HP].
  - cbn [nodup_b] in Hnd. apply andb_prop in Hnd as [Hn0 Hnd]. apply negb_true_iff in Hn0.
    cbn [flat_map]. rewrite fold_res_app.
    assert (Hrest : forall b1 done1, P2 ct ac b1 done1 -> (forall s, In s slots -> mem s done1 = false) ->
              exists b' done', fold_res (build_step false ct ac nb)
                  (flat_map (fun slot => if table_delivered ct m slot (slot_sources ct st slot)
                                         then [EDeferred slot (slot_sources ct st slot)] else []) slots) b1 = Ok b' /\ P2 ct ac b' done').
    { intros b1 done1 H1 H2. apply (IH b1 done1); try assumption. intros s Hs. apply Hin. right. exact Hs. }
    destruct (table_delivered ct m slot (slot_sources ct st slot)) eqn:Edel.
    2: { cbn [fold_res]. apply (Hrest b done HP). intros s Hs. apply Hnot. right. exact Hs. }
    destruct (slot_sources ct st slot) as [|x srcs] eqn:Esrc; [discriminate Edel|].
    + (* one table *)
      pose proof (cf_cov _ _ _ CF) as Hcov. unfold arms_covered in Hcov. apply andb_prop in Hcov as [_ Hcov].
      assert (Hmem : In slot (t_deferred ct)).
      { pose proof (Hin slot (or_introl eq_refl)) as Hm. unfold mem in Hm. apply existsb_exists in Hm as (y & Hy & E).
        apply str_eqb_eq in E. subst y. exact Hy. }
      destruct (is_some_true _ (forallb_In' _ _ _ Hcov Hmem)) as (V & HV).
      pose proof (forallb_In' _ _ _ (cf_deferred _ _ _ CF) (assoc_In _ _ _ HV)) as Hd.
      unfold deferred_entry_ok in Hd. cbn [fst snd] in Hd.
      apply andb_prop in Hd as [Hd Hs]. apply andb_prop in Hd as [Hd _]. apply andb_prop in Hd as [_ Hr]. apply ostr_eqb_eq in Hr.
      destruct (find_row V (ac_builder ac)) as [row|] eqn:Erow; [|discriminate].
      destruct (b_mode row) eqn:Emode; try discriminate.
      assert (Hnone : assoc (b_field row) (it_slots b) = None).
      { destruct (assoc (b_field row) (it_slots b)) as [v|] eqn:Ev; [|reflexivity]. exfalso.
        pose proof (cf_nodup _ _ _ CF) as Hnodup. unfold builder_fields in Hnodup.
        destruct (find_row_spec _ _ _ Erow) as [Hrin Hrv].
        destruct (p2_slots _ _ _ _ HP _ _ Ev) as [(name & V' & row' & HV' & Hr' & Hf')|(slot' & V' & row' & Hm' & HV' & Hr' & Hf')].
        - destruct (find_row_spec _ _ _ Hr') as [Hrin' Hrv'].
          pose proof (nodup_field_row _ _ _ Hnodup Hrin' Hrin Hf') as ->.
          assert (HVV : V' = V) by congruence. rewrite HVV in HV'.
          pose proof (forallb_In' _ _ _ Hdis (assoc_In _ _ _ HV)) as Hno. cbn [snd] in Hno. apply negb_true_iff in Hno.
          destruct (rassoc V (ac_visits ac)) eqn:E; [discriminate|]. exact (assoc_rassoc_some _ _ _ HV' E).
        - destruct (find_row_spec _ _ _ Hr') as [Hrin' Hrv'].
          pose proof (nodup_field_row _ _ _ Hnodup Hrin' Hrin Hf') as ->.
          assert (HVV : V' = V) by congruence. rewrite HVV in HV'.
          pose proof (forallb_In' _ _ _ (cf_deferred _ _ _ CF) (assoc_In _ _ _ HV')) as Hd'.
          unfold deferred_entry_ok in Hd'. cbn [fst snd] in Hd'.
          apply andb_prop in Hd' as [Hd' _]. apply andb_prop in Hd' as [Hd' _]. apply andb_prop in Hd' as [_ Hr2]. apply ostr_eqb_eq in Hr2.
          assert (slot' = slot) by congruence. subst slot'.
          rewrite (Hnot slot (or_introl eq_refl)) in Hm'. discriminate. }
      cbn [fold_res build_step]. rewrite HV, Erow, Emode, Hnone.
      pose proof (slot_sources_stored ct st slot Hsl) as Hst. rewrite Esrc in Hst. rewrite Hst. cbn [negb andb].
      apply (Hrest _ (slot :: done)).
      * destruct HP as [H1 H2]. constructor; cbn [set_slot it_slots it_flags]; [|exact H2].
        intros f v. cbn [assoc]. destruct (str_eqb_spec f (b_field row)) as [->|_].
        -- intros _. right. exists slot, V, row. repeat split; try assumption. rewrite mem_cons, str_eqb_refl. reflexivity.
        -- intros Hv. destruct (H1 f v Hv) as [Hl|(slot' & V' & row' & Hm' & Hrest')]; [left; exact Hl|].
           right. exists slot', V', row'. split; [apply mem_weaken; exact Hm'|exact Hrest'].
      * intros s0 Hs0. rewrite mem_cons. rewrite (Hnot s0 (or_intror Hs0)), orb_false_r.
        destruct (str_eqb_spec s0 slot) as [->|_]; [|reflexivity].
        exfalso. assert (mem slot slots = true); [|congruence]. unfold mem. apply existsb_exists. exists slot. split; [exact Hs0|apply str_eqb_refl].
Qed.

Lemma nodup_b_in_mem l : forall s, In s l -> mem s l = true.
Proof. intros s H. unfold mem. apply existsb_exists. exists s. split; [exact H|apply str_eqb_refl]. Qed.

(* ---------- one whole item: the fold over its events, and the finish ---------- *)
Lemma item_fold_builds {K} p T AT k ct except ac (nb : nbuild K) kc l :
  ctx_ok ct except = true -> ctx_facts ct ac AT -> ctx_build_ok ct ac = true -> (Struct.is_method k = true -> kc = Some (t_interests (rt_code T))) ->
  forallb (wf_attr_b p T k ct) l = true -> once_attrs_b p ct ac l = true -> nested_builds p T nb l ->
  exists b it, fold_res (build_step false ct ac nb) (loop_events ct (t_interests ct) (spec_attrs p T (v_full T) ct (t_interests ct) kc l l_init)) empty_item = Ok b
               /\ finish_item ct ac b = Ok it.
Proof.
  intros Hct CF Hbo Hkc Hwf Honce Hn.
  unfold once_attrs_b in Honce. apply andb_prop in Honce as [Ho1 Ho2]. apply Nat.leb_le in Ho2.
  set (stf := spec_attrs p T (v_full T) ct (t_interests ct) kc l l_init).
  assert (HP0 : @P1 K ct ac l_init empty_item [] 0).
  { constructor; cbn; try discriminate; try reflexivity; intros; try discriminate; congruence. }
  destruct (attrs_phase1 p T AT k ct except ac nb kc Hct CF Hkc l l_init empty_item [] 0%nat Hwf Ho1 ltac:(lia) Hn eq_refl HP0)
    as (b1 & filled & cb & HB1 & HP1). fold stf in HB1, HP1.
  assert (Hsl : slots_inv ct stf) by (apply (attrs_slots_inv p T (v_full T) ct except kc l Hct); apply slots_inv_init).
  pose proof Hbo as Hbo'. apply andb_prop in Hbo' as [Hnd _].
  assert (HP2 : P2 ct ac b1 []).
  { constructor; [|exact (p1_flags _ _ _ _ _ _ HP1)]. intros f v Hv. left.
    destruct (p1_slots _ _ _ _ _ _ HP1 f v Hv) as [Hm _]. exact (p1_named _ _ _ _ _ _ HP1 f Hm). }
  destruct (deferred_phase ct ac AT nb (t_interests ct) stf CF Hbo Hsl (t_deferred ct) b1 [] (nodup_b_in_mem _) Hnd (fun _ _ => eq_refl) HP2)
    as (b2 & done & Hf2 & HP2').
  unfold loop_events. rewrite fold_res_app. unfold Built in HB1. rewrite HB1. cbv iota beta.
  rewrite fold_res_app. unfold deferred_events. cbv zeta. rewrite Hf2. cbv iota beta.
  destruct (t_flags_event ct) eqn:Etf.
  - cbn [fold_res build_step]. rewrite Etf, (p2_flags _ _ _ _ HP2').
    eexists. eexists. split; [reflexivity|]. unfold finish_item. cbn [it_flags]. rewrite Etf. reflexivity.
  - cbn [fold_res]. eexists. eexists. split; [reflexivity|]. unfold finish_item. rewrite (p2_flags _ _ _ _ HP2'), Etf. reflexivity.
Qed.

Lemma item_builds {K} p T AT k ct except ac (nb : nbuild K) kc l :
  ctx_ok ct except = true -> ctx_facts ct ac AT -> ctx_build_ok ct ac = true -> (Struct.is_method k = true -> kc = Some (t_interests (rt_code T))) ->
  forallb (wf_attr_b p T k ct) l = true -> once_attrs_b p ct ac l = true -> nested_builds p T nb l ->
  exists it, build_item false ct ac nb (loop_events ct (t_interests ct) (spec_attrs p T (v_full T) ct (t_interests ct) kc l l_init)) = Ok it.
Proof.
  intros Hct CF Hbo Hkc Hwf Honce Hn.
  destruct (item_fold_builds p T AT k ct except ac nb kc l Hct CF Hbo Hkc Hwf Honce Hn) as (b & it & Hf & Hfin).
  exists it. unfold build_item. rewrite Hf. exact Hfin.
Qed.

(* ---------- the levels ---------- *)
Lemma spec_attrs_plains p T v ct m kc l : forall st, spec_attrs p T v ct m kc (map AtPlain l) st = spec_plains p ct m l st.
Proof.
  induction l as [|a l IH]; intros st; [reflexivity|].
  unfold spec_attrs, spec_plains in *. cbn [map fold_left spec_attr]. apply IH.
Qed.

Lemma wf_pattrs_attrs p (T : reader_tables) k ct l : wf_pattrs_b p ct l = true -> forallb (wf_attr_b p T k ct) (map AtPlain l) = true.
Proof.
  unfold wf_pattrs_b. intros H. apply andb_prop in H as [H _].
  induction l as [|a l IH]; [reflexivity|]. cbn [forallb map wf_attr_b] in *. apply andb_prop in H as [-> H]. exact (IH H).
Qed.

Lemma nested_builds_plain {K} p T (nb : nbuild K) l : nested_builds p T nb (map AtPlain l).
Proof.
  constructor.
  - intros nidx len ms ml code nexc exc attrs Hin. apply in_map_iff in Hin as (x & Hx & _). discriminate Hx.
  - intros nidx len comps c Hin. apply in_map_iff in Hin as (x & Hx & _). discriminate Hx.
Qed.

Lemma leaf_builds p (T : reader_tables) AT ct except ac l :
  ctx_ok ct except = true -> ctx_facts ct ac AT -> ctx_build_ok ct ac = true ->
  wf_pattrs_b p ct l = true -> once_pattrs_b p ct ac l = true ->
  exists it, build_item false ct ac nb0 (loop_events ct (t_interests ct) (spec_plains p ct (t_interests ct) l l_init)) = Ok it.
Proof.
  intros Hct CF Hbo Hwf Honce.
  rewrite <- (spec_attrs_plains p T (v_full T) ct (t_interests ct) (Some (t_interests (rt_code T))) l l_init).
  apply (item_builds p T AT KLeaf ct except ac nb0 _ (map AtPlain l) Hct CF Hbo (fun H => eq_refl)).
  - apply wf_pattrs_attrs. exact Hwf.
  - exact Honce.
  - apply nested_builds_plain.
Qed.

Record bfacts (T : reader_tables) (AT : accept_tables) : Prop := mkBF {
  bf_class : ctx_build_ok (rt_class T) (at_class AT) = true;
  bf_field : ctx_build_ok (rt_field T) (at_field AT) = true;
  bf_method : ctx_build_ok (rt_method T) (at_method AT) = true;
  bf_code : ctx_build_ok (rt_code T) (at_code AT) = true;
  bf_rc : ctx_build_ok (rt_rc T) (at_rc AT) = true;
}.
Lemma build_ok_facts T AT : build_ok T AT = true -> bfacts T AT.
Proof.
  unfold build_ok. intros H.
  destruct (ctx_build_ok (rt_class T) (at_class AT)) eqn:E1; [|discriminate H].
  destruct (ctx_build_ok (rt_field T) (at_field AT)) eqn:E2; [|discriminate H].
  destruct (ctx_build_ok (rt_method T) (at_method AT)) eqn:E3; [|discriminate H].
  destruct (ctx_build_ok (rt_code T) (at_code AT)) eqn:E4; [|discriminate H].
  destruct (ctx_build_ok (rt_rc T) (at_rc AT)) eqn:E5; [|discriminate H].
  constructor; assumption.
Qed.

Lemma code_builds p T AT attrs : tok T -> afacts T AT -> bfacts T AT ->
  wf_pattrs_b p (rt_code T) attrs = true -> once_pattrs_b p (rt_code T) (at_code AT) attrs = true ->
  let stc := spec_plains p (rt_code T) (t_interests (rt_code T)) attrs l_init in
  exists k, build_code false T AT (frame_sources stc) (loop_events (rt_code T) (t_interests (rt_code T)) stc) = Ok k.
Proof.
  intros HT AF BF Hwf Honce stc. unfold build_code.
  assert (Hsl : slots_inv (rt_code T) stc).
  { unfold stc. rewrite <- (spec_attrs_plains p T (v_full T) (rt_code T) (t_interests (rt_code T)) None attrs l_init).
    apply (attrs_slots_inv p T (v_full T) (rt_code T) [] None _ (tk_code T HT)). apply slots_inv_init. }
  rewrite (frame_sources_stored _ _ Hsl).
  exact (leaf_builds p T AT (rt_code T) [] (at_code AT) attrs (tk_code T HT) (af_code _ _ AF) (bf_code _ _ BF) Hwf Honce).
Qed.

Lemma rc_builds p T AT attrs : tok T -> afacts T AT -> bfacts T AT ->
  wf_pattrs_b p (rt_rc T) attrs = true -> once_pattrs_b p (rt_rc T) (at_rc AT) attrs = true ->
  exists k, build_rc false T AT (loop_events (rt_rc T) (t_interests (rt_rc T)) (spec_plains p (rt_rc T) (t_interests (rt_rc T)) attrs l_init)) = Ok k.
Proof.
  intros HT AF BF Hwf Honce. unfold build_rc.
  exact (leaf_builds p T AT (rt_rc T) [] (at_rc AT) attrs (tk_rc T HT) (af_rc _ _ AF) (bf_rc _ _ BF) Hwf Honce).
Qed.

(* Code and record components of an attribute list are built by the level below *)
Lemma nested_builds1 p T AT k ct l : tok T -> afacts T AT -> bfacts T AT ->
  forallb (wf_attr_b p T k ct) l = true -> forallb (once_attr_deep p T AT) l = true ->
  nested_builds p T (nb1 false T AT) l.
Proof.
  intros HT AF BF Hwf Hdeep. constructor.
  - intros nidx len ms ml code nexc exc attrs Hin. cbn [nb1 nb_code].
    pose proof (forallb_In' _ _ _ Hwf Hin) as Hw. pose proof (forallb_In' _ _ _ Hdeep Hin) as Hd.
    cbn [wf_attr_b once_attr_deep] in Hw, Hd. apply andb_prop in Hw as [_ Hw].
    exact (code_builds p T AT attrs HT AF BF Hw Hd).
  - intros nidx len comps c Hin Hc. cbn [nb1 nb_rc].
    pose proof (forallb_In' _ _ _ Hwf Hin) as Hw. pose proof (forallb_In' _ _ _ Hdeep Hin) as Hd.
    cbn [wf_attr_b once_attr_deep] in Hw, Hd. apply andb_prop in Hw as [_ Hw].
    exact (rc_builds p T AT (snd c) HT AF BF (forallb_In' _ _ _ Hw Hc) (forallb_In' _ _ _ Hd Hc)).
Qed.

Lemma nested_builds0 p T k ct l : Struct.is_method k = false -> Struct.is_class k = false ->
  forallb (wf_attr_b p T k ct) l = true -> nested_builds p T nb0 l.
Proof.
  intros Hm Hc Hwf. constructor.
  - intros nidx len ms ml code nexc exc attrs Hin. pose proof (forallb_In' _ _ _ Hwf Hin) as Hw.
    cbn [wf_attr_b] in Hw. rewrite Hm in Hw. discriminate Hw.
  - intros nidx len comps c Hin _. pose proof (forallb_In' _ _ _ Hwf Hin) as Hw.
    cbn [wf_attr_b] in Hw. rewrite Hc in Hw. discriminate Hw.
Qed.

(* ---------- fields and methods ---------- *)
Lemma fields_built_spec p T AT : tok T -> afacts T AT -> bfacts T AT ->
  forall l k, forallb (wf_member_b p T KLeaf (rt_field T)) l = true ->
    forallb (fun m => once_item_b p T AT (rt_field T) (at_field AT) (m_attrs m)) l = true ->
    exists fs, fields_built false T AT k (spec_members false (spec_field p T (v_full T)) k l) fs.
Proof.
  intros HT AF BF. induction l as [|mb l IH]; intros k Hwf Honce.
  - exists []. constructor.
  - cbn [forallb] in Hwf, Honce. apply andb_prop in Hwf as [Hw Hwl]. apply andb_prop in Honce as [Ho Hol].
    destruct (IH (S k) Hwl Hol) as (fs & Hfs).
    unfold wf_member_b, wf_attrs_b in Hw. apply andb_prop in Hw as [Hw _]. apply andb_prop in Hw as [Hw _].
    unfold once_item_b in Ho. apply andb_prop in Ho as [Ho _].
    destruct (item_builds p T AT KLeaf (rt_field T) [] (at_field AT) nb0 None (m_attrs mb) (tk_field T HT) (af_field _ _ AF) (bf_field _ _ BF)
                (fun H : Struct.is_method KLeaf = true => match Bool.diff_false_true H with end) Hw Ho
                (nested_builds0 p T KLeaf (rt_field T) (m_attrs mb) eq_refl eq_refl Hw)) as (it & Hit).
    exists ((m_access mb, m_name mb, m_desc mb, it) :: fs).
    cbn [spec_members app]. unfold spec_field at 1. cbn [v_full v_field].
    constructor; [exact Hit|exact Hfs].
Qed.

Lemma methods_built_spec p T AT : tok T -> afacts T AT -> bfacts T AT ->
  forall l k, forallb (wf_member_b p T KMethod (rt_method T)) l = true ->
    forallb (fun m => once_item_b p T AT (rt_method T) (at_method AT) (m_attrs m)) l = true ->
    exists ms, methods_built false T AT k (spec_members false (spec_method p T (v_full T)) k l) ms.
Proof.
  intros HT AF BF. induction l as [|mb l IH]; intros k Hwf Honce.
  - exists []. constructor.
  - cbn [forallb] in Hwf, Honce. apply andb_prop in Hwf as [Hw Hwl]. apply andb_prop in Honce as [Ho Hol].
    destruct (IH (S k) Hwl Hol) as (ms & Hms).
    unfold wf_member_b, wf_attrs_b in Hw. apply andb_prop in Hw as [Hw _]. apply andb_prop in Hw as [Hw _].
    unfold once_item_b in Ho. apply andb_prop in Ho as [Ho Hdeep].
    destruct (item_builds p T AT KMethod (rt_method T) [] (at_method AT) (nb1 false T AT) (Some (t_interests (rt_code T))) (m_attrs mb)
                (tk_method T HT) (af_method _ _ AF) (bf_method _ _ BF) (fun _ => eq_refl) Hw Ho
                (nested_builds1 p T AT KMethod (rt_method T) (m_attrs mb) HT AF BF Hw Hdeep)) as (it & Hit).
    exists ((m_access mb, m_name mb, m_desc mb, it) :: ms).
    cbn [spec_members app]. unfold spec_method at 1. cbn [v_full v_method v_code].
    constructor; [exact Hit|exact Hms].
Qed.

(* ---------- the class ---------- *)
Lemma not_member_attr_level e : not_member e = is_attr_level e.
Proof. destruct e; reflexivity. Qed.

Lemma filter_attr_level_loop l : forallb not_member l = true -> filter is_attr_level l = l /\ filter is_field l = [] /\ filter is_method l = [].
Proof.
  intros H. rewrite forallb_forall in H. repeat split.
  - apply filter_all_true. intros x Hx. rewrite <- not_member_attr_level. exact (H x Hx).
  - apply filter_all_false. intros x Hx. specialize (H x Hx). destruct x; try reflexivity; discriminate H.
  - apply filter_all_false. intros x Hx. specialize (H x Hx). destruct x; try reflexivity; discriminate H.
Qed.

Lemma spec_fields_shape p T v : forall l k,
  filter is_attr_level (spec_members false (spec_field p T v) k l) = []
  /\ filter is_field (spec_members false (spec_field p T v) k l) = spec_members false (spec_field p T v) k l
  /\ filter is_method (spec_members false (spec_field p T v) k l) = [].
Proof.
  induction l as [|mb l IH]; intros k; [repeat split; reflexivity|].
  destruct (IH (S k)) as (H1 & H2 & H3).
  change (spec_members false (spec_field p T v) k (mb :: l)) with (spec_field p T v k mb :: spec_members false (spec_field p T v) (S k) l).
  cbn [filter].
  change (is_attr_level (spec_field p T v k mb)) with false.
  change (is_field (spec_field p T v k mb)) with true.
  change (is_method (spec_field p T v k mb)) with false.
  rewrite H1, H2, H3. repeat split; reflexivity.
Qed.
Lemma spec_methods_shape p T v : forall l k,
  filter is_attr_level (spec_members false (spec_method p T v) k l) = []
  /\ filter is_field (spec_members false (spec_method p T v) k l) = []
  /\ filter is_method (spec_members false (spec_method p T v) k l) = spec_members false (spec_method p T v) k l.
Proof.
  induction l as [|mb l IH]; intros k; [repeat split; reflexivity|].
  destruct (IH (S k)) as (H1 & H2 & H3).
  change (spec_members false (spec_method p T v) k (mb :: l)) with (spec_method p T v k mb :: spec_members false (spec_method p T v) (S k) l).
  cbn [filter].
  change (is_attr_level (spec_method p T v k mb)) with false.
  change (is_field (spec_method p T v k mb)) with false.
  change (is_method (spec_method p T v k mb)) with true.
  rewrite H1, H2, H3. repeat split; reflexivity.
Qed.

(* Th (build_succeeds), for all tables that pass the finite checks *)
Theorem build_succeeds_gen T AT g c h :
  tables_ok T = true -> accept_ok T AT = true -> build_ok T AT = true ->
  wf g T c h ->
  forallb (fun m => once_item_b (h_pool h) T AT (rt_field T) (at_field AT) (m_attrs m)) (c_fields c) = true ->
  forallb (fun m => once_item_b (h_pool h) T AT (rt_method T) (at_method AT) (m_attrs m)) (c_methods c) = true ->
  once_item_b (h_pool h) T AT (rt_class T) (at_class AT) (c_attrs c) = true ->
  exists tree, build false T AT (spec_class T (v_full T) h c) = Ok tree.
Proof.
  intros HTok HA HB Hwf HoF HoM HoC.
  pose proof (tables_ok_tok T HTok) as HT. pose proof (accept_ok_facts T AT HA) as AF. pose proof (build_ok_facts T AT HB) as BF.
  destruct Hwf as [_ Hwff Hwfm Hwfc _ _ _].
  unfold spec_class. change (v_accept_class (v_full T)) with true. change (v_class (v_full T)) with (t_interests (rt_class T)). cbv iota.
  rewrite (interested_full (rt_class T) FIELDS (tk_fields_in T HT)), (interested_full (rt_class T) METHODS (tk_methods_in T HT)).
  cbn [negb]. rewrite !andb_false_r. cbn [build]. unfold build_class. set (p := h_pool h) in *.
  (* the three parts *)
  unfold wf_attrs_b in Hwfc. apply andb_prop in Hwfc as [Hwfc _]. apply andb_prop in Hwfc as [Hwfc _].
  unfold once_item_b in HoC. apply andb_prop in HoC as [HoC HdeepC].
  destruct (item_fold_builds p T AT KClass (rt_class T) [FIELDS; METHODS] (at_class AT) (nb1 false T AT) None (c_attrs c)
              (tk_class T HT) (af_class _ _ AF) (bf_class _ _ BF)
              (fun H : Struct.is_method KClass = true => match Bool.diff_false_true H with end) Hwfc HoC
              (nested_builds1 p T AT KClass (rt_class T) (c_attrs c) HT AF BF Hwfc HdeepC)) as (b & it & Hfold & Hfin).
  destruct (fields_built_spec p T AT HT AF BF (c_fields c) 0%nat Hwff HoF) as (fs & Hfs).
  destruct (methods_built_spec p T AT HT AF BF (c_methods c) 0%nat Hwfm HoM) as (ms & Hms).
  set (L := loop_events (rt_class T) (t_interests (rt_class T)) (spec_attrs p T (v_full T) (rt_class T) (t_interests (rt_class T)) None (c_attrs c) l_init)) in *.
  set (F := spec_members false (spec_field p T (v_full T)) 0 (c_fields c)) in *.
  set (M := spec_members false (spec_method p T (v_full T)) 0 (c_methods c)) in *.
  assert (HL : forallb not_member L = true) by (apply loop_not_member; apply attrs_not_member; reflexivity).
  destruct (filter_attr_level_loop L HL) as (L1 & L2 & L3).
  destruct (spec_fields_shape p T (v_full T) (c_fields c) 0%nat) as (F1 & F2 & F3). fold F in F1, F2, F3.
  destruct (spec_methods_shape p T (v_full T) (c_methods c) 0%nat) as (M1 & M2 & M3). fold M in M1, M2, M3.
  rewrite (class_fold_join false T AT (L ++ F ++ M) (mkCT empty_item [] []) b fs ms).
  - cbn [t_item app]. rewrite Hfin. eexists. reflexivity.
  - cbn [t_item]. rewrite !filter_app, L1, F1, M1, !app_nil_r. exact Hfold.
  - cbn [t_fields length]. rewrite !filter_app, L2, F2, M2, app_nil_r. cbn [app]. exact Hfs.
  - cbn [t_methods length]. rewrite !filter_app, L3, F3, M3. cbn [app]. exact Hms.
Qed.

(* … for the tables of the code as it is, with decidable hypotheses only *)
Theorem build_succeeds c : wf_b tables c = true -> once_b tables accept_tables_gen c = true ->
  exists tree, build false tables accept_tables_gen (spec_class tables (v_full tables) (header_of c) c) = Ok tree.
Proof.
  intros Hwf Honce. unfold once_b in Honce. cbv zeta in Honce.
  apply andb_prop in Honce as [Honce HoC]. apply andb_prop in Honce as [HoF HoM].
  exact (build_succeeds_gen tables accept_tables_gen g_len c (header_of c) generated_tables_ok generated_accept_ok generated_build_ok
           (wf_b_wf tables c Hwf) HoF HoM HoC).
Qed.

(* non-vacuity and necessity: the javac-17 class of Theory7 satisfies both hypotheses; a class with two Signature
   attributes is well-formed, violates [once_b], and the builder refuses it (`only one Signature attribute is allowed`) *)
Definition nSignature : str := [83;105;103;110;97;116;117;114;101].
(* constant pool: 1 "A", 2 Class #1, 3 "Signature", 4 "LA;" *)
Definition w_hdr3 : bytes :=
  [202;254;186;190; 0;0; 0;52] ++ e16 5
  ++ utf8 [65] ++ [7;0;1] ++ utf8 nSignature ++ utf8 [76;65;59]
  ++ [0;33; 0;2; 0;0; 0;0].
Definition w_two_signatures : cls := mkC w_hdr3 [] [] [AtPlain (mkP 3 2 [0;4]); AtPlain (mkP 3 2 [0;4])].

Definition once_examples : Prop :=
  (exists c, dec_class tables ex_bytes = Some (c, []) /\ wf_b tables c = true /\ once_b tables accept_tables_gen c = true)
  /\ (wf_b tables w_two_signatures = true /\ once_b tables accept_tables_gen w_two_signatures = false
      /\ build false tables accept_tables_gen (full_of w_two_signatures) = Err).

Lemma once_examples_hold : once_examples.
Proof.
  unfold once_examples. split.
  - destruct (dec_class tables ex_bytes) as [[c r]|] eqn:E; [|vm_compute in E; discriminate E].
    vm_compute in E. injection E as <- <-.
    eexists. split; [reflexivity|]. split; vm_compute; reflexivity.
  - repeat split; vm_compute; reflexivity.
Qed.

(* ---------- everything together, for the code as it is, with decidable hypotheses only ---------- *)
Theorem replay_total c : wf_b tables c = true -> once_b tables accept_tables_gen c = true ->
  exists tree, build false tables accept_tables_gen (full_of c) = Ok tree
    /\ build false tables accept_tables_gen (accept_class tables accept_tables_gen (v_full tables) tree) = Ok tree
    /\ (replay_inexact tables accept_tables_gen (full_of c) = false ->
        forall v rest, exists t_v, read_class g_len tables v (enc c ++ rest) = Ok (t_v, rest)
           /\ sim_trace (accept_class tables accept_tables_gen v tree) t_v
           /\ forall k d, delivers (accept_class tables accept_tables_gen v tree) k d <-> delivers t_v k d).
Proof.
  intros Hwf Honce. destruct (build_succeeds c Hwf Honce) as (tree & Hb). exists tree.
  split; [exact Hb|].
  destruct (replay_decidable c Hwf []) as (_ & Hd). cbv zeta in Hd. destruct (Hd tree Hb) as (Hre & _).
  split; [exact Hre|].
  intros Hk v rest. destruct (replay_decidable c Hwf rest) as (_ & Hd2). cbv zeta in Hd2.
  destruct (Hd2 tree Hb) as (_ & Hall). destruct (Hall Hk v) as (Hread & Hsim).
  eexists. split; [exact Hread|]. split; [exact Hsim|]. apply sim_delivers. exact Hsim.
Qed.
