(* C17 — theory, part 14: the replay theorems for the tables generated from the source as it is,
   with decidable hypotheses; the known class (where a tree cannot tell what the reader said) with
   its refuting witnesses; the precondition "no at-most-once attribute twice" shown necessary;
   non-vacuity. *)
From Coq Require Import Permutation PeanoNat.
From FB Require Import C17.Model C17.AttrTable C17.AcceptTable C17.Theory C17.Theory2 C17.Theory3 C17.Theory4 C17.Struct C17.Replay
  C17.Theory6 C17.Theory7 C17.Theory8 C17.Theory9 C17.Theory10 C17.Theory11 C17.Theory12 C17.Theory13.

(* the finite check on the tables generated from class_reader.rs, tree.rs and tree/*.rs as they are now *)
Lemma generated_accept_ok : accept_ok tables accept_tables_gen = true.
Proof. vm_compute. reflexivity. Qed.

(* ---------- the known class ---------- *)
(* the tree of these events cannot tell what the reader said: an annotations attribute without
   annotations, or an at-most-once attribute that the builder merges / overwrites occurring
   twice — exactly where the strict builder refuses *)
Definition replay_inexact (T : reader_tables) (AT : accept_tables) (t_full : option (list ev)) : bool :=
  match build true T AT t_full with Ok _ => false | Err => true end.

Theorem replay_known T AT :
  tables_ok T = true -> accept_ok T AT = true ->
  forall t_full tree, build false T AT t_full = Ok tree -> replay_inexact T AT t_full = false ->
    forall v, sim_trace (accept_class T AT v tree) (project T v t_full).
Proof.
  intros HT HA t_full tree Hb Hk v. unfold replay_inexact in Hk.
  destruct (build true T AT t_full) as [tree'|] eqn:E; [|discriminate].
  pose proof (strict_lenient T AT t_full tree' E) as E'. rewrite Hb in E'. injection E' as <-.
  exact (replay_is_projection T AT HT HA t_full tree E v).
Qed.

(* the unrestricted statement (not a theorem: refuted below) *)
Definition replay_full : Prop :=
  forall c, wf_b tables c = true ->
    forall tree, build false tables accept_tables_gen (spec_class tables (v_full tables) (header_of c) c) = Ok tree ->
      forall v, sim_trace (accept_class tables accept_tables_gen v tree)
                          (project tables v (spec_class tables (v_full tables) (header_of c) c)).

(* ---------- with decidable hypotheses, on the bytes ---------- *)
Theorem replay_decidable c : wf_b tables c = true ->
  forall rest,
    let t_full := spec_class tables (v_full tables) (header_of c) c in
    read_class g_len tables (v_full tables) (enc c ++ rest) = Ok (t_full, rest)
    /\ forall tree, build false tables accept_tables_gen t_full = Ok tree ->
         (* replaying into the tree builder reproduces the class *)
         build false tables accept_tables_gen (accept_class tables accept_tables_gen (v_full tables) tree) = Ok tree
         (* outside the known class every visitor receives from the replay what it receives from the bytes *)
         /\ (replay_inexact tables accept_tables_gen t_full = false ->
             forall v, read_class g_len tables v (enc c ++ rest) = Ok (project tables v t_full, rest)
                       /\ sim_trace (accept_class tables accept_tables_gen v tree) (project tables v t_full)).
Proof.
  intros Hwf rest t_full. split; [exact (position_decidable c Hwf (v_full tables) rest)|].
  intros tree Hb. split.
  - exact (rebuild tables accept_tables_gen generated_tables_ok generated_accept_ok false t_full tree Hb).
  - intros Hk v. split; [exact (projection_decidable c Hwf v rest)|].
    exact (replay_known tables accept_tables_gen generated_tables_ok generated_accept_ok t_full tree Hb Hk v).
Qed.

(* ---------- a measure that the equivalence preserves (to refute it on the witnesses) ---------- *)
Definition w1 (e : ev) : nat :=
  match e with
  | ECode _ _ _ _ _ es => S (length es)
  | ERc _ _ _ _ (Some es) => S (length es)
  | _ => 1
  end.
Definition w2 (e : ev) : nat :=
  match e with
  | EField _ _ _ _ (Some es) | EMethod _ _ _ _ (Some es) => S (list_sum (map w1 es))
  | _ => 1
  end.
Definition trace_weight (t : option (list ev)) : option (nat * list nat * list nat) :=
  option_map (fun x => (list_sum (map w1 (filter is_attr_level x)), map w2 (filter is_field x), map w2 (filter is_method x))) t.

Lemma perm_rel_length {A} (R : A -> A -> Prop) a b : perm_rel R a b -> length a = length b.
Proof.
  intros (a' & P & F). rewrite (Permutation_length P). clear P.
  induction F as [|x y l l' _ F IH]; [reflexivity|]. cbn [length]. rewrite IH. reflexivity.
Qed.

Lemma perm_rel_sum {A} (R : A -> A -> Prop) (w : A -> nat) a b :
  (forall x y, R x y -> w x = w y) -> perm_rel R a b -> list_sum (map w a) = list_sum (map w b).
Proof.
  intros Hw (a' & P & F).
  assert (E1 : list_sum (map w a) = list_sum (map w a')).
  { clear F. induction P; simpl; lia. }
  rewrite E1. clear P E1. induction F as [|x y l l' Hxy F IH]; [reflexivity|]. simpl. rewrite (Hw x y Hxy), IH. reflexivity.
Qed.

Lemma sim_item_w1 a b : sim_item a b -> w1 a = w1 b.
Proof.
  destruct a, b; cbn [sim_item sim_leaf w1]; try (intros H; try discriminate H; try (destruct H; discriminate); reflexivity).
  - intros (_ & _ & _ & _ & _ & H). rewrite (perm_rel_length _ _ _ H). reflexivity.
  - intros (_ & _ & _ & _ & H). destruct es, es0; cbn [opt_rel] in H; try contradiction; [|reflexivity].
    rewrite (perm_rel_length _ _ _ H). reflexivity.
Qed.

Lemma sim_member_w2 a b : sim_member a b -> w2 a = w2 b.
Proof.
  destruct a, b; cbn [sim_member w2]; try contradiction.
  - intros (_ & _ & _ & _ & H). destruct es, es0; cbn [opt_rel] in H; try contradiction; [|reflexivity].
    rewrite (perm_rel_sum _ w1 _ _ sim_item_w1 H). reflexivity.
  - intros (_ & _ & _ & _ & H). destruct es, es0; cbn [opt_rel] in H; try contradiction; [|reflexivity].
    rewrite (perm_rel_sum _ w1 _ _ sim_item_w1 H). reflexivity.
Qed.

Lemma Forall2_map_eq {A} (R : A -> A -> Prop) (w : A -> nat) a b : (forall x y, R x y -> w x = w y) -> Forall2 R a b -> map w a = map w b.
Proof. intros Hw F. induction F as [|x y l l' Hxy F IH]; [reflexivity|]. cbn [map]. rewrite (Hw x y Hxy), IH. reflexivity. Qed.

Lemma sim_trace_weight a b : sim_trace a b -> trace_weight a = trace_weight b.
Proof.
  destruct a as [x|], b as [y|]; cbn [sim_trace opt_rel trace_weight option_map]; try contradiction; [|reflexivity].
  intros (H1 & H2 & H3).
  rewrite (perm_rel_sum _ w1 _ _ sim_item_w1 H1), (Forall2_map_eq _ w2 _ _ sim_member_w2 H2), (Forall2_map_eq _ w2 _ _ sim_member_w2 H3).
  reflexivity.
Qed.

(* ---------- witnesses ---------- *)
Definition utf8 (s : str) : bytes := 1 :: e16 (elen s) ++ s.
Definition nLVT : str := [76;111;99;97;108;86;97;114;105;97;98;108;101;84;97;98;108;101].            (* LocalVariableTable *)
Definition nRVA : str := [82;117;110;116;105;109;101;86;105;115;105;98;108;101;65;110;110;111;116;97;116;105;111;110;115]. (* RuntimeVisibleAnnotations *)
(* constant pool: 1 "A", 2 Class #1, 3 "Code", 4 "LocalVariableTable", 5 "m", 6 "()V", 7 "RuntimeVisibleAnnotations" *)
Definition w_hdr : bytes :=
  [202;254;186;190; 0;0; 0;52] ++ e16 8
  ++ utf8 [65] ++ [7;0;1] ++ utf8 nCode ++ utf8 nLVT ++ utf8 [109] ++ utf8 [40;41;86] ++ utf8 nRVA
  ++ [0;33; 0;2; 0;0; 0;0].

(* F20a: `class A` with a RuntimeVisibleAnnotations attribute that has no annotations *)
Definition w_empty_annotations : cls := mkC w_hdr [] [] [AtPlain (mkP 7 2 [0;0])].

(* `class A { void m() { return; } }` whose Code has a LocalVariableTable without rows; visitor: everything, but of
   the Code only local_variable_type_table.  This was the witness of finding F20b until reader and Code::accept were
   given one rule for tables without rows; it is now an example of the replay theorem (Theory15.v, rowless_statement) *)
Definition w_code_attrs : list pattr := [mkP 4 2 [0;0]].
Definition w_rowless_locals : cls :=
  mkC w_hdr [] [mkM 1 5 6 [AtCode 3 (elen (code_body 1 1 [177] 0 [] w_code_attrs)) 1 1 [177] 0 [] w_code_attrs]] [].
Definition fLVTT : str := snake [76;111;99;97;108;86;97;114;105;97;98;108;101;84;121;112;101;84;97;98;108;101]. (* local_variable_type_table *)
Definition v_only_lvtt : visitor :=
  mkVisitor true (t_interests class_table)
    (fun _ => Some (t_interests field_table)) (fun _ => Some (t_interests method_table))
    (fun _ => Some [fLVTT]) (fun _ => Some (t_interests rc_table)).

(* the precondition: two RuntimeVisibleAnnotations attributes (one annotation each) on one class *)
Definition w_duplicate : cls := mkC w_hdr [] [] [AtPlain (mkP 7 6 [0;1;0;5;0;0]); AtPlain (mkP 7 6 [0;1;0;6;0;0])].

Definition full_of (c : cls) : option (list ev) := spec_class tables (v_full tables) (header_of c) c.

Definition refutes (c : cls) (v : visitor) : Prop :=
  wf_b tables c = true
  /\ replay_inexact tables accept_tables_gen (full_of c) = true
  /\ exists tree, build false tables accept_tables_gen (full_of c) = Ok tree
                  /\ ~ sim_trace (accept_class tables accept_tables_gen v tree) (project tables v (full_of c)).

Lemma refutes_by_weight c v tree :
  wf_b tables c = true -> replay_inexact tables accept_tables_gen (full_of c) = true ->
  build false tables accept_tables_gen (full_of c) = Ok tree ->
  trace_weight (accept_class tables accept_tables_gen v tree) <> trace_weight (project tables v (full_of c)) ->
  refutes c v.
Proof.
  intros H1 H2 H3 H4. split; [exact H1|]. split; [exact H2|]. exists tree. split; [exact H3|].
  intros Hs. apply H4. exact (sim_trace_weight _ _ Hs).
Qed.

Definition tree_of_cls (c : cls) : class_tree :=
  match build false tables accept_tables_gen (full_of c) with Ok t => t | Err => mkCT empty_item [] [] end.

Theorem replay_empty_annotations_refuted : refutes w_empty_annotations (v_full tables).
Proof.
  apply (refutes_by_weight _ _ (tree_of_cls w_empty_annotations)); try (vm_compute; reflexivity).
  vm_compute. discriminate.
Qed.

Theorem replay_duplicate_refuted : refutes w_duplicate (v_full tables).
Proof.
  apply (refutes_by_weight _ _ (tree_of_cls w_duplicate)); try (vm_compute; reflexivity).
  vm_compute. discriminate.
Qed.

Theorem replay_full_refuted : ~ replay_full.
Proof.
  intros H. destruct replay_empty_annotations_refuted as (Hwf & _ & tree & Hb & Hn).
  apply Hn. exact (H w_empty_annotations Hwf tree Hb (v_full tables)).
Qed.

(* ---------- non-vacuity: the javac-17 class of Theory7 is outside the known class, its tree is
   rebuilt, and replaying it into the visitor that only wants local_variable_type_table gives what
   reading gives ---------- *)
Definition replay_nonvacuous : Prop :=
  exists c tree, dec_class tables ex_bytes = Some (c, []) /\ wf_b tables c = true
    /\ build false tables accept_tables_gen (full_of c) = Ok tree
    /\ replay_inexact tables accept_tables_gen (full_of c) = false
    /\ (length (t_methods tree) = 4)%nat.

Lemma replay_nonvacuous_holds : replay_nonvacuous.
Proof.
  unfold replay_nonvacuous.
  destruct (dec_class tables ex_bytes) as [[c r]|] eqn:E; [|vm_compute in E; discriminate E].
  vm_compute in E. injection E as <- <-.
  eexists. eexists. split; [reflexivity|]. split; [vm_compute; reflexivity|].
  split; [vm_compute; reflexivity|]. split; vm_compute; reflexivity.
Qed.
