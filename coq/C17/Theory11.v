(* C17 — theory, part 11: Th 4a, replaying the tree that the (strict) tree builder made of a class's
   events delivers, to every visitor, the projection of those events up to [sim_trace]
   ([replay_is_projection]); hence replay ≈ partial read of the bytes ([replay_equals_partial_read]). *)
From Coq Require Import Permutation PeanoNat.
From FB Require Import C17.Model C17.Theory C17.Theory2 C17.Theory3 C17.Theory4 C17.Struct C17.Replay
  C17.Theory6 C17.Theory7 C17.Theory8 C17.Theory9 C17.Theory10.

(* ---------- the table check, taken apart ---------- *)
Record afacts (T : reader_tables) (AT : accept_tables) : Prop := mkAF {
  af_class : ctx_facts (rt_class T) (at_class AT) AT;
  af_field : ctx_facts (rt_field T) (at_field AT) AT;
  af_method : ctx_facts (rt_method T) (at_method AT) AT;
  af_code : ctx_facts (rt_code T) (at_code AT) AT;
  af_rc : ctx_facts (rt_rc T) (at_rc AT) AT;
  af_members : members_ok (ac_steps (at_class AT)) = true;
  af_shape : code_shape_ok T AT = true;
}.
Lemma accept_ok_facts T AT : accept_ok T AT = true -> afacts T AT.
Proof.
  unfold accept_ok. intros H.
  destruct (ctx_accept_ok (rt_class T) (at_class AT) AT) eqn:E1; [|discriminate H].
  destruct (ctx_accept_ok (rt_field T) (at_field AT) AT) eqn:E2; [|discriminate H].
  destruct (ctx_accept_ok (rt_method T) (at_method AT) AT) eqn:E3; [|discriminate H].
  destruct (ctx_accept_ok (rt_code T) (at_code AT) AT) eqn:E4; [|discriminate H].
  destruct (ctx_accept_ok (rt_rc T) (at_rc AT) AT) eqn:E5; [|discriminate H].
  destruct (members_ok (ac_steps (at_class AT))) eqn:E6; [|discriminate H].
  destruct (code_shape_ok T AT) eqn:E7; [|discriminate H].
  constructor; try assumption; apply ctx_accept_ok_facts; assumption.
Qed.

Lemma tables_ok_honours T : tables_ok T = true -> rt_honours_fields T = true /\ rt_honours_methods T = true.
Proof. unfold tables_ok. intros H. repeat (apply andb_prop in H; destruct H as [H ?]). auto. Qed.

(* ---------- levels without nested items: field, Code, record component ---------- *)
Lemma nb0_nested ct m pe : nested_ok ct m pe nb0 na0.
Proof. constructor; intros; discriminate. Qed.

Lemma build_step_leaf strict ct ac st e st' : build_step strict ct ac nb0 st e = Ok st' -> leaf_ev e = true.
Proof.
  destruct e; cbn [build_step leaf_ev nb0 nb_code nb_rc]; try reflexivity; try discriminate.
  - destruct (act_full ct attr) as [[| | | | |]|]; try discriminate.
    destruct (row_of ac attr); [|discriminate]. destruct (b_mode b), (it_code st); discriminate.
  - destruct es; [|discriminate].
    destruct (act_full ct attr) as [[| | | | |]|]; try discriminate.
    destruct (row_of ac attr); [|discriminate]. destruct (b_mode b); try discriminate.
    destruct (Nat.eqb k (length (it_rcs st))); discriminate.
Qed.

Lemma fold_leaf strict ct ac : forall es st st',
  fold_res (build_step strict ct ac nb0) es st = Ok st' -> forallb leaf_ev es = true.
Proof.
  induction es as [|e es IH]; intros st st' H; [reflexivity|]. cbn [fold_res] in H.
  destruct (build_step strict ct ac nb0 st e) as [st1|] eqn:E; [|discriminate].
  cbn [forallb]. rewrite (build_step_leaf _ _ _ _ _ _ E). exact (IH _ _ H).
Qed.

Lemma build_item_leaf strict ct ac es it : build_item strict ct ac nb0 es = Ok it -> forallb leaf_ev es = true.
Proof.
  unfold build_item. destruct (fold_res (build_step strict ct ac nb0) es empty_item) eqn:E; [|discriminate].
  intros _. exact (fold_leaf _ _ _ _ _ _ E).
Qed.

Lemma proj_ev0_leaves ct m es : forallb leaf_ev es = true -> forallb leaf_ev (flat_map (proj_ev0 ct m) es) = true.
Proof.
  induction es as [|e es IH]; intros H; [reflexivity|]. cbn [forallb] in H. apply andb_prop in H as [He Hes].
  cbn [flat_map]. rewrite forallb_app, (IH Hes), andb_true_r.
  destruct e; try discriminate; cbn [proj_ev0].
  - destruct (keep_ct ct m name); reflexivity.
  - reflexivity.
  - cbv zeta. destruct (table_delivered ct m slot (filter (fun x => keep_ct ct m (fst x)) sources)); reflexivity.
Qed.

Lemma proj_ev_leaf T v ct m kc e : leaf_ev e = true -> proj_ev T v ct m kc e = proj_ev0 ct m e.
Proof. destruct e; try discriminate; reflexivity. Qed.

(* a level-0 titem replayed = the projection of its events *)
Lemma leaf_replay ct except ac AT m es it :
  ctx_ok ct except = true -> ctx_facts ct ac AT ->
  build_item true ct ac nb0 es = Ok it ->
  sim_leaves (accept_item ct ac AT na0 m it) (flat_map (proj_ev0 ct m) es).
Proof.
  intros Hct CF Hb. apply sim_items_leaves.
  - apply proj_ev0_leaves. exact (build_item_leaf _ _ _ _ _ Hb).
  - exact (item_replay ct except ac AT nb0 na0 m (proj_ev0 ct m) es it Hct CF (proj_ev0_like ct m) (nb0_nested _ _ _) Hb).
Qed.

(* ---------- Code and record components inside a method / class ---------- *)
Lemma frames_filter T AT except cm fs :
  ctx_ok (rt_code T) except = true -> code_shape_ok T AT = true ->
  forallb (stores_into (rt_code T) STACK_MAP_FRAME) fs = true ->
  filter (keep_ct (rt_code T) cm) fs = if interested cm (frames_flag AT) then fs else [].
Proof.
  intros Hct Hs Hfs. unfold code_shape_ok in Hs. apply andb_prop in Hs as [Hs _]. apply andb_prop in Hs as [_ Hnames].
  assert (Hg : forall n, In n fs -> gov (rt_code T) n = Some (frames_flag AT)).
  { intros n Hn. apply ostr_eqb_eq.
    apply (stored_names_spec (rt_code T) except STACK_MAP_FRAME (fun x => ostr_eqb (gov (rt_code T) x) (frames_flag AT)) n Hct Hnames).
    exact (forallb_In' _ _ _ Hfs Hn). }
  destruct (interested cm (frames_flag AT)) eqn:E.
  - apply filter_all_true. intros n Hn. rewrite (keep_gov _ cm n _ (Hg n Hn)). exact E.
  - apply filter_all_false. intros n Hn. rewrite (keep_gov _ cm n _ (Hg n Hn)). exact E.
Qed.

(* Code::accept has its `visit_exception_table(self.exception_table)` statement *)
Lemma count_one_exists {A} (p : A -> bool) l : Nat.eqb (length (filter p l)) 1 = true -> existsb p l = true.
Proof.
  intros H. destruct (filter p l) as [|x l'] eqn:E; [discriminate H|].
  assert (Hin : In x (filter p l)) by (rewrite E; left; reflexivity).
  apply filter_In in Hin as [Hin Hp]. apply existsb_exists. exists x. split; assumption.
Qed.
Lemma exc_replayed_ok T AT : code_shape_ok T AT = true -> exc_replayed AT = true.
Proof.
  unfold code_shape_ok, exc_replayed, count_steps. intros H.
  repeat (apply andb_prop in H; destruct H as [H ?]).
  apply count_one_exists. assumption.
Qed.

Lemma nb1_nested T AT v ct m kc :
  tok T -> afacts T AT ->
  nested_ok ct m (proj_ev T v ct m kc) (nb1 true T AT) (na1 T AT v kc).
Proof.
  intros HT AF. constructor.
  - intros attr ms ml fs xr es c Hb. cbn [nb1 nb_code] in Hb. unfold build_code in Hb.
    destruct (forallb (stores_into (rt_code T) STACK_MAP_FRAME) fs) eqn:Efs; [|discriminate].
    cbn [proj_ev]. destruct (keep_ct ct m attr); [|reflexivity].
    cbn [na1 na_code]. unfold accept_code. constructor; [|constructor].
    destruct kc as [cm|]; [|reflexivity].
    cbn [sim_item]. repeat split.
    + symmetry. exact (frames_filter T AT [] cm fs (tk_code T HT) (af_shape _ _ AF) Efs).
    + rewrite (exc_replayed_ok T AT (af_shape _ _ AF)). reflexivity.
    + exact (leaf_replay (rt_code T) [] (at_code AT) AT cm es c (tk_code T HT) (af_code _ _ AF) Hb).
  - intros attr i n d es c Hb. cbn [nb1 nb_rc] in Hb. unfold build_rc in Hb.
    cbn [proj_ev]. destruct (keep_ct ct m attr); [|reflexivity].
    cbn [na1 na_rc]. unfold accept_rc. constructor; [|constructor].
    cbn [sim_item]. repeat split.
    destruct (v_rc v i) as [m'|]; cbn [option_map opt_rel]; [|exact I].
    exact (leaf_replay (rt_rc T) [] (at_rc AT) AT m' es c (tk_rc T HT) (af_rc _ _ AF) Hb).
Qed.

(* ---------- the class: attribute-level events and members are built independently ---------- *)
Definition member_ev (e : ev) : bool := is_field e || is_method e.

Lemma class_fold_split strict T AT : forall es st st',
  fold_res (build_class_step strict T AT) es st = Ok st' ->
  fold_res (build_step strict (rt_class T) (at_class AT) (nb1 strict T AT)) (filter is_attr_level es) (t_item st) = Ok (t_item st').
Proof.
  induction es as [|e es IH]; intros st st' H; cbn [fold_res filter] in *.
  - injection H as <-. reflexivity.
  - destruct (build_class_step strict T AT st e) as [st1|] eqn:E; [|discriminate].
    specialize (IH st1 st' H).
    destruct e; cbn [build_class_step] in E; unfold is_attr_level; cbn [is_field is_method orb negb];
      try (cbn [fold_res];
           match type of E with
           | match ?b with Ok _ => _ | Err => _ end = _ => destruct b as [it1|] eqn:Eb; [|discriminate]; injection E as <-; cbn [t_item] in IH; exact IH
           end).
    + destruct es0 as [es0|]; [|discriminate]. destruct (Nat.eqb k (length (t_fields st))); [|discriminate].
      destruct (build_item strict (rt_field T) (at_field AT) nb0 es0); [|discriminate]. injection E as <-. exact IH.
    + destruct es0 as [es0|]; [|discriminate]. destruct (Nat.eqb k (length (t_methods st))); [|discriminate].
      destruct (build_item strict (rt_method T) (at_method AT) (nb1 strict T AT) es0); [|discriminate]. injection E as <-. exact IH.
Qed.

(* the fields of the tree are the field events, one by one *)
Inductive fields_built (strict : bool) (T : reader_tables) (AT : accept_tables) : nat -> list ev -> list (N * N * N * titem unit) -> Prop :=
| fb_nil k : fields_built strict T AT k [] []
| fb_cons k a n d es it evs fs :
    build_item strict (rt_field T) (at_field AT) nb0 es = Ok it ->
    fields_built strict T AT (S k) evs fs ->
    fields_built strict T AT k (EField k a n d (Some es) :: evs) ((a, n, d, it) :: fs).
Inductive methods_built (strict : bool) (T : reader_tables) (AT : accept_tables) : nat -> list ev -> list (N * N * N * titem (titem unit)) -> Prop :=
| mb_nil k : methods_built strict T AT k [] []
| mb_cons k a n d es it evs ms :
    build_item strict (rt_method T) (at_method AT) (nb1 strict T AT) es = Ok it ->
    methods_built strict T AT (S k) evs ms ->
    methods_built strict T AT k (EMethod k a n d (Some es) :: evs) ((a, n, d, it) :: ms).

Lemma class_fold_fields strict T AT : forall es st st',
  fold_res (build_class_step strict T AT) es st = Ok st' ->
  exists fs, t_fields st' = t_fields st ++ fs /\ fields_built strict T AT (length (t_fields st)) (filter is_field es) fs.
Proof.
  induction es as [|e es IH]; intros st st' H; cbn [fold_res filter] in *.
  - injection H as <-. exists []. rewrite app_nil_r. split; [reflexivity|constructor].
  - destruct (build_class_step strict T AT st e) as [st1|] eqn:E; [|discriminate].
    destruct (IH st1 st' H) as (fs & Hfs & Hb).
    destruct e; cbn [build_class_step] in E; cbn [is_field];
      try (match type of E with
           | match ?b with Ok _ => _ | Err => _ end = _ => destruct b as [it1|] eqn:Eb; [|discriminate]; injection E as <-; cbn [t_fields] in *; exists fs; split; assumption
           end).
    + destruct es0 as [es0|]; [|discriminate]. destruct (Nat.eqb k (length (t_fields st))) eqn:Ek; [|discriminate].
      apply Nat.eqb_eq in Ek. subst k.
      destruct (build_item strict (rt_field T) (at_field AT) nb0 es0) as [it|] eqn:Eb; [|discriminate]. injection E as <-.
      cbn [t_fields] in *. exists ((access, name, desc, it) :: fs). split.
      * rewrite Hfs, <- app_assoc. reflexivity.
      * constructor; [exact Eb|]. rewrite app_length in Hb. cbn [length] in Hb.
        replace (S (length (t_fields st))) with (length (t_fields st) + 1)%nat by lia. exact Hb.
    + destruct es0 as [es0|]; [|discriminate]. destruct (Nat.eqb k (length (t_methods st))); [|discriminate].
      destruct (build_item strict (rt_method T) (at_method AT) (nb1 strict T AT) es0); [|discriminate]. injection E as <-.
      cbn [t_fields] in *. exists fs. split; assumption.
Qed.

Lemma class_fold_methods strict T AT : forall es st st',
  fold_res (build_class_step strict T AT) es st = Ok st' ->
  exists ms, t_methods st' = t_methods st ++ ms /\ methods_built strict T AT (length (t_methods st)) (filter is_method es) ms.
Proof.
  induction es as [|e es IH]; intros st st' H; cbn [fold_res filter] in *.
  - injection H as <-. exists []. rewrite app_nil_r. split; [reflexivity|constructor].
  - destruct (build_class_step strict T AT st e) as [st1|] eqn:E; [|discriminate].
    destruct (IH st1 st' H) as (ms & Hms & Hb).
    destruct e; cbn [build_class_step] in E; cbn [is_method];
      try (match type of E with
           | match ?b with Ok _ => _ | Err => _ end = _ => destruct b as [it1|] eqn:Eb; [|discriminate]; injection E as <-; cbn [t_methods] in *; exists ms; split; assumption
           end).
    + destruct es0 as [es0|]; [|discriminate]. destruct (Nat.eqb k (length (t_fields st))); [|discriminate].
      destruct (build_item strict (rt_field T) (at_field AT) nb0 es0); [|discriminate]. injection E as <-.
      cbn [t_methods] in *. exists ms. split; assumption.
    + destruct es0 as [es0|]; [|discriminate]. destruct (Nat.eqb k (length (t_methods st))) eqn:Ek; [|discriminate].
      apply Nat.eqb_eq in Ek. subst k.
      destruct (build_item strict (rt_method T) (at_method AT) (nb1 strict T AT) es0) as [it|] eqn:Eb; [|discriminate]. injection E as <-.
      cbn [t_methods] in *. exists ((access, name, desc, it) :: ms). split.
      * rewrite Hms, <- app_assoc. reflexivity.
      * constructor; [exact Eb|]. rewrite app_length in Hb. cbn [length] in Hb.
        replace (S (length (t_methods st))) with (length (t_methods st) + 1)%nat by lia. exact Hb.
Qed.

(* ---------- the output of ClassFile::accept, taken apart ---------- *)
Lemma run_step_attr_level {K} ct ac AT (na : naccept K) m st s :
  (forall attr ms ml fs xr k, forallb is_attr_level (na_code na attr ms ml fs xr k) = true) ->
  (forall attr i n d k, is_attr_level (na_rc na attr i n d k) = true) ->
  forallb is_attr_level (run_step ct ac AT na m st s) = true.
Proof.
  intros Hc Hr. destruct s; cbn [run_step]; try reflexivity;
    repeat match goal with
           | |- context [if ?b then _ else _] => destruct b
           | |- context [match ?x with Some _ => _ | None => _ end] => destruct x
           | |- context [match ?x with VBody _ => _ | VRows _ => _ end] => destruct x
           | |- context [let (_, _) := ?x in _] => destruct x
           end; try reflexivity; try apply Hc.
  - induction (it_unknown st); [reflexivity|]. cbn [map forallb]. exact IHl.
  - generalize 0%nat. induction (it_rcs st) as [|c l IH]; intros i; [reflexivity|]. cbn [mapi_from forallb]. rewrite Hr. apply IH.
Qed.

Lemma filter_none {A} (p : A -> bool) l : forallb (fun x => negb (p x)) l = true -> filter p l = [].
Proof.
  intros H. apply filter_all_false. intros x Hx. apply negb_true_iff. exact (forallb_In' _ _ _ H Hx).
Qed.
Lemma filter_id {A} (p : A -> bool) l : forallb p l = true -> filter p l = l.
Proof. intros H. apply filter_all_true. intros x Hx. exact (forallb_In' _ _ _ H Hx). Qed.

Lemma na1_attr_level T AT v kc :
  (forall attr ms ml fs xr c, forallb is_attr_level (na_code (na1 T AT v kc) attr ms ml fs xr c) = true)
  /\ (forall attr i n d c, is_attr_level (na_rc (na1 T AT v kc) attr i n d c) = true).
Proof. split; intros; cbn [na1 na_code na_rc]; unfold accept_code, accept_rc; [destruct kc|]; reflexivity. Qed.

Lemma mapi_fields_all T AT v : forall k l, forallb is_field (mapi_from (accept_field T AT v) k l) = true.
Proof. intros k l. revert k. induction l as [|x l IH]; intros k; [reflexivity|]. cbn [mapi_from forallb]. apply IH. Qed.
Lemma mapi_methods_all T AT v : forall k l, forallb is_method (mapi_from (accept_method T AT v) k l) = true.
Proof. intros k l. revert k. induction l as [|x l IH]; intros k; [reflexivity|]. cbn [mapi_from forallb]. apply IH. Qed.

Lemma forallb_impl {A} (p q : A -> bool) l : (forall x, p x = true -> q x = true) -> forallb p l = true -> forallb q l = true.
Proof. intros H Hp. apply forallb_forall. intros x Hx. apply H. exact (forallb_In' _ _ _ Hp Hx). Qed.

(* the attribute-level part of accept_class is accept_item on the class's titem *)
Lemma run_class_step_attr T AT v t s :
  filter is_attr_level (run_class_step T AT v t s) = run_step (rt_class T) (at_class AT) AT (na1 T AT v None) (v_class v) (t_item t) s.
Proof.
  destruct (na1_attr_level T AT v None) as [Hc Hr].
  destruct s; cbn [run_class_step];
    try (apply filter_id; apply run_step_attr_level; assumption).
  destruct methods; cbn [run_step]; destruct (interested (v_class v) flag); try reflexivity; apply filter_none.
  - eapply forallb_impl; [|apply mapi_methods_all]. intros x Hx. destruct x; try discriminate; reflexivity.
  - eapply forallb_impl; [|apply mapi_fields_all]. intros x Hx. destruct x; try discriminate; reflexivity.
Qed.

Lemma accept_class_attr T AT v t :
  filter is_attr_level (flat_map (run_class_step T AT v t) (ac_steps (at_class AT)))
  = accept_item (rt_class T) (at_class AT) AT (na1 T AT v None) (v_class v) (t_item t).
Proof.
  rewrite filter_flat_map. unfold accept_item. apply flat_map_ext_in. intros s _. apply run_class_step_attr.
Qed.

(* the member parts: from the shape of the step list *)
Lemma run_class_step_fields T AT v t s :
  filter is_field (run_class_step T AT v t s)
  = match s with
    | SMembers flag _ _ false => if interested (v_class v) flag then mapi_from (accept_field T AT v) 0 (t_fields t) else []
    | _ => []
    end.
Proof.
  destruct (na1_attr_level T AT v None) as [Hc Hr].
  assert (Hattr : forall s0, is_members s0 = false ->
            filter is_field (run_step (rt_class T) (at_class AT) AT (na1 T AT v None) (v_class v) (t_item t) s0) = []).
  { intros s0 _. apply filter_none. eapply forallb_impl; [|apply (run_step_attr_level _ _ _ _ _ _ s0 Hc Hr)].
    intros x Hx. unfold is_attr_level in Hx. apply negb_true_iff, orb_false_iff in Hx as [Hx _]. rewrite Hx. reflexivity. }
  destruct s; cbn [run_class_step]; try (apply Hattr; reflexivity).
  destruct methods; destruct (interested (v_class v) flag); try reflexivity.
  - apply filter_none. eapply forallb_impl; [|apply mapi_methods_all]. intros x Hx. destruct x; try discriminate; reflexivity.
  - apply filter_id. apply mapi_fields_all.
Qed.
Lemma run_class_step_methods T AT v t s :
  filter is_method (run_class_step T AT v t s)
  = match s with
    | SMembers flag _ _ true => if interested (v_class v) flag then mapi_from (accept_method T AT v) 0 (t_methods t) else []
    | _ => []
    end.
Proof.
  destruct (na1_attr_level T AT v None) as [Hc Hr].
  assert (Hattr : forall s0, is_members s0 = false ->
            filter is_method (run_step (rt_class T) (at_class AT) AT (na1 T AT v None) (v_class v) (t_item t) s0) = []).
  { intros s0 _. apply filter_none. eapply forallb_impl; [|apply (run_step_attr_level _ _ _ _ _ _ s0 Hc Hr)].
    intros x Hx. unfold is_attr_level in Hx. apply negb_true_iff, orb_false_iff in Hx as [_ Hx]. rewrite Hx. reflexivity. }
  destruct s; cbn [run_class_step]; try (apply Hattr; reflexivity).
  destruct methods; destruct (interested (v_class v) flag); try reflexivity.
  - apply filter_id. apply mapi_methods_all.
  - apply filter_none. eapply forallb_impl; [|apply mapi_fields_all]. intros x Hx. destruct x; try discriminate; reflexivity.
Qed.

Lemma members_ok_shape steps : members_ok steps = true ->
  exists a g1 f1 V1 b g2 f2 V2 c,
    steps = a ++ SMembers g1 f1 V1 false :: b ++ SMembers g2 f2 V2 true :: c
    /\ g1 = FIELDS /\ g2 = METHODS
    /\ (forall s, In s a \/ In s b \/ In s c -> is_members s = false).
Proof.
  unfold members_ok. intros H.
  destruct (split_first is_members steps) as [[[a x] b0]|] eqn:E1; [|discriminate].
  destruct x; try discriminate. destruct methods; [discriminate|].
  apply andb_prop in H as [Hg1 H]. apply str_eqb_eq in Hg1.
  destruct (split_first is_members b0) as [[[b y] c]|] eqn:E2; [|discriminate].
  destruct y; try discriminate. destruct methods; [|discriminate].
  apply andb_prop in H as [Hg2 Hc]. apply str_eqb_eq in Hg2. apply negb_true_iff in Hc.
  destruct (split_first_spec _ _ _ _ _ E1) as (-> & Ha & _).
  destruct (split_first_spec _ _ _ _ _ E2) as (-> & Hb & _).
  exists a, flag, field, visit, b, flag0, field0, visit0, c. repeat split; try assumption.
  intros s [Hs|[Hs|Hs]]; [apply Ha, Hs|apply Hb, Hs|].
  destruct (is_members s) eqn:Es; [|reflexivity].
  assert (existsb is_members c = true) by (apply existsb_exists; exists s; auto). congruence.
Qed.

Lemma accept_class_fields T AT v t : members_ok (ac_steps (at_class AT)) = true ->
  filter is_field (flat_map (run_class_step T AT v t) (ac_steps (at_class AT)))
  = if interested (v_class v) FIELDS then mapi_from (accept_field T AT v) 0 (t_fields t) else [].
Proof.
  intros H. destruct (members_ok_shape _ H) as (a & g1 & f1 & V1 & b & g2 & f2 & V2 & c & -> & -> & -> & Hno).
  rewrite filter_flat_map.
  assert (Hnil : forall l, (forall s, In s l -> is_members s = false) ->
            flat_map (fun x => filter is_field (run_class_step T AT v t x)) l = []).
  { intros l Hl. apply flat_map_all_nil. intros s Hs. rewrite run_class_step_fields.
    specialize (Hl s Hs). destruct s; try reflexivity; discriminate. }
  rewrite flat_map_app. cbn [flat_map]. rewrite flat_map_app. cbn [flat_map].
  rewrite (Hnil a), (Hnil b), (Hnil c) by (intros s Hs; apply Hno; auto).
  rewrite !run_class_step_fields. cbn [app]. rewrite !app_nil_r. reflexivity.
Qed.
Lemma accept_class_methods T AT v t : members_ok (ac_steps (at_class AT)) = true ->
  filter is_method (flat_map (run_class_step T AT v t) (ac_steps (at_class AT)))
  = if interested (v_class v) METHODS then mapi_from (accept_method T AT v) 0 (t_methods t) else [].
Proof.
  intros H. destruct (members_ok_shape _ H) as (a & g1 & f1 & V1 & b & g2 & f2 & V2 & c & -> & -> & -> & Hno).
  rewrite filter_flat_map.
  assert (Hnil : forall l, (forall s, In s l -> is_members s = false) ->
            flat_map (fun x => filter is_method (run_class_step T AT v t x)) l = []).
  { intros l Hl. apply flat_map_all_nil. intros s Hs. rewrite run_class_step_methods.
    specialize (Hl s Hs). destruct s; try reflexivity; discriminate. }
  rewrite flat_map_app. cbn [flat_map]. rewrite flat_map_app. cbn [flat_map].
  rewrite (Hnil a), (Hnil b), (Hnil c) by (intros s Hs; apply Hno; auto).
  rewrite !run_class_step_methods. cbn [app]. rewrite ?app_nil_r. reflexivity.
Qed.

(* ---------- the projection, taken apart the same way ---------- *)
Lemma proj_ev_attr_level T v ct m kc e : is_attr_level e = true -> forallb is_attr_level (proj_ev T v ct m kc e) = true.
Proof.
  destruct e; try discriminate; intros _; cbn [proj_ev proj_ev0];
    repeat match goal with
           | |- context [if ?b then _ else _] => destruct b
           | |- context [match ?x with Some _ => _ | None => _ end] => destruct x
           | |- context [match ?x with [] => _ | _ :: _ => _ end] => destruct x
           end; reflexivity.
Qed.

Lemma proj_member_attr_part T v e :
  filter is_attr_level (proj_member T v e) = if is_attr_level e then proj_ev T v (rt_class T) (v_class v) None e else [].
Proof.
  destruct e; cbn [proj_member]; unfold is_attr_level at 2; cbn [is_field is_method orb negb];
    try (apply filter_id; apply proj_ev_attr_level; reflexivity).
  - destruct (rt_honours_fields T && negb (interested (v_class v) FIELDS)); reflexivity.
  - destruct (rt_honours_methods T && negb (interested (v_class v) METHODS)); reflexivity.
Qed.

Lemma project_attr_part T v es :
  filter is_attr_level (flat_map (proj_member T v) es)
  = flat_map (proj_ev T v (rt_class T) (v_class v) None) (filter is_attr_level es).
Proof.
  rewrite filter_flat_map. induction es as [|e es IH]; [reflexivity|].
  cbn [flat_map filter]. rewrite proj_member_attr_part, IH. destruct (is_attr_level e); reflexivity.
Qed.

Definition proj_field (T : reader_tables) (v : visitor) (e : ev) : list ev :=
  match e with
  | EField k a n d es =>
      [EField k a n d (match v_field v k with
                       | Some m => option_map (flat_map (proj_ev T v (rt_field T) m None)) es
                       | None => None
                       end)]
  | _ => []
  end.
Definition proj_method (T : reader_tables) (v : visitor) (e : ev) : list ev :=
  match e with
  | EMethod k a n d es =>
      [EMethod k a n d (match v_method v k with
                        | Some m => option_map (flat_map (proj_ev T v (rt_method T) m (v_code v k))) es
                        | None => None
                        end)]
  | _ => []
  end.

Lemma not_field_of_attr_level l : forallb is_attr_level l = true -> filter is_field l = [].
Proof.
  intros H. apply filter_none. eapply forallb_impl; [|exact H].
  intros x Hx. unfold is_attr_level in Hx. apply negb_true_iff, orb_false_iff in Hx as [Hx _]. rewrite Hx. reflexivity.
Qed.
Lemma not_method_of_attr_level l : forallb is_attr_level l = true -> filter is_method l = [].
Proof.
  intros H. apply filter_none. eapply forallb_impl; [|exact H].
  intros x Hx. unfold is_attr_level in Hx. apply negb_true_iff, orb_false_iff in Hx as [_ Hx]. rewrite Hx. reflexivity.
Qed.

Lemma project_field_part T v es : rt_honours_fields T = true ->
  filter is_field (flat_map (proj_member T v) es)
  = if interested (v_class v) FIELDS then flat_map (proj_field T v) (filter is_field es) else [].
Proof.
  intros Hh. rewrite filter_flat_map. induction es as [|e es IH].
  - destruct (interested (v_class v) FIELDS); reflexivity.
  - cbn [flat_map filter]. rewrite IH. clear IH.
    destruct e; cbn [proj_member is_field];
      try (rewrite not_field_of_attr_level by (apply proj_ev_attr_level; reflexivity); reflexivity).
    + rewrite Hh. cbn [andb]. destruct (interested (v_class v) FIELDS); reflexivity.
    + destruct (rt_honours_methods T && negb (interested (v_class v) METHODS)); reflexivity.
Qed.
Lemma project_method_part T v es : rt_honours_methods T = true ->
  filter is_method (flat_map (proj_member T v) es)
  = if interested (v_class v) METHODS then flat_map (proj_method T v) (filter is_method es) else [].
Proof.
  intros Hh. rewrite filter_flat_map. induction es as [|e es IH].
  - destruct (interested (v_class v) METHODS); reflexivity.
  - cbn [flat_map filter]. rewrite IH. clear IH.
    destruct e; cbn [proj_member is_method];
      try (rewrite not_method_of_attr_level by (apply proj_ev_attr_level; reflexivity); reflexivity).
    + destruct (rt_honours_fields T && negb (interested (v_class v) FIELDS)); reflexivity.
    + rewrite Hh. cbn [andb]. destruct (interested (v_class v) METHODS); reflexivity.
Qed.

(* ---------- the members, one by one ---------- *)
Lemma fields_replay T AT v : tok T -> afacts T AT -> forall k evs fs,
  fields_built true T AT k evs fs ->
  Forall2 sim_member (mapi_from (accept_field T AT v) k fs) (flat_map (proj_field T v) evs).
Proof.
  intros HT AF k evs fs H. induction H as [k|k a n d es it evs fs Hb _ IH]; [constructor|].
  cbn [mapi_from flat_map proj_field app]. constructor; [|exact IH].
  unfold accept_field. cbn [fst snd sim_member]. repeat split.
  destruct (v_field v k) as [m|]; cbn [option_map opt_rel]; [|exact I].
  pose proof (leaf_replay (rt_field T) [] (at_field AT) AT m es it (tk_field T HT) (af_field _ _ AF) Hb) as Hl.
  rewrite (flat_map_ext_in (proj_ev T v (rt_field T) m None) (proj_ev0 (rt_field T) m) es).
  - eapply perm_rel_weaken; [|exact Hl]. intros x y Hy. apply sim_leaf_item.
    exact (forallb_In' _ _ _ (proj_ev0_leaves _ m es (build_item_leaf _ _ _ _ _ Hb)) Hy).
  - intros e He. apply proj_ev_leaf. exact (forallb_In' _ _ _ (build_item_leaf _ _ _ _ _ Hb) He).
Qed.

Lemma methods_replay T AT v : tok T -> afacts T AT -> forall k evs ms,
  methods_built true T AT k evs ms ->
  Forall2 sim_member (mapi_from (accept_method T AT v) k ms) (flat_map (proj_method T v) evs).
Proof.
  intros HT AF k evs ms H. induction H as [k|k a n d es it evs ms Hb _ IH]; [constructor|].
  cbn [mapi_from flat_map proj_method app]. constructor; [|exact IH].
  unfold accept_method. cbn [fst snd sim_member]. repeat split.
  destruct (v_method v k) as [m|]; cbn [option_map opt_rel]; [|exact I].
  exact (item_replay (rt_method T) [] (at_method AT) AT (nb1 true T AT) (na1 T AT v (v_code v k)) m
           (proj_ev T v (rt_method T) m (v_code v k)) es it (tk_method T HT) (af_method _ _ AF)
           (proj_ev_like T v (rt_method T) m (v_code v k)) (nb1_nested T AT v (rt_method T) m (v_code v k) HT AF) Hb).
Qed.

(* ---------- Th 4a ---------- *)
Theorem replay_is_projection T AT :
  tables_ok T = true -> accept_ok T AT = true ->
  forall (t_full : option (list ev)) tree,
    build true T AT t_full = Ok tree ->
    forall v, sim_trace (accept_class T AT v tree) (project T v t_full).
Proof.
  intros HTb HA t_full tree Hb v.
  pose proof (tables_ok_tok T HTb) as HT. pose proof (accept_ok_facts T AT HA) as AF.
  destruct (tables_ok_honours T HTb) as [Hhf Hhm].
  destruct t_full as [es|]; [|discriminate]. cbn [build] in Hb. unfold build_class in Hb.
  destruct (fold_res (build_class_step true T AT) es (mkCT empty_item [] [])) as [st|] eqn:Ef; [|discriminate].
  destruct (finish_item (rt_class T) (at_class AT) (t_item st)) as [it|] eqn:Efin; [|discriminate].
  injection Hb as <-.
  unfold accept_class, project. destruct (v_accept_class v); [|exact I].
  cbn [option_map sim_trace opt_rel]. split; [|split].
  - (* the class's own attributes *)
    rewrite accept_class_attr, project_attr_part. cbn [t_item].
    pose proof (class_fold_split true T AT es _ _ Ef) as Hitem. cbn [t_item] in Hitem.
    apply (item_replay (rt_class T) [FIELDS; METHODS] (at_class AT) AT (nb1 true T AT) (na1 T AT v None) (v_class v)
             (proj_ev T v (rt_class T) (v_class v) None) (filter is_attr_level es) it (tk_class T HT) (af_class _ _ AF)).
    + apply proj_ev_like.
    + apply nb1_nested; assumption.
    + unfold build_item. rewrite Hitem. exact Efin.
  - rewrite (accept_class_fields T AT v _ (af_members _ _ AF)), (project_field_part T v es Hhf). cbn [t_fields].
    destruct (interested (v_class v) FIELDS); [|constructor].
    destruct (class_fold_fields true T AT es _ _ Ef) as (fs & Hfs & Hbuilt). cbn [t_fields app length] in Hfs, Hbuilt.
    rewrite Hfs. apply fields_replay; assumption.
  - rewrite (accept_class_methods T AT v _ (af_members _ _ AF)), (project_method_part T v es Hhm). cbn [t_methods].
    destruct (interested (v_class v) METHODS); [|constructor].
    destruct (class_fold_methods true T AT es _ _ Ef) as (ms & Hms & Hbuilt). cbn [t_methods app length] in Hms, Hbuilt.
    rewrite Hms. apply methods_replay; assumption.
Qed.
