(* C17 — theory, part 12: Th 4c, replaying a tree into the tree builder reproduces the tree
   ([rebuild]): for every event list that the builder accepts,
       build (accept (build es) full-visitor) = build es.
   Two parts: an invariant of what the builder stores ([raw_inv], [item_inv]: every stored value
   sits in the field of a builder row that a reader visit selects, a Vec field holds at least one
   element, the rows of a table come from attributes that feed it), and the walk along accept()'s
   statements: each one re-creates the component it reads, and no other. *)
From Coq Require Import Permutation PeanoNat.
From FB Require Import C17.Model C17.Theory C17.Theory2 C17.Theory3 C17.Theory4 C17.Struct C17.Replay
  C17.Theory6 C17.Theory8 C17.Theory9 C17.Theory10 C17.Theory11.

Arguments N.add : simpl never.

(* ---------- what the builder stores ---------- *)
Definition slot_val_ok (ct : ctx_table) (ac : accept_ctx) (f : str) (v : sval) : Prop :=
  match v with
  | VBody b =>
      exists name V row, assoc name (ac_visits ac) = Some V /\ find_row V (ac_builder ac) = Some row /\ b_field row = f
        /\ (b_mode row = MExtend -> count_of b <> 0)
        /\ (act_full ct name = Some (AParse DNow) \/ act_full ct name = Some (AReadLen false))
  | VRows l =>
      exists slot V row, assoc slot (ac_deferred ac) = Some V /\ find_row V (ac_builder ac) = Some row /\ b_field row = f
        /\ forallb (fun r => stores_into ct slot (fst r)) l = true
  end.

Record raw_inv {K} (ct : ctx_table) (ac : accept_ctx) (PKc : list str -> K -> Prop) (PKr : K -> Prop) (st : titem K) : Prop := mkRI {
  ri_slots : forall f v, assoc f (it_slots st) = Some v -> slot_val_ok ct ac f v;
  ri_unknown : forall n b, In (n, b) (it_unknown st) -> act_full ct n = Some (AReadLen true);
  ri_code : forall ms ml fs xr k, it_code st = Some (ms, ml, fs, xr, k) ->
      PKc fs k /\ exists attr V row sk, assoc attr (ac_visits ac) = Some V /\ find_row V (ac_builder ac) = Some row
                                        /\ act_full ct attr = Some (ACode sk);
  ri_rcs_kids : forall n d k, In (n, d, k) (it_rcs st) -> PKr k;
  ri_rcs : it_rcs st <> [] -> exists attr V row o, assoc attr (ac_visits ac) = Some V /\ find_row V (ac_builder ac) = Some row
                                                   /\ act_full ct attr = Some (ARecord o);
  ri_flags : it_flags st <> None -> t_flags_event ct = true;
}.

Lemma raw_inv_empty {K} ct ac (PKc : list str -> K -> Prop) (PKr : K -> Prop) : @raw_inv K ct ac PKc PKr empty_item.
Proof. constructor; cbn; try discriminate; try contradiction; intros; try discriminate; congruence. Qed.

Lemma count_of_merge a b : count_of (merge a b) = count_of a + count_of b.
Proof. unfold merge, count_of at 1. rewrite rd16_e16. reflexivity. Qed.

Lemma raw_inv_set_slot {K} ct ac (PKc : list str -> K -> Prop) (PKr : K -> Prop) (st : titem K) f v :
  raw_inv ct ac PKc PKr st -> slot_val_ok ct ac f v -> raw_inv ct ac PKc PKr (set_slot f v st).
Proof.
  intros [H1 H2 H3 H4 H5 H6] Hv. constructor; cbn [set_slot it_slots it_unknown it_code it_rcs it_flags]; try assumption.
  intros f' v'. cbn [assoc]. destruct (str_eqb_spec f' f) as [->|_]; [intros [= <-]; exact Hv|apply H1].
Qed.

Lemma step_raw_inv {K} strict ct ac (nb : nbuild K) (PKc : list str -> K -> Prop) (PKr : K -> Prop) (st st' : titem K) e :
  (forall fs es k, nb_code nb fs es = Ok k -> PKc fs k) ->
  (forall es k, nb_rc nb es = Ok k -> PKr k) ->
  raw_inv ct ac PKc PKr st -> build_step strict ct ac nb st e = Ok st' -> raw_inv ct ac PKc PKr st'.
Proof.
  intros Hc Hr Hi Hb. destruct e as [name raw body | d sy | slot srcs | attr | attr ms ml fs xr es | attr k n d [es|] | | ];
    cbn [build_step] in Hb; try discriminate.
  - assert (Hnamed : forall row, (act_full ct name = Some (AParse DNow) \/ act_full ct name = Some (AReadLen false)) ->
              row_of ac name = Some row -> fill strict row body st = Ok st' -> raw_inv ct ac PKc PKr st').
    { intros row Hact Hrow Hf. unfold row_of in Hrow. destruct (assoc name (ac_visits ac)) as [V|] eqn:EV; [|discriminate].
      assert (Hset : forall b', (b_mode row = MExtend -> count_of b' <> 0) -> raw_inv ct ac PKc PKr (set_slot (b_field row) (VBody b') st)).
      { intros b' Hcnt. apply raw_inv_set_slot; [exact Hi|]. exists name, V, row. auto. }
      unfold fill in Hf. destruct (b_mode row) eqn:Em.
      - destruct (assoc (b_field row) (it_slots st)); [discriminate|]. injection Hf as <-. apply Hset. discriminate.
      - destruct (assoc (b_field row) (it_slots st)); [destruct strict; [discriminate|]|]; injection Hf as <-; apply Hset; discriminate.
      - destruct (N.eqb_spec (count_of body) 0) as [E0|E0]; [destruct strict; [discriminate|]; injection Hf as <-; exact Hi|].
        destruct (assoc (b_field row) (it_slots st)) as [[a|l]|]; try discriminate.
        + destruct strict; [discriminate|]. injection Hf as <-. apply Hset. intros _. rewrite count_of_merge. lia.
        + injection Hf as <-. apply Hset. intros _. exact E0.
      - discriminate. }
    destruct (act_full ct name) as [[| | [|? ?] | [|] | |]|] eqn:Ea; try discriminate.
    + destruct raw; [discriminate|]. destruct (row_of ac name) as [row|] eqn:Er; [|discriminate]. eapply Hnamed; eauto.
    + destruct raw; [|discriminate]. injection Hb as <-. destruct Hi as [H1 H2 H3 H4 H5 H6].
      constructor; cbn [it_slots it_unknown it_code it_rcs it_flags]; try assumption.
      intros n b Hin. apply in_app_or in Hin as [Hin|[[= <- <-]|[]]]; [exact (H2 n b Hin)|exact Ea].
    + destruct raw; [|discriminate]. destruct (row_of ac name) as [row|] eqn:Er; [|discriminate]. eapply Hnamed; eauto.
  - destruct (t_flags_event ct) eqn:Etf; [|discriminate]. destruct (it_flags st); [discriminate|]. injection Hb as <-.
    destruct Hi as [H1 H2 H3 H4 H5 H6]. constructor; cbn [it_slots it_unknown it_code it_rcs it_flags]; try assumption.
    intros _. exact Etf.
  - destruct (assoc slot (ac_deferred ac)) as [V|] eqn:EV; [|discriminate].
    destruct (find_row V (ac_builder ac)) as [row|] eqn:Erow; [|discriminate].
    destruct (negb (forallb (fun x => stores_into ct slot (fst x)) srcs)) eqn:Est; [discriminate|]. apply negb_false_iff in Est.
    destruct (strict && _); [discriminate|].
    destruct (b_mode row); try discriminate. destruct (assoc (b_field row) (it_slots st)); [discriminate|]. injection Hb as <-.
    apply raw_inv_set_slot; [exact Hi|]. exists slot, V, row. repeat split; try assumption.
    apply forallb_forall. intros r Hr0. unfold flat_rows in Hr0. apply in_flat_map in Hr0 as (x & Hx & Hr0).
    apply in_map_iff in Hr0 as (r0 & <- & _). cbn [fst]. exact (forallb_In' _ _ _ Est Hx).
  - destruct (act_full ct attr) as [[| | | |sk|]|] eqn:Ea; try discriminate.
    destruct (row_of ac attr) as [row|] eqn:Erow; [|discriminate].
    destruct (b_mode row); try discriminate. destruct (it_code st); [discriminate|].
    destruct (nb_code nb fs es) as [k|] eqn:Enb; [|discriminate]. injection Hb as <-.
    unfold row_of in Erow. destruct (assoc attr (ac_visits ac)) as [V|] eqn:EV; [|discriminate].
    destruct Hi as [H1 H2 H3 H4 H5 H6]. constructor; cbn [it_slots it_unknown it_code it_rcs it_flags]; try assumption.
    intros ms' ml' fs' xr' k' [= <- <- <- <- <-]. split; [exact (Hc _ _ _ Enb)|]. exists attr, V, row, sk. auto.
  - destruct (act_full ct attr) as [[| | | | |o]|] eqn:Ea; try discriminate.
    destruct (row_of ac attr) as [row|] eqn:Erow; [|discriminate].
    destruct (b_mode row); try discriminate. destruct (Nat.eqb k (length (it_rcs st))); [|discriminate].
    destruct (nb_rc nb es) as [c|] eqn:Enb; [|discriminate]. injection Hb as <-.
    unfold row_of in Erow. destruct (assoc attr (ac_visits ac)) as [V|] eqn:EV; [|discriminate].
    destruct Hi as [H1 H2 H3 H4 H5 H6]. constructor; cbn [it_slots it_unknown it_code it_rcs it_flags]; try assumption.
    + intros n' d' k' Hin. apply in_app_or in Hin as [Hin|[[= <- <- <-]|[]]]; [exact (H4 _ _ _ Hin)|exact (Hr _ _ Enb)].
    + intros _. exists attr, V, row, o. auto.
Qed.

Lemma fold_raw_inv {K} strict ct ac (nb : nbuild K) (PKc : list str -> K -> Prop) (PKr : K -> Prop) :
  (forall fs es k, nb_code nb fs es = Ok k -> PKc fs k) ->
  (forall es k, nb_rc nb es = Ok k -> PKr k) ->
  forall es (st st' : titem K), raw_inv ct ac PKc PKr st -> fold_res (build_step strict ct ac nb) es st = Ok st' -> raw_inv ct ac PKc PKr st'.
Proof.
  intros Hc Hr. induction es as [|e es IH]; intros st st' Hi Hf; cbn [fold_res] in Hf.
  - injection Hf as <-. exact Hi.
  - destruct (build_step strict ct ac nb st e) as [st1|] eqn:E; [|discriminate].
    apply (IH st1 st'); [|exact Hf]. eapply step_raw_inv; eauto.
Qed.

(* a finished item *)
Record item_inv {K} (ct : ctx_table) (ac : accept_ctx) (PKc : list str -> K -> Prop) (PKr : K -> Prop) (it : titem K) : Prop := mkII {
  ii_raw : raw_inv ct ac PKc PKr it;
  ii_flags : t_flags_event ct = true -> it_flags it <> None;
  ii_norm : it_slots it = norm_slots (builder_fields ac) (it_slots it);
}.

Lemma assoc_norm_sound fields (s : list (str * sval)) f v : assoc f (norm_slots fields s) = Some v -> assoc f s = Some v.
Proof.
  unfold norm_slots. induction fields as [|f0 fields IH]; [discriminate|]. cbn [flat_map].
  destruct (assoc f0 s) as [v0|] eqn:E0; cbn [app assoc]; [|exact IH].
  destruct (str_eqb_spec f f0) as [->|_]; [intros [= <-]; exact E0|exact IH].
Qed.

Lemma norm_ext fields (s1 s2 : list (str * sval)) :
  (forall f, In f fields -> assoc f s1 = assoc f s2) -> norm_slots fields s1 = norm_slots fields s2.
Proof. intros H. unfold norm_slots. apply flat_map_ext_in. intros f Hf. rewrite (H f Hf). reflexivity. Qed.

Lemma norm_idem fields s : nodup_b fields = true -> norm_slots fields (norm_slots fields s) = norm_slots fields s.
Proof. intros Hnd. apply norm_ext. intros f Hf. apply nodup_b_assoc_norm; assumption. Qed.

Lemma build_item_inv {K} strict ct ac (nb : nbuild K) (PKc : list str -> K -> Prop) (PKr : K -> Prop) es it :
  nodup_b (builder_fields ac) = true ->
  (forall fs es k, nb_code nb fs es = Ok k -> PKc fs k) ->
  (forall es k, nb_rc nb es = Ok k -> PKr k) ->
  build_item strict ct ac nb es = Ok it -> item_inv ct ac PKc PKr it.
Proof.
  intros Hnd Hc Hr Hb. unfold build_item in Hb.
  destruct (fold_res (build_step strict ct ac nb) es empty_item) as [st|] eqn:Ef; [|discriminate].
  pose proof (fold_raw_inv strict ct ac nb PKc PKr Hc Hr es _ _ (raw_inv_empty _ _ _ _) Ef) as [H1 H2 H3 H4 H5 H6].
  unfold finish_item in Hb.
  destruct (Bool.eqb (match it_flags st with Some _ => true | None => false end) (t_flags_event ct)) eqn:Efl; [|discriminate].
  injection Hb as <-. apply Bool.eqb_prop in Efl. constructor; cbn [it_slots it_flags].
  - constructor; cbn [it_slots it_unknown it_code it_rcs it_flags]; try assumption.
    intros f v Hv. apply H1. exact (assoc_norm_sound _ _ _ _ Hv).
  - intros Ht. rewrite Ht in Efl. destruct (it_flags st); [discriminate|discriminate].
  - symmetry. apply norm_idem. exact Hnd.
Qed.

(* ---------- the walk along accept() ---------- *)
Definition comp_done (done : list astep) (c : comp) : bool := existsb (touches c) done.

Lemma comp_done_snoc done s c : comp_done (done ++ [s]) c = comp_done done c || touches c s.
Proof. unfold comp_done. rewrite existsb_app. cbn [existsb]. rewrite orb_false_r. reflexivity. Qed.

Record agree {K} (done : list astep) (it st : titem K) : Prop := mkAG {
  ag_slots : forall f, assoc f (it_slots st) = if comp_done done (CSlot f) then assoc f (it_slots it) else None;
  ag_unknown : it_unknown st = if comp_done done CUnknown then it_unknown it else [];
  ag_code : it_code st = if comp_done done CCode then it_code it else None;
  ag_rcs : it_rcs st = if comp_done done CRcs then it_rcs it else [];
  ag_flags : it_flags st = if comp_done done CFlags then it_flags it else None;
}.

Lemma comp_eqb_eq a b : comp_eqb a b = true <-> a = b.
Proof.
  destruct a, b; cbn [comp_eqb]; try (split; [discriminate|discriminate]); try (split; reflexivity).
  rewrite str_eqb_eq. split; [intros ->; reflexivity|intros [= ->]; reflexivity].
Qed.

Lemma touches_comp s c c' : step_comp s = Some c -> touches c' s = comp_eqb c' c.
Proof. unfold touches. intros ->. reflexivity. Qed.
Lemma touches_none s c : step_comp s = None -> touches c s = false.
Proof. unfold touches. intros ->. reflexivity. Qed.

(* a step without a component, or whose component is empty in the item: nothing to do *)
Lemma agree_skip {K} done (it st : titem K) s :
  agree done it st ->
  (forall f, step_comp s = Some (CSlot f) -> assoc f (it_slots it) = None) ->
  (step_comp s = Some CUnknown -> it_unknown it = []) ->
  (step_comp s = Some CCode -> it_code it = None) ->
  (step_comp s = Some CRcs -> it_rcs it = []) ->
  (step_comp s = Some CFlags -> it_flags it = None) ->
  agree (done ++ [s]) it st.
Proof.
  intros [A1 A2 A3 A4 A5] Hs Hu Hc Hr Hf.
  constructor; [intros f|..]; rewrite comp_done_snoc.
  - rewrite A1. destruct (comp_done done (CSlot f)); [reflexivity|]. cbn [orb].
    destruct (touches (CSlot f) s) eqn:Et; [|reflexivity].
    unfold touches in Et. destruct (step_comp s) as [c|] eqn:Ec; [|discriminate]. apply comp_eqb_eq in Et. subst c.
    symmetry. apply Hs. reflexivity.
  - rewrite A2. destruct (comp_done done CUnknown); [reflexivity|]. cbn [orb].
    destruct (touches CUnknown s) eqn:Et; [|reflexivity].
    unfold touches in Et. destruct (step_comp s) as [c|] eqn:Ec; [|discriminate]. apply comp_eqb_eq in Et. subst c. symmetry. apply Hu. reflexivity.
  - rewrite A3. destruct (comp_done done CCode); [reflexivity|]. cbn [orb].
    destruct (touches CCode s) eqn:Et; [|reflexivity].
    unfold touches in Et. destruct (step_comp s) as [c|] eqn:Ec; [|discriminate]. apply comp_eqb_eq in Et. subst c. symmetry. apply Hc. reflexivity.
  - rewrite A4. destruct (comp_done done CRcs); [reflexivity|]. cbn [orb].
    destruct (touches CRcs s) eqn:Et; [|reflexivity].
    unfold touches in Et. destruct (step_comp s) as [c|] eqn:Ec; [|discriminate]. apply comp_eqb_eq in Et. subst c. symmetry. apply Hr. reflexivity.
  - rewrite A5. destruct (comp_done done CFlags); [reflexivity|]. cbn [orb].
    destruct (touches CFlags s) eqn:Et; [|reflexivity].
    unfold touches in Et. destruct (step_comp s) as [c|] eqn:Ec; [|discriminate]. apply comp_eqb_eq in Et. subst c. symmetry. apply Hf. reflexivity.
Qed.

(* the component of [s] has been re-created in [st'], everything else is as in [st] *)
Lemma agree_slot {K} done (it st : titem K) s f v :
  agree done it st -> step_comp s = Some (CSlot f) -> assoc f (it_slots it) = Some v ->
  agree (done ++ [s]) it (set_slot f v st).
Proof.
  intros [A1 A2 A3 A4 A5] Hs Hv.
  constructor; [intros f'|..]; rewrite comp_done_snoc, (touches_comp s _ _ Hs); cbn [comp_eqb set_slot it_slots it_unknown it_code it_rcs it_flags];
    rewrite ?orb_false_r; try assumption.
  cbn [assoc]. rewrite (str_eqb_sym f' f). destruct (str_eqb_spec f f') as [<-|Hne].
  - rewrite orb_true_r. symmetry. exact Hv.
  - rewrite orb_false_r. apply A1.
Qed.

Lemma interested_full ct g : mem g (t_interests ct) = true -> interested (t_interests ct) g = true.
Proof. intros H. exact H. Qed.

(* distinctness of the components the statements read *)
Lemma distinct_not_done done s rest c :
  distinct_comps (done ++ s :: rest) = true -> step_comp s = Some c -> comp_done done c = false.
Proof.
  induction done as [|s0 done IH]; intros Hd Hs; [reflexivity|].
  cbn [app distinct_comps] in Hd. apply andb_prop in Hd as [H0 Hd].
  unfold comp_done. cbn [existsb]. apply orb_false_iff. split; [|exact (IH Hd Hs)].
  destruct (touches c s0) eqn:Et; [|reflexivity].
  unfold touches in Et. destruct (step_comp s0) as [c0|] eqn:Ec0; [|discriminate]. apply comp_eqb_eq in Et. subst c0.
  apply negb_true_iff in H0.
  assert (existsb (touches c) (done ++ s :: rest) = true).
  { apply existsb_exists. exists s. split; [apply in_or_app; right; left; reflexivity|]. rewrite (touches_comp s c c Hs). apply comp_eqb_eq. reflexivity. }
  congruence.
Qed.

Lemma distinct_same l : distinct_comps l = true -> forall s s' c,
  In s l -> In s' l -> step_comp s = Some c -> step_comp s' = Some c -> s = s'.
Proof.
  induction l as [|s0 l IH]; intros Hd s s' c Hs Hs' Hc Hc'; [destruct Hs|].
  cbn [distinct_comps] in Hd. apply andb_prop in Hd as [H0 Hd].
  assert (Hex : forall x, In x l -> step_comp x = Some c -> step_comp s0 = Some c -> False).
  { intros x Hx Hxc H0c. rewrite H0c in H0. apply negb_true_iff in H0.
    assert (existsb (touches c) l = true) by (apply existsb_exists; exists x; split; [exact Hx|rewrite (touches_comp x c c Hxc); apply comp_eqb_eq; reflexivity]).
    congruence. }
  destruct Hs as [<-|Hs], Hs' as [<-|Hs']; try reflexivity.
  - exfalso. exact (Hex s' Hs' Hc' Hc).
  - exfalso. exact (Hex s Hs Hc Hc').
  - exact (IH Hd s s' c Hs Hs' Hc Hc').
Qed.

Lemma unique_step_in c steps x : unique_step c steps = Some x -> In x steps /\ touches c x = true.
Proof.
  intros H. destruct (unique_step_spec _ _ _ H) as (a & b & -> & Ht & _). split; [apply in_or_app; right; left; reflexivity|exact Ht].
Qed.

Lemma fold_res_app {A B} (f : A -> B -> res A) l1 l2 a :
  fold_res f (l1 ++ l2) a = match fold_res f l1 a with Ok a' => fold_res f l2 a' | Err => Err end.
Proof.
  revert a. induction l1 as [|x l1 IH]; intros a; [reflexivity|]. cbn [app fold_res].
  destruct (f a x); [apply IH|reflexivity].
Qed.

(* what the nested levels must provide: replaying a nested item into the builder re-creates it *)
Record nested_rebuild {K} (ct : ctx_table) (nb : nbuild K) (na : naccept K) (PKc : list str -> K -> Prop) (PKr : K -> Prop) : Prop := mkNR {
  nr_code : forall attr sk ms ml fs xr k, act_full ct attr = Some (ACode sk) -> PKc fs k ->
      exists es', na_code na attr ms ml fs xr k = [ECode attr ms ml fs xr es'] /\ nb_code nb fs es' = Ok k;
  nr_rc : forall attr i n d k, PKr k ->
      exists es', na_rc na attr i n d k = ERc attr i n d (Some es') /\ nb_rc nb es' = Ok k;
}.

Lemma fold_unknown {K} ct ac (nb : nbuild K) : forall (l : list (str * bytes)) (st : titem K),
  (forall n b, In (n, b) l -> act_full ct n = Some (AReadLen true)) ->
  fold_res (build_step false ct ac nb) (map (fun p => EAttr (fst p) true (snd p)) l) st
  = Ok (with_unknown (it_unknown st ++ l) st).
Proof.
  induction l as [|[n b] l IH]; intros st H; cbn [map fold_res].
  - unfold with_unknown. rewrite app_nil_r. destruct st; reflexivity.
  - cbn [build_step fst snd]. rewrite (H n b (or_introl eq_refl)).
    rewrite IH by (intros n' b' Hin; apply (H n' b'); right; exact Hin).
    unfold with_unknown. cbn [it_flags it_slots it_unknown it_code it_rcs]. rewrite <- app_assoc. reflexivity.
Qed.

Lemma fold_rcs {K} ct ac (nb : nbuild K) (na : naccept K) (PKc : list str -> K -> Prop) (PKr : K -> Prop) attr V row o :
  nested_rebuild ct nb na PKc PKr ->
  act_full ct attr = Some (ARecord o) -> assoc attr (ac_visits ac) = Some V -> find_row V (ac_builder ac) = Some row -> b_mode row = MPush ->
  forall (l : list (N * N * K)) (st : titem K),
    (forall n d k, In (n, d, k) l -> PKr k) ->
    fold_res (build_step false ct ac nb)
      (mapi_from (fun i c => na_rc na attr i (fst (fst c)) (snd (fst c)) (snd c)) (length (it_rcs st)) l) st
    = Ok (with_rcs (it_rcs st ++ l) st).
Proof.
  intros Hnr Ha HV Hrow Hm. induction l as [|[[n d] k] l IH]; intros st H; cbn [mapi_from fold_res].
  - unfold with_rcs. rewrite app_nil_r. destruct st; reflexivity.
  - cbn [fst snd]. destruct (nr_rc _ _ _ _ _ Hnr attr (length (it_rcs st)) n d k (H n d k (or_introl eq_refl))) as (es' & -> & Hb).
    cbn [build_step]. unfold row_of. rewrite Ha, HV, Hrow, Hm, Nat.eqb_refl, Hb.
    specialize (IH (mkTI (it_flags st) (it_slots st) (it_unknown st) (it_code st) (it_rcs st ++ [(n, d, k)]))).
    cbn [it_rcs it_flags it_slots it_unknown it_code] in IH. rewrite app_length in IH. cbn [length] in IH.
    replace (length (it_rcs st) + 1)%nat with (S (length (it_rcs st))) in IH by lia.
    rewrite IH by (intros n' d' k' Hin; apply (H n' d' k'); right; exact Hin).
    unfold with_rcs. cbn [it_flags it_slots it_unknown it_code it_rcs]. rewrite <- app_assoc. reflexivity.
Qed.

(* one statement of accept(): building from what it emits re-creates its component *)
Lemma step_rebuild {K} ct except ac AT (nb : nbuild K) (na : naccept K) (PKc : list str -> K -> Prop) (PKr : K -> Prop) (it st : titem K) done s rest :
  ctx_ok ct except = true -> ctx_facts ct ac AT -> nested_rebuild ct nb na PKc PKr ->
  item_inv ct ac PKc PKr it ->
  ac_steps ac = done ++ s :: rest ->
  agree done it st ->
  exists st', fold_res (build_step false ct ac nb) (run_step ct ac AT na (t_interests ct) it s) st = Ok st'
              /\ agree (done ++ [s]) it st'.
Proof.
  intros Hct CF Hnr [[R1 R2 R3 R4 R5 R6] Hfl Hnorm] Hsteps Hag.
  pose proof (cf_distinct _ _ _ CF) as Hdist. rewrite Hsteps in Hdist.
  assert (Hin : In s (ac_steps ac)) by (rewrite Hsteps; apply in_or_app; right; left; reflexivity).
  pose proof (forallb_In' _ _ _ (cf_just _ _ _ CF) Hin) as Hj.
  assert (Hnot : forall c, step_comp s = Some c -> comp_done done c = false) by (intros c Hc; exact (distinct_not_done done s rest c Hdist Hc)).
  assert (Hsame : forall s0 c, In s0 (ac_steps ac) -> step_comp s = Some c -> step_comp s0 = Some c -> s = s0).
  { intros s0 c H0 Hc Hc0. exact (distinct_same _ (cf_distinct _ _ _ CF) s s0 c Hin H0 Hc Hc0). }
  (* the entry of a stored body *)
  assert (Hbody : forall f b, assoc f (it_slots it) = Some (VBody b) -> step_comp s = Some (CSlot f) ->
            exists name V row g, assoc name (ac_visits ac) = Some V /\ rassoc V (ac_visits ac) = Some name
              /\ find_row V (ac_builder ac) = Some row /\ b_field row = f
              /\ (b_mode row = MExtend -> count_of b <> 0)
              /\ (act_full ct name = Some (AParse DNow) \/ act_full ct name = Some (AReadLen false))
              /\ b_mode row <> MPush
              /\ (s = SOpt g f V \/ s = SVec g f V)).
  { intros f b Hv Hc. destruct (R1 f _ Hv) as (name & V & row & HV & Hrow & Hf & Hcnt & Hact).
    pose proof (forallb_In' _ _ _ (cf_visits _ _ _ CF) (assoc_In _ _ _ HV)) as Hv0.
    unfold visit_entry_ok in Hv0. cbn [fst snd] in Hv0. rewrite Hrow in Hv0.
    apply andb_prop in Hv0 as [Hv0 Hs0]. apply andb_prop in Hv0 as [_ Hr]. apply ostr_eqb_eq in Hr.
    destruct (act_full ct name) as [act|] eqn:Ea; [|destruct Hact; discriminate].
    destruct (gov ct name) as [g|]; [|discriminate].
    assert (Hcomp : entry_comp act row = CSlot f) by (destruct Hact as [[= ->]|[= ->]]; cbn [entry_comp]; rewrite Hf; reflexivity).
    rewrite Hcomp in Hs0. destruct (unique_step (CSlot f) (ac_steps ac)) as [s0|] eqn:Eu; [|discriminate].
    destruct (unique_step_in _ _ _ Eu) as [Hin0 Ht0].
    assert (Hc0 : step_comp s0 = Some (CSlot f)).
    { unfold touches in Ht0. destruct (step_comp s0) as [c0|]; [|discriminate]. apply comp_eqb_eq in Ht0. subst c0. reflexivity. }
    pose proof (Hsame s0 _ Hin0 Hc Hc0) as <-.
    exists name, V, row, g. repeat split; try assumption.
    - rewrite Ea. exact Hact.
    - intros Hm. unfold entry_step_ok in Hs0. rewrite Hm in Hs0. destruct Hact as [[= ->]|[= ->]]; discriminate.
    - unfold entry_step_ok in Hs0.
      destruct Hact as [[= ->]|[= ->]]; destruct (b_mode row); try discriminate; destruct s; try discriminate;
        repeat (apply andb_prop in Hs0; destruct Hs0 as [Hs0 ?]);
        repeat match goal with H : str_eqb _ _ = true |- _ => apply str_eqb_eq in H end; subst;
        (left; reflexivity) || (right; reflexivity). }
  (* the entry of a stored table *)
  assert (Htable : forall f l, assoc f (it_slots it) = Some (VRows l) -> step_comp s = Some (CSlot f) ->
            exists slot V row, assoc slot (ac_deferred ac) = Some V /\ rassoc V (ac_deferred ac) = Some slot
              /\ find_row V (ac_builder ac) = Some row /\ b_field row = f /\ b_mode row = MOnce
              /\ forallb (fun r => stores_into ct slot (fst r)) l = true
              /\ ((exists g, s = SOpt g f V)
                  \/ (exists flags kinds whole, s = SLocals flags f V kinds whole
                        /\ forall r, In r l -> exists g, kind_flag AT kinds (fst r) = Some g /\ mem g flags = true))).
  { intros f l Hv Hc. destruct (R1 f _ Hv) as (slot & V & row & HV & Hrow & Hf & Hst).
    pose proof (forallb_In' _ _ _ (cf_deferred _ _ _ CF) (assoc_In _ _ _ HV)) as Hd.
    unfold deferred_entry_ok in Hd. cbn [fst snd] in Hd. rewrite Hrow in Hd.
    apply andb_prop in Hd as [Hd Hs0]. apply andb_prop in Hd as [Hd _]. apply andb_prop in Hd as [_ Hr]. apply ostr_eqb_eq in Hr.
    destruct (b_mode row) eqn:Em; try discriminate. rewrite Hf in Hs0.
    destruct (unique_step (CSlot f) (ac_steps ac)) as [s0|] eqn:Eu; [|discriminate].
    destruct (unique_step_in _ _ _ Eu) as [Hin0 Ht0].
    assert (Hc0 : step_comp s0 = Some (CSlot f)).
    { unfold touches in Ht0. destruct (step_comp s0) as [c0|]; [|discriminate]. apply comp_eqb_eq in Ht0. subst c0. reflexivity. }
    pose proof (Hsame s0 _ Hin0 Hc Hc0) as <-.
    exists slot, V, row. repeat split; try assumption.
    destruct s; try discriminate.
    - apply andb_prop in Hs0 as [Hs0 _]. apply andb_prop in Hs0 as [Hs0 _]. apply andb_prop in Hs0 as [Hf0 HV0]. apply str_eqb_eq in Hf0, HV0. subst. left. eexists; reflexivity.
    - apply andb_prop in Hs0 as [Hs0 _]. apply andb_prop in Hs0 as [Hs0 Hnames]. apply andb_prop in Hs0 as [Hf0 HV0]. apply str_eqb_eq in Hf0, HV0. subst.
      right. exists flags, kinds, whole. split; [reflexivity|]. intros r Hn.
      pose proof (stored_names_spec ct except slot _ (fst r) Hct Hnames (forallb_In' _ _ _ Hst Hn)) as Hp. cbv beta in Hp.
      destruct (gov ct (fst r)) as [g|]; [|discriminate]. apply andb_prop in Hp as [Hp _]. apply andb_prop in Hp as [Hp1 Hp2]. apply ostr_eqb_eq in Hp1. exists g. auto. }
  (* building a stored body again *)
  assert (Hrefill : forall f b name V row, assoc name (ac_visits ac) = Some V -> find_row V (ac_builder ac) = Some row -> b_field row = f ->
            (b_mode row = MExtend -> count_of b <> 0) -> b_mode row <> MPush ->
            (act_full ct name = Some (AParse DNow) \/ act_full ct name = Some (AReadLen false)) ->
            assoc f (it_slots st) = None ->
            build_step false ct ac nb st (EAttr name (raw_of ct name) b) = Ok (set_slot f (VBody b) st)).
  { intros f b name V row HV Hrow Hf Hcnt Hnp Hact Hnone. cbn [build_step]. unfold raw_of, row_of.
    assert (Hfill : fill false row b st = Ok (set_slot f (VBody b) st)).
    { unfold fill. rewrite Hf, Hnone. destruct (b_mode row) eqn:Em; try reflexivity; [|congruence].
      destruct (N.eqb_spec (count_of b) 0) as [E0|_]; [exfalso; exact (Hcnt eq_refl E0)|reflexivity]. }
    destruct Hact as [-> | ->]; rewrite HV, Hrow; exact Hfill. }
  assert (Hretable : forall f l slot V row, assoc slot (ac_deferred ac) = Some V -> find_row V (ac_builder ac) = Some row -> b_field row = f ->
            b_mode row = MOnce -> forallb (fun r => stores_into ct slot (fst r)) l = true -> assoc f (it_slots st) = None ->
            build_step false ct ac nb st (EDeferred slot (one_each l)) = Ok (set_slot f (VRows l) st)).
  { intros f l slot V row HV Hrow Hf Hm Hst Hnone. cbn [build_step]. rewrite HV, Hrow, Hm, Hf, Hnone.
    assert (E1 : forallb (fun x : str * list Model.row => stores_into ct slot (fst x)) (one_each l) = true).
    { unfold one_each. clear -Hst. induction l as [|n l IHl]; [reflexivity|]. cbn [forallb map fst] in *.
      apply andb_prop in Hst as [-> Hst]. exact (IHl Hst). }
    rewrite E1. cbn [negb andb]. rewrite flat_one_each. reflexivity. }
  destruct s as [|g f V|g f V|g f V|g f V|g f V|g f V mm| |g| | |flags f V kinds whole].
  - (* SFlags *)
    pose proof (cf_flags _ _ _ CF) as Hf. unfold flags_ok in Hf.
    assert (Htf : t_flags_event ct = true).
    { destruct (t_flags_event ct); [reflexivity|]. apply negb_true_iff in Hf.
      assert (existsb (touches CFlags) (ac_steps ac) = true) by (apply existsb_exists; exists SFlags; split; [exact Hin|reflexivity]). congruence. }
    destruct (it_flags it) as [[d sy]|] eqn:Efl; [|exfalso; exact (Hfl Htf eq_refl)].
    cbn [run_step]. rewrite Efl. cbn [fold_res build_step]. rewrite Htf.
    destruct Hag as [A1 A2 A3 A4 A5]. rewrite A5, (Hnot CFlags eq_refl).
    eexists. split; [reflexivity|].
    constructor; [intros f'|..]; rewrite comp_done_snoc; cbn [touches step_comp comp_eqb it_slots it_unknown it_code it_rcs it_flags];
      rewrite ?orb_false_r; try assumption; [apply A1|].
    rewrite orb_true_r. symmetry. exact Efl.
  - (* SOpt *)
    apply andb_prop in Hj as [Hj _]. apply andb_prop in Hj as [Hg _].
    cbn [run_step]. rewrite (interested_full ct g Hg).
    destruct (assoc f (it_slots it)) as [[b|l]|] eqn:Ev.
    + destruct (Hbody f b Ev eq_refl) as (name & V0 & row & g0 & HV & Hr & Hrow & Hf & Hcnt & Hact & Hnp & Hs).
      assert (V0 = V) by (destruct Hs as [[= _ <-]|[=]]; reflexivity). subst V0. rewrite Hr.
      cbn [fold_res].
      rewrite (Hrefill f b name V row HV Hrow Hf Hcnt Hnp Hact) by (rewrite (ag_slots _ _ _ Hag), (Hnot _ eq_refl); reflexivity).
      eexists. split; [reflexivity|]. apply agree_slot; [exact Hag|reflexivity|exact Ev].
    + destruct (Htable f l Ev eq_refl) as (slot & V0 & row & HV & Hr & Hrow & Hf & Hm & Hst & [[g0 Hs]|(fl & kd & wh & Hs & _)]); [|discriminate].
      injection Hs as _ HVV. subst V0. rewrite Hr. cbn [fold_res].
      rewrite (Hretable f l slot V row HV Hrow Hf Hm Hst) by (rewrite (ag_slots _ _ _ Hag), (Hnot _ eq_refl); reflexivity).
      eexists. split; [reflexivity|]. apply agree_slot; [exact Hag|reflexivity|exact Ev].
    + cbn [fold_res]. eexists. split; [reflexivity|].
      apply agree_skip; [exact Hag|..]; cbn [step_comp]; try discriminate. intros f' [= <-]. exact Ev.
  - (* SVec *)
    apply andb_prop in Hj as [Hj _]. apply andb_prop in Hj as [Hg _].
    cbn [run_step]. rewrite (interested_full ct g Hg).
    destruct (assoc f (it_slots it)) as [[b|l]|] eqn:Ev.
    + destruct (Hbody f b Ev eq_refl) as (name & V0 & row & g0 & HV & Hr & Hrow & Hf & Hcnt & Hact & Hnp & Hs).
      assert (V0 = V) by (destruct Hs as [[=]|[= _ <-]]; reflexivity). subst V0. rewrite Hr.
      cbn [fold_res].
      rewrite (Hrefill f b name V row HV Hrow Hf Hcnt Hnp Hact) by (rewrite (ag_slots _ _ _ Hag), (Hnot _ eq_refl); reflexivity).
      eexists. split; [reflexivity|]. apply agree_slot; [exact Hag|reflexivity|exact Ev].
    + destruct (Htable f l Ev eq_refl) as (slot & V0 & row & HV & Hr & Hrow & Hf & Hm & Hst & [[g0 Hs]|(fl & kd & wh & Hs & _)]); discriminate.
    + cbn [fold_res]. eexists. split; [reflexivity|].
      apply agree_skip; [exact Hag|..]; cbn [step_comp]; try discriminate. intros f' [= <-]. exact Ev.
  - (* SUnknown *)
    apply andb_prop in Hj as [Hj _]. apply andb_prop in Hj as [Hg _].
    cbn [run_step]. rewrite (interested_full ct g Hg).
    rewrite (fold_unknown ct ac nb (it_unknown it) st R2).
    eexists. split; [reflexivity|].
    destruct Hag as [A1 A2 A3 A4 A5]. rewrite A2, (Hnot CUnknown eq_refl). cbn [app].
    constructor; [intros f'|..]; rewrite comp_done_snoc; cbn [touches step_comp comp_eqb with_unknown it_slots it_unknown it_code it_rcs it_flags];
      rewrite ?orb_false_r; try assumption; [apply A1|].
    rewrite orb_true_r. reflexivity.
  - (* SCode *)
    apply andb_prop in Hj as [Hj _]. apply andb_prop in Hj as [Hg _].
    cbn [run_step]. rewrite (interested_full ct g Hg).
    destruct (it_code it) as [[[[[ms ml] fs] xr] k]|] eqn:Ec.
    + destruct (R3 ms ml fs xr k eq_refl) as (HPK & attr & V0 & row & sk & HV & Hrow & Ha).
      pose proof (forallb_In' _ _ _ (cf_visits _ _ _ CF) (assoc_In _ _ _ HV)) as Hv0.
      unfold visit_entry_ok in Hv0. cbn [fst snd] in Hv0. rewrite Ha, Hrow in Hv0.
      apply andb_prop in Hv0 as [Hv0 Hs0]. apply andb_prop in Hv0 as [_ Hr]. apply ostr_eqb_eq in Hr.
      destruct (gov ct attr) as [g0|]; [|discriminate]. cbn [entry_comp] in Hs0.
      destruct (unique_step CCode (ac_steps ac)) as [s0|] eqn:Eu; [|discriminate].
      destruct (unique_step_in _ _ _ Eu) as [Hin0 Ht0].
      assert (Hc0 : step_comp s0 = Some CCode).
      { unfold touches in Ht0. destruct (step_comp s0) as [c0|]; [|discriminate]. apply comp_eqb_eq in Ht0. subst c0. reflexivity. }
      pose proof (Hsame s0 CCode Hin0 eq_refl Hc0) as <-.
      unfold entry_step_ok in Hs0. destruct (b_mode row) eqn:Em; try discriminate.
      apply andb_prop in Hs0 as [_ HV0]. apply str_eqb_eq in HV0. subst V0. rewrite Hr.
      destruct (nr_code _ _ _ _ _ Hnr attr sk ms ml fs xr k Ha HPK) as (es' & -> & Hb).
      cbn [fold_res build_step]. unfold row_of. rewrite Ha, HV, Hrow, Em.
      destruct Hag as [A1 A2 A3 A4 A5]. rewrite A3, (Hnot CCode eq_refl), Hb.
      eexists. split; [reflexivity|].
      constructor; [intros f'|..]; rewrite comp_done_snoc; cbn [touches step_comp comp_eqb it_slots it_unknown it_code it_rcs it_flags];
        rewrite ?orb_false_r; try assumption; [apply A1|].
      rewrite orb_true_r. symmetry. exact Ec.
    + cbn [fold_res]. eexists. split; [reflexivity|].
      apply agree_skip; [exact Hag|..]; cbn [step_comp]; try discriminate. intros _. exact Ec.
  - (* SRecord *)
    apply andb_prop in Hj as [Hj _]. apply andb_prop in Hj as [Hg _].
    cbn [run_step]. rewrite (interested_full ct g Hg).
    destruct (it_rcs it) as [|rc0 rcs0] eqn:Erc.
    + destruct (rassoc V (ac_visits ac)); cbn [mapi_from fold_res]; (eexists; split; [reflexivity|]);
        (apply agree_skip; [exact Hag|..]; cbn [step_comp]; try discriminate; intros _; exact Erc).
    + destruct R5 as (attr & V0 & row & o & HV & Hrow & Ha); [discriminate|].
      pose proof (forallb_In' _ _ _ (cf_visits _ _ _ CF) (assoc_In _ _ _ HV)) as Hv0.
      unfold visit_entry_ok in Hv0. cbn [fst snd] in Hv0. rewrite Ha, Hrow in Hv0.
      apply andb_prop in Hv0 as [Hv0 Hs0]. apply andb_prop in Hv0 as [_ Hr]. apply ostr_eqb_eq in Hr.
      destruct (gov ct attr) as [g0|]; [|discriminate]. cbn [entry_comp] in Hs0.
      destruct (unique_step CRcs (ac_steps ac)) as [s0|] eqn:Eu; [|discriminate].
      destruct (unique_step_in _ _ _ Eu) as [Hin0 Ht0].
      assert (Hc0 : step_comp s0 = Some CRcs).
      { unfold touches in Ht0. destruct (step_comp s0) as [c0|]; [|discriminate]. apply comp_eqb_eq in Ht0. subst c0. reflexivity. }
      pose proof (Hsame s0 CRcs Hin0 eq_refl Hc0) as <-.
      unfold entry_step_ok in Hs0. destruct (b_mode row) eqn:Em; try discriminate.
      apply andb_prop in Hs0 as [_ HV0]. apply str_eqb_eq in HV0. subst V0. rewrite Hr.
      destruct Hag as [A1 A2 A3 A4 A5].
      assert (E0 : it_rcs st = []) by (rewrite A4, (Hnot CRcs eq_refl); reflexivity).
      pose proof (fold_rcs ct ac nb na PKc PKr attr V row o Hnr Ha HV Hrow Em (rc0 :: rcs0) st) as Hfold.
      rewrite E0 in Hfold. cbn [length app] in Hfold. rewrite Hfold by (intros n d k Hk; exact (R4 n d k Hk)).
      eexists. split; [reflexivity|].
      constructor; [intros f'|..]; rewrite comp_done_snoc; cbn [touches step_comp comp_eqb with_rcs it_slots it_unknown it_code it_rcs it_flags];
        rewrite ?orb_false_r; try assumption; [apply A1|].
      rewrite orb_true_r. symmetry. exact Erc.
  - cbn [run_step fold_res]. eexists. split; [reflexivity|]. apply agree_skip; [exact Hag|..]; cbn [step_comp]; discriminate.
  - cbn [run_step fold_res]. eexists. split; [reflexivity|]. apply agree_skip; [exact Hag|..]; cbn [step_comp]; discriminate.
  - cbn [run_step fold_res]. eexists. split; [reflexivity|]. apply agree_skip; [exact Hag|..]; cbn [step_comp]; discriminate.
  - cbn [run_step fold_res]. eexists. split; [reflexivity|]. apply agree_skip; [exact Hag|..]; cbn [step_comp]; discriminate.
  - cbn [run_step fold_res]. eexists. split; [reflexivity|]. apply agree_skip; [exact Hag|..]; cbn [step_comp]; discriminate.
  - (* SLocals *)
    apply andb_prop in Hj as [Hj _]. apply andb_prop in Hj as [Hj _]. apply andb_prop in Hj as [Hne Hfl0]. apply andb_prop in Hne as [Hwfl Hne].
    cbn [run_step].
    assert (Hex : existsb (interested (t_interests ct)) flags = true).
    { destruct flags as [|g0 flags0]; [discriminate Hne|]. cbn [forallb] in Hfl0. apply andb_prop in Hfl0 as [Hg0 _].
      cbn [existsb]. rewrite (interested_full ct g0 Hg0). reflexivity. }
    rewrite Hex.
    destruct (assoc f (it_slots it)) as [[b|l]|] eqn:Ev.
    + destruct (Hbody f b Ev eq_refl) as (name & V0 & row & g0 & _ & _ & _ & _ & _ & _ & _ & [Hs|Hs]); discriminate.
    + destruct (Htable f l Ev eq_refl) as (slot & V0 & row & HV & Hr & Hrow & Hf & Hm & Hst & [[g0 Hs]|(fl & kd & wh & Hs & Hk)]); [discriminate|].
      injection Hs as Hfl1 HVV Hkd1 Hwh1. subst fl V0 kd wh. rewrite Hr.
      assert (Hkept : filter (fun r : str * Model.row => match kind_flag AT kinds (fst r) with Some g => interested (t_interests ct) g | None => false end) l = l).
      { apply filter_all_true. intros n Hn. destruct (Hk n Hn) as (g0 & -> & Hg0).
        apply interested_full. apply (forallb_In' _ _ _ Hfl0).
        unfold mem in Hg0. apply existsb_exists in Hg0 as (y & Hy & Hyg). apply str_eqb_eq in Hyg. subst y. exact Hy. }
      rewrite Hkept.
      (* the tree builder is interested in everything: the guard of the statement holds *)
      assert (Hemit : negb (is_nil l) || forallb (interested (t_interests ct)) whole = true).
      { apply orb_true_iff. right. exact Hwfl. }
      rewrite Hemit.
      cbn [fold_res].
      rewrite (Hretable f l slot V row HV Hrow Hf Hm Hst) by (rewrite (ag_slots _ _ _ Hag), (Hnot _ eq_refl); reflexivity).
      eexists. split; [reflexivity|]. apply agree_slot; [exact Hag|reflexivity|exact Ev].
    + cbn [fold_res]. eexists. split; [reflexivity|].
      apply agree_skip; [exact Hag|..]; cbn [step_comp]; try discriminate. intros f' [= <-]. exact Ev.
Qed.

Lemma walk_rebuild {K} ct except ac AT (nb : nbuild K) (na : naccept K) (PKc : list str -> K -> Prop) (PKr : K -> Prop) (it : titem K) :
  ctx_ok ct except = true -> ctx_facts ct ac AT -> nested_rebuild ct nb na PKc PKr -> item_inv ct ac PKc PKr it ->
  forall rest done st, ac_steps ac = done ++ rest -> agree done it st ->
    exists st', fold_res (build_step false ct ac nb) (flat_map (run_step ct ac AT na (t_interests ct) it) rest) st = Ok st'
                /\ agree (done ++ rest) it st'.
Proof.
  intros Hct CF Hnr Hinv. induction rest as [|s rest IH]; intros done st Hsteps Hag.
  - exists st. rewrite app_nil_r. split; [reflexivity|exact Hag].
  - cbn [flat_map]. rewrite fold_res_app.
    destruct (step_rebuild ct except ac AT nb na PKc PKr it st done s rest Hct CF Hnr Hinv Hsteps Hag) as (st1 & -> & Hag1).
    destruct (IH (done ++ [s]) st1) as (st' & Hf & Hag').
    + rewrite Hsteps, <- app_assoc. reflexivity.
    + exact Hag1.
    + exists st'. split; [exact Hf|]. rewrite <- app_assoc in Hag'. exact Hag'.
Qed.

Lemma agree_empty {K} (it : titem K) : agree [] it empty_item.
Proof. constructor; reflexivity. Qed.

(* replaying a finished item into the builder gives the item back *)
Theorem item_rebuild {K} ct except ac AT (nb : nbuild K) (na : naccept K) (PKc : list str -> K -> Prop) (PKr : K -> Prop) (it : titem K) :
  ctx_ok ct except = true -> ctx_facts ct ac AT -> nested_rebuild ct nb na PKc PKr -> item_inv ct ac PKc PKr it ->
  build_item false ct ac nb (accept_item ct ac AT na (t_interests ct) it) = Ok it.
Proof.
  intros Hct CF Hnr Hinv.
  destruct (walk_rebuild ct except ac AT nb na PKc PKr it Hct CF Hnr Hinv (ac_steps ac) [] empty_item eq_refl (agree_empty it))
    as (st & Hf & [A1 A2 A3 A4 A5]).
  cbn [app] in *. unfold build_item, accept_item. rewrite Hf. unfold finish_item.
  destruct Hinv as [[R1 R2 R3 R4 R5 R6] Hfl Hnorm].
  (* every non-empty component of the item is read by some statement *)
  assert (Hslots : forall f, assoc f (it_slots st) = assoc f (it_slots it)).
  { intros f. rewrite A1. destruct (comp_done (ac_steps ac) (CSlot f)) eqn:Ed; [reflexivity|].
    destruct (assoc f (it_slots it)) as [v|] eqn:Ev; [|reflexivity]. exfalso.
    assert (Hu : exists s0, unique_step (CSlot f) (ac_steps ac) = Some s0).
    { pose proof (R1 f v Ev) as Hv. destruct v as [b|l].
      - destruct Hv as (name & V & row & HV & Hrow & Hf0 & _ & Hact).
        pose proof (forallb_In' _ _ _ (cf_visits _ _ _ CF) (assoc_In _ _ _ HV)) as Hv0.
        unfold visit_entry_ok in Hv0. cbn [fst snd] in Hv0. rewrite Hrow in Hv0. apply andb_prop in Hv0 as [_ Hs0].
        destruct (act_full ct name) as [act|] eqn:Ea; [|destruct Hact; discriminate]. destruct (gov ct name); [|discriminate].
        assert (Hcomp : entry_comp act row = CSlot f) by (destruct Hact as [[= ->]|[= ->]]; cbn [entry_comp]; rewrite Hf0; reflexivity).
        rewrite Hcomp in Hs0. destruct (unique_step (CSlot f) (ac_steps ac)) as [s0|]; [eexists; reflexivity|discriminate].
      - destruct Hv as (slot & V & row & HV & Hrow & Hf0 & _).
        pose proof (forallb_In' _ _ _ (cf_deferred _ _ _ CF) (assoc_In _ _ _ HV)) as Hd.
        unfold deferred_entry_ok in Hd. cbn [fst snd] in Hd. rewrite Hrow in Hd. apply andb_prop in Hd as [_ Hs0].
        destruct (b_mode row); try discriminate. rewrite Hf0 in Hs0.
        destruct (unique_step (CSlot f) (ac_steps ac)) as [s0|]; [eexists; reflexivity|discriminate]. }
    destruct Hu as (s0 & Hu). destruct (unique_step_in _ _ _ Hu) as [Hin0 Ht0].
    assert (comp_done (ac_steps ac) (CSlot f) = true) by (apply existsb_exists; exists s0; auto). congruence. }
  assert (Hunk : it_unknown st = it_unknown it).
  { rewrite A2. destruct (comp_done (ac_steps ac) CUnknown) eqn:Ed; [reflexivity|]. exfalso.
    pose proof (cf_unknown _ _ _ CF) as Hu. unfold unknown_ok in Hu. apply andb_prop in Hu as [Hu _].
    destruct (find_row (ac_unknown_visit ac) (ac_builder ac)); [|discriminate]. destruct (b_mode b); try discriminate.
    destruct (unique_step CUnknown (ac_steps ac)) as [s0|] eqn:Eu; [|discriminate].
    destruct (unique_step_in _ _ _ Eu) as [Hin0 Ht0].
    assert (comp_done (ac_steps ac) CUnknown = true) by (apply existsb_exists; exists s0; auto). congruence. }
  assert (Hcode : it_code st = it_code it).
  { rewrite A3. destruct (comp_done (ac_steps ac) CCode) eqn:Ed; [reflexivity|].
    destruct (it_code it) as [[[[[ms ml] fs] xr] k]|] eqn:Ec; [|reflexivity]. exfalso.
    destruct (R3 ms ml fs xr k eq_refl) as (_ & attr & V0 & row & sk & HV & Hrow & Ha).
    pose proof (forallb_In' _ _ _ (cf_visits _ _ _ CF) (assoc_In _ _ _ HV)) as Hv0.
    unfold visit_entry_ok in Hv0. cbn [fst snd] in Hv0. rewrite Ha, Hrow in Hv0. apply andb_prop in Hv0 as [_ Hs0].
    destruct (gov ct attr); [|discriminate]. cbn [entry_comp] in Hs0.
    destruct (unique_step CCode (ac_steps ac)) as [s0|] eqn:Eu; [|discriminate].
    destruct (unique_step_in _ _ _ Eu) as [Hin0 Ht0].
    assert (comp_done (ac_steps ac) CCode = true) by (apply existsb_exists; exists s0; auto). congruence. }
  assert (Hrcs : it_rcs st = it_rcs it).
  { rewrite A4. destruct (comp_done (ac_steps ac) CRcs) eqn:Ed; [reflexivity|].
    destruct (it_rcs it) as [|rc0 rcs0] eqn:Erc; [reflexivity|]. exfalso.
    destruct R5 as (attr & V0 & row & o & HV & Hrow & Ha); [discriminate|].
    pose proof (forallb_In' _ _ _ (cf_visits _ _ _ CF) (assoc_In _ _ _ HV)) as Hv0.
    unfold visit_entry_ok in Hv0. cbn [fst snd] in Hv0. rewrite Ha, Hrow in Hv0. apply andb_prop in Hv0 as [_ Hs0].
    destruct (gov ct attr); [|discriminate]. cbn [entry_comp] in Hs0.
    destruct (unique_step CRcs (ac_steps ac)) as [s0|] eqn:Eu; [|discriminate].
    destruct (unique_step_in _ _ _ Eu) as [Hin0 Ht0].
    assert (comp_done (ac_steps ac) CRcs = true) by (apply existsb_exists; exists s0; auto). congruence. }
  assert (Hflags : it_flags st = it_flags it).
  { rewrite A5. destruct (comp_done (ac_steps ac) CFlags) eqn:Ed; [reflexivity|].
    destruct (it_flags it) eqn:Efl; [|reflexivity]. exfalso.
    assert (Htf : t_flags_event ct = true) by (apply R6; discriminate).
    pose proof (cf_flags _ _ _ CF) as Hf0. unfold flags_ok in Hf0. rewrite Htf in Hf0.
    destruct (unique_step CFlags (ac_steps ac)) as [s0|] eqn:Eu; [|discriminate].
    destruct (unique_step_in _ _ _ Eu) as [Hin0 Ht0].
    assert (comp_done (ac_steps ac) CFlags = true) by (apply existsb_exists; exists s0; auto). congruence. }
  rewrite Hflags.
  assert (Hb : Bool.eqb (match it_flags it with Some _ => true | None => false end) (t_flags_event ct) = true).
  { destruct (t_flags_event ct) eqn:Etf.
    - destruct (it_flags it) eqn:Efl; [reflexivity|]. exfalso. exact (Hfl eq_refl eq_refl).
    - destruct (it_flags it) eqn:Efl; [|reflexivity]. assert (false = true) by (apply R6; discriminate). discriminate. }
  rewrite Hb. rewrite Hunk, Hcode, Hrcs.
  rewrite (norm_ext (builder_fields ac) (it_slots st) (it_slots it)) by (intros f _; apply Hslots).
  rewrite <- Hnorm. destruct it; reflexivity.
Qed.
