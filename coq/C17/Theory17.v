(* C17 — theory, part 17: the parsed values of annotations ARE the values the bytes encode.

   [p_value] / [p_annotations] (Values.v) follow duke's element_value readers, with the tags and the nesting limit
   of the generated table.  For every table whose five kinds of arms are told apart by their tags ([xtable_ok]),
   every element_value tree whose constants carry constant tags ([value_ok]) and that is nested at most as deep as
   the reader admits: parsing the JVMS encoding of the tree returns the tree and leaves exactly the continuation —
   so the parser consumes exactly the encoding, and what [attr_value] resolves is the value the body encodes.
   A tree nested deeper than the limit is refused. *)
From Coq Require Import Lia PeanoNat.
From FB Require Import C17.Model C17.Struct C17.Theory2 C17.Values C17.ValuesGen.

Arguments N.add : simpl never.
Arguments N.mul : simpl never.

(* ---------- the tags ---------- *)
Lemma existsb_eqb_in x l : existsb (N.eqb x) l = true <-> In x l.
Proof.
  rewrite existsb_exists. split.
  - intros (y & Hy & E). apply N.eqb_eq in E. subst y. exact Hy.
  - intros H. exists x. split; [exact H|apply N.eqb_refl].
Qed.

Lemma nodupN_app l m : nodupN (l ++ m) = true ->
  nodupN m = true /\ forall x, In x l -> existsb (N.eqb x) m = false.
Proof.
  induction l as [|y l IH]; cbn [app nodupN].
  - intros H. split; [exact H|]. intros x [].
  - intros H. apply andb_true_iff in H as [Hy Hr]. destruct (IH Hr) as [Hm Hl]. split; [exact Hm|].
    intros x [<-|Hx]; [|exact (Hl x Hx)].
    apply negb_true_iff in Hy. rewrite existsb_app in Hy. apply orb_false_iff in Hy as [_ Hy]. exact Hy.
Qed.

Lemma is_const_in X t : is_const X t = true -> In t (map fst (xt_consts X)).
Proof.
  unfold is_const. induction (xt_consts X) as [|[k v] l IH]; cbn [assocN map fst]; [discriminate|].
  destruct (N.eqb_spec t k) as [->|_]; [intros _; left; reflexivity|]. intros H. right. exact (IH H).
Qed.

Record xfacts (X : xtable) : Prop := mkXF {
  xf_enum : is_const X (xt_enum X) = false;
  xf_class : is_const X (xt_class X) = false;
  xf_annot : is_const X (xt_annot X) = false;
  xf_array : is_const X (xt_array X) = false;
  xf_ce : xt_class X =? xt_enum X = false;
  xf_ae : xt_annot X =? xt_enum X = false;
  xf_ac : xt_annot X =? xt_class X = false;
  xf_re : xt_array X =? xt_enum X = false;
  xf_rc : xt_array X =? xt_class X = false;
  xf_ra : xt_array X =? xt_annot X = false;
}.

Lemma xtable_ok_facts X : xtable_ok X = true -> xfacts X.
Proof.
  unfold xtable_ok. intros H. apply nodupN_app in H as [Hs Hc].
  assert (Hn : forall t, In t [xt_enum X; xt_class X; xt_annot X; xt_array X] -> is_const X t = false).
  { intros t Ht. destruct (is_const X t) eqn:E; [|reflexivity].
    pose proof (Hc t (is_const_in X t E)) as Hf. apply existsb_eqb_in in Ht. congruence. }
  cbn [nodupN existsb] in Hs.
  rewrite !orb_false_r in Hs.
  apply andb_true_iff in Hs as [H1 Hs]. apply andb_true_iff in Hs as [H2 Hs]. apply andb_true_iff in Hs as [H3 _].
  apply negb_true_iff in H1, H2, H3.
  apply orb_false_iff in H1 as [H1a H1]. apply orb_false_iff in H1 as [H1b H1c].
  apply orb_false_iff in H2 as [H2a H2b].
  constructor; try (apply Hn; cbn; tauto).
  - rewrite N.eqb_sym. exact H1a.
  - rewrite N.eqb_sym. exact H1b.
  - rewrite N.eqb_sym. exact H2a.
  - rewrite N.eqb_sym. exact H1c.
  - rewrite N.eqb_sym. exact H2b.
  - rewrite N.eqb_sym. exact H3.
Qed.

(* ---------- the loops ---------- *)
Lemma loop_pairs_enc X pv ps rest :
  Forall (fun p => forall r, pv (enc_value X (snd p) ++ r) = Ok (snd p, r)) ps ->
  loop_pairs pv (length ps) (enc_pairs X ps ++ rest) = Ok (ps, rest).
Proof.
  induction 1 as [|[nm v] ps Hp _ IH]; [reflexivity|].
  cbn [length loop_pairs enc_pairs flat_map fst snd] in *.
  rewrite <- !app_assoc, rd16_e16, Hp.
  change (flat_map (fun p => e16 (fst p) ++ enc_value X (snd p)) ps) with (enc_pairs X ps).
  rewrite IH. reflexivity.
Qed.

Lemma loop_vals_enc X pv vs rest :
  Forall (fun v => forall r, pv (enc_value X v ++ r) = Ok (v, r)) vs ->
  loop_vals pv (length vs) (flat_map (enc_value X) vs ++ rest) = Ok (vs, rest).
Proof.
  induction 1 as [|v vs Hp _ IH]; [reflexivity|].
  cbn [length loop_vals flat_map]. rewrite <- app_assoc, Hp, IH. reflexivity.
Qed.

Lemma max_list_le l x : In x l -> (x <= max_list l)%nat.
Proof.
  induction l as [|y l IH]; [intros []|]. cbn [max_list]. intros [->|H]; [lia|]. specialize (IH H). lia.
Qed.

Lemma p_value_unfold X fuel s : p_value X fuel s =
  match rd8 s with Err => Err | Ok (t, s1) =>
  if is_const X t then
    match rd16 s1 with Err => Err | Ok (i, s2) => Ok (XConst t i, s2) end
  else if t =? xt_enum X then
    match rd16 s1 with Err => Err | Ok (a, s2) =>
    match rd16 s2 with Err => Err | Ok (b, s3) => Ok (XEnum a b, s3) end end
  else if t =? xt_class X then
    match rd16 s1 with Err => Err | Ok (c, s2) => Ok (XClass c, s2) end
  else if t =? xt_annot X then
    match rd16 s1 with Err => Err | Ok (ty, s2) =>
    match fuel with
    | O => Err
    | S f =>
      match rd16 s2 with Err => Err | Ok (n, s3) =>
      match loop_pairs (p_value X f) (N.to_nat n) s3 with Err => Err | Ok (ps, s4) => Ok (XAnnot ty ps, s4) end end
    end end
  else if t =? xt_array X then
    match fuel with
    | O => Err
    | S f =>
      match rd16 s1 with Err => Err | Ok (n, s2) =>
      match loop_vals (p_value X f) (N.to_nat n) s2 with Err => Err | Ok (vs, s3) => Ok (XArray vs, s3) end end
    end
  else Err
  end.
Proof. destruct fuel; reflexivity. Qed.

(* ---------- the parser inverts the encoder ---------- *)
Theorem p_value_enc X : xtable_ok X = true ->
  forall f v rest, value_ok X v = true -> (depth v <= f)%nat ->
    p_value X f (enc_value X v ++ rest) = Ok (v, rest).
Proof.
  intros HX. destruct (xtable_ok_facts X HX) as [Fe Fc Fa Fr Fce Fae Fac Fre Frc Fra].
  induction f as [|f IH]; intros v rest Hok Hd; rewrite p_value_unfold;
    destruct v as [t i|a b|c|ty ps|vs]; cbn [enc_value app rd8 value_ok depth] in *.
  - rewrite Hok, rd16_e16. reflexivity.
  - rewrite Fe, N.eqb_refl, <- app_assoc, rd16_e16, rd16_e16. reflexivity.
  - rewrite Fc, Fce, N.eqb_refl, rd16_e16. reflexivity.
  - lia.
  - lia.
  - rewrite Hok, rd16_e16. reflexivity.
  - rewrite Fe, N.eqb_refl, <- app_assoc, rd16_e16, rd16_e16. reflexivity.
  - rewrite Fc, Fce, N.eqb_refl, rd16_e16. reflexivity.
  - rewrite Fa, Fae, Fac, N.eqb_refl, <- !app_assoc, rd16_e16, rd16_e16, to_nat_elen.
    change (flat_map (fun p => e16 (fst p) ++ enc_value X (snd p)) ps) with (enc_pairs X ps).
    rewrite loop_pairs_enc; [reflexivity|].
    rewrite forallb_forall in Hok. apply Forall_forall. intros p Hp r. apply IH; [exact (Hok p Hp)|].
    assert (H := max_list_le (map (fun p => depth (snd p)) ps) (depth (snd p)) (in_map (fun p => depth (snd p)) ps p Hp)). lia.
  - rewrite Fr, Fre, Frc, Fra, N.eqb_refl, <- app_assoc, rd16_e16, to_nat_elen.
    rewrite loop_vals_enc; [reflexivity|].
    rewrite forallb_forall in Hok. apply Forall_forall. intros v Hv r. apply IH; [exact (Hok v Hv)|].
    assert (H := max_list_le (map depth vs) (depth v) (in_map depth vs v Hv)). lia.
Qed.

Lemma loop_annots_enc X : xtable_ok X = true -> forall l rest,
  forallb (annotation_ok X) l = true ->
  loop_annots X (length l) (flat_map (enc_annotation X) l ++ rest) = Ok (l, rest).
Proof.
  intros HX l. induction l as [|[ty ps] l IH]; intros rest Hok; [reflexivity|].
  cbn [forallb] in Hok. apply andb_true_iff in Hok as [Ha Hl].
  cbn [length loop_annots flat_map].
  change (enc_annotation X (ty, ps)) with (e16 ty ++ e16 (elen ps) ++ enc_pairs X ps).
  rewrite <- !app_assoc, rd16_e16, rd16_e16, to_nat_elen.
  rewrite loop_pairs_enc.
  - rewrite (IH rest Hl). reflexivity.
  - unfold annotation_ok in Ha. cbn [snd] in Ha. rewrite forallb_forall in Ha. apply Forall_forall. intros p Hp r.
    specialize (Ha p Hp). apply andb_true_iff in Ha as [Hv Hd]. apply Nat.leb_le in Hd.
    apply (p_value_enc X HX); assumption.
Qed.

(* annotations: the body of a RuntimeVisibleAnnotations / RuntimeInvisibleAnnotations attribute *)
Theorem p_annotations_enc X : xtable_ok X = true -> forall l rest,
  forallb (annotation_ok X) l = true ->
  p_annotations X (enc_annotations X l ++ rest) = Ok (l, rest).
Proof.
  intros HX l rest Hok. unfold p_annotations, enc_annotations.
  rewrite <- app_assoc, rd16_e16, to_nat_elen. apply loop_annots_enc; assumption.
Qed.

(* nested deeper than the reader admits: refused (an array nested f+1 deep around anything, read with fuel f) *)
Fixpoint nest_arrays (n : nat) (v : evalue) : evalue :=
  match n with O => v | S n' => XArray [nest_arrays n' v] end.

Lemma p_value_array0 X : xtable_ok X = true -> forall vs rest, p_value X 0 (enc_value X (XArray vs) ++ rest) = Err.
Proof.
  intros HX vs rest. destruct (xtable_ok_facts X HX) as [Fe Fc Fa Fr Fce Fae Fac Fre Frc Fra].
  rewrite p_value_unfold. cbn [enc_value app rd8]. rewrite Fr, Fre, Frc, Fra, N.eqb_refl. reflexivity.
Qed.

Lemma p_value_array1 X : xtable_ok X = true -> forall f w rest,
  p_value X (S f) (enc_value X (XArray [w]) ++ rest)
  = match p_value X f (enc_value X w ++ rest) with Ok (v, s) => Ok (XArray [v], s) | Err => Err end.
Proof.
  intros HX f w rest. destruct (xtable_ok_facts X HX) as [Fe Fc Fa Fr Fce Fae Fac Fre Frc Fra].
  rewrite p_value_unfold. cbn [enc_value app rd8]. rewrite Fr, Fre, Frc, Fra, N.eqb_refl.
  rewrite <- app_assoc, rd16_e16. change (N.to_nat (elen [w])) with 1%nat.
  cbn [loop_vals flat_map]. rewrite app_nil_r.
  destruct (p_value X f (enc_value X w ++ rest)) as [[v s]|]; reflexivity.
Qed.

Theorem p_value_too_deep X : xtable_ok X = true ->
  forall f v rest, p_value X f (enc_value X (nest_arrays (S f) v) ++ rest) = Err.
Proof.
  intros HX. induction f as [|f IH]; intros v rest.
  - apply (p_value_array0 X HX).
  - change (nest_arrays (S (S f)) v) with (XArray [nest_arrays (S f) v]).
    rewrite (p_value_array1 X HX), IH. reflexivity.
Qed.

(* ---------- what the visitor is handed is the value the body encodes ---------- *)
Theorem attr_value_annotations X V rs loc name l : xtable_ok X = true ->
  existsb (str_eqb name) (vn_type_annotations V) = false ->
  existsb (str_eqb name) (vn_annotations V) = true -> forallb (annotation_ok X) l = true ->
  attr_value X V rs loc name false (enc_annotations X l) = Some (canon_annotations X rs l).
Proof.
  intros HX Ht Hn Hok. unfold attr_value. rewrite Ht, Hn.
  rewrite <- (app_nil_r (enc_annotations X l)), (p_annotations_enc X HX l [] Hok). reflexivity.
Qed.

Theorem attr_value_element X V rs loc name v : xtable_ok X = true ->
  existsb (str_eqb name) (vn_type_annotations V) = false ->
  existsb (str_eqb name) (vn_annotations V) = false -> str_eqb name (vn_element V) = true ->
  value_ok X v = true -> (depth v <= xt_depth X)%nat ->
  attr_value X V rs loc name false (enc_value X v) = Some (canon_value X rs v).
Proof.
  intros HX Ht Hn He Hok Hd. unfold attr_value. rewrite Ht, Hn, He.
  rewrite <- (app_nil_r (enc_value X v)), (p_value_enc X HX _ v [] Hok Hd). reflexivity.
Qed.

Theorem attr_value_index X V rs loc name i :
  existsb (str_eqb name) (vn_type_annotations V) = false ->
  existsb (str_eqb name) (vn_annotations V) = false -> str_eqb name (vn_element V) = false ->
  existsb (str_eqb name) (vn_index V) = true ->
  attr_value X V rs loc name false (e16 i) = Some [rs_str rs i].
Proof.
  intros Ht Hn He Hi. unfold attr_value. rewrite Ht, Hn, He, Hi.
  rewrite <- (app_nil_r (e16 i)), rd16_e16. reflexivity.
Qed.

(* ---------- rows of indices ---------- *)
Lemma p_cols_enc cols : forall r rest, length r = length cols -> p_cols cols (flat_map e16 r ++ rest) = Ok (r, rest).
Proof.
  induction cols as [|c cols IH]; intros [|x r] rest Hl; try discriminate Hl; [reflexivity|].
  cbn [p_cols flat_map]. rewrite <- app_assoc, rd16_e16. rewrite (IH r rest); [reflexivity|]. cbn [length] in Hl. lia.
Qed.

Lemma p_rows_enc cols rows rest : forallb (fun r => Nat.eqb (length r) (length cols)) rows = true ->
  p_rows cols (length rows) (enc_rows rows ++ rest) = Ok (rows, rest).
Proof.
  induction rows as [|r rows IH]; intros H; [reflexivity|].
  cbn [forallb] in H. apply andb_true_iff in H as [Hr Hs]. apply Nat.eqb_eq in Hr.
  cbn [length p_rows]. unfold enc_rows. cbn [flat_map]. rewrite <- app_assoc, (p_cols_enc cols r _ Hr).
  fold (enc_rows rows). rewrite (IH Hs). reflexivity.
Qed.

(* for every layout: the row parser inverts the encoding and consumes exactly it *)
Theorem p_layout_enc lay rows rest : rows_ok lay rows = true ->
  p_layout lay (enc_layout lay rows ++ rest) = Ok (rows, rest).
Proof.
  unfold rows_ok. intros H. apply andb_true_iff in H as [Hw H1].
  destruct lay as [cols|[|] cols]; cbn [p_layout enc_layout layout_cols] in *.
  - apply Nat.eqb_eq in H1. rewrite <- H1. apply p_rows_enc. exact Hw.
  - rewrite <- app_assoc, rd16_e16, to_nat_elen. apply p_rows_enc. exact Hw.
  - cbn [app rd8]. rewrite to_nat_elen. apply p_rows_enc. exact Hw.
Qed.

Theorem attr_value_layout X V rs loc name lay rows :
  existsb (str_eqb name) (vn_type_annotations V) = false ->
  existsb (str_eqb name) (vn_annotations V) = false -> str_eqb name (vn_element V) = false ->
  existsb (str_eqb name) (vn_index V) = false -> assoc_layout name (vn_layouts V) = Some lay ->
  rows_ok lay rows = true ->
  attr_value X V rs loc name false (enc_layout lay rows) = Some (canon_layout rs lay rows).
Proof.
  intros Ht Hn He Hi Hl Hok. unfold attr_value. rewrite Ht, Hn, He, Hi, Hl.
  rewrite <- (app_nil_r (enc_layout lay rows)), (p_layout_enc lay rows [] Hok). reflexivity.
Qed.

(* ---------- type annotations ---------- *)
Lemma loop_trows_enc rows rest : loop_trows (length rows) (enc_trows rows ++ rest) = Ok (rows, rest).
Proof.
  induction rows as [|[[a b] c] rows IH]; [reflexivity|].
  cbn [length loop_trows enc_trows flat_map fst snd]. rewrite <- !app_assoc, rd16_e16, rd16_e16, rd16_e16.
  fold (enc_trows rows). rewrite IH. reflexivity.
Qed.

Lemma p_tfield_enc f v rest : tval_fits f v = true -> p_tfield f (enc_tval f v ++ rest) = Ok (v, rest).
Proof.
  destruct f, v as [x|rows]; cbn [tval_fits p_tfield enc_tval]; try discriminate; intros _.
  - reflexivity.
  - rewrite rd16_e16. reflexivity.
  - rewrite rd16_e16. reflexivity.
  - rewrite <- app_assoc, rd16_e16, to_nat_elen, loop_trows_enc. reflexivity.
Qed.

Lemma p_tfields_enc fs : forall vs rest, tvals_fit fs vs = true -> p_tfields fs (enc_tvals fs vs ++ rest) = Ok (vs, rest).
Proof.
  induction fs as [|f fs IH]; intros [|v vs] rest H; cbn [tvals_fit] in H; try discriminate H; [reflexivity|].
  apply andb_true_iff in H as [Hv Hs]. cbn [p_tfields enc_tvals]. rewrite <- app_assoc, (p_tfield_enc f v _ Hv), (IH vs rest Hs). reflexivity.
Qed.

Lemma loop_path_enc K path rest : path_ok K path = true ->
  loop_path K (length path) (flat_map (fun p => [fst p; snd p]) path ++ rest) = Ok (path, rest).
Proof.
  induction path as [|[k i] path IH]; intros H; [reflexivity|].
  cbn [path_ok forallb fst snd] in H. apply andb_true_iff in H as [Hk Hs].
  cbn [length loop_path flat_map fst snd app rd8].
  destruct (assocN k K) as [indexed|]; [|discriminate Hk]. rewrite Hk, (IH Hs). reflexivity.
Qed.

Lemma p_type_path_enc K path rest : path_ok K path = true -> p_type_path K (enc_path path ++ rest) = Ok (path, rest).
Proof. intros H. unfold p_type_path, enc_path. cbn [app rd8]. rewrite to_nat_elen. apply loop_path_enc. exact H. Qed.

Lemma p_tannot_enc X K tbl a rest : xtable_ok X = true -> tannot_ok X K tbl a = true ->
  p_tannot X K tbl (enc_tannot X tbl a ++ rest) = Ok (a, rest).
Proof.
  intros HX H. unfold tannot_ok in H. apply andb_true_iff in H as [H Ha]. apply andb_true_iff in H as [Ht Hp].
  destruct a as [t vs path ty ps]. cbn [ta_tag ta_info ta_path ta_type ta_pairs] in *.
  unfold p_tannot, enc_tannot, p_target. cbn [ta_tag ta_info ta_path ta_type ta_pairs app rd8].
  destruct (assocN t tbl) as [fs|]; [|discriminate Ht].
  rewrite <- !app_assoc, (p_tfields_enc fs vs _ Ht), (p_type_path_enc K path _ Hp), rd16_e16, rd16_e16, to_nat_elen.
  rewrite loop_pairs_enc; [reflexivity|].
  unfold annotation_ok in Ha. cbn [snd] in Ha. rewrite forallb_forall in Ha. apply Forall_forall. intros p Hin r.
  specialize (Ha p Hin). apply andb_true_iff in Ha as [Hv Hd]. apply Nat.leb_le in Hd.
  apply (p_value_enc X HX); assumption.
Qed.

Lemma loop_tannots_enc X K tbl : xtable_ok X = true -> forall l rest, forallb (tannot_ok X K tbl) l = true ->
  loop_tannots X K tbl (length l) (flat_map (enc_tannot X tbl) l ++ rest) = Ok (l, rest).
Proof.
  intros HX l. induction l as [|a l IH]; intros rest H; [reflexivity|].
  cbn [forallb] in H. apply andb_true_iff in H as [Ha Hl].
  cbn [length loop_tannots flat_map]. rewrite <- app_assoc, (p_tannot_enc X K tbl a _ HX Ha), (IH rest Hl). reflexivity.
Qed.

(* type annotations: the body of a RuntimeVisibleTypeAnnotations / RuntimeInvisibleTypeAnnotations attribute at location [loc]:
   the parser inverts the JVMS encoding and consumes exactly it — for every table of target types, every location it has arms for *)
Theorem p_type_annotations_enc X Y loc tbl : xtable_ok X = true -> assocN loc (ty_targets Y) = Some tbl ->
  forall l rest, forallb (tannot_ok X (ty_path Y) tbl) l = true ->
    p_type_annotations X Y loc (enc_type_annotations X tbl l ++ rest) = Ok (l, rest).
Proof.
  intros HX Hl l rest Hok. unfold p_type_annotations, enc_type_annotations. rewrite Hl, <- app_assoc, rd16_e16, to_nat_elen.
  apply loop_tannots_enc; assumption.
Qed.

(* a target type the location has no arm for is refused (`tag => bail!(…)`), whatever follows *)
Theorem p_type_annotations_foreign_target X Y loc tbl t n rest : assocN loc (ty_targets Y) = Some tbl -> assocN t tbl = None ->
  p_type_annotations X Y loc (e16 (N.succ n) ++ t :: rest) = Err.
Proof.
  intros Hl Ht. unfold p_type_annotations. rewrite Hl, rd16_e16.
  destruct (N.to_nat (N.succ n)) as [|k] eqn:E; [lia|].
  cbn [loop_tannots]. unfold p_tannot, p_target. cbn [rd8]. rewrite Ht. reflexivity.
Qed.

(* an index on a type_path_kind that carries none is refused *)
Theorem p_type_path_index_refused K k i rest : assocN k K = Some false -> i <> 0 ->
  p_type_path K (1 :: k :: i :: rest) = Err.
Proof.
  intros Hk Hi. unfold p_type_path. cbn [rd8]. change (N.to_nat 1) with 1%nat. cbn [loop_path rd8]. rewrite Hk.
  apply N.eqb_neq in Hi. rewrite Hi. reflexivity.
Qed.

Theorem attr_value_type_annotations X V rs loc name tbl l : xtable_ok X = true ->
  existsb (str_eqb name) (vn_type_annotations V) = true -> assocN loc (ty_targets (vn_types V)) = Some tbl ->
  forallb (tannot_ok X (ty_path (vn_types V)) tbl) l = true ->
  attr_value X V rs loc name false (enc_type_annotations X tbl l) = Some (canon_type_annotations X rs l).
Proof.
  intros HX Hn Hl Hok. unfold attr_value. rewrite Hn.
  rewrite <- (app_nil_r (enc_type_annotations X tbl l)), (p_type_annotations_enc X (vn_types V) loc tbl HX Hl l [] Hok). reflexivity.
Qed.

(* the table read off class_reader.rs today passes the finite check *)
Theorem generated_xtable_ok : xtable_ok xtable_gen = true.
Proof. vm_compute. reflexivity. Qed.

(* non-vacuity: @A(x = 1, y = {E.K, @B(z = "s")}, c = int.class) nested two deep, inside the limit *)
Definition ex_annotation : annotation :=
  (5, [(6, XConst 73 7); (8, XArray [XEnum 9 10; XAnnot 11 [(12, XConst 115 13)]]); (14, XClass 15)]).

Definition values_nonvacuous : Prop :=
  forallb (annotation_ok xtable_gen) [ex_annotation] = true
  /\ p_annotations xtable_gen (enc_annotations xtable_gen [ex_annotation]) = Ok ([ex_annotation], [])
  /\ enc_annotations xtable_gen [ex_annotation]
     = [0;1; 0;5; 0;3; 0;6; 73; 0;7; 0;8; 91; 0;2; 101; 0;9; 0;10; 64; 0;11; 0;1; 0;12; 115; 0;13; 0;14; 99; 0;15].

Theorem values_nonvacuous_holds : values_nonvacuous.
Proof. repeat split; vm_compute; reflexivity. Qed.

(* non-vacuity for type annotations, with the tables read off the source today: on a method, @A(x = 1) on the type argument 2
   of the array element type of formal parameter 1; inside Code, @A on a local variable living in slot 1 over [0, 5) and on the
   first type of the cast at offset 3.  They satisfy [tannot_ok], their encodings are the expected bytes and parse back.
   A FIELD target (0x13) inside a method_info is refused: the impl for methods has no such arm (C01's finding F13t). *)
Definition tbl_at (loc : N) : ttable := match assocN loc targets_gen with Some t => t | None => [] end.
Definition ex_ta_method : tannot := mkTA 22 [TVNum 1] [(0, 0); (3, 2)] 5 [(6, XConst 73 7)].
Definition ex_ta_code : list tannot := [mkTA 64 [TVTable [(0, 5, 1)]] [] 5 []; mkTA 71 [TVNum 3; TVNum 0] [(1, 0)] 5 []].
Definition type_values_nonvacuous : Prop :=
  forallb (tannot_ok xtable_gen path_kinds_gen (tbl_at 2)) [ex_ta_method] = true
  /\ forallb (tannot_ok xtable_gen path_kinds_gen (tbl_at 3)) ex_ta_code = true
  /\ enc_type_annotations xtable_gen (tbl_at 2) [ex_ta_method] = [0;1; 22; 1; 2; 0;0; 3;2; 0;5; 0;1; 0;6; 73; 0;7]
  /\ enc_type_annotations xtable_gen (tbl_at 3) ex_ta_code = [0;2; 64; 0;1; 0;0; 0;5; 0;1; 0; 0;5; 0;0;  71; 0;3; 0; 1; 1;0; 0;5; 0;0]
  /\ p_type_annotations xtable_gen (vn_types vnames_gen) 2 (enc_type_annotations xtable_gen (tbl_at 2) [ex_ta_method]) = Ok ([ex_ta_method], [])
  /\ p_type_annotations xtable_gen (vn_types vnames_gen) 3 (enc_type_annotations xtable_gen (tbl_at 3) ex_ta_code) = Ok (ex_ta_code, [])
  /\ (forall rs, attr_value xtable_gen vnames_gen rs 3 (nth 0 type_annotation_attrs_gen []) false (enc_type_annotations xtable_gen (tbl_at 3) ex_ta_code)
                 = Some [2; 64; 1; 0; 5; 1; 0; rs_str rs 5; 0;  71; 3; 0; 1; 1; 0; rs_str rs 5; 0])
  /\ p_type_annotations xtable_gen (vn_types vnames_gen) 2 [0;1; 19; 0; 0;5; 0;0] = Err
  /\ p_type_annotations xtable_gen (vn_types vnames_gen) 1 [0;1; 19; 0; 0;5; 0;0] = Ok ([mkTA 19 [] [] 5 []], []).

Theorem type_values_nonvacuous_holds : type_values_nonvacuous.
Proof. unfold type_values_nonvacuous. repeat split; try (vm_compute; reflexivity). Qed.
