(* C17 — theory, part 13: Th 4c for whole classes ([rebuild]), the strict builder is the lenient one
   where it succeeds ([strict_lenient]), and Th 4b on the bytes ([replay_equals_partial_read]). *)
From Coq Require Import Permutation PeanoNat.
From FB Require Import C17.Model C17.Theory C17.Theory2 C17.Theory3 C17.Theory4 C17.Struct C17.Replay
  C17.Theory6 C17.Theory7 C17.Theory8 C17.Theory9 C17.Theory10 C17.Theory11 C17.Theory12.

(* ---------- the invariants of the three kinds of items ---------- *)
Definition inv0 (ct : ctx_table) (ac : accept_ctx) (it : titem unit) : Prop :=
  item_inv ct ac (fun _ _ => False) (fun _ => False) it.
Definition PKc1 (T : reader_tables) (AT : accept_tables) (fs : list str) (k : titem unit) : Prop :=
  forallb (stores_into (rt_code T) STACK_MAP_FRAME) fs = true /\ inv0 (rt_code T) (at_code AT) k.
Definition PKr1 (T : reader_tables) (AT : accept_tables) (k : titem unit) : Prop := inv0 (rt_rc T) (at_rc AT) k.
Definition inv1 (T : reader_tables) (AT : accept_tables) (ct : ctx_table) (ac : accept_ctx) (it : titem (titem unit)) : Prop :=
  item_inv ct ac (PKc1 T AT) (PKr1 T AT) it.

Lemma build0_inv strict ct ac AT es it : ctx_facts ct ac AT -> build_item strict ct ac nb0 es = Ok it -> inv0 ct ac it.
Proof.
  intros CF Hb. unfold inv0. eapply build_item_inv; [exact (cf_nodup _ _ _ CF)| | |exact Hb]; cbn [nb0 nb_code nb_rc]; intros; discriminate.
Qed.

Lemma nb1_kids strict T AT : afacts T AT ->
  (forall fs es k, nb_code (nb1 strict T AT) fs es = Ok k -> PKc1 T AT fs k)
  /\ (forall es k, nb_rc (nb1 strict T AT) es = Ok k -> PKr1 T AT k).
Proof.
  intros AF. split.
  - intros fs es k Hb. cbn [nb1 nb_code] in Hb. unfold build_code in Hb.
    destruct (forallb (stores_into (rt_code T) STACK_MAP_FRAME) fs) eqn:E; [|discriminate].
    split; [exact E|]. exact (build0_inv _ _ _ AT _ _ (af_code _ _ AF) Hb).
  - intros es k Hb. cbn [nb1 nb_rc] in Hb. exact (build0_inv _ _ _ AT _ _ (af_rc _ _ AF) Hb).
Qed.

Lemma build1_inv strict T AT ct ac es it : afacts T AT -> ctx_facts ct ac AT ->
  build_item strict ct ac (nb1 strict T AT) es = Ok it -> inv1 T AT ct ac it.
Proof.
  intros AF CF Hb. destruct (nb1_kids strict T AT AF) as [Hc Hr].
  unfold inv1. eapply build_item_inv; [exact (cf_nodup _ _ _ CF)|exact Hc|exact Hr|exact Hb].
Qed.

(* ---------- replaying the nested items ---------- *)
Lemma nested_rebuild0 ct : nested_rebuild ct nb0 na0 (fun _ _ => False) (fun _ => False).
Proof. constructor; intros; contradiction. Qed.

Lemma rebuild0 ct except ac AT it : ctx_ok ct except = true -> ctx_facts ct ac AT -> inv0 ct ac it ->
  build_item false ct ac nb0 (accept_item ct ac AT na0 (t_interests ct) it) = Ok it.
Proof. intros Hct CF Hi. exact (item_rebuild ct except ac AT nb0 na0 _ _ it Hct CF (nested_rebuild0 ct) Hi). Qed.

Lemma frames_flag_full T AT : code_shape_ok T AT = true -> interested (t_interests (rt_code T)) (frames_flag AT) = true.
Proof. unfold code_shape_ok. intros H. apply andb_prop in H as [_ H]. exact H. Qed.

Lemma dispatch_in_arms arms m name act : dispatch arms m name = Some act -> exists a, In a arms /\ a_act a = act.
Proof.
  induction arms as [|a arms IH]; cbn [dispatch]; [discriminate|].
  destruct (pat_matches (a_pat a) name && guard_holds (a_guard a) m).
  - intros [= <-]. exists a. split; [left; reflexivity|reflexivity].
  - intros H. destruct (IH H) as (a' & Hin & Ha). exists a'. split; [right; exact Hin|exact Ha].
Qed.

Lemma nested_rebuild1 T AT ct kc : tok T -> afacts T AT ->
  (kc = Some (t_interests (rt_code T)) \/ no_action is_code ct = true) ->
  nested_rebuild ct (nb1 false T AT) (na1 T AT (v_full T) kc) (PKc1 T AT) (PKr1 T AT).
Proof.
  intros HT AF Hkc. constructor.
  - intros attr sk ms ml fs xr k Ha [Hfs Hi]. destruct Hkc as [-> | Hno].
    + cbn [na1 na_code nb1 nb_code]. unfold accept_code, build_code.
      rewrite (frames_flag_full T AT (af_shape _ _ AF)), (exc_replayed_ok T AT (af_shape _ _ AF)), Hfs. eexists. split; [reflexivity|].
      exact (rebuild0 (rt_code T) [] (at_code AT) AT k (tk_code T HT) (af_code _ _ AF) Hi).
    + exfalso. unfold act_full in Ha. destruct (dispatch_in_arms _ _ _ _ Ha) as (a & Hin & Hact).
      unfold no_action in Hno. pose proof (forallb_In' _ _ _ Hno Hin) as Hp. cbv beta in Hp. rewrite Hact in Hp. discriminate.
  - intros attr i n d k Hi. cbn [na1 na_rc nb1 nb_rc]. unfold accept_rc, build_rc. cbn [v_full v_rc].
    eexists. split; [reflexivity|].
    exact (rebuild0 (rt_rc T) [] (at_rc AT) AT k (tk_rc T HT) (af_rc _ _ AF) Hi).
Qed.

Lemma tables_ok_no_code_class T : tables_ok T = true -> no_action is_code (rt_class T) = true.
Proof. unfold tables_ok. intros H. repeat (apply andb_prop in H; destruct H as [H ?]). assumption. Qed.

(* ---------- the class fold is three independent folds ---------- *)
Lemma class_fold_join strict T AT : forall es st it' fs ms,
  fold_res (build_step strict (rt_class T) (at_class AT) (nb1 strict T AT)) (filter is_attr_level es) (t_item st) = Ok it' ->
  fields_built strict T AT (length (t_fields st)) (filter is_field es) fs ->
  methods_built strict T AT (length (t_methods st)) (filter is_method es) ms ->
  fold_res (build_class_step strict T AT) es st = Ok (mkCT it' (t_fields st ++ fs) (t_methods st ++ ms)).
Proof.
  induction es as [|e es IH]; intros st it' fs ms Hi Hf Hm; cbn [filter fold_res] in *.
  - inversion Hf; subst. inversion Hm; subst. injection Hi as <-. rewrite !app_nil_r. destruct st; reflexivity.
  - destruct e; unfold is_attr_level in Hi; cbn [is_field is_method orb negb filter fold_res] in *;
      try (destruct (build_step strict (rt_class T) (at_class AT) (nb1 strict T AT) (t_item st) _) as [it1|] eqn:Eb; [|discriminate];
           cbn [build_class_step]; rewrite Eb;
           exact (IH (mkCT it1 (t_fields st) (t_methods st)) it' fs ms Hi Hf Hm)).
    + (* field *)
      inversion Hf as [|k0 a0 n0 d0 es9 it0 evs0 fs0 Hb0 Hrest]; subst.
      cbn [build_class_step]. rewrite Nat.eqb_refl, Hb0.
      specialize (IH (mkCT (t_item st) (t_fields st ++ [(access, name, desc, it0)]) (t_methods st)) it' fs0 ms).
      cbn [t_item t_fields t_methods] in IH. rewrite app_length in IH. cbn [length] in IH.
      replace (length (t_fields st) + 1)%nat with (S (length (t_fields st))) in IH by lia.
      rewrite (IH Hi Hrest Hm), <- app_assoc. reflexivity.
    + (* method *)
      inversion Hm as [|k0 a0 n0 d0 es9 it0 evs0 ms0 Hb0 Hrest]; subst.
      cbn [build_class_step]. rewrite Nat.eqb_refl, Hb0.
      specialize (IH (mkCT (t_item st) (t_fields st) (t_methods st ++ [(access, name, desc, it0)])) it' fs ms0).
      cbn [t_item t_fields t_methods] in IH. rewrite app_length in IH. cbn [length] in IH.
      replace (length (t_methods st) + 1)%nat with (S (length (t_methods st))) in IH by lia.
      rewrite (IH Hi Hf Hrest), <- app_assoc. reflexivity.
Qed.

(* ---------- the invariant of a tree ---------- *)
Record tree_inv (T : reader_tables) (AT : accept_tables) (t : class_tree) : Prop := mkTInv {
  ti_item : inv1 T AT (rt_class T) (at_class AT) (t_item t);
  ti_fields : Forall (fun f => inv0 (rt_field T) (at_field AT) (snd f)) (t_fields t);
  ti_methods : Forall (fun f => inv1 T AT (rt_method T) (at_method AT) (snd f)) (t_methods t);
}.

Lemma fields_built_inv strict T AT : afacts T AT -> forall k evs fs,
  fields_built strict T AT k evs fs -> Forall (fun f => inv0 (rt_field T) (at_field AT) (snd f)) fs.
Proof.
  intros AF k evs fs H. induction H; constructor; [|assumption]. cbn [snd].
  eapply build0_inv; [exact (af_field _ _ AF)|eassumption].
Qed.
Lemma methods_built_inv strict T AT : afacts T AT -> forall k evs ms,
  methods_built strict T AT k evs ms -> Forall (fun f => inv1 T AT (rt_method T) (at_method AT) (snd f)) ms.
Proof.
  intros AF k evs ms H. induction H; constructor; [|assumption]. cbn [snd].
  eapply build1_inv; [exact AF|exact (af_method _ _ AF)|eassumption].
Qed.

Lemma build_tree_inv strict T AT t_full tree : afacts T AT -> build strict T AT t_full = Ok tree -> tree_inv T AT tree.
Proof.
  intros AF Hb. destruct t_full as [es|]; [|discriminate]. cbn [build] in Hb. unfold build_class in Hb.
  destruct (fold_res (build_class_step strict T AT) es (mkCT empty_item [] [])) as [st|] eqn:Ef; [|discriminate].
  destruct (finish_item (rt_class T) (at_class AT) (t_item st)) as [it|] eqn:Efin; [|discriminate]. injection Hb as <-.
  pose proof (class_fold_split strict T AT es _ _ Ef) as Hitem. cbn [t_item] in Hitem.
  destruct (class_fold_fields strict T AT es _ _ Ef) as (fs & Hfs & Hfb).
  destruct (class_fold_methods strict T AT es _ _ Ef) as (ms & Hms & Hmb).
  cbn [t_fields t_methods app length] in *. constructor; cbn [t_item t_fields t_methods].
  - eapply (build1_inv strict T AT (rt_class T) (at_class AT) (filter is_attr_level es)); [exact AF|exact (af_class _ _ AF)|].
    unfold build_item. rewrite Hitem. exact Efin.
  - rewrite Hfs. exact (fields_built_inv strict T AT AF _ _ _ Hfb).
  - rewrite Hms. exact (methods_built_inv strict T AT AF _ _ _ Hmb).
Qed.

(* ---------- Th 4c ---------- *)
Lemma fields_rebuilt T AT : tok T -> afacts T AT -> forall fs k,
  Forall (fun f => inv0 (rt_field T) (at_field AT) (snd f)) fs ->
  fields_built false T AT k (mapi_from (accept_field T AT (v_full T)) k fs) fs.
Proof.
  intros HT AF. induction fs as [|[[[a n] d] it] fs IH]; intros k H; cbn [mapi_from]; [constructor|].
  inversion H as [|x l Hx Hl]; subst. unfold accept_field at 1. cbn [fst snd v_full v_field].
  constructor; [|exact (IH (S k) Hl)].
  exact (rebuild0 (rt_field T) [] (at_field AT) AT it (tk_field T HT) (af_field _ _ AF) Hx).
Qed.
Lemma methods_rebuilt T AT : tok T -> afacts T AT -> forall ms k,
  Forall (fun f => inv1 T AT (rt_method T) (at_method AT) (snd f)) ms ->
  methods_built false T AT k (mapi_from (accept_method T AT (v_full T)) k ms) ms.
Proof.
  intros HT AF. induction ms as [|[[[a n] d] it] ms IH]; intros k H; cbn [mapi_from]; [constructor|].
  inversion H as [|x l Hx Hl]; subst. unfold accept_method at 1. cbn [fst snd v_full v_method v_code].
  constructor; [|exact (IH (S k) Hl)].
  exact (item_rebuild (rt_method T) [] (at_method AT) AT (nb1 false T AT) (na1 T AT (v_full T) (Some (t_interests (rt_code T))))
           (PKc1 T AT) (PKr1 T AT) it (tk_method T HT) (af_method _ _ AF)
           (nested_rebuild1 T AT (rt_method T) _ HT AF (or_introl eq_refl)) Hx).
Qed.

Theorem rebuild_inv T AT :
  tables_ok T = true -> accept_ok T AT = true ->
  forall tree, tree_inv T AT tree ->
    build false T AT (accept_class T AT (v_full T) tree) = Ok tree.
Proof.
  intros HTb HA tree [Hi Hf Hm].
  pose proof (tables_ok_tok T HTb) as HT. pose proof (accept_ok_facts T AT HA) as AF.
  unfold accept_class. cbn [v_full v_accept_class build]. unfold build_class.
  set (E := flat_map (run_class_step T AT (v_full T) tree) (ac_steps (at_class AT))).
  pose proof (item_rebuild (rt_class T) [FIELDS; METHODS] (at_class AT) AT (nb1 false T AT) (na1 T AT (v_full T) None)
                (PKc1 T AT) (PKr1 T AT) (t_item tree) (tk_class T HT) (af_class _ _ AF)
                (nested_rebuild1 T AT (rt_class T) None HT AF (or_intror (tables_ok_no_code_class T HTb))) Hi) as Hitem.
  unfold build_item in Hitem.
  destruct (fold_res (build_step false (rt_class T) (at_class AT) (nb1 false T AT))
              (accept_item (rt_class T) (at_class AT) AT (na1 T AT (v_full T) None) (t_interests (rt_class T)) (t_item tree)) empty_item)
    as [st_raw|] eqn:Ef; [|discriminate].
  assert (Hattr : filter is_attr_level E = accept_item (rt_class T) (at_class AT) AT (na1 T AT (v_full T) None) (t_interests (rt_class T)) (t_item tree)).
  { exact (accept_class_attr T AT (v_full T) tree). }
  assert (Hfe : filter is_field E = mapi_from (accept_field T AT (v_full T)) 0 (t_fields tree)).
  { unfold E. rewrite (accept_class_fields T AT (v_full T) tree (af_members _ _ AF)). cbn [v_full v_class].
    change (interested (t_interests (rt_class T)) FIELDS) with (mem FIELDS (t_interests (rt_class T))). rewrite (tk_fields_in T HT). reflexivity. }
  assert (Hme : filter is_method E = mapi_from (accept_method T AT (v_full T)) 0 (t_methods tree)).
  { unfold E. rewrite (accept_class_methods T AT (v_full T) tree (af_members _ _ AF)). cbn [v_full v_class].
    change (interested (t_interests (rt_class T)) METHODS) with (mem METHODS (t_interests (rt_class T))). rewrite (tk_methods_in T HT). reflexivity. }
  rewrite (class_fold_join false T AT E (mkCT empty_item [] []) st_raw (t_fields tree) (t_methods tree)).
  - cbn [t_item t_fields t_methods app]. rewrite Hitem. destruct tree; reflexivity.
  - cbn [t_item]. rewrite Hattr. exact Ef.
  - cbn [t_fields length]. rewrite Hfe. exact (fields_rebuilt T AT HT AF _ 0 Hf).
  - cbn [t_methods length]. rewrite Hme. exact (methods_rebuilt T AT HT AF _ 0 Hm).
Qed.

Theorem rebuild T AT :
  tables_ok T = true -> accept_ok T AT = true ->
  forall strict t_full tree, build strict T AT t_full = Ok tree ->
    build false T AT (accept_class T AT (v_full T) tree) = Ok tree.
Proof.
  intros HTb HA strict t_full tree Hb. apply rebuild_inv; try assumption.
  exact (build_tree_inv strict T AT t_full tree (accept_ok_facts T AT HA) Hb).
Qed.

(* ---------- where the strict builder succeeds, the lenient one gives the same tree ---------- *)
Lemma fill_strict_lenient {K} row b (st st' : titem K) : fill true row b st = Ok st' -> fill false row b st = Ok st'.
Proof.
  unfold fill. destruct (b_mode row); try (intros H; exact H).
  - destruct (assoc (b_field row) (it_slots st)); [discriminate|]. intros H; exact H.
  - destruct (count_of b =? 0); [discriminate|].
    destruct (assoc (b_field row) (it_slots st)) as [[a|l]|]; try discriminate; intros H; exact H.
Qed.

Lemma step_strict_lenient {K} ct ac (nbs nbl : nbuild K) (st st' : titem K) e :
  (forall fs es k, nb_code nbs fs es = Ok k -> nb_code nbl fs es = Ok k) ->
  (forall es k, nb_rc nbs es = Ok k -> nb_rc nbl es = Ok k) ->
  build_step true ct ac nbs st e = Ok st' -> build_step false ct ac nbl st e = Ok st'.
Proof.
  intros Hc Hr. destruct e as [name raw body | d sy | slot srcs | attr | attr ms ml fs xr es | attr k n d [es|] | | ];
    cbn [build_step]; try discriminate; try (intros H; exact H).
  - destruct (act_full ct name) as [[| | [|? ?] | [|] | |]|]; try discriminate; try (intros H; exact H).
    + destruct raw; [discriminate|]. destruct (row_of ac name); [|discriminate]. apply fill_strict_lenient.
    + destruct raw; [|discriminate]. destruct (row_of ac name); [|discriminate]. apply fill_strict_lenient.
  - destruct (assoc slot (ac_deferred ac)); [|discriminate]. destruct (find_row s (ac_builder ac)); [|discriminate].
    destruct (negb (forallb (fun x => stores_into ct slot (fst x)) srcs)); [discriminate|].
    destruct (true && _); [discriminate|]. cbn [andb]. intros H; exact H.
  - destruct (act_full ct attr) as [[| | | | |]|]; try discriminate. destruct (row_of ac attr); [|discriminate].
    destruct (b_mode b); try discriminate. destruct (it_code st); [discriminate|].
    destruct (nb_code nbs fs es) as [k|] eqn:E; [|discriminate]. rewrite (Hc _ _ _ E). intros H; exact H.
  - destruct (act_full ct attr) as [[| | | | |]|]; try discriminate. destruct (row_of ac attr); [|discriminate].
    destruct (b_mode b); try discriminate. destruct (Nat.eqb k (length (it_rcs st))); [|discriminate].
    destruct (nb_rc nbs es) as [c|] eqn:E; [|discriminate]. rewrite (Hr _ _ E). intros H; exact H.
Qed.

Lemma item_strict_lenient {K} ct ac (nbs nbl : nbuild K) es it :
  (forall fs es k, nb_code nbs fs es = Ok k -> nb_code nbl fs es = Ok k) ->
  (forall es k, nb_rc nbs es = Ok k -> nb_rc nbl es = Ok k) ->
  build_item true ct ac nbs es = Ok it -> build_item false ct ac nbl es = Ok it.
Proof.
  intros Hc Hr. unfold build_item.
  assert (Hfold : forall es st st', fold_res (build_step true ct ac nbs) es st = Ok st' -> fold_res (build_step false ct ac nbl) es st = Ok st').
  { induction es0 as [|e es0 IH]; intros st st' H; cbn [fold_res] in *; [exact H|].
    destruct (build_step true ct ac nbs st e) as [st1|] eqn:E; [|discriminate].
    rewrite (step_strict_lenient ct ac nbs nbl st st1 e Hc Hr E). exact (IH _ _ H). }
  destruct (fold_res (build_step true ct ac nbs) es empty_item) as [st|] eqn:E; [|discriminate].
  rewrite (Hfold _ _ _ E). intros H; exact H.
Qed.

Lemma nb1_strict_lenient T AT :
  (forall fs es k, nb_code (nb1 true T AT) fs es = Ok k -> nb_code (nb1 false T AT) fs es = Ok k)
  /\ (forall es k, nb_rc (nb1 true T AT) es = Ok k -> nb_rc (nb1 false T AT) es = Ok k).
Proof.
  split.
  - intros fs es k. cbn [nb1 nb_code]. unfold build_code. destruct (forallb _ fs); [|discriminate].
    apply item_strict_lenient; intros; assumption.
  - intros es k. cbn [nb1 nb_rc]. unfold build_rc. apply item_strict_lenient; intros; assumption.
Qed.

Theorem strict_lenient T AT t_full tree : build true T AT t_full = Ok tree -> build false T AT t_full = Ok tree.
Proof.
  destruct t_full as [es|]; [|discriminate]. cbn [build]. unfold build_class.
  destruct (nb1_strict_lenient T AT) as [Hc Hr].
  assert (Hfold : forall es st st', fold_res (build_class_step true T AT) es st = Ok st' -> fold_res (build_class_step false T AT) es st = Ok st').
  { induction es0 as [|e es0 IH]; intros st st' H; cbn [fold_res] in *; [exact H|].
    destruct (build_class_step true T AT st e) as [st1|] eqn:E; [|discriminate].
    assert (E' : build_class_step false T AT st e = Ok st1).
    { destruct e; cbn [build_class_step] in *;
        try (match type of E with
             | match ?b with Ok _ => _ | Err => _ end = _ => destruct b as [it1|] eqn:Eb; [|discriminate];
                 rewrite (step_strict_lenient _ _ _ _ _ _ _ Hc Hr Eb); exact E
             end).
      - destruct es1 as [es1|]; [|discriminate]. destruct (Nat.eqb k (length (t_fields st))); [|discriminate].
        destruct (build_item true (rt_field T) (at_field AT) nb0 es1) as [it|] eqn:Eb; [|discriminate].
        rewrite (item_strict_lenient _ _ nb0 nb0 _ _ (fun _ _ _ H => H) (fun _ _ H => H) Eb). exact E.
      - destruct es1 as [es1|]; [|discriminate]. destruct (Nat.eqb k (length (t_methods st))); [|discriminate].
        destruct (build_item true (rt_method T) (at_method AT) (nb1 true T AT) es1) as [it|] eqn:Eb; [|discriminate].
        rewrite (item_strict_lenient _ _ _ _ _ _ Hc Hr Eb). exact E. }
    rewrite E'. exact (IH _ _ H). }
  destruct (fold_res (build_class_step true T AT) es (mkCT empty_item [] [])) as [st|] eqn:E; [|discriminate].
  rewrite (Hfold _ _ _ E). intros H; exact H.
Qed.

(* ---------- Th 4b: on the bytes ---------- *)
Theorem replay_equals_partial_read T AT g c h :
  tables_ok T = true -> accept_ok T AT = true -> wf g T c h ->
  forall rest,
    exists t_full,
      read_class g T (v_full T) (enc c ++ rest) = Ok (t_full, rest)
      /\ forall tree, build true T AT t_full = Ok tree ->
           forall v, exists t_v, read_class g T v (enc c ++ rest) = Ok (t_v, rest)
                                 /\ sim_trace (accept_class T AT v tree) t_v.
Proof.
  intros HT HA Hwf rest. exists (spec_class T (v_full T) h c). split.
  - apply read_class_ok; assumption.
  - intros tree Hb v. exists (project T v (spec_class T (v_full T) h c)). split.
    + rewrite <- (spec_projection T g c h v HT Hwf). apply read_class_ok; assumption.
    + exact (replay_is_projection T AT HT HA _ tree Hb v).
Qed.
