(* C17 — theory, part 1: the finite check of the generated tables, and what it implies for the
   dispatch of one attribute under an arbitrary interest mask. *)
From FB Require Import C17.Model C17.AttrTable.

(* ---------- the specification side: which interest flag governs which attribute ----------
   Written by hand from JVMS 4.7 (attribute names) and duke's *Interests structs (one flag per
   attribute; StackMap is the CLDC predecessor of StackMapTable and shares its flag). *)

Definition nDeprecated : str := [68;101;112;114;101;99;97;116;101;100].
Definition nSynthetic : str := [83;121;110;116;104;101;116;105;99].
Definition nBootstrapMethods : str := [66;111;111;116;115;116;114;97;112;77;101;116;104;111;100;115].
Definition nCode : str := [67;111;100;101].
Definition nRecord : str := [82;101;99;111;114;100].
Definition fUnknown : str := [117;110;107;110;111;119;110;95;97;116;116;114;105;98;117;116;101;115]. (* unknown_attributes *)

(* CamelCase -> snake_case: the naming rule that ties an attribute to its flag *)
Definition is_upper (c : N) : bool := (65 <=? c) && (c <=? 90).
Fixpoint snake_aux (first : bool) (l : str) : str :=
  match l with
  | [] => []
  | c :: l' => if is_upper c then (if first then [c + 32] else [95; c + 32]) ++ snake_aux false l'
               else c :: snake_aux false l'
  end.
Definition snake (name : str) : str := snake_aux true name.

Definition nStackMap : str := [83;116;97;99;107;77;97;112].
Definition fStackMapTable : str := snake [83;116;97;99;107;77;97;112;84;97;98;108;101].

(* the flag that must guard the arms of attribute [name] *)
Definition governing_spec (name : str) : str :=
  if str_eqb name nStackMap then fStackMapTable else snake name.

Definition mem (x : str) (l : list str) : bool := existsb (str_eqb x) l.

(* attributes that the reader must look at whatever the visitor wants *)
Definition always_names : list str := [nDeprecated; nSynthetic; nBootstrapMethods].

(* what a guarded arm may do when the visitor IS interested: anything that consumes the whole
   body or that skips it when the visitor declines; never "visit_code() declined and nothing skipped" *)
Definition guarded_action_ok (a : action) : bool :=
  match a with
  | ACode skip_on_decline => skip_on_decline
  | AFlag _ => false
  | _ => true
  end.
Definition always_action_ok (a : action) : bool :=
  match a with
  | AFlag _ => true
  | AParse (DStore _ _) => true
  | _ => false
  end.

(* The arms are: groups [X && !interests.f => skip; X => act] with f the flag of X and distinct X,
   unguarded arms only for the always-needed attributes, and at the end
   [_ if !interests.unknown_attributes => skip; _ => read exactly length bytes]. *)
Fixpoint arms_ok (flags : list str) (seen : list str) (arms : list arm) : bool :=
  match arms with
  | [mkArm PAny (GNotInterested f) ASkip; mkArm PAny GAlways (AReadLen true)] =>
      str_eqb f fUnknown && mem f flags
  | mkArm (PName x) (GNotInterested f) ASkip :: rest =>
      match rest with
      | mkArm (PName x') GAlways act :: rest' =>
          str_eqb x x' && str_eqb f (governing_spec x) && mem f flags && negb (mem x seen)
          && negb (mem x always_names) && guarded_action_ok act && arms_ok flags (x :: seen) rest'
      | _ => false
      end
  | mkArm (PName x) GAlways act :: rest =>
      mem x always_names && negb (mem x seen) && always_action_ok act && arms_ok flags (x :: seen) rest
  | _ => false
  end.

(* every flag of the struct other than fields/methods (which gate the member loops, not an
   attribute) is consulted by some arm *)
Definition flag_used (arms : list arm) (f : str) : bool :=
  existsb (fun a => match a_guard a with GNotInterested f' => str_eqb f f' | GAlways => false end) arms.
Definition flags_covered (ct : ctx_table) (except : list str) : bool :=
  forallb (fun f => mem f except || flag_used (t_arms ct) f) (t_interests ct).

(* the guard of a table handed over after the loop (`!table.is_empty() || (interests.f1 && interests.f2)`) consults
   interest flags of the context *)
Definition whole_ok (ct : ctx_table) : bool :=
  forallb (fun sw => forallb (fun f => mem f (t_interests ct)) (snd sw)) (t_whole ct).

Definition ctx_ok (ct : ctx_table) (except : list str) : bool :=
  arms_ok (t_interests ct) [] (t_arms ct) && flags_covered ct except && whole_ok ct.

(* Code arms only in the method table, Record arms only in the class table *)
Definition no_action (p : action -> bool) (ct : ctx_table) : bool := forallb (fun a => negb (p (a_act a))) (t_arms ct).
Definition is_code (a : action) : bool := match a with ACode _ => true | _ => false end.
Definition is_record (a : action) : bool := match a with ARecord _ => true | _ => false end.

Definition tables_ok (T : reader_tables) : bool :=
  ctx_ok (rt_class T) [FIELDS; METHODS] && ctx_ok (rt_field T) [] && ctx_ok (rt_method T) []
  && ctx_ok (rt_code T) [] && ctx_ok (rt_rc T) []
  && no_action is_code (rt_class T) && no_action is_code (rt_field T) && no_action is_code (rt_code T) && no_action is_code (rt_rc T)
  && no_action is_record (rt_field T) && no_action is_record (rt_method T) && no_action is_record (rt_code T) && no_action is_record (rt_rc T)
  (* every Break path skips the attributes of what was declined, and skip_attributes is the plain loop *)
  && rt_break_class T && rt_break_field T && rt_break_method T && rt_break_rc T && rt_skip_attributes_ok T
  && (rt_member_header T =? 6)
  (* the fields / methods flags exist and are honoured *)
  && mem FIELDS (t_interests (rt_class T)) && mem METHODS (t_interests (rt_class T))
  && rt_honours_fields T && rt_honours_methods T.

(* the finite check on the tables generated from class_reader.rs as it is now *)
Lemma generated_tables_ok : tables_ok tables = true.
Proof. vm_compute. reflexivity. Qed.
