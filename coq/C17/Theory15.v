(* C17 — theory, part 15: the CONTENTS of the table-like deliveries of a Code attribute.

   Since the events carry parsed rows (EDeferred: the rows of LineNumberTable / LocalVariableTable /
   LocalVariableTypeTable, each tagged with the attribute it came from; ECode: the rows of the
   exception table), the projection and replay theorems of parts 6 and 13 already speak about them.
   This part makes that explicit:

     - the row parser inverts the row encoder ([table_rows_enc], [exc_rows_enc]): the parsed values in
       the events ARE the values the bytes encode;
     - [delivers t k d]: the code visitor of the k-th method is handed the delivery d in trace t
       (a table of a given slot with its tagged rows in order, or the exception table);
     - [project_delivers]: what a partial visitor is handed is what the full visitor is handed, with the
       rows of the attributes it is not interested in removed — same rows, same order, nothing else;
     - [sim_delivers]: traces equivalent in the sense of the replay theorems hand over the same tables
       with the same rows in the same order, and the same exception table;
     - the two combined with the theorems of parts 4, 6 and 13 ([read_rows_projection], [replay_rows]);
     - a witness with LocalVariableTypeTable / LocalVariableTable / LocalVariableTypeTable interleaved:
       reading and replaying both deliver the rows in FILE order. *)
From Coq Require Import Permutation PeanoNat.
From FB Require Import C17.Model C17.Theory C17.Theory2 C17.Theory3 C17.Theory4 C17.Theory5 C17.Struct C17.Replay
  C17.Theory6 C17.Theory8 C17.Theory9 C17.Theory10 C17.Theory11 C17.Theory13 C17.Theory14 C17.AttrTable C17.AcceptTable.

Arguments N.add : simpl never.
Arguments N.mul : simpl never.

(* ---------- the row parser inverts the row encoder ---------- *)
Definition enc_row (r : row) : bytes := flat_map e16 r.
Definition enc_table (rows : list row) : bytes := e16 (elen rows) ++ flat_map enc_row rows.

Lemma rd_row_enc r rest : rd_row (length r) (enc_row r ++ rest) = (r, rest).
Proof.
  induction r as [|x r IH]; [reflexivity|].
  cbn [length rd_row enc_row flat_map]. rewrite <- app_assoc, rd16_e16.
  change (flat_map e16 r) with (enc_row r). rewrite IH. reflexivity.
Qed.

Lemma rd_rows_enc w rows rest : Forall (fun r => length r = w) rows ->
  rd_rows (length rows) w (flat_map enc_row rows ++ rest) = rows.
Proof.
  induction 1 as [|r rows Hr _ IH]; [reflexivity|].
  cbn [length rd_rows flat_map]. rewrite <- app_assoc, <- Hr, rd_row_enc. rewrite Hr, IH. reflexivity.
Qed.

(* every table whose rows all have the width that the arm reads per row is parsed back exactly *)
Theorem table_rows_enc w rows : Forall (fun r => length r = w) rows ->
  table_rows (N.of_nat w) (enc_table rows) = rows.
Proof.
  intros H. unfold table_rows, enc_table. rewrite rd16_e16, to_nat_elen, Nat2N.id.
  rewrite <- (app_nil_r (flat_map enc_row rows)). apply rd_rows_enc. exact H.
Qed.

Theorem exc_rows_enc rows : Forall (fun r => length r = 4%nat) rows ->
  exc_rows (elen rows) (flat_map enc_row rows) = rows.
Proof.
  intros H. unfold exc_rows. rewrite to_nat_elen.
  rewrite <- (app_nil_r (flat_map enc_row rows)). apply rd_rows_enc. exact H.
Qed.

(* for the tables of the code as it is: the three table-like attributes *)
Definition nLNT : str := [76;105;110;101;78;117;109;98;101;114;84;97;98;108;101].                        (* LineNumberTable *)
Definition nLVTT : str := [76;111;99;97;108;86;97;114;105;97;98;108;101;84;121;112;101;84;97;98;108;101]. (* LocalVariableTypeTable *)

Theorem generated_rows_of :
  (forall rows, Forall (fun r => length r = 2%nat) rows -> rows_of code_table nLNT (enc_table rows) = rows)
  /\ (forall rows, Forall (fun r => length r = 5%nat) rows -> rows_of code_table nLVT (enc_table rows) = rows)
  /\ (forall rows, Forall (fun r => length r = 5%nat) rows -> rows_of code_table nLVTT (enc_table rows) = rows).
Proof.
  repeat split; intros rows H; unfold rows_of.
  - change (width_of nLNT (t_rows code_table)) with (Some (N.of_nat 2)). apply table_rows_enc. exact H.
  - change (width_of nLVT (t_rows code_table)) with (Some (N.of_nat 5)). apply table_rows_enc. exact H.
  - change (width_of nLVTT (t_rows code_table)) with (Some (N.of_nat 5)). apply table_rows_enc. exact H.
Qed.

(* ---------- what the code visitor of the k-th method is handed ---------- *)
Inductive delivery :=
| DTable (slot : str) (rows : list (str * row))   (* visit_line_numbers / visit_local_variables: the rows in order,
                                                     each with the attribute it came from *)
| DExc (rows : list row).                         (* visit_exception_table *)

Definition code_delivers (c : ev) (d : delivery) : Prop :=
  match c with
  | ECode _ _ _ _ xr ces =>
      match d with
      | DExc rows => rows = xr
      | DTable slot rows => exists srcs, In (EDeferred slot srcs) ces /\ flat_rows srcs = rows
      end
  | _ => False
  end.

Definition delivers (t : option (list ev)) (k : nat) (d : delivery) : Prop :=
  exists es a n ds mes c, t = Some es /\ In (EMethod k a n ds (Some mes)) es /\ In c mes /\ code_delivers c d.

(* ---------- equivalent traces deliver the same ---------- *)
Lemma Forall2_in_l {A B} (R : A -> B -> Prop) l l' x : Forall2 R l l' -> In x l -> exists y, In y l' /\ R x y.
Proof.
  induction 1 as [|a b l l' Hab _ IH]; intros Hin; [destruct Hin|].
  destruct Hin as [<-|Hin]; [exists b; split; [left; reflexivity|exact Hab]|].
  destruct (IH Hin) as (y & Hy & Hr). exists y. split; [right; exact Hy|exact Hr].
Qed.
Lemma Forall2_in_r {A B} (R : A -> B -> Prop) l l' y : Forall2 R l l' -> In y l' -> exists x, In x l /\ R x y.
Proof.
  induction 1 as [|a b l l' Hab _ IH]; intros Hin; [destruct Hin|].
  destruct Hin as [<-|Hin]; [exists a; split; [left; reflexivity|exact Hab]|].
  destruct (IH Hin) as (x & Hx & Hr). exists x. split; [right; exact Hx|exact Hr].
Qed.
Lemma perm_rel_in_l {A} (R : A -> A -> Prop) a b x : perm_rel R a b -> In x a -> exists y, In y b /\ R x y.
Proof.
  intros (a' & P & F) Hin. apply (Forall2_in_l R a' b x F). exact (Permutation_in x P Hin).
Qed.
Lemma perm_rel_in_r {A} (R : A -> A -> Prop) a b y : perm_rel R a b -> In y b -> exists x, In x a /\ R x y.
Proof.
  intros (a' & P & F) Hin. destruct (Forall2_in_r R a' b y F Hin) as (x & Hx & Hr).
  exists x. split; [exact (Permutation_in x (Permutation_sym P) Hx)|exact Hr].
Qed.

Lemma sim_leaf_table_l slot srcs e : sim_leaf (EDeferred slot srcs) e ->
  exists srcs', e = EDeferred slot srcs' /\ flat_rows srcs = flat_rows srcs'.
Proof.
  destruct e; cbn [sim_leaf]; try discriminate.
  intros [<- H]. eexists. split; [reflexivity|exact H].
Qed.
Lemma sim_leaf_table_r slot srcs e : sim_leaf e (EDeferred slot srcs) ->
  exists srcs', e = EDeferred slot srcs' /\ flat_rows srcs' = flat_rows srcs.
Proof.
  destruct e; cbn [sim_leaf]; try discriminate.
  intros [-> H]. eexists. split; [reflexivity|exact H].
Qed.

Lemma sim_item_delivers_l c c' d : sim_item c c' -> code_delivers c d -> code_delivers c' d.
Proof.
  destruct c as [| | | |attr ms ml fs xr ces| | |]; cbn [code_delivers]; try contradiction.
  destruct c' as [| | | |attr' ms' ml' fs' xr' ces'| | |]; cbn [sim_item sim_leaf]; try discriminate.
  intros (_ & _ & _ & _ & Hx & Hl). cbn [code_delivers]. destruct d as [slot rows|rows].
  - intros (srcs & Hin & <-). destruct (perm_rel_in_l _ _ _ _ Hl Hin) as (e & He & Hs).
    destruct (sim_leaf_table_l _ _ _ Hs) as (srcs' & -> & Hr). exists srcs'. split; [exact He|symmetry; exact Hr].
  - intros ->. exact Hx.
Qed.
Lemma sim_item_delivers_r c c' d : sim_item c c' -> code_delivers c' d -> code_delivers c d.
Proof.
  destruct c' as [| | | |attr' ms' ml' fs' xr' ces'| | |]; cbn [code_delivers]; try contradiction.
  destruct c as [| | | |attr ms ml fs xr ces| | |]; cbn [sim_item sim_leaf]; try discriminate.
  intros (_ & _ & _ & _ & Hx & Hl). cbn [code_delivers]. destruct d as [slot rows|rows].
  - intros (srcs & Hin & <-). destruct (perm_rel_in_r _ _ _ _ Hl Hin) as (e & He & Hs).
    destruct (sim_leaf_table_r _ _ _ Hs) as (srcs' & -> & Hr). exists srcs'. split; [exact He|exact Hr].
  - intros ->. symmetry. exact Hx.
Qed.

Lemma in_filter_method k a n ds es0 es : In (EMethod k a n ds es0) es -> In (EMethod k a n ds es0) (filter is_method es).
Proof. intros H. apply filter_In. split; [exact H|reflexivity]. Qed.

Theorem sim_delivers a b : sim_trace a b -> forall k d, delivers a k d <-> delivers b k d.
Proof.
  destruct a as [x|], b as [y|]; cbn [sim_trace opt_rel]; try contradiction.
  2: { intros _ k d. split; intros (es & ? & ? & ? & ? & ? & H & _); discriminate H. }
  intros (_ & _ & Hm) k d. split.
  - intros (es & a & n & ds & mes & c & [= <-] & Hin & Hc & Hd).
    destruct (Forall2_in_l _ _ _ _ Hm (in_filter_method _ _ _ _ _ _ Hin)) as (e' & He' & Hs).
    apply filter_In in He' as [He' _].
    destruct e' as [| | | | | | |k' a' n' ds' es']; cbn [sim_member] in Hs; try contradiction.
    destruct Hs as (<- & <- & <- & <- & Ho). destruct es' as [mes'|]; cbn [opt_rel] in Ho; [|contradiction].
    destruct (perm_rel_in_l _ _ _ _ Ho Hc) as (c' & Hc' & Hsc).
    exists y, a, n, ds, mes', c'. repeat split; try assumption. exact (sim_item_delivers_l _ _ _ Hsc Hd).
  - intros (es & a & n & ds & mes & c & [= <-] & Hin & Hc & Hd).
    destruct (Forall2_in_r _ _ _ _ Hm (in_filter_method _ _ _ _ _ _ Hin)) as (e' & He' & Hs).
    apply filter_In in He' as [He' _].
    destruct e' as [| | | | | | |k' a' n' ds' es']; cbn [sim_member] in Hs; try contradiction.
    destruct Hs as (-> & -> & -> & -> & Ho). destruct es' as [mes'|]; cbn [opt_rel] in Ho; [|contradiction].
    destruct (perm_rel_in_r _ _ _ _ Ho Hc) as (c' & Hc' & Hsc).
    exists x, a, n, ds, mes', c'. repeat split; try assumption. exact (sim_item_delivers_r _ _ _ Hsc Hd).
Qed.

(* ---------- what the projection does to the deliveries ---------- *)
(* of a delivery of the full read, a visitor with code interests [cm] keeps the rows of the attributes it is interested in *)
Definition restrict (T : reader_tables) (cm : mask) (d : delivery) : delivery :=
  match d with
  | DExc rows => DExc rows
  | DTable slot rows => DTable slot (filter (fun r => keep_ct (rt_code T) cm (fst r)) rows)
  end.

Lemma proj_ev0_deferred ct m e slot srcs : In (EDeferred slot srcs) (proj_ev0 ct m e) ->
  exists srcs0, e = EDeferred slot srcs0 /\ srcs = filter (fun x => keep_ct ct m (fst x)) srcs0.
Proof.
  destruct e; cbn [proj_ev0]; try (intros [H|[]]; discriminate H).
  - destruct (keep_ct ct m name); [intros [H|[]]; discriminate H|intros []].
  - cbv zeta. destruct (table_delivered ct m slot0 (filter (fun x => keep_ct ct m (fst x)) sources)); [|intros []].
    intros [[= <- <-]|[]]. exists sources. split; reflexivity.
Qed.

Lemma proj_ev_code T v ct m kc e c d : In c (proj_ev T v ct m kc e) -> code_delivers c d ->
  exists cm d0, kc = Some cm /\ code_delivers e d0 /\ d = restrict T cm d0.
Proof.
  intros Hin Hd.
  destruct e as [name raw body| dp sy | slot srcs | attr | attr ms ml fs xr ces | attr k n dd es | |]; cbn [proj_ev proj_ev0] in Hin.
  - destruct (keep_ct ct m name); [destruct Hin as [<-|[]]; destruct Hd|destruct Hin].
  - destruct Hin as [<-|[]]. destruct Hd.
  - cbv zeta in Hin. destruct (table_delivered ct m slot (filter (fun x => keep_ct ct m (fst x)) srcs)); [destruct Hin as [<-|[]]; destruct Hd|destruct Hin].
  - destruct (keep_ct ct m attr); [destruct Hin as [<-|[]]; destruct Hd|destruct Hin].
  - destruct (keep_ct ct m attr); [|destruct Hin]. destruct Hin as [<-|[]].
    destruct kc as [cm|]; [|destruct Hd]. exists cm.
    cbn [code_delivers] in Hd. destruct d as [slot rows|rows].
    + destruct Hd as (srcs & Hs & <-). apply in_flat_map in Hs as (e0 & He0 & Hs).
      destruct (proj_ev0_deferred _ _ _ _ _ Hs) as (srcs0 & -> & ->).
      exists (DTable slot (flat_rows srcs0)). split; [reflexivity|]. split.
      * cbn [code_delivers]. exists srcs0. split; [exact He0|reflexivity].
      * cbn [restrict]. rewrite (filter_flat_rows (keep_ct (rt_code T) cm)). reflexivity.
    + subst rows. exists (DExc xr). split; [reflexivity|]. split; reflexivity.
  - destruct (keep_ct ct m attr); [destruct Hin as [<-|[]]; destruct Hd|destruct Hin].
  - destruct Hin as [<-|[]]. destruct Hd.
  - destruct Hin as [<-|[]]. destruct Hd.
Qed.

Theorem project_delivers T v t k d : delivers (project T v t) k d ->
  exists cm d0, v_code v k = Some cm /\ delivers t k d0 /\ d = restrict T cm d0.
Proof.
  intros (es & a & n & ds & mes & c & Ht & Hin & Hc & Hd).
  unfold project in Ht. destruct (v_accept_class v); [|discriminate]. destruct t as [es0|]; [|discriminate].
  cbn [option_map] in Ht. injection Ht as <-.
  apply in_flat_map in Hin as (e & He & Hin).
  destruct e as [name raw body| dp sy | slot srcs | attr | attr ms ml fs xr ces | attr k0 n0 dd es1 | k0 a0 n0 d0 es1 | k0 a0 n0 d0 es1];
    cbn [proj_member proj_ev proj_ev0] in Hin.
  - destruct (keep_ct (rt_class T) (v_class v) name); [destruct Hin as [H|[]]; discriminate H|destruct Hin].
  - destruct Hin as [H|[]]. discriminate H.
  - cbv zeta in Hin. destruct (table_delivered (rt_class T) (v_class v) slot (filter (fun x => keep_ct (rt_class T) (v_class v) (fst x)) srcs)); [destruct Hin as [H|[]]; discriminate H|destruct Hin].
  - destruct (keep_ct (rt_class T) (v_class v) attr); [destruct Hin as [H|[]]; discriminate H|destruct Hin].
  - destruct (keep_ct (rt_class T) (v_class v) attr); [destruct Hin as [H|[]]; discriminate H|destruct Hin].
  - destruct (keep_ct (rt_class T) (v_class v) attr); [destruct Hin as [H|[]]; discriminate H|destruct Hin].
  - destruct (rt_honours_fields T && negb (interested (v_class v) FIELDS)); [destruct Hin|destruct Hin as [H|[]]; discriminate H].
  - destruct (rt_honours_methods T && negb (interested (v_class v) METHODS)); [destruct Hin|].
    destruct Hin as [H|[]]. injection H as -> -> -> -> Hmes.
    destruct (v_method v k) as [m|]; [|discriminate Hmes].
    destruct es1 as [mes0|]; [|discriminate Hmes]. cbn [option_map] in Hmes. injection Hmes as <-.
    apply in_flat_map in Hc as (e & He0 & Hc).
    destruct (proj_ev_code T v _ _ _ _ _ _ Hc Hd) as (cm & dd & Hkc & Hde & ->).
    exists cm, dd. split; [exact Hkc|]. split; [|reflexivity].
    exists es0, a, n, ds, mes0, e. repeat split; assumption.
Qed.

(* ---------- combined with the main theorems ---------- *)
(* reading: whatever a visitor is handed for the k-th method is what the full visitor is handed, restricted *)
Theorem read_rows_projection T g c h : tables_ok T = true -> wf g T c h ->
  forall v rest t_v, read_class g T v (enc c ++ rest) = Ok (t_v, rest) ->
  forall k d, delivers t_v k d ->
    exists cm d0, v_code v k = Some cm /\ delivers (spec_class T (v_full T) h c) k d0 /\ d = restrict T cm d0.
Proof.
  intros HT Hwf v rest t_v Hr k d Hd.
  destruct (partial_is_projection T g c h HT Hwf v rest) as (t_full & Hfull & Hv).
  rewrite (position_independent T g c h HT Hwf (v_full T) rest) in Hfull. injection Hfull as <-.
  rewrite Hv in Hr. injection Hr as <-.
  exact (project_delivers T v _ k d Hd).
Qed.

(* replaying: the tree of the full read hands a visitor exactly the tables, rows and exception table that the
   projection of the full read holds for it *)
Theorem replay_rows T AT : tables_ok T = true -> accept_ok T AT = true ->
  forall t_full tree, build true T AT t_full = Ok tree ->
  forall v k d, delivers (accept_class T AT v tree) k d <-> delivers (project T v t_full) k d.
Proof.
  intros HT HA t_full tree Hb v. apply sim_delivers. exact (replay_is_projection T AT HT HA t_full tree Hb v).
Qed.

(* the same outside the known class, for the lenient builder *)
Theorem replay_rows_known T AT : tables_ok T = true -> accept_ok T AT = true ->
  forall t_full tree, build false T AT t_full = Ok tree -> replay_inexact T AT t_full = false ->
  forall v k d, delivers (accept_class T AT v tree) k d <-> delivers (project T v t_full) k d.
Proof.
  intros HT HA t_full tree Hb Hk v. apply sim_delivers. exact (replay_known T AT HT HA t_full tree Hb Hk v).
Qed.

(* ---------- a witness: LocalVariableTypeTable, LocalVariableTable, LocalVariableTypeTable in that order ---------- *)
(* constant pool: 1 "A", 2 Class #1, 3 "Code", 4 "LocalVariableTable", 5 "m", 6 "()V", 7 "RuntimeVisibleAnnotations",
   8 "LocalVariableTypeTable", 9 "I"   (corpus/C17/replay/InterleavedLocalTables.class is [enc w_interleaved], byte for byte) *)
Definition w_hdr2 : bytes :=
  [202;254;186;190; 0;0; 0;52] ++ e16 10
  ++ utf8 [65] ++ [7;0;1] ++ utf8 nCode ++ utf8 nLVT ++ utf8 [109] ++ utf8 [40;41;86] ++ utf8 nRVA ++ utf8 nLVTT ++ utf8 [73]
  ++ [0;33; 0;2; 0;0; 0;0].
Definition r1 : row := [0;1;5;9;1].
Definition r2 : row := [0;1;5;9;0].
Definition r3 : row := [0;1;5;9;2].
Definition x1 : row := [0;1;0;2].
Definition w_inter_attrs : list pattr := [mkP 8 12 (enc_table [r1]); mkP 4 12 (enc_table [r2]); mkP 8 12 (enc_table [r3])].
Definition w_interleaved : cls :=
  mkC w_hdr2 [] [mkM 1 5 6 [AtCode 3 (elen (code_body 1 3 [177] 1 (enc_row x1) w_inter_attrs)) 1 3 [177] 1 (enc_row x1) w_inter_attrs]] [].

(* executable extraction, for the examples *)
Definition code_tables (c : ev) : list delivery :=
  match c with
  | ECode _ _ _ _ xr ces => DExc xr :: flat_map (fun e => match e with EDeferred s l => [DTable s (flat_rows l)] | _ => [] end) ces
  | _ => []
  end.
Definition method_tables (t : option (list ev)) : list (list delivery) :=
  match t with
  | Some es => flat_map (fun e => match e with EMethod _ _ _ _ (Some mes) => [flat_map code_tables mes] | _ => [] end) es
  | None => []
  end.

Definition sLV : str := [108;111;99;97;108;95;118;97;114;105;97;98;108;101;95;116;97;98;108;101]. (* local_variable_table *)

Definition interleaved_statement : Prop :=
  wf_b tables w_interleaved = true
  /\ replay_inexact tables accept_tables_gen (full_of w_interleaved) = false
  /\ exists tree, build false tables accept_tables_gen (full_of w_interleaved) = Ok tree
     (* the full visitor: file order, by reading and by replaying *)
     /\ method_tables (full_of w_interleaved) = [[DExc [x1]; DTable sLV [(nLVTT, r1); (nLVT, r2); (nLVTT, r3)]]]
     /\ method_tables (accept_class tables accept_tables_gen (v_full tables) tree) = [[DExc [x1]; DTable sLV [(nLVTT, r1); (nLVT, r2); (nLVTT, r3)]]]
     (* interested in the type table only: its two rows, in order, by reading and by replaying *)
     /\ method_tables (spec_class tables v_only_lvtt (header_of w_interleaved) w_interleaved) = [[DExc [x1]; DTable sLV [(nLVTT, r1); (nLVTT, r3)]]]
     /\ method_tables (accept_class tables accept_tables_gen v_only_lvtt tree) = [[DExc [x1]; DTable sLV [(nLVTT, r1); (nLVTT, r3)]]].

(* ---------- tables WITHOUT rows (the former finding F20b) ----------
   w_rowless_locals: a Code whose only table is a LocalVariableTable without rows (javac -g writes these);
   w_rowless_mixed:  a LocalVariableTable with one row next to a LocalVariableTypeTable without rows.
   Reading the bytes and replaying the tree hand every visitor the same: the visitor interested in both tables is told
   that there is a table (without rows / with the one row), a visitor interested in one of them is told about local
   variables exactly when there is a row for it. *)
Definition fLVT : str := snake nLVT. (* local_variable_table *)
Definition v_only_lvt : visitor :=
  mkVisitor true (t_interests class_table)
    (fun _ => Some (t_interests field_table)) (fun _ => Some (t_interests method_table))
    (fun _ => Some [fLVT]) (fun _ => Some (t_interests rc_table)).
Definition w_mixed_attrs : list pattr := [mkP 4 12 (enc_table [r2]); mkP 8 2 [0;0]].
Definition w_rowless_mixed : cls :=
  mkC w_hdr2 [] [mkM 1 5 6 [AtCode 3 (elen (code_body 1 3 [177] 0 [] w_mixed_attrs)) 1 3 [177] 0 [] w_mixed_attrs]] [].

Definition read_and_replay (c : cls) (v : visitor) (ds : list (list delivery)) : Prop :=
  method_tables (spec_class tables v (header_of c) c) = ds
  /\ method_tables (accept_class tables accept_tables_gen v (tree_of_cls c)) = ds.

Definition rowless_statement : Prop :=
  (wf_b tables w_rowless_locals = true /\ wf_b tables w_rowless_mixed = true)
  /\ (replay_inexact tables accept_tables_gen (full_of w_rowless_locals) = false
      /\ replay_inexact tables accept_tables_gen (full_of w_rowless_mixed) = false)
  /\ (build false tables accept_tables_gen (full_of w_rowless_locals) = Ok (tree_of_cls w_rowless_locals)
      /\ build false tables accept_tables_gen (full_of w_rowless_mixed) = Ok (tree_of_cls w_rowless_mixed))
  /\ read_and_replay w_rowless_locals (v_full tables) [[DExc []; DTable sLV []]]
  /\ read_and_replay w_rowless_locals v_only_lvt [[DExc []]]
  /\ read_and_replay w_rowless_locals v_only_lvtt [[DExc []]]
  /\ read_and_replay w_rowless_mixed (v_full tables) [[DExc []; DTable sLV [(nLVT, r2)]]]
  /\ read_and_replay w_rowless_mixed v_only_lvt [[DExc []; DTable sLV [(nLVT, r2)]]]
  /\ read_and_replay w_rowless_mixed v_only_lvtt [[DExc []]].

Theorem rowless_holds : rowless_statement.
Proof. unfold rowless_statement, read_and_replay. repeat split; vm_compute; reflexivity. Qed.

Theorem interleaved_holds : interleaved_statement.
Proof.
  unfold interleaved_statement. split; [vm_compute; reflexivity|]. split; [vm_compute; reflexivity|].
  exists (tree_of_cls w_interleaved). repeat split; vm_compute; reflexivity.
Qed.
