(* C17 correspondence cases: a byte stream (1..4 concatenated class files), and for several
   visitor configurations what the real `duke::read_class_multi` delivered to the harness'
   recording visitors and where the stream stood after every read.  The model reads the same
   bytes with the generated tables. *)
From FB Require Export C17.Model C17.AttrTable C17.Struct C17.Replay C17.AcceptTable C17.Values C17.Values2 C17.ValuesGen Base.Run.

(* ---------- compact notation for the case files ----------
   Coq parses a numeral of type N through its number notation (slow: ~0.1 ms each), but a
   primitive 63-bit integer literal natively.  The bytes of a stream are therefore written as
   primitive integers holding 7 bytes each (big endian; the last word holds the remaining
   [total mod 7] bytes) and unpacked here; interest masks are written as bit masks over the
   declaration order of the *Interests structs (taken from the generated table), attribute
   names of events as indices into [known_names]. *)
From Coq Require Export Uint63.
From Coq Require Import ZArith.

Definition byte_of (w : int) (k : nat) : N :=
  Z.to_N (Uint63.to_Z (Uint63.land (Uint63.lsr w (Uint63.of_Z (Z.of_nat (8 * k)))) 255%uint63)).

(* the [n] low bytes of [w], most significant first *)
Fixpoint bytes_of_word (w : int) (n : nat) : bytes :=
  match n with
  | O => []
  | S n' => byte_of w n' :: bytes_of_word w n'
  end.

Fixpoint unpack (total : nat) (ws : list int) : bytes :=
  match ws with
  | [] => []
  | w :: ws' =>
    match ws' with
    | [] => bytes_of_word w total                  (* last word: what is left (1..7 bytes) *)
    | _ => bytes_of_word w 7 ++ unpack (total - 7) ws'
    end
  end.

(* bit i of [bits] <-> i-th field of the context's *Interests struct *)
Fixpoint mask_of_bits (names : list str) (bits : N) : mask :=
  match names with
  | [] => []
  | f :: names' => (if N.odd bits then [f] else []) ++ mask_of_bits names' (N.div2 bits)
  end.

(* description of one (masking, declining) visitor, printable by the harness: masks as bit masks *)
Record vdesc := VD {
  d_accept : bool;
  d_class : N;
  d_fields : list bool; d_field_default : bool;       (* accept the k-th field (tree builder: all field interests) *)
  d_methods : list (option N); d_method_default : option N;
  d_codes : list (option N); d_code_default : option N;
  d_rcs : list bool; d_rc_default : bool;
}.

Definition sel {A} (l : list A) (d : A) (i : nat) : A := nth i l d.

Definition all_bits : N := 1048575.
Definition omask (ct : ctx_table) (o : option N) : option mask := option_map (mask_of_bits (t_interests ct)) o.
Definition amask (ct : ctx_table) (b : bool) : option mask := if b then Some (t_interests ct) else None.

Definition visitor_of (d : vdesc) : visitor :=
  mkVisitor (d_accept d) (mask_of_bits (t_interests class_table) (d_class d))
    (fun k => amask field_table (sel (d_fields d) (d_field_default d) k))
    (fun k => omask method_table (sel (d_methods d) (d_method_default d) k))
    (fun k => omask code_table (sel (d_codes d) (d_code_default d) k))
    (fun k => amask rc_table (sel (d_rcs d) (d_rc_default d) k)).

(* attribute names the harness abbreviates by their index *)
Definition known_names : list str := [
  [65;110;110;111;116;97;116;105;111;110;68;101;102;97;117;108;116];                 (* 0 AnnotationDefault *)
  [67;111;110;115;116;97;110;116;86;97;108;117;101];                                 (* 1 ConstantValue *)
  [69;110;99;108;111;115;105;110;103;77;101;116;104;111;100];                        (* 2 EnclosingMethod *)
  [69;120;99;101;112;116;105;111;110;115];                                           (* 3 Exceptions *)
  [73;110;110;101;114;67;108;97;115;115;101;115];                                    (* 4 InnerClasses *)
  [77;101;116;104;111;100;80;97;114;97;109;101;116;101;114;115];                     (* 5 MethodParameters *)
  [77;111;100;117;108;101];                                                          (* 6 Module *)
  [77;111;100;117;108;101;77;97;105;110;67;108;97;115;115];                          (* 7 ModuleMainClass *)
  [77;111;100;117;108;101;80;97;99;107;97;103;101;115];                              (* 8 ModulePackages *)
  [78;101;115;116;72;111;115;116];                                                   (* 9 NestHost *)
  [78;101;115;116;77;101;109;98;101;114;115];                                        (* 10 NestMembers *)
  [80;101;114;109;105;116;116;101;100;83;117;98;99;108;97;115;115;101;115];          (* 11 PermittedSubclasses *)
  [82;117;110;116;105;109;101;86;105;115;105;98;108;101;65;110;110;111;116;97;116;105;111;110;115];                      (* 12 RuntimeVisibleAnnotations *)
  [82;117;110;116;105;109;101;73;110;118;105;115;105;98;108;101;65;110;110;111;116;97;116;105;111;110;115];              (* 13 RuntimeInvisibleAnnotations *)
  [82;117;110;116;105;109;101;86;105;115;105;98;108;101;84;121;112;101;65;110;110;111;116;97;116;105;111;110;115];          (* 14 RuntimeVisibleTypeAnnotations *)
  [82;117;110;116;105;109;101;73;110;118;105;115;105;98;108;101;84;121;112;101;65;110;110;111;116;97;116;105;111;110;115];  (* 15 RuntimeInvisibleTypeAnnotations *)
  [83;105;103;110;97;116;117;114;101];                                               (* 16 Signature *)
  [83;111;117;114;99;101;70;105;108;101]                                             (* 17 SourceFile *)
].
Definition deferred_slots : list str := [
  [108;105;110;101;95;110;117;109;98;101;114;95;116;97;98;108;101];                  (* 0 line_number_table *)
  [108;111;99;97;108;95;118;97;114;105;97;98;108;101;95;116;97;98;108;101]           (* 1 local_variable_table *)
].

(* short constructors used in the case files *)
Definition K (i : nat) : ev := EAttr (nth i known_names []) false [].   (* a parsed, named attribute *)
Definition U (name : str) (body : bytes) : ev := EAttr name true body.  (* an attribute delivered as raw bytes *)
(* a parsed, named attribute with the VALUE the visitor was handed (annotations as element_value trees, AnnotationDefault,
   Signature, SourceFile, the attributes that are rows of pool indices: InnerClasses, EnclosingMethod, NestHost, …, and type
   annotations: target_type, target_info — labels as bytecode offsets —, type_path, annotation): the tree flattened as [canon_annotations] / [canon_value] flatten it — strings as a checksum of
   their modified-UTF-8 bytes, numeric constants as the bits of the narrowed value.  It travels in the payload field. *)
Definition KV (i : nat) (v : list N) : ev := EAttr (nth i known_names []) false v.
Definition Fl := EFlags.
(* the rows of a table as the harness saw them (labels as the bytecode offsets of the instructions they sit on,
   strings as a checksum of their modified-UTF-8 bytes), packed into primitive integers:
     line numbers         start_pc<<16 | line_number
     local variables      two words: kind<<48 | start_pc<<32 | length<<16 | index ;  cksum(name)<<31 | cksum(descriptor / signature)
                          (kind 1: the row has a descriptor = LocalVariableTable, 2: a signature = LocalVariableTypeTable)
     exception table      start_pc<<33 | end_pc<<17 | handler_pc<<1 | (1 if there is a catch type)
   None = the harness could not place a label; the table is then not compared. *)
Definition fld (w : int) (sh : Z) (mask : int) : N :=
  Z.to_N (Uint63.to_Z (Uint63.land (Uint63.lsr w (Uint63.of_Z sh)) mask)).
Definition m16 : int := 65535%uint63.
Definition m31 : int := 2147483647%uint63.
Definition dec_lines (ws : list int) : list row := map (fun w => [fld w 16 m16; fld w 0 m16]) ws.
Fixpoint dec_vars (ws : list int) : list row :=
  match ws with
  | a :: b :: ws' => [fld a 48 m16; fld a 32 m16; fld a 16 m16; fld b 31 m31; fld b 0 m31; fld a 0 m16] :: dec_vars ws'
  | _ => []
  end.
Definition dec_exc (ws : list int) : list row := map (fun w => [fld w 33 m16; fld w 17 m16; fld w 1 m16; fld w 0 1%uint63]) ws.
Definition WILD : list row := [[65536]].   (* no u16 field has this value *)

(* a table event of the harness: no source = not compared, otherwise one source holding the decoded rows *)
Definition Df (i : nat) (cells : option (list int)) : ev :=
  EDeferred (nth i deferred_slots [])
    (match cells with None => [] | Some ws => [([], if Nat.eqb i 0 then dec_lines ws else dec_vars ws)] end).
Definition CD := ECodeDeclined [].
Definition C (ms ml : N) (frames : bool) (exc : option (list int)) (es : list ev) : ev :=
  ECode [] ms ml (if frames then [[]] else []) (match exc with None => WILD | Some ws => dec_exc ws end) es.
Definition R (es : option (list ev)) : ev := ERc [] 0 0 0 es.
Definition Fd (es : option (list ev)) : ev := EField 0 0 0 0 es.
Definition M (es : option (list ev)) : ev := EMethod 0 0 0 0 es.

(* the model's rows in the harness' vocabulary: a pool index of a string becomes the checksum of the string,
   the attribute a local-variable row came from becomes its kind, a catch type becomes "is there one" *)
Definition cksum (bs : bytes) : N := fold_left (fun a b => (a * 31 + b + 1) mod 2147483648) bs 7.
Definition ck_utf8 (p : pool) (i : N) : N := match pool_utf8 p i with Some u => cksum u | None => 2147483648 end.
(* every entry of the constant pool with its tag and the bytes after the tag (the second pass the correspondence needs for
   the numeric constants of element values; the reader model keeps the Utf8 entries only) *)
Fixpoint read_rawpool (fuel : nat) (count idx : N) (s : bytes) (acc : list (N * (N * bytes))) : list (N * (N * bytes)) :=
  if count <=? idx then acc else
  match fuel with
  | O => acc
  | S f =>
    match rd8 s with
    | Err => acc
    | Ok (tag, s1) =>
      if tag =? 1 then
        match rd16 s1 with
        | Err => acc
        | Ok (l, s2) => match takeN s2 l with Err => acc | Ok (u, s3) => read_rawpool f count (idx + 1) s3 ((idx, (tag, u)) :: acc) end
        end
      else
        match pool_entry_size tag with
        | None => acc
        | Some (sz, slots) => match takeN s1 sz with Err => acc | Ok (u, s2) => read_rawpool f count (idx + slots) s2 ((idx, (tag, u)) :: acc) end
        end
    end
  end.
Definition rawpool_at (s : bytes) : list (N * (N * bytes)) :=
  match skipN s 8 with
  | Ok s1 => match rd16 s1 with Ok (count, s2) => read_rawpool (S (length s2)) count 1 s2 [] | Err => [] end
  | Err => []
  end.
Definition be (bs : bytes) : N := fold_left (fun a b => a * 256 + b) bs 0.
Definition NOVAL : N := 18446744073709551616.   (* 2^64: no pool entry of the demanded kind *)
Definition u16_at (bs : bytes) (k : nat) : N := nth k bs 0 * 256 + nth (S k) bs 0.
(* the strings a Class / Package (name), NameAndType (name, descriptor) or Utf8 entry designates, as checksums *)
Definition ref_of (p : pool) (rp : list (N * (N * bytes))) (kind i : N) : list N :=
  if kind =? 1 then [ck_utf8 p i]
  else match assocN i rp with
       | Some (tag, bs) =>
           if tag =? kind then (if kind =? 12 then [ck_utf8 p (u16_at bs 0); ck_utf8 p (u16_at bs 2)] else [ck_utf8 p (u16_at bs 0)])
           else [NOVAL]
       | None => [NOVAL]
       end.
Definition resolver_of (p : pool) (rp : list (N * (N * bytes))) : resolver :=
  mkRs (ck_utf8 p)
       (fun ptag i => match assocN i rp with Some (tag, bs) => if tag =? ptag then be bs else NOVAL | None => NOVAL end)
       (ref_of p rp).
(* the pools of the class at the head of the stream *)
(* pp_tag: the tag of the pool entry at an index (0: there is none) — the kind of the entry selects the variant of a ConstantValue *)
Record pools := mkPools { pp_utf8 : pool; pp_rs : resolver; pp_tag : N -> N }.
Definition value_of (pp : pools) (loc : N) (name : str) (body : bytes) : option (list N) :=
  attr_value2 xtable_gen vnames_gen vnames2_gen (pp_rs pp) (pp_tag pp) loc name false body.

Definition LVT : str := [76;111;99;97;108;86;97;114;105;97;98;108;101;84;97;98;108;101].             (* LocalVariableTable *)
Definition LVTT : str := [76;111;99;97;108;86;97;114;105;97;98;108;101;84;121;112;101;84;97;98;108;101]. (* LocalVariableTypeTable *)
Definition kind_of (name : str) : N := if str_eqb name LVT then 1 else if str_eqb name LVTT then 2 else 0.
Definition norm_table (p : pool) (slot : str) (srcs : list (str * list row)) : list row :=
  if str_eqb slot (nth 0 deferred_slots []) then map snd (flat_rows srcs)
  else map (fun x => match snd x with
                     | [st; len; ni; di; idx] => [kind_of (fst x); st; len; ck_utf8 p ni; ck_utf8 p di; idx]
                     | r => r
                     end) (flat_rows srcs).
Definition norm_exc (xr : list row) : list row :=
  map (fun r => match r with [a; b; h; c] => [a; b; h; if c =? 0 then 0 else 1] | _ => r end) xr.
Definition rows_eqb : list row -> list row -> bool := list_eqb (list_eqb N.eqb).

(* equality of traces up to what the implementation cannot report: pool indices of member names,
   access flags, the bytes of bodies that the visitor receives parsed, and which attributes the rows
   of a deferred table were grouped in / a frame came from.  The ROWS of the line-number and
   local-variable tables and of the exception table are compared value by value, in order. *)
(* [loc]: where the events stand (0 class, 1 field, 2 method, 3 Code, 4 record component) — the value of a type annotations
   attribute is parsed with the target types of its location *)
Fixpoint ev_eqb (pp : pools) (loc : N) (a b : ev) : bool :=
  let p := pp_utf8 pp in
  let fix l_eqb (lc : N) (x y : list ev) : bool :=
    match x, y with
    | [], [] => true
    | e :: x', f :: y' => ev_eqb pp lc e f && l_eqb lc x' y'
    | _, _ => false
    end in
  let o_eqb (lc : N) (x y : option (list ev)) : bool :=
    match x, y with
    | Some x', Some y' => l_eqb lc x' y'
    | None, None => true
    | _, _ => false
    end in
  match a, b with
  | EAttr n r body, EAttr n' r' v' =>
      str_eqb n n' && Bool.eqb r r'
      && (if r then str_eqb body v'
          else match v' with
               | [] => true               (* the harness reports no value for this attribute: compared by name only *)
               | _ => match value_of pp loc n body with Some v => str_eqb v v' | None => false end
               end)
  | EFlags d s, EFlags d' s' => Bool.eqb d d' && Bool.eqb s s'
  | EDeferred x srcs, EDeferred y hs =>
      str_eqb x y && match hs with [] => true | h :: _ => rows_eqb (norm_table p x srcs) (snd h) end
  | ECodeDeclined _, ECodeDeclined _ => true
  | ECode _ ms ml f xr es, ECode _ ms' ml' f' xr' es' =>
      N.eqb ms ms' && N.eqb ml ml' && Bool.eqb (match f with [] => false | _ => true end) (match f' with [] => false | _ => true end)
      && (rows_eqb xr' WILD || rows_eqb (norm_exc xr) xr') && l_eqb 3 es es'
  | ERc _ _ _ _ es, ERc _ _ _ _ es' => o_eqb 4 es es'
  | EField _ _ _ _ es, EField _ _ _ _ es' => o_eqb 1 es es'
  | EMethod _ _ _ _ es, EMethod _ _ _ _ es' => o_eqb 2 es es'
  | _, _ => false
  end.

(* Fields and record components can only be observed through duke's own tree builders (their
   visitor traits are crate-private), i.e. as the finished tree value, not as a call sequence: the
   harness reports their attribute events sorted by attribute name (stable), flags last.  The
   model's events of these two levels are brought into the same order before comparing. *)
Definition ev_leb (a b : ev) : bool :=
  match a, b with
  | EAttr n _ _, EAttr m _ _ => negb (str_ltb m n)
  | EAttr _ _ _, _ => true
  | _, EAttr _ _ _ => false
  | _, _ => true
  end.
Fixpoint insert_ev (x : ev) (l : list ev) : list ev :=
  match l with
  | [] => [x]
  | y :: l' => if ev_leb x y then x :: l else y :: insert_ev x l'
  end.
Definition canon (l : list ev) : list ev := fold_right insert_ev [] l.

(* ... and an annotations attribute without annotations leaves no trace in them (`Vec`): such events of
   the model are dropped at these two levels before comparing *)
Definition vec_empty (ac : accept_ctx) (e : ev) : bool :=
  match e with
  | EAttr name false body =>
      match row_of ac name with
      | Some row => match b_mode row with MExtend => count_of body =? 0 | _ => false end
      | None => false
      end
  | _ => false
  end.
Definition is_vec (ac : accept_ctx) (e : ev) : option str :=
  match e with
  | EAttr name false _ =>
      match row_of ac name with
      | Some row => match b_mode row with MExtend => Some name | _ => None end
      | None => None
      end
  | _ => None
  end.
(* two annotations attributes of the same name extend one Vec: one visible attribute, holding the annotations of both *)
Fixpoint later_bodies (ac : accept_ctx) (name : str) (es : list ev) : list bytes :=
  match es with
  | [] => []
  | e :: es' =>
    match e, is_vec ac e with
    | EAttr _ _ body, Some n => if str_eqb n name then body :: later_bodies ac name es' else later_bodies ac name es'
    | _, _ => later_bodies ac name es'
    end
  end.
Fixpoint dedup_vec (ac : accept_ctx) (seen : list str) (es : list ev) : list ev :=
  match es with
  | [] => []
  | e :: es' =>
    match is_vec ac e with
    | Some name =>
        if existsb (str_eqb name) seen then dedup_vec ac seen es'
        else match e with
             | EAttr n r body => EAttr n r (fold_left merge (later_bodies ac name es') body)
             | _ => e
             end :: dedup_vec ac (name :: seen) es'
    | None => e :: dedup_vec ac seen es'
    end
  end.
Definition visible_through_tree (ac : accept_ctx) (es : list ev) : list ev :=
  dedup_vec ac [] (filter (fun e => negb (vec_empty ac e)) es).

Definition norm (e : ev) : ev :=
  match e with
  | ERc an k n d (Some es) => ERc an k n d (Some (canon (visible_through_tree rc_accept es)))
  | EField k a n d (Some es) => EField k a n d (Some (canon (visible_through_tree field_accept es)))
  | e => e
  end.

Definition trace_eqb (pp : pools) (a b : option (list ev)) : bool := opt_eqb (list_eqb (ev_eqb pp 0)) (option_map (map norm) a) b.
Definition pool_at (s : bytes) : pools :=
  let p := match read_header s with Ok (h, _) => h_pool h | Err => [] end in
  let rp := rawpool_at s in
  mkPools p (resolver_of p rp) (fun i => match assocN i rp with Some (tag, _) => tag | None => 0 end).

(* one configuration: a visitor per successive read, and per read what the implementation
   answered: Ok (trace, stream position after the read) — the list stops after the first Err *)
Definition answer := list (res (option (list ev) * N)).

Inductive case :=
| CStream (total : N) (words : list int) (runs : list (list vdesc * answer))
(* one class file: whether duke's tree builder read it (duke::read_class = Ok), whether replaying that
   tree into the tree builder gave an equal tree, and per visitor configuration the trace that the
   real ClassFile::accept delivered to the recording visitor *)
| CReplay (total : N) (words : list int) (tree_ok rebuilt_equal : bool) (runs : list (vdesc * option (list ev))).

(* the model reads the stream with the visitors [ds]; every answer is compared with the implementation's (each
   class with its own constant pool: the rows of the local-variable tables name their strings by pool index) *)
Fixpoint reads_agree (total : nat) (ds : list vdesc) (s : bytes) (ans : answer) : bool :=
  match ds with
  | [] => match ans with [] => true | _ => false end
  | d :: ds' =>
    match read_class g_len tables (visitor_of d) s, ans with
    | Err, [Err] => true
    | Ok (t, s1), Ok (t', pos) :: ans' =>
        trace_eqb (pool_at s) t t' && N.eqb (N.of_nat (total - length s1)) pos && reads_agree total ds' s1 ans'
    | _, _ => false
    end
  end.

(* ---------- equality of trees (to evaluate `rebuild` on the model side) ---------- *)
Definition sval_eqb (a b : sval) : bool :=
  match a, b with
  | VBody x, VBody y => str_eqb x y
  | VRows x, VRows y => list_eqb (pair_eqb str_eqb (list_eqb N.eqb)) x y
  | _, _ => false
  end.
Definition item_eqb {K} (keqb : K -> K -> bool) (a b : titem K) : bool :=
  opt_eqb (pair_eqb Bool.eqb Bool.eqb) (it_flags a) (it_flags b)
  && list_eqb (pair_eqb str_eqb sval_eqb) (it_slots a) (it_slots b)
  && list_eqb (pair_eqb str_eqb str_eqb) (it_unknown a) (it_unknown b)
  && opt_eqb (pair_eqb (pair_eqb (pair_eqb (pair_eqb N.eqb N.eqb) (list_eqb str_eqb)) rows_eqb) keqb) (it_code a) (it_code b)
  && list_eqb (pair_eqb (pair_eqb N.eqb N.eqb) keqb) (it_rcs a) (it_rcs b).
Definition item0_eqb : titem unit -> titem unit -> bool := item_eqb (fun _ _ => true).
Definition hdr_eqb : N * N * N -> N * N * N -> bool := pair_eqb (pair_eqb N.eqb N.eqb) N.eqb.
Definition tree_eqb (a b : class_tree) : bool :=
  item_eqb item0_eqb (t_item a) (t_item b)
  && list_eqb (pair_eqb hdr_eqb item0_eqb) (t_fields a) (t_fields b)
  && list_eqb (pair_eqb hdr_eqb (item_eqb item0_eqb)) (t_methods a) (t_methods b).

Definition check (c : case) : bool :=
  match c with
  | CStream total words runs =>
      let s := unpack (N.to_nat total) words in
      Nat.eqb (length s) (N.to_nat total)
      (* the stream lies in the domain of the theorems: a sequence of encodings of well-formed class structures *)
      && stream_wf tables 8 s
      && forallb (fun r => reads_agree (N.to_nat total) (fst r) s (snd r)) runs
  | CReplay total words tree_ok rebuilt_equal runs =>
      let s := unpack (N.to_nat total) words in
      Nat.eqb (length s) (N.to_nat total)
      && stream_wf tables 8 s
      && match read_class g_len tables (v_full tables) s with
         | Ok (t_full, []) =>
             (* the model's tree builder succeeds exactly when duke's does ... *)
             match build false tables accept_tables_gen t_full with
             | Ok t =>
                 tree_ok
                 (* ... replaying into every recorded visitor gives the recorded trace, in accept()'s order ... *)
                 && forallb (fun r => trace_eqb (pool_at s) (accept_class tables accept_tables_gen (visitor_of (fst r)) t) (snd r)) runs
                 (* ... and replaying into the tree builder reproduces the tree, in the model and in duke *)
                 && rebuilt_equal
                 && match build false tables accept_tables_gen (accept_class tables accept_tables_gen (v_full tables) t) with
                    | Ok t' => tree_eqb t' t
                    | Err => false
                    end
             | Err => negb tree_ok
             end
         | _ => false
         end
  end.
