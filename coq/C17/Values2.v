(* C17 — the parsed VALUES of the two remaining attributes that the reader hands over as a tree value: ConstantValue (a field's
   constant: `pool.get_constant_value(reader.read_u16()?)`, the variant chosen by the KIND of the pool entry — `as_constant_value`
   of class_reader/pool.rs) and Module (`read_module`: three leading fields, then five vectors of rows; the rows of exports /
   opens / provides end in a nested vector of indices).  Definitions only.

   Which pool entry kinds a ConstantValue admits and how each is handed over, and the sections of a Module with their columns,
   come from the generated table (ValuesGen.v, translate/c17_values.py).  [attr_value2] extends [attr_value] (Values.v) by these
   two; it is what the correspondence run compares with the values duke's visitors received. *)
From FB Require Export C17.Values.

(* ---------- ConstantValue ---------- *)
(* tag of the pool entry -> is it handed over as a string (CONSTANT_String: through its string_index) or as the bits of a number *)
Definition cvtable := list (N * bool).

(* [tg i]: the tag of the pool entry at index i.  What the visitor is handed: the tag (it selects the variant of
   `ConstantValue`), then the number's bits / the checksum of the string *)
Definition canon_constant (CV : cvtable) (rs : resolver) (tg : N -> N) (i : N) : option (list N) :=
  match assocN (tg i) CV with
  | Some true => Some (tg i :: rs_ref rs (tg i) i)
  | Some false => Some [tg i; rs_num rs (tg i) i]
  | None => None                       (* `_ => bail!("pool entry may not be used in a `ConstantValue` attribute")` *)
  end.

(* ---------- Module ---------- *)
Inductive msec :=
| MRow (cols : list col)                       (* `name: …, flags: …, version: …` read once *)
| MVec (cols : list col) (inner : option col). (* read_vec(u16 count, row); a row: the columns, then (if inner) a nested
                                                  read_vec(u16 count, one index) *)
Definition mrow := (list N * list N)%type.      (* the raw u16 of the columns, the raw u16 of the nested vector *)

Fixpoint p_u16s (n : nat) (s : bytes) : res (list N * bytes) :=
  match n with
  | O => Ok ([], s)
  | S n' =>
    match rd16 s with Err => Err | Ok (x, s1) =>
    match p_u16s n' s1 with Err => Err | Ok (l, s2) => Ok (x :: l, s2) end end
  end.
Definition p_mrow (cols : list col) (inner : option col) (s : bytes) : res (mrow * bytes) :=
  match p_cols cols s with Err => Err | Ok (r, s1) =>
  match inner with
  | None => Ok ((r, []), s1)
  | Some _ =>
    match rd16 s1 with Err => Err | Ok (n, s2) =>
    match p_u16s (N.to_nat n) s2 with Err => Err | Ok (l, s3) => Ok ((r, l), s3) end end
  end end.
Fixpoint p_mrows (cols : list col) (inner : option col) (n : nat) (s : bytes) : res (list mrow * bytes) :=
  match n with
  | O => Ok ([], s)
  | S n' =>
    match p_mrow cols inner s with Err => Err | Ok (r, s1) =>
    match p_mrows cols inner n' s1 with Err => Err | Ok (l, s2) => Ok (r :: l, s2) end end
  end.
Definition p_msec (sec : msec) (s : bytes) : res (list mrow * bytes) :=
  match sec with
  | MRow cols => p_mrows cols None 1 s
  | MVec cols inner => match rd16 s with Err => Err | Ok (n, s1) => p_mrows cols inner (N.to_nat n) s1 end
  end.
Fixpoint p_module (secs : list msec) (s : bytes) : res (list (list mrow) * bytes) :=
  match secs with
  | [] => Ok ([], s)
  | sec :: secs' =>
    match p_msec sec s with Err => Err | Ok (rows, s1) =>
    match p_module secs' s1 with Err => Err | Ok (l, s2) => Ok (rows :: l, s2) end end
  end.

(* the encoding (JVMS 4.7.25) *)
Definition enc_mrow (inner : option col) (r : mrow) : bytes :=
  flat_map e16 (fst r) ++ match inner with None => [] | Some _ => e16 (elen (snd r)) ++ flat_map e16 (snd r) end.
Definition sec_inner (sec : msec) : option col := match sec with MRow _ => None | MVec _ i => i end.
Definition sec_cols (sec : msec) : list col := match sec with MRow c => c | MVec c _ => c end.
Definition enc_msec (sec : msec) (rows : list mrow) : bytes :=
  match sec with
  | MRow _ => flat_map (enc_mrow None) rows
  | MVec _ inner => e16 (elen rows) ++ flat_map (enc_mrow inner) rows
  end.
Fixpoint enc_module (secs : list msec) (vals : list (list mrow)) : bytes :=
  match secs, vals with
  | sec :: secs', rows :: vals' => enc_msec sec rows ++ enc_module secs' vals'
  | _, _ => []
  end.

(* rows as wide as the section has columns; a nested vector only where the section has one; one row where the section is one row;
   one list of rows per section *)
Definition mrow_ok (sec : msec) (r : mrow) : bool :=
  Nat.eqb (length (fst r)) (length (sec_cols sec))
  && match sec_inner sec with None => match snd r with [] => true | _ => false end | Some _ => true end.
Definition msec_ok (sec : msec) (rows : list mrow) : bool :=
  forallb (mrow_ok sec) rows && match sec with MRow _ => Nat.eqb (length rows) 1 | MVec _ _ => true end.
Fixpoint module_ok (secs : list msec) (vals : list (list mrow)) : bool :=
  match secs, vals with
  | [], [] => true
  | sec :: secs', rows :: vals' => msec_ok sec rows && module_ok secs' vals'
  | _, _ => false
  end.

(* what the visitor is handed: per section (the number of rows of a vector, then) per row the columns resolved as [canon_cols]
   resolves them and the nested vector with its length, every index of it resolved by the accessor of its column *)
Definition canon_mrow (rs : resolver) (sec : msec) (r : mrow) : list N :=
  canon_cols rs (sec_cols sec) (fst r)
  ++ match sec_inner sec with
     | None => []
     | Some c => elen (snd r) :: flat_map (fun x => canon_cols rs [c] [x]) (snd r)
     end.
Definition canon_msec (rs : resolver) (sec : msec) (rows : list mrow) : list N :=
  match sec with
  | MRow _ => flat_map (canon_mrow rs sec) rows
  | MVec _ _ => elen rows :: flat_map (canon_mrow rs sec) rows
  end.
Fixpoint canon_module (rs : resolver) (secs : list msec) (vals : list (list mrow)) : list N :=
  match secs, vals with
  | sec :: secs', rows :: vals' => canon_msec rs sec rows ++ canon_module rs secs' vals'
  | _, _ => []
  end.

(* ---------- the two attributes by name ---------- *)
Record vnames2 := mkVN2 { vn_constant : str; vn_cv : cvtable; vn_module : str; vn_msecs : list msec }.

(* name, raw, body -> the value handed over, for EVERY attribute whose value is modelled: those of [attr_value], ConstantValue,
   Module *)
Definition attr_value2 (X : xtable) (V : vnames) (W : vnames2) (rs : resolver) (tg : N -> N) (loc : N) (name : str) (raw : bool)
    (body : bytes) : option (list N) :=
  if raw then None
  else if valued V name then attr_value X V rs loc name raw body
  else if str_eqb name (vn_constant W) then
    match rd16 body with Ok (i, []) => canon_constant (vn_cv W) rs tg i | _ => None end
  else if str_eqb name (vn_module W) then
    match p_module (vn_msecs W) body with Ok (vals, []) => Some (canon_module rs (vn_msecs W) vals) | _ => None end
  else None.

Definition valued2 (V : vnames) (W : vnames2) (name : str) : bool :=
  valued V name || str_eqb name (vn_constant W) || str_eqb name (vn_module W).
