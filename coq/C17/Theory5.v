(* C17 — theory, part 5: position exactness and concatenation, as corollaries of read_class_ok. *)
From FB Require Import C17.Model C17.Theory C17.Theory2 C17.Theory3 C17.Theory4.

(* Th 1: whatever is skipped or declined, the read delivers what the specification computes from
   the class structure and leaves exactly what followed the class in the stream. *)
Theorem position_independent T g c h :
  tables_ok T = true -> wf g T c h ->
  forall v rest, read_class g T v (enc c ++ rest) = Ok (spec_class T v h c, rest).
Proof. intros HT Hwf v rest. apply read_class_ok; assumption. Qed.

(* the same in terms of the stream position: consumed bytes = length of the class file *)
Corollary final_position T g c h :
  tables_ok T = true -> wf g T c h ->
  forall v rest t r, read_class g T v (enc c ++ rest) = Ok (t, r) ->
    (length (enc c ++ rest) - length r = length (enc c))%nat.
Proof.
  intros HT Hwf v rest t r H. rewrite (position_independent T g c h HT Hwf v rest) in H.
  injection H as _ <-. rewrite app_length. lia.
Qed.

(* what is delivered does not depend on what follows the class in the stream *)
Corollary trace_alone T g c h :
  tables_ok T = true -> wf g T c h ->
  forall v rest t r, read_class g T v (enc c ++ rest) = Ok (t, r) -> read_class g T v (enc c) = Ok (t, []).
Proof.
  intros HT Hwf v rest t r H. rewrite (position_independent T g c h HT Hwf v rest) in H.
  injection H as <- _. rewrite <- (app_nil_r (enc c)) at 1. apply position_independent; assumption.
Qed.

(* Th 2: class files concatenated in one stream are delivered one per successive read, each
   exactly as if it were read alone, whatever each visitor skips or declines. *)
Record item := mkItem { i_cls : cls; i_hdr : header; i_vis : visitor }.

Theorem concat T g (items : list item) :
  tables_ok T = true -> Forall (fun x => wf g T (i_cls x) (i_hdr x)) items ->
  forall rest,
    read_many g T (map i_vis items) (flat_map (fun x => enc (i_cls x)) items ++ rest)
    = Ok (map (fun x => spec_class T (i_vis x) (i_hdr x) (i_cls x)) items, rest).
Proof.
  intros HT. induction 1 as [|x items Hx _ IH]; intros rest; [reflexivity|].
  cbn [map flat_map read_many]. rewrite <- app_assoc.
  rewrite (position_independent T g (i_cls x) (i_hdr x) HT Hx). rewrite IH. reflexivity.
Qed.
