(* C17 — theory, part 19: content_projection / content_replay for EVERY attribute, and the parsed values of ConstantValue and
   Module.

   The events of the reader model carry, for every attribute a visitor is handed, its name, whether it is handed over raw, and
   its body.  Whatever a visitor is handed for an attribute is computed by the reader from the place, the name and the body
   (and the constant pool, which is the same for the whole class): so for EVERY function F of (location, name, raw, body) —
   every parser — a partial read and a replay hand a place the same F-value as the full read, if the visitor wants the
   attribute there, and nothing else ([read_fvalues_projection], [replay_fvalues], [fvalues_total]).  The theorems of part 18
   are the instance F = attr_value.

   Two more instances of F are modelled as parsers of their own ([attr_value2], Values2.v): ConstantValue (the variant is chosen
   by the kind of the pool entry; any other kind is refused) and Module (three leading fields and five vectors, three of them
   with a nested vector per row); the parser of Module inverts the JVMS encoding and consumes exactly it, for every list of
   sections ([p_module_enc]). *)
From Coq Require Import Lia PeanoNat.
From FB Require Import C17.Model C17.Theory C17.Theory2 C17.Theory3 C17.Theory4 C17.Theory5 C17.Struct C17.Replay
  C17.Theory6 C17.Theory8 C17.Theory9 C17.Theory10 C17.Theory11 C17.Theory13 C17.Theory14 C17.Theory15 C17.Theory16 C17.Theory7 C17.AttrTable C17.AcceptTable
  C17.Values C17.Values2 C17.ValuesGen C17.Theory17 C17.Theory18.

Arguments N.add : simpl never.
Arguments N.mul : simpl never.

(* ---------- every function of the delivered attribute ---------- *)
Definition fvalue_at {A} (F : N -> str -> bool -> bytes -> option A) (t : option (list ev)) (pl : place) (name : str) (val : A) : Prop :=
  exists raw body, attr_at t pl (EAttr name raw body) /\ F (loc_of pl) name raw body = Some val.

Lemma value_at_fvalue_at X V rs t pl name val :
  value_at X V rs t pl name val <-> fvalue_at (attr_value X V rs) t pl name val.
Proof. reflexivity. Qed.

Theorem project_fvalue_at {A} (F : N -> str -> bool -> bytes -> option A) T v t pl name val :
  fvalue_at F (project T v t) pl name val <-> fvalue_at F t pl name val /\ wanted T v pl name.
Proof.
  unfold fvalue_at. split.
  - intros (raw & body & Hat & Hv). apply project_attr_at in Hat as [Hat Hw]. split; [exists raw, body; split; assumption|exact Hw].
  - intros [(raw & body & Hat & Hv) Hw]. exists raw, body. split; [apply project_attr_at; split; assumption|exact Hv].
Qed.

Theorem sim_fvalue_at {A} (F : N -> str -> bool -> bytes -> option A) a b : sim_trace a b ->
  forall pl name val, fvalue_at F a pl name val <-> fvalue_at F b pl name val.
Proof.
  intros H pl name val. unfold fvalue_at. split; intros (raw & body & Hat & Hv); exists raw, body; (split; [|exact Hv]).
  - apply (sim_attr_at a b H). exact Hat.
  - apply (sim_attr_at a b H). exact Hat.
Qed.

Theorem read_fvalues_projection {A} (F : N -> str -> bool -> bytes -> option A) T g c h : tables_ok T = true -> wf g T c h ->
  forall v rest t_v, read_class g T v (enc c ++ rest) = Ok (t_v, rest) ->
  forall pl name val,
    fvalue_at F t_v pl name val <-> fvalue_at F (spec_class T (v_full T) h c) pl name val /\ wanted T v pl name.
Proof.
  intros HT Hwf v rest t_v Hr pl name val.
  destruct (partial_is_projection T g c h HT Hwf v rest) as (t_full & Hfull & Hv).
  rewrite (position_independent T g c h HT Hwf (v_full T) rest) in Hfull. injection Hfull as <-.
  rewrite Hv in Hr. injection Hr as <-.
  apply project_fvalue_at.
Qed.

Theorem replay_fvalues {A} (F : N -> str -> bool -> bytes -> option A) T AT : tables_ok T = true -> accept_ok T AT = true ->
  forall t_full tree, build true T AT t_full = Ok tree ->
  forall v pl name val,
    fvalue_at F (accept_class T AT v tree) pl name val <-> fvalue_at F t_full pl name val /\ wanted T v pl name.
Proof.
  intros HT HA t_full tree Hb v pl name val.
  rewrite (sim_fvalue_at F _ _ (replay_is_projection T AT HT HA t_full tree Hb v)). apply project_fvalue_at.
Qed.

Theorem replay_fvalues_known {A} (F : N -> str -> bool -> bytes -> option A) T AT : tables_ok T = true -> accept_ok T AT = true ->
  forall t_full tree, build false T AT t_full = Ok tree -> replay_inexact T AT t_full = false ->
  forall v pl name val,
    fvalue_at F (accept_class T AT v tree) pl name val <-> fvalue_at F t_full pl name val /\ wanted T v pl name.
Proof.
  intros HT HA t_full tree Hb Hk v pl name val.
  rewrite (sim_fvalue_at F _ _ (replay_known T AT HT HA t_full tree Hb Hk v)). apply project_fvalue_at.
Qed.

(* for the code as it is, with decidable hypotheses only *)
Theorem fvalues_total c : wf_b tables c = true -> once_b tables accept_tables_gen c = true ->
  replay_inexact tables accept_tables_gen (full_of c) = false ->
  exists tree, build false tables accept_tables_gen (full_of c) = Ok tree
    /\ forall A (F : N -> str -> bool -> bytes -> option A) v rest,
         exists t_v, read_class g_len tables v (enc c ++ rest) = Ok (t_v, rest)
         /\ forall pl name val,
              (fvalue_at F t_v pl name val <-> fvalue_at F (full_of c) pl name val /\ wanted tables v pl name)
              /\ (fvalue_at F (accept_class tables accept_tables_gen v tree) pl name val <-> fvalue_at F t_v pl name val).
Proof.
  intros Hwf Honce Hk. destruct (replay_total c Hwf Honce) as (tree & Hb & _ & Hall). exists tree. split; [exact Hb|].
  intros A F v rest. destruct (Hall Hk v rest) as (t_v & Hread & Hsim & _). exists t_v. split; [exact Hread|].
  intros pl name val. split.
  - exact (read_fvalues_projection F tables g_len c (header_of c) generated_tables_ok
             (wf_b_wf tables c Hwf) v rest t_v Hread pl name val).
  - apply sim_fvalue_at. exact Hsim.
Qed.

(* ---------- Module: the parser inverts the encoding ---------- *)
Lemma p_u16s_enc l rest : p_u16s (length l) (flat_map e16 l ++ rest) = Ok (l, rest).
Proof.
  induction l as [|x l IH]; [reflexivity|].
  cbn [length p_u16s flat_map]. rewrite <- app_assoc, rd16_e16, IH. reflexivity.
Qed.

Lemma p_mrow_enc sec r rest : mrow_ok sec r = true ->
  p_mrow (sec_cols sec) (sec_inner sec) (enc_mrow (sec_inner sec) r ++ rest) = Ok (r, rest).
Proof.
  unfold mrow_ok. intros H. apply andb_true_iff in H as [Hl Hi]. apply Nat.eqb_eq in Hl.
  destruct r as [f l]. cbn [fst snd] in *. unfold p_mrow, enc_mrow. cbn [fst snd].
  rewrite <- app_assoc, (p_cols_enc (sec_cols sec) f _ Hl).
  destruct (sec_inner sec) as [c|].
  - rewrite <- !app_assoc, rd16_e16, to_nat_elen, p_u16s_enc. reflexivity.
  - destruct l; [reflexivity|discriminate Hi].
Qed.

Lemma p_mrows_enc sec rows rest : forallb (mrow_ok sec) rows = true ->
  p_mrows (sec_cols sec) (sec_inner sec) (length rows) (flat_map (enc_mrow (sec_inner sec)) rows ++ rest) = Ok (rows, rest).
Proof.
  induction rows as [|r rows IH]; intros H; [reflexivity|].
  cbn [forallb] in H. apply andb_true_iff in H as [Hr Hs].
  cbn [length p_mrows flat_map]. rewrite <- app_assoc, (p_mrow_enc sec r _ Hr), (IH Hs). reflexivity.
Qed.

Lemma p_msec_enc sec rows rest : msec_ok sec rows = true -> p_msec sec (enc_msec sec rows ++ rest) = Ok (rows, rest).
Proof.
  unfold msec_ok. intros H. apply andb_true_iff in H as [Hw H1].
  destruct sec as [cols|cols inner]; cbn [p_msec enc_msec].
  - apply Nat.eqb_eq in H1. rewrite <- H1. exact (p_mrows_enc (MRow cols) rows rest Hw).
  - rewrite <- app_assoc, rd16_e16, to_nat_elen. exact (p_mrows_enc (MVec cols inner) rows rest Hw).
Qed.

Theorem p_module_enc secs : forall vals rest, module_ok secs vals = true ->
  p_module secs (enc_module secs vals ++ rest) = Ok (vals, rest).
Proof.
  induction secs as [|sec secs IH]; intros [|rows vals] rest H; try discriminate H; [reflexivity|].
  cbn [module_ok] in H. apply andb_true_iff in H as [Hs Hm].
  cbn [p_module enc_module]. rewrite <- app_assoc, (p_msec_enc sec rows _ Hs), (IH vals rest Hm). reflexivity.
Qed.

(* ---------- attr_value2 ---------- *)
(* it extends attr_value: on the attributes modelled in part 17 it IS attr_value *)
Theorem attr_value2_valued X V W rs tg loc name body : valued V name = true ->
  attr_value2 X V W rs tg loc name false body = attr_value X V rs loc name false body.
Proof. intros H. unfold attr_value2. rewrite H. reflexivity. Qed.

Lemma attr_value_not_valued X V rs loc name raw body : valued V name = false -> attr_value X V rs loc name raw body = None.
Proof.
  unfold valued, attr_value. intros H.
  apply orb_false_iff in H as [H Hl]. apply orb_false_iff in H as [H Hi]. apply orb_false_iff in H as [H He].
  apply orb_false_iff in H as [Ht Ha]. destruct raw; [reflexivity|]. rewrite Ht, Ha, He, Hi.
  destruct (assoc_layout name (vn_layouts V)); [discriminate Hl|reflexivity].
Qed.

(* … and nothing that attr_value delivers is lost *)
Theorem attr_value2_extends X V W rs tg loc name raw body val :
  attr_value X V rs loc name raw body = Some val -> attr_value2 X V W rs tg loc name raw body = Some val.
Proof.
  intros H. destruct raw; [discriminate H|]. unfold attr_value2.
  destruct (valued V name) eqn:Hv; [exact H|]. rewrite (attr_value_not_valued X V rs loc name false body Hv) in H. discriminate H.
Qed.

(* ConstantValue: the body is one index; the kind of the entry selects the variant; what is handed over is the entry's number /
   the string its string_index designates *)
Theorem attr_value2_constant X V W rs tg loc name i : valued V name = false -> str_eqb name (vn_constant W) = true ->
  attr_value2 X V W rs tg loc name false (e16 i) = canon_constant (vn_cv W) rs tg i.
Proof.
  intros Hv Hc. unfold attr_value2. rewrite Hv, Hc. rewrite <- (app_nil_r (e16 i)), rd16_e16. reflexivity.
Qed.

Theorem canon_constant_number CV rs tg i : assocN (tg i) CV = Some false -> canon_constant CV rs tg i = Some [tg i; rs_num rs (tg i) i].
Proof. intros H. unfold canon_constant. rewrite H. reflexivity. Qed.
Theorem canon_constant_string CV rs tg i : assocN (tg i) CV = Some true -> canon_constant CV rs tg i = Some (tg i :: rs_ref rs (tg i) i).
Proof. intros H. unfold canon_constant. rewrite H. reflexivity. Qed.
(* an entry of any other kind (a Class, a Utf8, …) is refused *)
Theorem canon_constant_refused CV rs tg i : assocN (tg i) CV = None -> canon_constant CV rs tg i = None.
Proof. intros H. unfold canon_constant. rewrite H. reflexivity. Qed.

(* Module: what the visitor is handed is the resolved, flattened value the body encodes *)
Theorem attr_value2_module X V W rs tg loc name vals : valued V name = false -> str_eqb name (vn_constant W) = false ->
  str_eqb name (vn_module W) = true -> module_ok (vn_msecs W) vals = true ->
  attr_value2 X V W rs tg loc name false (enc_module (vn_msecs W) vals) = Some (canon_module rs (vn_msecs W) vals).
Proof.
  intros Hv Hc Hm Hok. unfold attr_value2. rewrite Hv, Hc, Hm.
  rewrite <- (app_nil_r (enc_module (vn_msecs W) vals)), (p_module_enc (vn_msecs W) vals [] Hok). reflexivity.
Qed.

(* ---------- non-vacuity with the tables of the code as it is ---------- *)
Definition nConstantValue : str := vn_constant vnames2_gen.
Definition nModule : str := vn_module vnames2_gen.

(* module m { requires java.base (mandated); exports p to m2, m3; uses C; provides C with D, E }:
   name #5, flags open (0x20), no version; one row per vector *)
Definition ex_module : list (list mrow) :=
  [ [([5; 32; 0], [])];
    [([6; 32768; 7], [])];
    [([8; 0], [9; 10])];
    [];
    [([11], [])];
    [([11], [12; 13])] ].

Definition values2_nonvacuous : Prop :=
  valued vnames_gen nConstantValue = false /\ valued vnames_gen nModule = false
  /\ str_eqb nModule nConstantValue = false
  /\ module_ok module_secs_gen ex_module = true
  /\ enc_module module_secs_gen ex_module
     = [0;5; 0;32; 0;0;  0;1; 0;6; 128;0; 0;7;  0;1; 0;8; 0;0; 0;2; 0;9; 0;10;  0;0;  0;1; 0;11;  0;1; 0;11; 0;2; 0;12; 0;13]
  /\ (forall rs tg, attr_value2 xtable_gen vnames_gen vnames2_gen rs tg 0 nModule false (enc_module module_secs_gen ex_module)
        = Some (rs_ref rs 19 5 ++ [32] ++ [0]
                ++ [1] ++ rs_ref rs 19 6 ++ [32768] ++ 1 :: rs_ref rs 1 7
                ++ [1] ++ rs_ref rs 20 8 ++ [0] ++ [2] ++ rs_ref rs 19 9 ++ rs_ref rs 19 10
                ++ [0]
                ++ [1] ++ rs_ref rs 7 11
                ++ [1] ++ rs_ref rs 7 11 ++ [2] ++ rs_ref rs 7 12 ++ rs_ref rs 7 13))
  /\ (forall rs tg, tg 9 = 3 -> attr_value2 xtable_gen vnames_gen vnames2_gen rs tg 1 nConstantValue false [0;9] = Some [3; rs_num rs 3 9])
  /\ (forall rs tg, tg 9 = 8 -> attr_value2 xtable_gen vnames_gen vnames2_gen rs tg 1 nConstantValue false [0;9] = Some (8 :: rs_ref rs 8 9))
  /\ (forall rs tg, tg 9 = 7 -> attr_value2 xtable_gen vnames_gen vnames2_gen rs tg 1 nConstantValue false [0;9] = None).
Theorem values2_nonvacuous_holds : values2_nonvacuous.
Proof.
  unfold values2_nonvacuous. repeat split; try (vm_compute; reflexivity).
  - intros rs tg. change module_secs_gen with (vn_msecs vnames2_gen).
    rewrite (attr_value2_module xtable_gen vnames_gen vnames2_gen rs tg 0 nModule ex_module); try (vm_compute; reflexivity).
    cbn. rewrite ?app_nil_r. repeat (rewrite <- ?app_assoc; cbn [app]). reflexivity.
  - intros rs tg H. change [0;9] with (e16 9).
    rewrite (attr_value2_constant xtable_gen vnames_gen vnames2_gen rs tg 1 nConstantValue 9); try (vm_compute; reflexivity).
    rewrite canon_constant_number; rewrite H; reflexivity.
  - intros rs tg H. change [0;9] with (e16 9).
    rewrite (attr_value2_constant xtable_gen vnames_gen vnames2_gen rs tg 1 nConstantValue 9); try (vm_compute; reflexivity).
    rewrite canon_constant_string; rewrite H; reflexivity.
  - intros rs tg H. change [0;9] with (e16 9).
    rewrite (attr_value2_constant xtable_gen vnames_gen vnames2_gen rs tg 1 nConstantValue 9); try (vm_compute; reflexivity).
    rewrite canon_constant_refused; [reflexivity | rewrite H; reflexivity].
Qed.

(* through the whole chain: `class A { static final int f = <#6>; }` — the field carries ConstantValue -> #6 (an Integer entry).
   The class is well-formed, outside the known class; the full visitor wants the attribute at field 0 and is handed the
   Integer variant with the entry's bits; a visitor that is not interested in constant_value is handed nothing there, reading
   and replaying.
   constant pool: 1 "A", 2 Class #1, 3 "ConstantValue", 4 "f", 5 "I", 6 Integer 42 *)
Definition w_hdr5 : bytes :=
  [202;254;186;190; 0;0; 0;52] ++ e16 7
  ++ utf8 [65] ++ [7;0;1] ++ utf8 nConstantValue ++ utf8 [102] ++ utf8 [73] ++ [3; 0;0;0;42]
  ++ [0;33; 0;2; 0;0; 0;0].
Definition w_constant : cls := mkC w_hdr5 [mkM 25 4 5 [AtPlain (mkP 3 2 [0;6])]] [] [].
Definition F2 (rs : resolver) (tg : N -> N) := attr_value2 xtable_gen vnames_gen vnames2_gen rs tg.

Definition constant_example : Prop :=
  wf_b tables w_constant = true /\ once_b tables accept_tables_gen w_constant = true
  /\ replay_inexact tables accept_tables_gen (full_of w_constant) = false
  /\ wanted tables (v_full tables) (PField 0) nConstantValue
  /\ forall rs tg, tg 6 = 3 -> fvalue_at (F2 rs tg) (full_of w_constant) (PField 0) nConstantValue [3; rs_num rs 3 6].
Theorem constant_example_holds : constant_example.
Proof.
  unfold constant_example. repeat split; try (vm_compute; reflexivity).
  - exists (t_interests field_table). split; vm_compute; reflexivity.
  - intros rs tg H. exists false, [0;6]. split.
    + eexists. split; [vm_compute; reflexivity|]. do 4 eexists. split; [repeat (first [left; reflexivity | right])|]. left. reflexivity.
    + unfold F2. change [0;6] with (e16 6).
      rewrite (attr_value2_constant xtable_gen vnames_gen vnames2_gen rs tg (loc_of (PField 0)) nConstantValue 6); try (vm_compute; reflexivity).
      rewrite canon_constant_number; rewrite H; reflexivity.
Qed.

(* ---------- the known class, kind by kind ----------
   The strict builder (replay_inexact) refuses three situations: an attribute that EXTENDS a list with no element (F20a), a
   second attribute extending an already filled list ([replay_duplicate_refuted]), and a second attribute OVERWRITING an already
   assigned field (MSet: annotation_default, …).  The third has its witness here: an annotation method with two
   AnnotationDefault attributes — well-formed, the lenient builder keeps the last, the replay delivers one attribute where the
   reader delivered two.  So every kind of refusal is a situation in which the replay genuinely differs from the read.
   constant pool: 1 "A", 2 Class #1, 3 "AnnotationDefault", 4 "m", 5 "()I", 6 Integer 1, 7 Integer 2 *)
Definition nAnnotationDefault : str := element_attr_gen.
Definition w_hdr6 : bytes :=
  [202;254;186;190; 0;0; 0;52] ++ e16 8
  ++ utf8 [65] ++ [7;0;1] ++ utf8 nAnnotationDefault ++ utf8 [109] ++ utf8 [40;41;73] ++ [3; 0;0;0;1] ++ [3; 0;0;0;2]
  ++ [38;1; 0;2; 0;0; 0;0].
Definition w_overwrite : cls := mkC w_hdr6 [] [mkM 1025 4 5 [AtPlain (mkP 3 3 [73;0;6]); AtPlain (mkP 3 3 [73;0;7])]] [].

Theorem replay_overwrite_refuted : refutes w_overwrite (v_full tables).
Proof.
  apply (refutes_by_weight _ _ (tree_of_cls w_overwrite)); try (vm_compute; reflexivity).
  vm_compute. discriminate.
Qed.

(* … while ONE AnnotationDefault is outside the known class and is replayed with its value *)
Definition w_one_default : cls := mkC w_hdr6 [] [mkM 1025 4 5 [AtPlain (mkP 3 3 [73;0;7])]] [].
Definition one_default_example : Prop :=
  wf_b tables w_one_default = true /\ once_b tables accept_tables_gen w_one_default = true
  /\ replay_inexact tables accept_tables_gen (full_of w_one_default) = false
  /\ forall rs, value_at xtable_gen vnames_gen rs (full_of w_one_default) (PMethod 0) nAnnotationDefault [73; rs_num rs 3 7].
Theorem one_default_example_holds : one_default_example.
Proof.
  unfold one_default_example. do 3 (split; [vm_compute; reflexivity|]).
  intros rs. exists false, [73;0;7]. split.
  - eexists. split; [vm_compute; reflexivity|]. do 4 eexists. split; [repeat (first [left; reflexivity | right])|]. left. reflexivity.
  - vm_compute. reflexivity.
Qed.
