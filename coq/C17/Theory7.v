(* C17 — theory, part 7: the decidable form of well-formedness for the grammar of the
   correspondence run (a parsed body consumes exactly attribute_length), and non-vacuity. *)
From FB Require Import C17.Model C17.AttrTable C17.Theory C17.Theory2 C17.Theory3 C17.Theory4 C17.Theory5 C17.Theory6.

(* ---------- reading is stable under appending to the stream ---------- *)
Lemma rd8_app s r x s' : rd8 s = Ok (x, s') -> rd8 (s ++ r) = Ok (x, s' ++ r).
Proof. destruct s as [|a s]; [discriminate|]. cbn. intros [= <- <-]. reflexivity. Qed.
Lemma rd16_app s r x s' : rd16 s = Ok (x, s') -> rd16 (s ++ r) = Ok (x, s' ++ r).
Proof. destruct s as [|a [|b s]]; try discriminate. cbn. intros [= <- <-]. reflexivity. Qed.
Lemma rd32_app s r x s' : rd32 s = Ok (x, s') -> rd32 (s ++ r) = Ok (x, s' ++ r).
Proof. destruct s as [|a [|b [|c [|d s]]]]; try discriminate. cbn. intros [= <- <-]. reflexivity. Qed.

Lemma skipN_stable r : forall s n s', skipN s n = Ok s' -> skipN (s ++ r) n = Ok (s' ++ r).
Proof.
  induction s as [|a s IH]; intros n s'; cbn [skipN app].
  - destruct (n =? 0) eqn:E; [|discriminate]. intros [= <-]. apply N.eqb_eq in E. subst n. destruct r; reflexivity.
  - destruct (n =? 0) eqn:E.
    + intros [= <-]. reflexivity.
    + apply IH.
Qed.

Lemma takeN_stable r : forall s n a s', takeN s n = Ok (a, s') -> takeN (s ++ r) n = Ok (a, s' ++ r).
Proof.
  induction s as [|x s IH]; intros n a s'; cbn [takeN app].
  - destruct (n =? 0) eqn:E; [|discriminate]. intros [= <- <-]. apply N.eqb_eq in E. subst n. destruct r; reflexivity.
  - destruct (n =? 0) eqn:E.
    + intros [= <- <-]. reflexivity.
    + destruct (takeN s (N.pred n)) as [[p q]|] eqn:Et; [|discriminate].
      intros [= <- <-]. rewrite (IH _ _ _ Et). reflexivity.
Qed.

Lemma read_pool_entries_stable r : forall f count idx s acc p s',
  read_pool_entries f count idx s acc = Ok (p, s') ->
  forall f', (f <= f')%nat -> read_pool_entries f' count idx (s ++ r) acc = Ok (p, s' ++ r).
Proof.
  induction f as [|f IH]; intros count idx s acc p s' H f' Hf.
  - cbn [read_pool_entries] in H. destruct f'; cbn [read_pool_entries];
      destruct (count <=? idx); try discriminate; injection H as <- <-; reflexivity.
  - destruct f' as [|f']; [lia|]. cbn [read_pool_entries] in *.
    destruct (count <=? idx); [injection H as <- <-; reflexivity|].
    destruct (rd8 s) as [[tag s1]|] eqn:E8; [|discriminate]. rewrite (rd8_app _ r _ _ E8).
    destruct (tag =? 1).
    + destruct (rd16 s1) as [[l s2]|] eqn:E16; [|discriminate]. rewrite (rd16_app _ r _ _ E16).
      destruct (takeN s2 l) as [[u s3]|] eqn:Et; [|discriminate]. rewrite (takeN_stable r _ _ _ _ Et).
      apply (IH _ _ _ _ _ _ H). lia.
    + destruct (pool_entry_size tag) as [[sz slots]|]; [|discriminate].
      destruct (skipN s1 sz) as [s2|] eqn:Es; [|discriminate]. rewrite (skipN_stable r _ _ _ Es).
      apply (IH _ _ _ _ _ _ H). lia.
Qed.

Lemma read_pool_stable s r p s' : read_pool s = Ok (p, s') -> read_pool (s ++ r) = Ok (p, s' ++ r).
Proof.
  unfold read_pool. destruct (rd16 s) as [[count s1]|] eqn:E; [|discriminate]. rewrite (rd16_app _ r _ _ E).
  intros H. apply (read_pool_entries_stable r _ _ _ _ _ _ _ H). rewrite app_length. lia.
Qed.

Lemma read_header_stable s r h s' : read_header s = Ok (h, s') -> read_header (s ++ r) = Ok (h, s' ++ r).
Proof.
  unfold read_header.
  destruct (rd32 s) as [[magic s1]|] eqn:E1; [|discriminate]. rewrite (rd32_app _ r _ _ E1).
  destruct (negb (magic =? MAGIC)); [discriminate|].
  destruct (rd16 s1) as [[minor s2]|] eqn:E2; [|discriminate]. rewrite (rd16_app _ r _ _ E2).
  destruct (rd16 s2) as [[major s3]|] eqn:E3; [|discriminate]. rewrite (rd16_app _ r _ _ E3).
  destruct ((67 <? major) || ((major =? 67) && (0 <? minor))); [discriminate|].
  destruct (read_pool s3) as [[p s4]|] eqn:E4; [|discriminate]. rewrite (read_pool_stable _ r _ _ E4).
  destruct (rd16 s4) as [[access s5]|] eqn:E5; [|discriminate]. rewrite (rd16_app _ r _ _ E5).
  destruct (rd16 s5) as [[this s6]|] eqn:E6; [|discriminate]. rewrite (rd16_app _ r _ _ E6).
  destruct (rd16 s6) as [[super s7]|] eqn:E7; [|discriminate]. rewrite (rd16_app _ r _ _ E7).
  destruct (rd16 s7) as [[icount s8]|] eqn:E8; [|discriminate]. rewrite (rd16_app _ r _ _ E8).
  destruct (skipN s8 (2 * icount)) as [s9|] eqn:E9; [|discriminate]. rewrite (skipN_stable r _ _ _ E9).
  intros [= <- <-]. reflexivity.
Qed.

(* ---------- decidable well-formedness ---------- *)
Lemma g_len_resp_attr p T ct a : g_resp_attr g_len p T ct a.
Proof.
  destruct a; cbn [g_resp_attr].
  - intros name d r _ _. reflexivity.
  - apply Forall_forall. intros x _ name d r _ _. reflexivity.
  - apply Forall_forall. intros x _. apply Forall_forall. intros y _ name d r _ _. reflexivity.
Qed.

Lemma wf_b_wf T c : wf_b T c = true -> wf g_len T c (header_of c).
Proof.
  unfold wf_b, header_of. destruct (read_header (c_hdr c)) as [[h [|x s']]|] eqn:E; try discriminate.
  intros H. apply andb_prop in H as [H Hc]. apply andb_prop in H as [Hf Hm].
  constructor; try assumption.
  - intros r. rewrite (read_header_stable _ r _ _ E). reflexivity.
  - apply Forall_forall. intros m _. apply Forall_forall. intros a _. apply g_len_resp_attr.
  - apply Forall_forall. intros m _. apply Forall_forall. intros a _. apply g_len_resp_attr.
  - apply Forall_forall. intros a _. apply g_len_resp_attr.
Qed.

(* Th 1–3 with decidable hypotheses only, for the tables generated from the code as it is *)
Theorem position_decidable c : wf_b tables c = true ->
  forall v rest, read_class g_len tables v (enc c ++ rest) = Ok (spec_class tables v (header_of c) c, rest).
Proof. intros H. apply (position_independent tables g_len c (header_of c) generated_tables_ok (wf_b_wf _ _ H)). Qed.

Theorem projection_decidable c : wf_b tables c = true ->
  forall v rest,
    read_class g_len tables v (enc c ++ rest)
    = Ok (project tables v (spec_class tables (v_full tables) (header_of c) c), rest).
Proof.
  intros H v rest. rewrite (position_decidable c H).
  rewrite (spec_projection tables g_len c (header_of c) v generated_tables_ok (wf_b_wf _ _ H)). reflexivity.
Qed.

(* ---------- non-vacuity: a real class file (corpus/C17/g/c17/Plain.class, javac 17 -g -parameters:
   3 fields, 4 methods with Code / LineNumberTable / LocalVariableTable / MethodParameters, InnerClasses,
   NestMembers, SourceFile) is the encoding of a structure that satisfies the hypotheses ---------- *)
Definition ex_bytes : bytes := [202;254;186;190;0;0;0;61;0;47;10;0;2;0;3;7;0;4;12;0;5;0;6;1;0;16;106;97;118;97;47;108;97;110;103;47;79;98;106;101;99;116;1;0;6;60;105;110;105;116;62;1;0;3;40;41;86;8;0;8;1;0;1;99;9;0;10;0;11;7;0;12;12;0;8;0;13;1;0;9;99;49;55;47;80;108;97;105;110;1;0;18;76;106;97;118;97;47;108;97;110;103;47;83;116;114;105;110;103;59;5;0;0;0;0;0;0;0;5;9;0;10;0;17;12;0;18;0;19;1;0;1;98;1;0;1;74;1;0;1;97;1;0;1;73;1;0;13;67;111;110;115;116;97;110;116;86;97;108;117;101;1;0;4;67;111;100;101;1;0;15;76;105;110;101;78;117;109;98;101;114;84;97;98;108;101;1;0;18;76;111;99;97;108;86;97;114;105;97;98;108;101;84;97;98;108;101;1;0;4;116;104;105;115;1;0;11;76;99;49;55;47;80;108;97;105;110;59;1;0;3;110;97;116;1;0;3;97;100;100;1;0;5;40;73;73;41;73;1;0;1;120;1;0;1;121;1;0;16;77;101;116;104;111;100;80;97;114;97;109;101;116;101;114;115;1;0;8;60;99;108;105;110;105;116;62;1;0;10;83;111;117;114;99;101;70;105;108;101;1;0;10;80;108;97;105;110;46;106;97;118;97;1;0;11;78;101;115;116;77;101;109;98;101;114;115;7;0;39;1;0;12;99;49;55;47;80;108;97;105;110;36;79;112;7;0;41;1;0;15;99;49;55;47;80;108;97;105;110;36;67;111;108;111;114;7;0;43;1;0;17;99;49;55;47;80;108;97;105;110;36;67;111;108;111;114;36;49;1;0;12;73;110;110;101;114;67;108;97;115;115;101;115;1;0;2;79;112;1;0;5;67;111;108;111;114;0;33;0;10;0;2;0;0;0;3;0;0;0;20;0;21;0;0;0;8;0;18;0;19;0;0;0;16;0;8;0;13;0;1;0;22;0;0;0;2;0;7;0;4;0;1;0;5;0;6;0;1;0;23;0;0;0;61;0;2;0;1;0;0;0;11;42;183;0;1;42;18;7;181;0;9;177;0;0;0;2;0;24;0;0;0;14;0;3;0;0;0;4;0;4;0;3;0;10;0;4;0;25;0;0;0;12;0;1;0;0;0;11;0;26;0;27;0;0;1;8;0;28;0;6;0;0;0;0;0;29;0;30;0;2;0;23;0;0;0;66;0;2;0;3;0;0;0;4;27;28;96;172;0;0;0;2;0;24;0;0;0;6;0;1;0;0;0;6;0;25;0;0;0;32;0;3;0;0;0;4;0;26;0;27;0;0;0;0;0;4;0;31;0;21;0;1;0;0;0;4;0;32;0;21;0;2;0;33;0;0;0;9;2;0;31;0;0;0;32;0;0;0;8;0;34;0;6;0;1;0;23;0;0;0;31;0;2;0;0;0;0;0;7;20;0;14;179;0;16;177;0;0;0;1;0;24;0;0;0;6;0;1;0;0;0;3;0;3;0;35;0;0;0;2;0;36;0;37;0;0;0;8;0;3;0;38;0;40;0;42;0;44;0;0;0;26;0;3;0;38;0;10;0;45;6;8;0;40;0;10;0;46;64;8;0;42;0;0;0;0;64;16].

Definition nonvacuous : Prop :=
  exists c, dec_class tables ex_bytes = Some (c, []) /\ wf_b tables c = true /\ enc c = ex_bytes
            /\ (length (c_fields c) = 3 /\ length (c_methods c) = 4)%nat.

Lemma nonvacuous_holds : nonvacuous.
Proof.
  unfold nonvacuous.
  destruct (dec_class tables ex_bytes) as [[c r]|] eqn:E; [|vm_compute in E; discriminate E].
  vm_compute in E. injection E as <- <-.
  eexists. split; [reflexivity|]. split; [vm_compute; reflexivity|]. split; [vm_compute; reflexivity|]. split; reflexivity.
Qed.
