(* C17 — class files as nested records of attributes with explicit lengths: the structure, its
   encoding, the decidable well-formedness predicate (the hypothesis of the theorems) and a decoder.
   Definitions only. *)
From FB Require Import C17.Model.

Definition e16 (n : N) : bytes := [n / 256; n mod 256].
Definition e32 (n : N) : bytes := e16 (n / 65536) ++ e16 (n mod 65536).
Definition elen {A} (l : list A) : N := N.of_nat (length l).

(* ---------- structure ---------- *)
Record pattr := mkP { p_nidx : N; p_len : N; p_body : bytes }.   (* attribute_name_index, attribute_length, info *)

Inductive attr :=
| AtPlain (a : pattr)
| AtCode (nidx len max_stack max_locals : N) (code : bytes) (nexc : N) (exc : bytes) (attrs : list pattr)
| AtRecord (nidx len : N) (comps : list (N * N * list pattr)).

Record member := mkM { m_access : N; m_name : N; m_desc : N; m_attrs : list attr }.
Record cls := mkC { c_hdr : bytes; c_fields : list member; c_methods : list member; c_attrs : list attr }.

(* ---------- encoding ---------- *)
Definition enc_pattr (a : pattr) : bytes := e16 (p_nidx a) ++ e32 (p_len a) ++ p_body a.
Definition enc_pattrs (l : list pattr) : bytes := e16 (elen l) ++ flat_map enc_pattr l.
Definition code_body (ms ml : N) (code : bytes) (nexc : N) (exc : bytes) (attrs : list pattr) : bytes :=
  e16 ms ++ e16 ml ++ e32 (elen code) ++ code ++ e16 nexc ++ exc ++ enc_pattrs attrs.
Definition enc_rc (c : N * N * list pattr) : bytes := e16 (fst (fst c)) ++ e16 (snd (fst c)) ++ enc_pattrs (snd c).
Definition record_body (comps : list (N * N * list pattr)) : bytes := e16 (elen comps) ++ flat_map enc_rc comps.

Definition attr_nidx (a : attr) : N :=
  match a with AtPlain p => p_nidx p | AtCode n _ _ _ _ _ _ _ => n | AtRecord n _ _ => n end.
Definition attr_len (a : attr) : N :=
  match a with AtPlain p => p_len p | AtCode _ l _ _ _ _ _ _ => l | AtRecord _ l _ => l end.
Definition attr_body (a : attr) : bytes :=
  match a with
  | AtPlain p => p_body p
  | AtCode _ _ ms ml code nexc exc attrs => code_body ms ml code nexc exc attrs
  | AtRecord _ _ comps => record_body comps
  end.
Definition enc_attr (a : attr) : bytes := e16 (attr_nidx a) ++ e32 (attr_len a) ++ attr_body a.
Definition enc_attrs (l : list attr) : bytes := e16 (elen l) ++ flat_map enc_attr l.
Definition enc_member (m : member) : bytes := e16 (m_access m) ++ e16 (m_name m) ++ e16 (m_desc m) ++ enc_attrs (m_attrs m).
Definition enc_members (l : list member) : bytes := e16 (elen l) ++ flat_map enc_member l.
Definition enc (c : cls) : bytes :=
  c_hdr c ++ enc_members (c_fields c) ++ enc_members (c_methods c) ++ enc_attrs (c_attrs c).

(* ---------- well-formedness ---------- *)
Definition act_full (ct : ctx_table) (name : str) : option action := dispatch (t_arms ct) (t_interests ct) name.

Definition wf_plain_b (p : pool) (ct : ctx_table) (a : pattr) : bool :=
  match pool_utf8 p (p_nidx a) with
  | None => false
  | Some name =>
    (p_len a =? elen (p_body a)) &&
    match act_full ct name with
    | Some ASkip | Some (AParse _) | Some (AReadLen _) => true
    | Some (AFlag _) => match p_body a with [] => true | _ => false end   (* Deprecated / Synthetic have no body *)
    | _ => false
    end
  end.

(* the slot a plain attribute is stored in (when its arm stores), and whether that slot is insert_if_empty *)
Definition stores (p : pool) (ct : ctx_table) (a : pattr) : option (str * bool) :=
  match pool_utf8 p (p_nidx a) with
  | None => None
  | Some name => match act_full ct name with Some (AParse (DStore s o)) => Some (s, o) | _ => None end
  end.

(* no attribute fills an insert_if_empty slot that an earlier attribute of the list already filled *)
Fixpoint once_ok (p : pool) (ct : ctx_table) (l : list pattr) : bool :=
  match l with
  | [] => true
  | a :: l' =>
    match stores p ct a with
    | Some (s, _) => negb (existsb (fun b => match stores p ct b with Some (s', true) => str_eqb s' s | _ => false end) l')
    | None => true
    end && once_ok p ct l'
  end.

Definition wf_pattrs_b (p : pool) (ct : ctx_table) (l : list pattr) : bool :=
  forallb (wf_plain_b p ct) l && once_ok p ct l.

Inductive ctx_kind := KLeaf | KMethod | KClass.
Definition is_method (k : ctx_kind) : bool := match k with KMethod => true | _ => false end.
Definition is_class (k : ctx_kind) : bool := match k with KClass => true | _ => false end.

Definition wf_attr_b (p : pool) (T : reader_tables) (k : ctx_kind) (ct : ctx_table) (a : attr) : bool :=
  match a with
  | AtPlain pa => wf_plain_b p ct pa
  | AtCode nidx len ms ml code nexc exc attrs =>
      is_method k
      && match pool_utf8 p nidx with
         | Some name => match act_full ct name with Some (ACode _) => true | _ => false end
         | None => false
         end
      && (len =? elen (code_body ms ml code nexc exc attrs))
      && negb (elen code =? 0) && negb (65535 <? elen code) && (elen exc =? 8 * nexc)
      && wf_pattrs_b p (rt_code T) attrs
  | AtRecord nidx len comps =>
      is_class k
      && match pool_utf8 p nidx with
         | Some name => match act_full ct name with Some (ARecord _) => true | _ => false end
         | None => false
         end
      && (len =? elen (record_body comps))
      && forallb (fun c => wf_pattrs_b p (rt_rc T) (snd c)) comps
  end.

Definition plains (l : list attr) : list pattr :=
  flat_map (fun a => match a with AtPlain p => [p] | _ => [] end) l.
Definition is_rec (a : attr) : bool := match a with AtRecord _ _ _ => true | _ => false end.
Fixpoint count_rec (l : list attr) : nat :=
  match l with [] => O | a :: l' => (if is_rec a then 1 else 0) + count_rec l' end.

Definition wf_attrs_b (p : pool) (T : reader_tables) (k : ctx_kind) (ct : ctx_table) (l : list attr) : bool :=
  forallb (wf_attr_b p T k ct) l && once_ok p ct (plains l) && Nat.leb (count_rec l) 1.

Definition wf_member_b (p : pool) (T : reader_tables) (k : ctx_kind) (ct : ctx_table) (m : member) : bool :=
  wf_attrs_b p T k ct (m_attrs m).


(* ---------- decidable well-formedness of a whole class (for the grammar "a parsed body consumes
   exactly attribute_length") ---------- *)
Definition wf_b (T : reader_tables) (c : cls) : bool :=
  match read_header (c_hdr c) with
  | Ok (h, []) =>
      forallb (wf_member_b (h_pool h) T KLeaf (rt_field T)) (c_fields c)
      && forallb (wf_member_b (h_pool h) T KMethod (rt_method T)) (c_methods c)
      && wf_attrs_b (h_pool h) T KClass (rt_class T) (c_attrs c)
  | _ => false
  end.

Definition header_of (c : cls) : header :=
  match read_header (c_hdr c) with Ok (h, _) => h | Err => mkHeader [] 0 0 0 0 0 0 end.


(* ---------- decoding: bytes -> structure (used to show that the inputs of the correspondence
   run are encodings of well-formed structures, i.e. lie in the domain of the theorems) ---------- *)
Fixpoint dec_pattrs (n : nat) (s : bytes) : option (list pattr * bytes) :=
  match n with
  | O => Some ([], s)
  | S n' =>
    match rd16 s with Err => None | Ok (nidx, s1) =>
    match rd32 s1 with Err => None | Ok (len, s2) =>
    match takeN s2 len with Err => None | Ok (body, s3) =>
    match dec_pattrs n' s3 with None => None | Some (l, s4) => Some (mkP nidx len body :: l, s4) end end end end
  end.

Definition dec_pattr_list (s : bytes) : option (list pattr * bytes) :=
  match rd16 s with Err => None | Ok (count, s1) => dec_pattrs (N.to_nat count) s1 end.

Definition dec_code (nidx len : N) (body : bytes) : option attr :=
  match rd16 body with Err => None | Ok (ms, s1) =>
  match rd16 s1 with Err => None | Ok (ml, s2) =>
  match rd32 s2 with Err => None | Ok (clen, s3) =>
  match takeN s3 clen with Err => None | Ok (code, s4) =>
  match rd16 s4 with Err => None | Ok (nexc, s5) =>
  match takeN s5 (8 * nexc) with Err => None | Ok (exc, s6) =>
  match dec_pattr_list s6 with
  | Some (attrs, []) => Some (AtCode nidx len ms ml code nexc exc attrs)
  | _ => None
  end end end end end end end.

Fixpoint dec_rcs (n : nat) (s : bytes) : option (list (N * N * list pattr) * bytes) :=
  match n with
  | O => Some ([], s)
  | S n' =>
    match rd16 s with Err => None | Ok (name, s1) =>
    match rd16 s1 with Err => None | Ok (desc, s2) =>
    match dec_pattr_list s2 with None => None | Some (attrs, s3) =>
    match dec_rcs n' s3 with None => None | Some (l, s4) => Some ((name, desc, attrs) :: l, s4) end end end end
  end.

Definition dec_record (nidx len : N) (body : bytes) : option attr :=
  match rd16 body with Err => None | Ok (count, s1) =>
  match dec_rcs (N.to_nat count) s1 with
  | Some (comps, []) => Some (AtRecord nidx len comps)
  | _ => None
  end end.

Definition dec_attr (p : pool) (ct : ctx_table) (s : bytes) : option (attr * bytes) :=
  match rd16 s with Err => None | Ok (nidx, s1) =>
  match rd32 s1 with Err => None | Ok (len, s2) =>
  match takeN s2 len with Err => None | Ok (body, s3) =>
    let plain := AtPlain (mkP nidx len body) in
    let a := match pool_utf8 p nidx with
             | None => plain
             | Some name =>
               match act_full ct name with
               | Some (ACode _) => match dec_code nidx len body with Some a => a | None => plain end
               | Some (ARecord _) => match dec_record nidx len body with Some a => a | None => plain end
               | _ => plain
               end
             end in
    Some (a, s3)
  end end end.

Fixpoint dec_attrs (p : pool) (ct : ctx_table) (n : nat) (s : bytes) : option (list attr * bytes) :=
  match n with
  | O => Some ([], s)
  | S n' =>
    match dec_attr p ct s with None => None | Some (a, s1) =>
    match dec_attrs p ct n' s1 with None => None | Some (l, s2) => Some (a :: l, s2) end end
  end.
Definition dec_attr_list (p : pool) (ct : ctx_table) (s : bytes) : option (list attr * bytes) :=
  match rd16 s with Err => None | Ok (count, s1) => dec_attrs p ct (N.to_nat count) s1 end.

Fixpoint dec_members (p : pool) (ct : ctx_table) (n : nat) (s : bytes) : option (list member * bytes) :=
  match n with
  | O => Some ([], s)
  | S n' =>
    match rd16 s with Err => None | Ok (access, s1) =>
    match rd16 s1 with Err => None | Ok (name, s2) =>
    match rd16 s2 with Err => None | Ok (desc, s3) =>
    match dec_attr_list p ct s3 with None => None | Some (attrs, s4) =>
    match dec_members p ct n' s4 with None => None | Some (l, s5) => Some (mkM access name desc attrs :: l, s5) end end end end end
  end.
Definition dec_member_list (p : pool) (ct : ctx_table) (s : bytes) : option (list member * bytes) :=
  match rd16 s with Err => None | Ok (count, s1) => dec_members p ct (N.to_nat count) s1 end.

(* one class from the front of the stream, and the rest *)
Definition dec_class (T : reader_tables) (s : bytes) : option (cls * bytes) :=
  match read_header s with Err => None | Ok (h, s1) =>
  match dec_member_list (h_pool h) (rt_field T) s1 with None => None | Some (fs, s2) =>
  match dec_member_list (h_pool h) (rt_method T) s2 with None => None | Some (ms, s3) =>
  match dec_attr_list (h_pool h) (rt_class T) s3 with None => None | Some (attrs, s4) =>
    Some (mkC (firstn (length s - length s1) s) fs ms attrs, s4)
  end end end end.

(* the stream is a sequence of encodings of well-formed classes (fuel: one class per round) *)
Fixpoint stream_wf (T : reader_tables) (fuel : nat) (s : bytes) : bool :=
  match s with
  | [] => true
  | _ =>
    match fuel with
    | O => false
    | S f =>
      match dec_class T s with
      | None => false
      | Some (c, rest) => wf_b T c && str_eqb (enc c ++ rest) s && stream_wf T f rest
      end
    end
  end.

(* the visitor that wants everything and declines nothing *)
Definition v_full (T : reader_tables) : visitor :=
  mkVisitor true (t_interests (rt_class T))
    (fun _ => Some (t_interests (rt_field T))) (fun _ => Some (t_interests (rt_method T)))
    (fun _ => Some (t_interests (rt_code T))) (fun _ => Some (t_interests (rt_rc T))).
