(* C17 — theory, part 10: replaying the titem that the (strict) tree builder made of a list of
   attribute-level events delivers the projection of that list, as a multiset ([item_replay]).

   The proof follows the builder event by event: storing one more event changes the output of
   exactly one statement of accept() — the one that reads the field the event went into — and
   what that statement now emits in addition is what the projection keeps of the event. *)
From Coq Require Import Permutation PeanoNat.
From FB Require Import C17.Model C17.Theory C17.Theory2 C17.Theory3 C17.Struct C17.Replay C17.Theory6 C17.Theory8 C17.Theory9.

(* accept() on an titem whose flags have not been visited yet: nothing for SFlags (used for the
   intermediate states of the builder; a finished titem has its flags whenever accept() has SFlags) *)
Definition run_step' {K} (ct : ctx_table) (ac : accept_ctx) (AT : accept_tables) (na : naccept K)
    (m : mask) (st : titem K) (s : astep) : list ev :=
  match s, it_flags st with
  | SFlags, None => []
  | _, _ => run_step ct ac AT na m st s
  end.
Definition accept' {K} (ct : ctx_table) (ac : accept_ctx) (AT : accept_tables) (na : naccept K) (m : mask) (st : titem K) : list ev :=
  flat_map (run_step' ct ac AT na m st) (ac_steps ac).

Lemma flat_map_all_nil {A B} (f : A -> list B) l : (forall x, In x l -> f x = []) -> flat_map f l = [].
Proof.
  induction l as [|x l IH]; intros H; [reflexivity|]. cbn [flat_map].
  rewrite (H x (or_introl eq_refl)), IH; [reflexivity|]. intros y Hy. apply H. right; exact Hy.
Qed.

Lemma accept'_empty {K} ct ac AT (na : naccept K) m : accept' ct ac AT na m empty_item = [].
Proof.
  apply flat_map_all_nil. intros s _. destruct s; cbn; try reflexivity;
    repeat match goal with |- context [if ?b then _ else _] => destruct b end; reflexivity.
Qed.

(* ---------- steps that do not read a component are not affected by a change of it ---------- *)
Lemma assoc_set_other {A} f f' (v : A) l : str_eqb f f' = false -> assoc f' ((f, v) :: l) = assoc f' l.
Proof. intros H. cbn [assoc]. rewrite str_eqb_sym, H. reflexivity. Qed.
Lemma assoc_set_same {A} f (v : A) l : assoc f ((f, v) :: l) = Some v.
Proof. cbn [assoc]. rewrite str_eqb_refl. reflexivity. Qed.

Lemma untouched_slot {K} ct ac AT (na : naccept K) m st f v s :
  touches (CSlot f) s = false -> run_step' ct ac AT na m (set_slot f v st) s = run_step' ct ac AT na m st s.
Proof.
  unfold touches, run_step'. destruct s; cbn [step_comp comp_eqb set_slot it_flags]; intros H; try reflexivity;
    cbn [run_step set_slot it_slots it_flags it_unknown it_code it_rcs]; rewrite ?(assoc_set_other _ _ _ _ H); reflexivity.
Qed.

Definition with_unknown {K} (u : list (str * bytes)) (st : titem K) : titem K :=
  mkTI (it_flags st) (it_slots st) u (it_code st) (it_rcs st).
Definition with_flags {K} (fl : option (bool * bool)) (st : titem K) : titem K :=
  mkTI fl (it_slots st) (it_unknown st) (it_code st) (it_rcs st).
Definition with_code {K} (c : option (N * N * list str * list row * K)) (st : titem K) : titem K :=
  mkTI (it_flags st) (it_slots st) (it_unknown st) c (it_rcs st).
Definition with_rcs {K} (r : list (N * N * K)) (st : titem K) : titem K :=
  mkTI (it_flags st) (it_slots st) (it_unknown st) (it_code st) r.

Lemma untouched_unknown {K} ct ac AT (na : naccept K) m st u s :
  touches CUnknown s = false -> run_step' ct ac AT na m (with_unknown u st) s = run_step' ct ac AT na m st s.
Proof. unfold touches, run_step'. destruct s; cbn [step_comp comp_eqb]; intros H; try reflexivity; discriminate. Qed.
Lemma untouched_code {K} ct ac AT (na : naccept K) m st c s :
  touches CCode s = false -> run_step' ct ac AT na m (with_code c st) s = run_step' ct ac AT na m st s.
Proof. unfold touches, run_step'. destruct s; cbn [step_comp comp_eqb]; intros H; try reflexivity; discriminate. Qed.
Lemma untouched_rcs {K} ct ac AT (na : naccept K) m st r s :
  touches CRcs s = false -> run_step' ct ac AT na m (with_rcs r st) s = run_step' ct ac AT na m st s.
Proof. unfold touches, run_step'. destruct s; cbn [step_comp comp_eqb]; intros H; try reflexivity; discriminate. Qed.
Lemma untouched_flags {K} ct ac AT (na : naccept K) m st fl s :
  touches CFlags s = false -> run_step' ct ac AT na m (with_flags fl st) s = run_step' ct ac AT na m st s.
Proof.
  unfold touches, run_step'. destruct s; cbn [step_comp comp_eqb]; intros H; try discriminate;
    cbn [with_flags it_flags]; destruct fl, (it_flags st); reflexivity.
Qed.

(* the output of accept' around the one step that reads component [c] *)
Lemma accept'_decomp {K} ct ac AT (na : naccept K) m c x (st1 st2 : titem K) :
  unique_step c (ac_steps ac) = Some x ->
  (forall s, touches c s = false -> run_step' ct ac AT na m st2 s = run_step' ct ac AT na m st1 s) ->
  exists A1 A2,
    accept' ct ac AT na m st1 = A1 ++ run_step' ct ac AT na m st1 x ++ A2
    /\ accept' ct ac AT na m st2 = A1 ++ run_step' ct ac AT na m st2 x ++ A2.
Proof.
  intros Hu Hsame. destruct (unique_step_spec _ _ _ Hu) as (a & b & Hsteps & _ & Ha & Hb).
  exists (flat_map (run_step' ct ac AT na m st1) a), (flat_map (run_step' ct ac AT na m st1) b).
  unfold accept'. rewrite Hsteps, !flat_map_app. cbn [flat_map]. split; [reflexivity|].
  rewrite (flat_map_ext_in (run_step' ct ac AT na m st2) (run_step' ct ac AT na m st1) a)
    by (intros s Hs; apply Hsame, Ha, Hs).
  rewrite (flat_map_ext_in (run_step' ct ac AT na m st2) (run_step' ct ac AT na m st1) b)
    by (intros s Hs; apply Hsame, Hb, Hs).
  reflexivity.
Qed.

(* no step reads the component: nothing changes *)
Lemma accept'_same {K} ct ac AT (na : naccept K) m (st1 st2 : titem K) :
  (forall s, In s (ac_steps ac) -> run_step' ct ac AT na m st2 s = run_step' ct ac AT na m st1 s) ->
  accept' ct ac AT na m st2 = accept' ct ac AT na m st1.
Proof. intros H. apply flat_map_ext_in. exact H. Qed.

(* ---------- the nested items: what the lemma needs to know about Code and record components ---------- *)
Record nested_ok {K} (ct : ctx_table) (m : mask) (pe : ev -> list ev) (nb : nbuild K) (na : naccept K) : Prop := mkNO {
  no_code : forall attr ms ml fs xr es k, nb_code nb fs es = Ok k ->
    if keep_ct ct m attr then Forall2 sim_item (na_code na attr ms ml fs xr k) (pe (ECode attr ms ml fs xr es))
    else pe (ECode attr ms ml fs xr es) = [];
  no_rc : forall attr i n d es c, nb_rc nb es = Ok c ->
    if keep_ct ct m attr then Forall2 sim_item [na_rc na attr i n d c] (pe (ERc attr i n d (Some es)))
    else pe (ERc attr i n d (Some es)) = [];
}.

(* ---------- extraction of facts from the table check ---------- *)
Lemma forallb_In' {A} (f : A -> bool) l x : forallb f l = true -> In x l -> f x = true.
Proof. intros H Hin. rewrite forallb_forall in H. apply H. exact Hin. Qed.

Record ctx_facts (ct : ctx_table) (ac : accept_ctx) (AT : accept_tables) : Prop := mkCF {
  cf_visits : forallb (visit_entry_ok ct ac) (ac_visits ac) = true;
  cf_deferred : forallb (deferred_entry_ok ct ac AT) (ac_deferred ac) = true;
  cf_unknown : unknown_ok ct ac = true;
  cf_flags : flags_ok ct ac = true;
  cf_just : forallb (step_justified ct ac) (ac_steps ac) = true;
  cf_distinct : distinct_comps (ac_steps ac) = true;
  cf_cov : arms_covered ct ac = true;
  cf_nodup : nodup_b (builder_fields ac) = true;
}.
Lemma ctx_accept_ok_facts ct ac AT : ctx_accept_ok ct ac AT = true -> ctx_facts ct ac AT.
Proof.
  unfold ctx_accept_ok. intros H. repeat (apply andb_prop in H; destruct H as [H ?]). constructor; assumption.
Qed.

(* a stored name is governed as the check says *)
Lemma stored_names_spec ct except slot P name :
  ctx_ok ct except = true -> stored_names_ok ct slot P = true -> stores_into ct slot name = true -> P name = true.
Proof.
  intros Hct Hs Hst. unfold stores_into in Hst.
  destruct (act_full ct name) as [[| | [|s o] | | |]|] eqn:Ea; try discriminate.
  destruct (act_full_arm ct except name _ Hct Ea) as [Hin|[Hd _]]; [|discriminate].
  pose proof (forallb_In' _ _ _ Hs Hin) as Hp. cbn [a_pat a_guard a_act] in Hp.
  rewrite Hst in Hp. exact Hp.
Qed.

(* ---------- one event ---------- *)
Lemma mapi_from_app {A B} (f : nat -> A -> B) l1 l2 : forall k,
  mapi_from f k (l1 ++ l2) = mapi_from f k l1 ++ mapi_from f (k + length l1) l2.
Proof.
  induction l1 as [|x l1 IH]; intros k; cbn [app mapi_from length].
  - replace (k + 0)%nat with k by lia. reflexivity.
  - rewrite IH. f_equal. f_equal. f_equal. lia.
Qed.

Lemma flat_one_each l : flat_rows (one_each l) = l.
Proof.
  unfold one_each, flat_rows. induction l as [|[n r] l IH]; [reflexivity|].
  cbn [map flat_map fst snd app]. rewrite IH. reflexivity.
Qed.

(* filtering the rows by the attribute they came from = filtering the attributes *)
Lemma filter_flat_rows (p : str -> bool) srcs :
  filter (fun r => p (fst r)) (flat_rows srcs) = flat_rows (filter (fun x => p (fst x)) srcs).
Proof.
  unfold flat_rows. induction srcs as [|[n rs] srcs IH]; [reflexivity|].
  cbn [flat_map fst snd filter]. rewrite filter_app, IH.
  destruct (p n) eqn:E; cbn [flat_map fst snd].
  - f_equal. apply filter_all_true. intros x Hx. apply in_map_iff in Hx as (r & <- & _). exact E.
  - rewrite filter_all_false; [reflexivity|]. intros x Hx. apply in_map_iff in Hx as (r & <- & _). exact E.
Qed.

Lemma flat_rows_nil srcs : (forall x, In x srcs -> is_nil (snd x) = false) -> is_nil (flat_rows srcs) = is_nil srcs.
Proof.
  destruct srcs as [|[n rs] srcs]; intros H; [reflexivity|].
  specialize (H (n, rs) (or_introl eq_refl)). cbn [snd] in H.
  destruct rs; [discriminate|]. reflexivity.
Qed.

Lemma has_rows_flat srcs : has_rows srcs = negb (is_nil (flat_rows srcs)).
Proof.
  unfold has_rows, flat_rows. induction srcs as [|[n rs] srcs IH]; [reflexivity|].
  cbn [existsb flat_map fst snd]. destruct rs as [|r rs]; [cbn [map app orb]; exact IH|reflexivity].
Qed.

Lemma Forall2_refl_sim l : Forall2 sim_item l l.
Proof.
  induction l as [|e l IH]; constructor; [|exact IH].
  destruct e; cbn; try reflexivity; try (split; reflexivity).
  - repeat split. apply perm_rel_refl. apply sim_leaf_refl.
  - repeat split. destruct es; cbn; [apply perm_rel_refl; apply sim_leaf_refl|exact I].
Qed.

(* conclusion of the step lemma: the output grew by [X] somewhere, and X is what the projection keeps of the event *)
Definition grows {K} ct ac AT (na : naccept K) m (st st' : titem K) (Y : list ev) : Prop :=
  exists A1 A2 X, accept' ct ac AT na m st = A1 ++ A2 /\ accept' ct ac AT na m st' = A1 ++ X ++ A2 /\ Forall2 sim_item X Y.

Lemma grows_sim {K} ct ac AT (na : naccept K) m st st' Y P :
  grows ct ac AT na m st st' Y -> sim_items (accept' ct ac AT na m st) P -> sim_items (accept' ct ac AT na m st') (P ++ Y).
Proof.
  intros (A1 & A2 & X & E1 & E2 & F) H. rewrite E2. rewrite E1 in H.
  apply perm_rel_insert; assumption.
Qed.

(* from a decomposition around the unique step: old output R, new output R ++ X *)
Lemma grows_of_decomp {K} ct ac AT (na : naccept K) m c x (st st' : titem K) X Y :
  unique_step c (ac_steps ac) = Some x ->
  (forall s, touches c s = false -> run_step' ct ac AT na m st' s = run_step' ct ac AT na m st s) ->
  run_step' ct ac AT na m st' x = run_step' ct ac AT na m st x ++ X ->
  Forall2 sim_item X Y ->
  grows ct ac AT na m st st' Y.
Proof.
  intros Hu Hsame Hx F.
  destruct (accept'_decomp ct ac AT na m c x st st' Hu Hsame) as (A1 & A2 & E1 & E2).
  exists (A1 ++ run_step' ct ac AT na m st x), A2, X. repeat split.
  - rewrite E1, <- app_assoc. reflexivity.
  - rewrite E2, Hx, <- !app_assoc. reflexivity.
  - exact F.
Qed.

Lemma filter_keep_all {B} ct m g (srcs : list (str * B)) :
  (forall x, In x srcs -> gov ct (fst x) = Some g) ->
  filter (fun x => keep_ct ct m (fst x)) srcs = if interested m g then srcs else [].
Proof.
  intros H. destruct (interested m g) eqn:E.
  - apply filter_all_true. intros x Hx. rewrite (keep_gov ct m _ g (H x Hx)). exact E.
  - apply filter_all_false. intros x Hx. rewrite (keep_gov ct m _ g (H x Hx)). exact E.
Qed.

Lemma fill_strict_spec {K} row b (st st' : titem K) :
  fill true row b st = Ok st' ->
  b_mode row <> MPush /\ assoc (b_field row) (it_slots st) = None /\ st' = set_slot (b_field row) (VBody b) st.
Proof.
  unfold fill. destruct (b_mode row).
  - destruct (assoc (b_field row) (it_slots st)); [discriminate|]. intros [= <-]. repeat split; discriminate.
  - destruct (assoc (b_field row) (it_slots st)); [discriminate|]. intros [= <-]. repeat split; discriminate.
  - destruct (count_of b =? 0); [discriminate|].
    destruct (assoc (b_field row) (it_slots st)) as [[a|l]|]; try discriminate. intros [= <-]. repeat split; discriminate.
  - discriminate.
Qed.

(* the named attributes: one lemma for `AParse DNow` (raw = false) and `AReadLen false` (raw = true) *)
Lemma named_step {K} ct except ac AT (nb : nbuild K) (na : naccept K) m pe name raw body row (st st' : titem K) :
  ctx_ok ct except = true -> ctx_facts ct ac AT -> attr_like ct m pe ->
  (act_full ct name = Some (AParse DNow) /\ raw = false \/ act_full ct name = Some (AReadLen false) /\ raw = true) ->
  row_of ac name = Some row -> fill true row body st = Ok st' ->
  grows ct ac AT na m st st' (pe (EAttr name raw body)).
Proof.
  intros Hct CF Hal Hact Hrow Hfill.
  unfold row_of in Hrow. destruct (assoc name (ac_visits ac)) as [V|] eqn:EV; [|discriminate].
  pose proof (forallb_In' _ _ _ (cf_visits _ _ _ CF) (assoc_In _ _ _ EV)) as Hv.
  unfold visit_entry_ok in Hv. cbn [fst snd] in Hv.
  apply andb_prop in Hv as [Hv Hs]. apply andb_prop in Hv as [_ Hr]. apply ostr_eqb_eq in Hr.
  rewrite Hrow in Hs.
  destruct (fill_strict_spec _ _ _ _ Hfill) as (Hmode & Hnone & ->).
  assert (Hraw : raw_of ct name = raw) by (unfold raw_of; destruct Hact as [[-> ->]|[-> ->]]; reflexivity).
  destruct (act_full ct name) as [act|] eqn:Ea; [|destruct Hact as [[? _]|[? _]]; discriminate].
  destruct (gov ct name) as [g|] eqn:Eg; [|discriminate].
  assert (Hcomp : entry_comp act row = CSlot (b_field row)) by (destruct Hact as [[[= ->] _]|[[= ->] _]]; reflexivity).
  rewrite Hcomp in Hs.
  destruct (unique_step (CSlot (b_field row)) (ac_steps ac)) as [s|] eqn:Eu; [|discriminate].
  rewrite (al_attr _ _ _ Hal), (keep_gov ct m name g Eg).
  assert (Hshape : exists g' f V', (s = SOpt g' f V' \/ s = SVec g' f V') /\ g = g' /\ b_field row = f /\ V = V').
  { unfold entry_step_ok in Hs.
    destruct Hact as [[[= ->] _]|[[= ->] _]]; destruct (b_mode row); try discriminate; destruct s; try discriminate;
      repeat (apply andb_prop in Hs; destruct Hs as [Hs ?]);
      repeat match goal with H : str_eqb _ _ = true |- _ => apply str_eqb_eq in H end; subst;
      do 3 eexists; (split; [(left; reflexivity) || (right; reflexivity)|auto]). }
  destruct Hshape as (g' & f & V' & Hs' & <- & Hf & <-).
  apply (grows_of_decomp ct ac AT na m (CSlot (b_field row)) s st _
           (if interested m g then [EAttr name raw body] else []) _ Eu).
  - intros s0 H0. apply untouched_slot. exact H0.
  - assert (E1 : run_step' ct ac AT na m st s = []).
    { unfold run_step'. destruct Hs' as [-> | ->]; cbn [run_step]; rewrite <- Hf, Hnone;
        destruct (interested m g); reflexivity. }
    rewrite E1. cbn [app].
    unfold run_step'. destruct Hs' as [-> | ->]; cbn [run_step set_slot it_slots it_flags];
      rewrite <- Hf, assoc_set_same, Hr, Hraw; destruct (interested m g); reflexivity.
  - destruct (interested m g); [apply Forall2_refl_sim|constructor].
Qed.

Lemma step_grows {K} ct except ac AT (nb : nbuild K) (na : naccept K) m pe (st st' : titem K) e :
  ctx_ok ct except = true -> ctx_facts ct ac AT -> attr_like ct m pe -> nested_ok ct m pe nb na ->
  build_step true ct ac nb st e = Ok st' ->
  grows ct ac AT na m st st' (pe e).
Proof.
  intros Hct CF Hal Hno Hb. destruct e as [name raw body | d sy | slot srcs | attr | attr ms ml fs xr es | attr k n d [es|] | | ];
    cbn [build_step] in Hb; try discriminate.
  - (* EAttr *)
    destruct (act_full ct name) as [[| | [|? ?] | [|] | |]|] eqn:Ea; try discriminate.
    + (* AParse DNow *)
      destruct raw; [discriminate|]. destruct (row_of ac name) as [row|] eqn:Er; [|discriminate].
      eapply named_step; eauto.
    + (* the default arm: unknown attribute *)
      destruct raw; [|discriminate]. injection Hb as <-.
      pose proof (cf_unknown _ _ _ CF) as Hu. unfold unknown_ok in Hu. apply andb_prop in Hu as [Hu Hnn].
      destruct (find_row (ac_unknown_visit ac) (ac_builder ac)) as [row|]; [|discriminate].
      destruct (b_mode row); try discriminate.
      destruct (unique_step CUnknown (ac_steps ac)) as [[| | |g f V| | | | | | | |]|] eqn:Eu; try discriminate.
      apply andb_prop in Hu as [Hu _]. apply andb_prop in Hu as [Hg _]. apply str_eqb_eq in Hg. subst g.
      assert (Hgov : gov ct name = Some fUnknown).
      { destruct (act_full_arm ct except name _ Hct Ea) as [Hin|[_ Hg]]; [|exact Hg].
        pose proof (forallb_In' _ _ _ Hnn Hin) as Hp. cbn [a_pat a_act] in Hp. discriminate. }
      rewrite (al_attr _ _ _ Hal), (keep_gov ct m name _ Hgov).
      change (mkTI (it_flags st) (it_slots st) (it_unknown st ++ [(name, body)]) (it_code st) (it_rcs st))
        with (with_unknown (it_unknown st ++ [(name, body)]) st).
      apply (grows_of_decomp ct ac AT na m CUnknown _ st _ (if interested m fUnknown then [EAttr name true body] else []) _ Eu).
      * intros s0 H0. apply untouched_unknown. exact H0.
      * unfold run_step'. cbn [run_step with_unknown it_unknown it_flags].
        destruct (interested m fUnknown); [|reflexivity]. rewrite map_app. reflexivity.
      * destruct (interested m fUnknown); [apply Forall2_refl_sim|constructor].
    + (* AReadLen false *)
      destruct raw; [|discriminate]. destruct (row_of ac name) as [row|] eqn:Er; [|discriminate].
      eapply named_step; eauto.
  - (* EFlags *)
    destruct (t_flags_event ct) eqn:Etf; [|discriminate]. destruct (it_flags st) eqn:Efl; [discriminate|].
    injection Hb as <-. rewrite (al_flags _ _ _ Hal).
    pose proof (cf_flags _ _ _ CF) as Hf. unfold flags_ok in Hf. rewrite Etf in Hf.
    destruct (unique_step CFlags (ac_steps ac)) as [[| | | | | | | | | | |]|] eqn:Eu; try discriminate.
    change (mkTI (Some (d, sy)) (it_slots st) (it_unknown st) (it_code st) (it_rcs st)) with (with_flags (Some (d, sy)) st).
    apply (grows_of_decomp ct ac AT na m CFlags _ st _ [EFlags d sy] _ Eu).
    + intros s0 H0. apply untouched_flags. exact H0.
    + unfold run_step'. cbn [with_flags it_flags run_step]. rewrite Efl. reflexivity.
    + apply Forall2_refl_sim.
  - (* EDeferred *)
    destruct (assoc slot (ac_deferred ac)) as [V|] eqn:EV; [|discriminate].
    destruct (find_row V (ac_builder ac)) as [row|] eqn:Erow; [|discriminate].
    destruct (negb (forallb (fun x => stores_into ct slot (fst x)) srcs)) eqn:Est; [discriminate|].
    apply negb_false_iff in Est.
    destruct (true && is_nil srcs) eqn:Hnil; [discriminate|].
    cbn [andb] in Hnil.
    destruct (b_mode row) eqn:Emode; try discriminate.
    destruct (assoc (b_field row) (it_slots st)) eqn:Enone; [discriminate|]. injection Hb as <-.
    pose proof (forallb_In' _ _ _ (cf_deferred _ _ _ CF) (assoc_In _ _ _ EV)) as Hd.
    unfold deferred_entry_ok in Hd. cbn [fst snd] in Hd. rewrite Erow, Emode in Hd.
    apply andb_prop in Hd as [Hd Hs]. apply andb_prop in Hd as [Hd _]. apply andb_prop in Hd as [_ Hr]. apply ostr_eqb_eq in Hr.
    rewrite (al_def _ _ _ Hal).
    destruct (unique_step (CSlot (b_field row)) (ac_steps ac)) as [[|g f V'| | | | | | | | | |flags f V' kinds whole]|] eqn:Eu; try discriminate.
    + (* replayed by `if let Some(table)`: line numbers; the reader hands the table over whenever it is filled *)
      apply andb_prop in Hs as [Hs Hwn]. apply andb_prop in Hs as [Hs Hnames]. apply andb_prop in Hs as [Hf HV].
      apply str_eqb_eq in Hf, HV. subst V'.
      assert (Hgov : forall x, In x srcs -> gov ct (fst x) = Some g).
      { intros x Hx. apply ostr_eqb_eq.
        apply (stored_names_spec ct except slot (fun x => ostr_eqb (gov ct x) g) (fst x) Hct Hnames).
        apply (forallb_In' _ _ _ Est Hx). }
      rewrite (filter_keep_all ct m g srcs Hgov).
      assert (Hdel : table_delivered ct m slot (if interested m g then srcs else []) = interested m g).
      { destruct (interested m g); [|reflexivity]. unfold table_delivered.
        destruct srcs as [|x0 srcs0]; [discriminate Hnil|].
        destruct (whole_of slot (t_whole ct)); [discriminate Hwn|reflexivity]. }
      rewrite Hdel.
      apply (grows_of_decomp ct ac AT na m (CSlot (b_field row)) _ st _
               (if interested m g then [EDeferred slot (one_each (flat_rows srcs))] else []) _ Eu).
      * intros s0 H0. apply untouched_slot. exact H0.
      * unfold run_step'. cbn [run_step set_slot it_slots it_flags]. rewrite <- Hf, Enone, assoc_set_same, Hr.
        destruct (interested m g); reflexivity.
      * destruct (interested m g); [|constructor].
        constructor; [|constructor].
        cbn [sim_item sim_leaf]. split; [reflexivity|]. unfold same_rows. apply flat_one_each.
    + (* replayed by Code::accept's filter: local variables; reader and replay apply the same guard to what is left of the table *)
      apply andb_prop in Hs as [Hs Hw]. apply andb_prop in Hs as [Hs Hnames]. apply andb_prop in Hs as [Hf HV].
      apply str_eqb_eq in Hf, HV. subst V'.
      destruct (whole_of slot (t_whole ct)) as [w|] eqn:Ew; [|discriminate]. apply strs_eqb_eq in Hw. subst w.
      assert (Hk : forall x, In x srcs -> exists g, gov ct (fst x) = Some g /\ kind_flag AT kinds (fst x) = Some g /\ mem g flags = true /\ mem g whole = true).
      { intros x Hx.
        pose proof (stored_names_spec ct except slot _ (fst x) Hct Hnames (forallb_In' _ _ _ Est Hx)) as Hp.
        cbv beta in Hp. destruct (gov ct (fst x)) as [g|]; [|discriminate].
        apply andb_prop in Hp as [Hp Hp3]. apply andb_prop in Hp as [Hp1 Hp2]. apply ostr_eqb_eq in Hp1. exists g. auto. }
      set (P := fun n : str => match kind_flag AT kinds n with Some g => interested m g | None => false end).
      set (S := filter (fun x => keep_ct ct m (fst x)) srcs) in *.
      assert (HS : filter (fun r : str * Model.row => P (fst r)) (flat_rows srcs) = flat_rows S).
      { rewrite filter_flat_rows. f_equal. apply filter_ext_in. intros x Hx.
        destruct (Hk x Hx) as (g & Hg1 & Hg2 & _). unfold P. rewrite Hg2, (keep_gov ct m _ g Hg1). reflexivity. }
      pose proof (has_rows_flat S) as Hhr.
      set (D := table_delivered ct m slot S).
      assert (HD : (if existsb (interested m) flags
                    then (if negb (is_nil (flat_rows S)) || forallb (interested m) whole then [EDeferred slot (one_each (flat_rows S))] else [])
                    else [])
                   = if D then [EDeferred slot (one_each (flat_rows S))] else []).
      { unfold D, table_delivered. rewrite Ew, Hhr.
        destruct (existsb (interested m) flags) eqn:Eex.
        - destruct (negb (is_nil (flat_rows S))) eqn:Enr; cbn [orb].
          + destruct S as [|y S0]; [cbn in Enr; discriminate Enr|reflexivity].
          + destruct (forallb (interested m) whole) eqn:Ewh.
            * (* a visitor with all the interests of the guard keeps every source *)
              assert (HSall : S = srcs).
              { unfold S. apply filter_all_true. intros x Hx. destruct (Hk x Hx) as (g & Hg1 & _ & _ & Hg4).
                rewrite (keep_gov ct m _ g Hg1). rewrite forallb_forall in Ewh. apply Ewh.
                unfold mem in Hg4. apply existsb_exists in Hg4 as (y & Hy & Hyg). apply str_eqb_eq in Hyg. subst y. exact Hy. }
              rewrite HSall. destruct srcs; [discriminate Hnil|reflexivity].
            * destruct S; reflexivity.
        - (* no flag of the outer test is on: no source is kept *)
          assert (HSn : S = []).
          { apply filter_all_false. intros x Hx. destruct (Hk x Hx) as (g & Hg1 & _ & Hg3 & _).
            rewrite (keep_gov ct m _ g Hg1).
            destruct (interested m g) eqn:Ei; [|reflexivity].
            assert (existsb (interested m) flags = true).
            { apply existsb_exists. exists g. split; [|exact Ei].
              unfold mem in Hg3. apply existsb_exists in Hg3 as (y & Hy & Hyg). apply str_eqb_eq in Hyg. subst y. exact Hy. }
            congruence. }
          rewrite HSn. reflexivity. }
      apply (grows_of_decomp ct ac AT na m (CSlot (b_field row)) _ st _
               (if D then [EDeferred slot (one_each (flat_rows S))] else []) _ Eu).
      * intros s0 H0. apply untouched_slot. exact H0.
      * unfold run_step'. cbn [run_step set_slot it_slots it_flags]. rewrite <- Hf, Enone, assoc_set_same, Hr.
        change (filter (fun r : str * Model.row => match kind_flag AT kinds (fst r) with Some g => interested m g | None => false end) (flat_rows srcs))
          with (filter (fun r : str * Model.row => P (fst r)) (flat_rows srcs)).
        rewrite HS, <- HD.
        destruct (existsb (interested m) flags); reflexivity.
      * destruct D; [|constructor]. constructor; [|constructor].
        cbn [sim_item sim_leaf]. split; [reflexivity|]. unfold same_rows. apply flat_one_each.
  - (* ECode *)
    destruct (act_full ct attr) as [[| | | |sk|]|] eqn:Ea; try discriminate.
    destruct (row_of ac attr) as [row|] eqn:Erow; [|discriminate].
    destruct (b_mode row) eqn:Emode; try discriminate. destruct (it_code st) eqn:Ecode; [discriminate|].
    destruct (nb_code nb fs es) as [k|] eqn:Enb; [|discriminate]. injection Hb as <-.
    unfold row_of in Erow. destruct (assoc attr (ac_visits ac)) as [V|] eqn:EV; [|discriminate].
    pose proof (forallb_In' _ _ _ (cf_visits _ _ _ CF) (assoc_In _ _ _ EV)) as Hv.
    unfold visit_entry_ok in Hv. cbn [fst snd] in Hv. rewrite Ea, Erow in Hv.
    apply andb_prop in Hv as [Hv Hs]. apply andb_prop in Hv as [_ Hr]. apply ostr_eqb_eq in Hr.
    destruct (gov ct attr) as [g|] eqn:Eg; [|discriminate]. cbn [entry_comp] in Hs.
    destruct (unique_step CCode (ac_steps ac)) as [s|] eqn:Eu; [|discriminate].
    unfold entry_step_ok in Hs. rewrite Emode in Hs. destruct s; try discriminate.
    apply andb_prop in Hs as [Hs HV]. apply andb_prop in Hs as [Hg _]. apply str_eqb_eq in Hg, HV. subst flag visit.
    pose proof (no_code _ _ _ _ _ Hno attr ms ml fs xr es k Enb) as Hn. rewrite (keep_gov ct m attr g Eg) in Hn.
    change (mkTI (it_flags st) (it_slots st) (it_unknown st) (Some (ms, ml, fs, xr, k)) (it_rcs st)) with (with_code (Some (ms, ml, fs, xr, k)) st).
    apply (grows_of_decomp ct ac AT na m CCode _ st _ (if interested m g then na_code na attr ms ml fs xr k else []) _ Eu).
    + intros s0 H0. apply untouched_code. exact H0.
    + unfold run_step'. cbn [run_step with_code it_code it_flags]. rewrite Ecode, Hr.
      destruct (interested m g); reflexivity.
    + destruct (interested m g); [exact Hn|rewrite Hn; constructor].
  - (* ERc *)
    destruct (act_full ct attr) as [[| | | | |o]|] eqn:Ea; try discriminate.
    destruct (row_of ac attr) as [row|] eqn:Erow; [|discriminate].
    destruct (b_mode row) eqn:Emode; try discriminate.
    destruct (Nat.eqb k (length (it_rcs st))) eqn:Ek; [|discriminate]. apply Nat.eqb_eq in Ek. subst k.
    destruct (nb_rc nb es) as [c|] eqn:Enb; [|discriminate]. injection Hb as <-.
    unfold row_of in Erow. destruct (assoc attr (ac_visits ac)) as [V|] eqn:EV; [|discriminate].
    pose proof (forallb_In' _ _ _ (cf_visits _ _ _ CF) (assoc_In _ _ _ EV)) as Hv.
    unfold visit_entry_ok in Hv. cbn [fst snd] in Hv. rewrite Ea, Erow in Hv.
    apply andb_prop in Hv as [Hv Hs]. apply andb_prop in Hv as [_ Hr]. apply ostr_eqb_eq in Hr.
    destruct (gov ct attr) as [g|] eqn:Eg; [|discriminate]. cbn [entry_comp] in Hs.
    destruct (unique_step CRcs (ac_steps ac)) as [s|] eqn:Eu; [|discriminate].
    unfold entry_step_ok in Hs. rewrite Emode in Hs. destruct s; try discriminate.
    apply andb_prop in Hs as [Hs HV]. apply andb_prop in Hs as [Hg _]. apply str_eqb_eq in Hg, HV. subst flag visit.
    pose proof (no_rc _ _ _ _ _ Hno attr (length (it_rcs st)) n d es c Enb) as Hn. rewrite (keep_gov ct m attr g Eg) in Hn.
    change (mkTI (it_flags st) (it_slots st) (it_unknown st) (it_code st) (it_rcs st ++ [(n, d, c)])) with (with_rcs (it_rcs st ++ [(n, d, c)]) st).
    apply (grows_of_decomp ct ac AT na m CRcs _ st _ (if interested m g then [na_rc na attr (length (it_rcs st)) n d c] else []) _ Eu).
    + intros s0 H0. apply untouched_rcs. exact H0.
    + unfold run_step'. cbn [run_step with_rcs it_rcs it_flags]. rewrite Hr.
      destruct (interested m g); [|reflexivity].
      rewrite mapi_from_app. cbn [mapi_from fst snd Nat.add]. reflexivity.
    + destruct (interested m g); [exact Hn|rewrite Hn; constructor].
Qed.

(* ---------- all events of an titem ---------- *)
Lemma fold_grows {K} ct except ac AT (nb : nbuild K) (na : naccept K) m pe :
  ctx_ok ct except = true -> ctx_facts ct ac AT -> attr_like ct m pe -> nested_ok ct m pe nb na ->
  forall es (st st' : titem K) P,
    fold_res (build_step true ct ac nb) es st = Ok st' ->
    sim_items (accept' ct ac AT na m st) P ->
    sim_items (accept' ct ac AT na m st') (P ++ flat_map pe es).
Proof.
  intros Hct CF Hal Hno. induction es as [|e es IH]; intros st st' P Hf HP; cbn [fold_res flat_map] in *.
  - injection Hf as <-. rewrite app_nil_r. exact HP.
  - destruct (build_step true ct ac nb st e) as [st1|] eqn:Eb; [|discriminate].
    rewrite app_assoc. apply (IH st1 st' _ Hf).
    apply (grows_sim ct ac AT na m st st1). 2: exact HP.
    eapply step_grows; eauto.
Qed.

(* a finished titem: accept and accept' agree, and normalising the fields does not change what accept reads *)
Lemma nodup_b_assoc_norm fields (s : list (str * sval)) f :
  nodup_b fields = true -> In f fields -> assoc f (norm_slots fields s) = assoc f s.
Proof.
  unfold norm_slots. induction fields as [|f0 fields IH]; intros Hnd Hin; [destruct Hin|].
  cbn [nodup_b] in Hnd. apply andb_prop in Hnd as [Hn0 Hnd]. apply negb_true_iff in Hn0.
  cbn [flat_map].
  assert (Hskip : forall g, mem g fields = false ->
            assoc g (flat_map (fun f1 => match assoc f1 s with Some v => [(f1, v)] | None => [] end) fields) = None).
  { clear. induction fields as [|f1 fields IH]; intros g Hg; [reflexivity|].
    cbn [mem existsb] in Hg. apply orb_false_iff in Hg as [Hg1 Hg2]. cbn [flat_map].
    destruct (assoc f1 s); cbn [app assoc]; [rewrite Hg1|]; apply IH; exact Hg2. }
  destruct (str_eqb_spec f f0) as [->|Hne].
  - destruct (assoc f0 s) as [v|] eqn:E; cbn [app assoc].
    + rewrite str_eqb_refl. reflexivity.
    + apply Hskip. exact Hn0.
  - destruct Hin as [->|Hin]; [congruence|].
    destruct (assoc f0 s) as [v|]; cbn [app assoc].
    + apply str_eqb_neq in Hne. rewrite Hne. apply IH; assumption.
    + apply IH; assumption.
Qed.

Definition step_field (s : astep) : option str :=
  match s with SOpt _ f _ | SVec _ f _ | SLocals _ f _ _ _ => Some f | _ => None end.

Lemma justified_field ct ac s f : step_justified ct ac s = true -> step_field s = Some f -> In f (builder_fields ac).
Proof.
  unfold step_justified, step_field.
  assert (H : forall V f0, (match find_row V (ac_builder ac) with Some row => str_eqb f0 (b_field row) | None => false end) = true -> In f0 (builder_fields ac)).
  { intros V f0 H. destruct (find_row V (ac_builder ac)) as [row|] eqn:E; [|discriminate].
    apply str_eqb_eq in H. subst f0. unfold builder_fields. apply in_map. apply (find_row_spec _ _ _ E). }
  destruct s; try discriminate; intros Hj [= <-]; apply andb_prop in Hj as [Hj _]; apply andb_prop in Hj as [_ Hj]; eapply H; eauto.
Qed.

Lemma run_step_norm {K} ct ac AT (na : naccept K) m (st : titem K) s :
  nodup_b (builder_fields ac) = true -> step_justified ct ac s = true ->
  run_step ct ac AT na m (mkTI (it_flags st) (norm_slots (builder_fields ac) (it_slots st)) (it_unknown st) (it_code st) (it_rcs st)) s
  = run_step ct ac AT na m st s.
Proof.
  intros Hnd Hj. destruct s; cbn [run_step it_flags it_slots it_unknown it_code it_rcs]; try reflexivity;
    rewrite (nodup_b_assoc_norm _ _ _ Hnd (justified_field ct ac _ _ Hj eq_refl)); reflexivity.
Qed.

Theorem item_replay {K} ct except ac AT (nb : nbuild K) (na : naccept K) m pe es it :
  ctx_ok ct except = true -> ctx_facts ct ac AT -> attr_like ct m pe -> nested_ok ct m pe nb na ->
  build_item true ct ac nb es = Ok it ->
  sim_items (accept_item ct ac AT na m it) (flat_map pe es).
Proof.
  intros Hct CF Hal Hno Hb. unfold build_item in Hb.
  destruct (fold_res (build_step true ct ac nb) es empty_item) as [st|] eqn:Ef; [|discriminate].
  pose proof (fold_grows ct except ac AT nb na m pe Hct CF Hal Hno es empty_item st [] Ef) as H.
  rewrite accept'_empty in H. specialize (H (perm_rel_nil _)). cbn [app] in H.
  unfold finish_item in Hb.
  destruct (Bool.eqb (match it_flags st with Some _ => true | None => false end) (t_flags_event ct)) eqn:Efl; [|discriminate].
  injection Hb as <-. apply Bool.eqb_prop in Efl.
  replace (accept_item ct ac AT na m _) with (accept' ct ac AT na m st); [exact H|].
  unfold accept', accept_item. apply flat_map_ext_in. intros s Hs.
  rewrite (run_step_norm ct ac AT na m st s (cf_nodup _ _ _ CF) (forallb_In' _ _ _ (cf_just _ _ _ CF) Hs)).
  unfold run_step'. destruct s; try reflexivity. destruct (it_flags st) eqn:E; [reflexivity|].
  (* no flags although accept() has SFlags: impossible, the level has no flags event *)
  exfalso. pose proof (cf_flags _ _ _ CF) as Hf. unfold flags_ok in Hf. rewrite <- Efl in Hf.
  apply negb_true_iff in Hf.
  assert (existsb (touches CFlags) (ac_steps ac) = true) by (apply existsb_exists; exists SFlags; split; [exact Hs|reflexivity]).
  congruence.
Qed.
