(* C17 — theory, part 2: the byte level (encoders and the readers' inverse laws) and the dispatch
   law that follows from the finite table check. *)
From FB Require Import C17.Model C17.Theory.
From FB Require Export C17.Struct.

Arguments N.add : simpl never.
Arguments N.mul : simpl never.
Arguments N.div : simpl never.
Arguments N.modulo : simpl never.

(* ---------- encoders ---------- *)

Lemma rd16_e16 n r : rd16 (e16 n ++ r) = Ok (n, r).
Proof.
  unfold e16, rd16. cbn [app].
  replace (n / 256 * 256 + n mod 256) with n; [reflexivity|].
  rewrite (N.div_mod' n 256) at 1. lia.
Qed.

Lemma rd32_e32 n r : rd32 (e32 n ++ r) = Ok (n, r).
Proof.
  unfold e32, e16, rd32. cbn [app].
  replace ((((n / 65536 / 256 * 256 + n / 65536 mod 256) * 256 + n mod 65536 / 256) * 256 + n mod 65536 mod 256)) with n; [reflexivity|].
  pose proof (N.div_mod' (n / 65536) 256) as H1.
  pose proof (N.div_mod' (n mod 65536) 256) as H2.
  pose proof (N.div_mod' n 65536) as H3.
  lia.
Qed.

Lemma skipN_app a r : skipN (a ++ r) (elen a) = Ok r.
Proof.
  unfold elen. induction a as [|x a IH]; cbn [app length].
  - destruct r; reflexivity.
  - cbn [skipN]. rewrite Nat2N.inj_succ.
    destruct (N.eqb_spec (N.succ (N.of_nat (length a))) 0) as [E|_]; [lia|].
    rewrite N.pred_succ. exact IH.
Qed.

Lemma takeN_app a r : takeN (a ++ r) (elen a) = Ok (a, r).
Proof.
  unfold elen. induction a as [|x a IH]; cbn [app length].
  - destruct r; reflexivity.
  - cbn [takeN]. rewrite Nat2N.inj_succ.
    destruct (N.eqb_spec (N.succ (N.of_nat (length a))) 0) as [E|_]; [lia|].
    rewrite N.pred_succ, IH. reflexivity.
Qed.

Lemma skipN_app_eq a r n : n = elen a -> skipN (a ++ r) n = Ok r.
Proof. intros ->. apply skipN_app. Qed.
Lemma takeN_app_eq a r n : n = elen a -> takeN (a ++ r) n = Ok (a, r).
Proof. intros ->. apply takeN_app. Qed.

Lemma elen_app {A} (a b : list A) : elen (a ++ b) = elen a + elen b.
Proof. unfold elen. rewrite app_length. lia. Qed.
Lemma elen_nil {A} : elen (@nil A) = 0.
Proof. reflexivity. Qed.
Lemma elen_e16 n : elen (e16 n) = 2.
Proof. reflexivity. Qed.
Lemma elen_e32 n : elen (e32 n) = 4.
Proof. reflexivity. Qed.
Lemma to_nat_elen {A} (l : list A) : N.to_nat (elen l) = length l.
Proof. unfold elen. apply Nat2N.id. Qed.

(* ---------- the dispatch law ---------- *)
(* the flag consulted for [name]: that of the first arm whose pattern matches *)
Fixpoint governing (arms : list arm) (name : str) : option str :=
  match arms with
  | [] => None
  | a :: r =>
    if pat_matches (a_pat a) name
    then match a_guard a with GNotInterested f => Some f | GAlways => None end
    else governing r name
  end.

(* is the attribute [name] looked at by a visitor with interests [m]? *)
Definition keep (arms : list arm) (m : mask) (name : str) : bool :=
  match governing arms name with Some f => interested m f | None => true end.

Lemma mem_interested f m : mem f m = interested m f.
Proof. reflexivity. Qed.

Lemma arms_ok_inv flags seen arms :
  arms_ok flags seen arms = true ->
  (exists f, arms = [mkArm PAny (GNotInterested f) ASkip; mkArm PAny GAlways (AReadLen true)] /\ mem f flags = true)
  \/ (exists x f act rest, arms = mkArm (PName x) (GNotInterested f) ASkip :: mkArm (PName x) GAlways act :: rest
        /\ f = governing_spec x /\ mem f flags = true /\ mem x seen = false /\ guarded_action_ok act = true
        /\ arms_ok flags (x :: seen) rest = true)
  \/ (exists x act rest, arms = mkArm (PName x) GAlways act :: rest
        /\ mem x always_names = true /\ mem x seen = false /\ always_action_ok act = true
        /\ arms_ok flags (x :: seen) rest = true).
Proof.
  intros H.
  destruct arms as [|[p gd act] rest]; [discriminate|].
  destruct p as [x|].
  - destruct gd as [|f].
    + (* always arm *)
      right; right. cbn [arms_ok] in H.
      exists x, act, rest.
      repeat (apply andb_prop in H; destruct H as [H ?]).
      rewrite negb_true_iff in *. auto.
    + destruct act; try discriminate.
      destruct rest as [|[p' gd' act'] rest']; [discriminate|].
      destruct p' as [x'|]; [|discriminate]. destruct gd'; [|discriminate].
      cbn [arms_ok] in H.
      repeat (apply andb_prop in H; destruct H as [H ?]).
      rewrite negb_true_iff in *.
      apply str_eqb_eq in H. subst x'.
      match goal with E : str_eqb f _ = true |- _ => apply str_eqb_eq in E; subst f end.
      right; left. exists x, (governing_spec x), act', rest'. auto 10.
  - destruct gd as [|f]; [discriminate|].
    destruct act; try discriminate.
    destruct rest as [|[p' gd' act'] rest']; [discriminate|].
    destruct p' as [x'|]; [discriminate|]. destruct gd'; [|discriminate].
    destruct act' as [| | |u| |]; try discriminate. destruct u; [|discriminate].
    destruct rest'; [|discriminate].
    cbn [arms_ok] in H. apply andb_prop in H as [H1 H2].
    left. exists f. auto.
Qed.

(* Under an arbitrary mask an attribute is either skipped or treated exactly as under the full
   mask; which of the two is decided by the flag that governs it. *)
Lemma dispatch_law flags : forall (n : nat) arms seen, (length arms <= n)%nat ->
  arms_ok flags seen arms = true ->
  forall m name,
    dispatch arms flags name <> None
    /\ dispatch arms m name = (if keep arms m name then dispatch arms flags name else Some ASkip).
Proof.
  induction n as [|n IH]; intros arms seen Hlen Hok m name.
  - destruct arms; [discriminate Hok | cbn in Hlen; lia].
  - apply arms_ok_inv in Hok as [(f & -> & Hf) | [(x & f & act & rest & -> & Hfx & Hf & Hseen & Hact & Hrest) | (x & act & rest & -> & Hal & Hseen & Hact & Hrest)]].
    + (* the two default arms *)
      unfold keep. cbn [dispatch governing pat_matches a_pat a_guard a_act guard_holds andb].
      change (interested flags f) with (mem f flags). rewrite Hf. cbn [negb].
      split; [discriminate|].
      destruct (interested m f); reflexivity.
    + (* a guarded pair *)
      assert (Hl : (length rest <= n)%nat) by (cbn in Hlen; lia).
      specialize (IH rest (x :: seen) Hl Hrest m name) as [IH1 IH2].
      unfold keep in *. cbn [dispatch governing pat_matches a_pat a_guard a_act guard_holds].
      destruct (str_eqb name x) eqn:E; cbn [andb].
      * change (interested flags f) with (mem f flags). rewrite Hf. cbn [negb].
        split; [discriminate|]. destruct (interested m f); reflexivity.
      * split; assumption.
    + assert (Hl : (length rest <= n)%nat) by (cbn in Hlen; lia).
      specialize (IH rest (x :: seen) Hl Hrest m name) as [IH1 IH2].
      unfold keep in *. cbn [dispatch governing pat_matches a_pat a_guard a_act guard_holds].
      destruct (str_eqb name x) eqn:E; cbn [andb].
      * split; [discriminate|reflexivity].
      * split; assumption.
Qed.

Lemma dispatch_ctx ct except m name :
  ctx_ok ct except = true ->
  dispatch (t_arms ct) (t_interests ct) name <> None
  /\ dispatch (t_arms ct) m name = (if keep (t_arms ct) m name then dispatch (t_arms ct) (t_interests ct) name else Some ASkip).
Proof.
  intros H. apply andb_prop in H as [H _]. apply andb_prop in H as [H _].
  apply (dispatch_law (t_interests ct) (length (t_arms ct)) (t_arms ct) [] (le_n _) H).
Qed.

(* what a full-mask dispatch can be: no flag-less consumer is skipped by mistake, a declined Code is skipped *)
Lemma dispatch_full_code flags : forall (n : nat) arms seen, (length arms <= n)%nat ->
  arms_ok flags seen arms = true ->
  forall m name b, dispatch arms m name = Some (ACode b) -> b = true.
Proof.
  induction n as [|n IH]; intros arms seen Hlen Hok m name b.
  - destruct arms; [discriminate Hok | cbn in Hlen; lia].
  - apply arms_ok_inv in Hok as [(f & -> & Hf) | [(x & f & act & rest & -> & Hfx & Hf & Hseen & Hact & Hrest) | (x & act & rest & -> & Hal & Hseen & Hact & Hrest)]].
    + cbn [dispatch pat_matches a_pat a_guard a_act guard_holds andb].
      destruct (negb (interested m f)); discriminate.
    + assert (Hl : (length rest <= n)%nat) by (cbn in Hlen; lia).
      cbn [dispatch pat_matches a_pat a_guard a_act guard_holds].
      destruct (str_eqb name x); cbn [andb].
      * destruct (negb (interested m f)); [discriminate|].
        intros [= ->]. exact Hact.
      * apply (IH rest (x :: seen) Hl Hrest).
    + assert (Hl : (length rest <= n)%nat) by (cbn in Hlen; lia).
      cbn [dispatch pat_matches a_pat a_guard a_act guard_holds].
      destruct (str_eqb name x); cbn [andb].
      * intros [= ->]. discriminate Hact.
      * apply (IH rest (x :: seen) Hl Hrest).
Qed.
