(* C17 — theory, part 9: the finite check of the replay tables ([accept_ok], evaluated by vm_compute
   on the tables regenerated from the source) and what it says about one step of accept().

   In words, per level: every attribute that the reader delivers (visit call V in its arm) is stored
   by the builder's V in a field f; exactly one statement of accept() reads f; it makes the same
   visit call V, is guarded by the interest flag that governs the attribute in the reader, and its
   emptiness guard fits how the field is filled (Option: `if let Some`, Vec: `!is_empty()`); the
   tables delivered after the attribute loop, the unknown attributes, the flags, Code and the record
   components likewise; and accept() has no statement that replays anything else. *)
From FB Require Import C17.Model C17.Theory C17.Theory2 C17.Struct C17.Replay C17.Theory6 C17.Theory8.

(* ---------- components of an item, and the steps that read them ---------- *)
Inductive comp := CSlot (f : str) | CUnknown | CCode | CRcs | CFlags.

Definition comp_eqb (a b : comp) : bool :=
  match a, b with
  | CSlot f, CSlot g => str_eqb f g
  | CUnknown, CUnknown | CCode, CCode | CRcs, CRcs | CFlags, CFlags => true
  | _, _ => false
  end.

Definition step_comp (s : astep) : option comp :=
  match s with
  | SFlags => Some CFlags
  | SOpt _ f _ | SVec _ f _ | SLocals _ f _ _ _ => Some (CSlot f)
  | SUnknown _ _ _ => Some CUnknown
  | SCode _ _ _ => Some CCode
  | SRecord _ _ _ => Some CRcs
  | _ => None
  end.

Definition touches (c : comp) (s : astep) : bool :=
  match step_comp s with Some c' => comp_eqb c c' | None => false end.

Fixpoint split_first {A} (p : A -> bool) (l : list A) : option (list A * A * list A) :=
  match l with
  | [] => None
  | s :: l' =>
    if p s then Some ([], s, l')
    else match split_first p l' with Some (a, x, b) => Some (s :: a, x, b) | None => None end
  end.

Lemma split_first_spec {A} (p : A -> bool) l a x b :
  split_first p l = Some (a, x, b) -> l = a ++ x :: b /\ (forall s, In s a -> p s = false) /\ p x = true.
Proof.
  revert a x b. induction l as [|s l IH]; intros a x b; cbn [split_first]; [discriminate|].
  destruct (p s) eqn:E.
  - intros [= <- <- <-]. split; [reflexivity|]. split; [intros ? []|exact E].
  - destruct (split_first p l) as [[[a' x'] b']|] eqn:E2; [|discriminate].
    intros [= <- <- <-]. destruct (IH a' x' b' eq_refl) as (-> & Ha & Hx).
    split; [reflexivity|]. split; [|exact Hx].
    intros s0 [<-|H]; [exact E|apply Ha; exact H].
Qed.

(* the one step that reads component [c] *)
Definition unique_step (c : comp) (steps : list astep) : option astep :=
  match split_first (touches c) steps with
  | Some (_, x, b) => if existsb (touches c) b then None else Some x
  | None => None
  end.

Lemma unique_step_spec c steps x :
  unique_step c steps = Some x ->
  exists a b, steps = a ++ x :: b /\ touches c x = true
              /\ (forall s, In s a -> touches c s = false) /\ (forall s, In s b -> touches c s = false).
Proof.
  unfold unique_step. destruct (split_first (touches c) steps) as [[[a x'] b]|] eqn:E; [|discriminate].
  destruct (existsb (touches c) b) eqn:Eb; [discriminate|]. intros [= <-].
  destruct (split_first_spec _ _ _ _ _ E) as (-> & Ha & Hx).
  exists a, b. repeat split; try assumption.
  intros s Hs. destruct (touches c s) eqn:Et; [|reflexivity].
  assert (existsb (touches c) b = true) by (apply existsb_exists; exists s; auto). congruence.
Qed.

(* ---------- small lookups ---------- *)
Definition ostr_eqb (a : option str) (b : str) : bool := match a with Some x => str_eqb x b | None => false end.
Lemma ostr_eqb_eq a b : ostr_eqb a b = true <-> a = Some b.
Proof.
  destruct a as [x|]; cbn [ostr_eqb]; [|split; discriminate].
  rewrite str_eqb_eq. split; [intros ->; reflexivity|intros [= ->]; reflexivity].
Qed.

Lemma str_eqb_sym a b : str_eqb a b = str_eqb b a.
Proof.
  destruct (str_eqb_spec a b) as [->|Hn]; [rewrite str_eqb_refl; reflexivity|].
  symmetry. apply str_eqb_neq. congruence.
Qed.

Lemma assoc_In {A} k (l : list (str * A)) v : assoc k l = Some v -> In (k, v) l.
Proof.
  induction l as [|[k' v'] l IH]; cbn [assoc]; [discriminate|].
  destruct (str_eqb_spec k k') as [->|_].
  - intros [= ->]. left; reflexivity.
  - intros H. right. apply IH. exact H.
Qed.
Lemma rassoc_In v l k : rassoc v l = Some k -> In (k, v) l.
Proof.
  induction l as [|[k' v'] l IH]; cbn [rassoc]; [discriminate|].
  destruct (str_eqb_spec v v') as [->|_].
  - intros [= ->]. left; reflexivity.
  - intros H. right. apply IH. exact H.
Qed.
Lemma find_row_spec V l r : find_row V l = Some r -> In r l /\ b_visit r = V.
Proof.
  induction l as [|r' l IH]; cbn [find_row]; [discriminate|].
  destruct (str_eqb_spec V (b_visit r')) as [E|_].
  - intros [= <-]. split; [left; reflexivity|symmetry; exact E].
  - intros H. destruct (IH H). split; [right; assumption|assumption].
Qed.

Definition gov (ct : ctx_table) (name : str) : option str := governing (t_arms ct) name.
Lemma keep_gov ct m name g : gov ct name = Some g -> keep_ct ct m name = interested m g.
Proof. unfold gov, keep_ct, keep. intros ->. reflexivity. Qed.

(* ---------- what a full-mask dispatch says about the arms ---------- *)
Lemma arms_ok_inv' flags seen arms :
  arms_ok flags seen arms = true ->
  (exists f, arms = [mkArm PAny (GNotInterested f) ASkip; mkArm PAny GAlways (AReadLen true)] /\ mem f flags = true /\ f = fUnknown)
  \/ (exists x f act rest, arms = mkArm (PName x) (GNotInterested f) ASkip :: mkArm (PName x) GAlways act :: rest
        /\ mem f flags = true /\ arms_ok flags (x :: seen) rest = true)
  \/ (exists x act rest, arms = mkArm (PName x) GAlways act :: rest /\ arms_ok flags (x :: seen) rest = true).
Proof.
  intros H.
  destruct arms as [|[p gd act] rest]; [discriminate|].
  destruct p as [x|].
  - destruct gd as [|f].
    + right; right. cbn [arms_ok] in H. exists x, act, rest.
      repeat (apply andb_prop in H; destruct H as [H ?]). auto.
    + destruct act; try discriminate.
      destruct rest as [|[p' gd' act'] rest']; [discriminate|].
      destruct p' as [x'|]; [|discriminate]. destruct gd'; [|discriminate].
      cbn [arms_ok] in H.
      repeat (apply andb_prop in H; destruct H as [H ?]).
      apply str_eqb_eq in H. subst x'.
      right; left. exists x, f, act', rest'. auto.
  - destruct gd as [|f]; [discriminate|].
    destruct act; try discriminate.
    destruct rest as [|[p' gd' act'] rest']; [discriminate|].
    destruct p' as [x'|]; [discriminate|]. destruct gd'; [|discriminate].
    destruct act' as [| | |u| |]; try discriminate. destruct u; [|discriminate].
    destruct rest'; [|discriminate].
    cbn [arms_ok] in H. apply andb_prop in H as [H1 H2].
    left. exists f. apply str_eqb_eq in H1. auto.
Qed.

(* under the full mask an attribute is handled by the unguarded arm that carries its name, or by the default arm *)
Lemma full_dispatch_arm flags : forall (n : nat) arms seen, (length arms <= n)%nat ->
  arms_ok flags seen arms = true ->
  forall name act, dispatch arms flags name = Some act ->
    In (mkArm (PName name) GAlways act) arms
    \/ (act = AReadLen true /\ governing arms name = Some fUnknown).
Proof.
  induction n as [|n IH]; intros arms seen Hlen Hok name act0.
  - destruct arms; [discriminate Hok | cbn in Hlen; lia].
  - apply arms_ok_inv' in Hok as [(f & -> & Hf & ->) | [(x & f & act & rest & -> & Hf & Hrest) | (x & act & rest & -> & Hrest)]].
    + cbn [dispatch governing pat_matches a_pat a_guard a_act guard_holds andb].
      change (interested flags fUnknown) with (mem fUnknown flags). rewrite Hf. cbn [negb].
      intros [= <-]. right. split; reflexivity.
    + assert (Hl : (length rest <= n)%nat) by (cbn in Hlen; lia).
      cbn [dispatch governing pat_matches a_pat a_guard a_act guard_holds].
      destruct (str_eqb_spec name x) as [->|Hne]; cbn [andb].
      * change (interested flags f) with (mem f flags). rewrite Hf. cbn [negb].
        intros [= <-]. left. right. left. reflexivity.
      * intros H. destruct (IH rest (x :: seen) Hl Hrest name act0 H) as [Hin|Hd].
        -- left. right. right. exact Hin.
        -- right. exact Hd.
    + assert (Hl : (length rest <= n)%nat) by (cbn in Hlen; lia).
      cbn [dispatch governing pat_matches a_pat a_guard a_act guard_holds].
      destruct (str_eqb_spec name x) as [->|Hne]; cbn [andb].
      * intros [= <-]. left. left. reflexivity.
      * intros H. destruct (IH rest (x :: seen) Hl Hrest name act0 H) as [Hin|Hd].
        -- left. right. exact Hin.
        -- right. exact Hd.
Qed.

Lemma act_full_arm ct except name act : ctx_ok ct except = true -> act_full ct name = Some act ->
  In (mkArm (PName name) GAlways act) (t_arms ct) \/ (act = AReadLen true /\ gov ct name = Some fUnknown).
Proof.
  intros Hct H. apply andb_prop in Hct as [Harms _]. apply andb_prop in Harms as [Harms _].
  exact (full_dispatch_arm (t_interests ct) _ _ [] (le_n _) Harms name act H).
Qed.

(* ---------- the check of one level ---------- *)
Definition entry_comp (act : action) (row : brow) : comp :=
  match act with ACode _ => CCode | ARecord _ => CRcs | _ => CSlot (b_field row) end.

Definition entry_step_ok (act : action) (row : brow) (g V : str) (s : astep) : bool :=
  match act, b_mode row, s with
  | AParse DNow, MOnce, SOpt g' f V' | AParse DNow, MSet, SOpt g' f V'
  | AReadLen false, MOnce, SOpt g' f V' | AReadLen false, MSet, SOpt g' f V'
  | AParse DNow, MExtend, SVec g' f V'
  | ACode _, MOnce, SCode g' f V'
  | ARecord _, MPush, SRecord g' f V' => str_eqb g g' && str_eqb (b_field row) f && str_eqb V V'
  | _, _, _ => false
  end.

(* one (attribute name, visit call) of the reader *)
Definition visit_entry_ok (ct : ctx_table) (ac : accept_ctx) (nv : str * str) : bool :=
  ostr_eqb (assoc (fst nv) (ac_visits ac)) (snd nv) && ostr_eqb (rassoc (snd nv) (ac_visits ac)) (fst nv)
  && match act_full ct (fst nv), find_row (snd nv) (ac_builder ac), gov ct (fst nv) with
     | Some act, Some row, Some g =>
         match unique_step (entry_comp act row) (ac_steps ac) with
         | Some s => entry_step_ok act row g (snd nv) s
         | None => false
         end
     | _, _, _ => false
     end.

(* every attribute that the reader collects into the local table [slot] satisfies P *)
Definition stored_names_ok (ct : ctx_table) (slot : str) (P : str -> bool) : bool :=
  forallb (fun a => match a_pat a, a_guard a, a_act a with
                    | PName x, GAlways, AParse (DStore s _) => negb (str_eqb s slot) || P x
                    | _, _, _ => true
                    end) (t_arms ct).

Fixpoint strs_eqb (a b : list str) : bool :=
  match a, b with
  | [], [] => true
  | x :: a', y :: b' => str_eqb x y && strs_eqb a' b'
  | _, _ => false
  end.
Lemma strs_eqb_eq a b : strs_eqb a b = true -> a = b.
Proof.
  revert b. induction a as [|x a IH]; intros [|y b]; cbn [strs_eqb]; try discriminate; [reflexivity|].
  intros H. apply andb_prop in H as [H1 H2]. apply str_eqb_eq in H1. rewrite H1, (IH b H2). reflexivity.
Qed.

(* a table handed over after the loop: the builder keeps it in a field that one statement of accept() replays with the
   same visit call; `if let Some`: the reader hands it over whenever it is filled, and all attributes collected into it
   are governed by the statement's flag; Code::accept's filter: the reader's guard and the statement's guard name the
   same interests (whole), and every attribute collected into the table is governed by one of them *)
Definition deferred_entry_ok (ct : ctx_table) (ac : accept_ctx) (AT : accept_tables) (sv : str * str) : bool :=
  ostr_eqb (assoc (fst sv) (ac_deferred ac)) (snd sv) && ostr_eqb (rassoc (snd sv) (ac_deferred ac)) (fst sv)
  && mem (fst sv) (t_deferred ct)
  && match find_row (snd sv) (ac_builder ac) with
     | Some row =>
         match b_mode row with
         | MOnce =>
             match unique_step (CSlot (b_field row)) (ac_steps ac) with
             | Some (SOpt g f V') =>
                 str_eqb (b_field row) f && str_eqb (snd sv) V'
                 && stored_names_ok ct (fst sv) (fun x => ostr_eqb (gov ct x) g)
                 && match whole_of (fst sv) (t_whole ct) with None => true | Some _ => false end
             | Some (SLocals flags f V' kinds whole) =>
                 str_eqb (b_field row) f && str_eqb (snd sv) V'
                 && stored_names_ok ct (fst sv)
                      (fun x => match gov ct x with
                                | Some g => ostr_eqb (kind_flag AT kinds x) g && mem g flags && mem g whole
                                | None => false
                                end)
                 && match whole_of (fst sv) (t_whole ct) with Some w => strs_eqb w whole | None => false end
             | _ => false
             end
         | _ => false
         end
     | None => false
     end.

Definition unknown_ok (ct : ctx_table) (ac : accept_ctx) : bool :=
  match find_row (ac_unknown_visit ac) (ac_builder ac) with
  | Some row =>
      match b_mode row, unique_step CUnknown (ac_steps ac) with
      | MPush, Some (SUnknown g f V) => str_eqb g fUnknown && str_eqb f (b_field row) && str_eqb V (ac_unknown_visit ac)
      | _, _ => false
      end
  | None => false
  end
  && forallb (fun a => match a_pat a, a_act a with PName _, AReadLen true => false | _, _ => true end) (t_arms ct).

Definition flags_ok (ct : ctx_table) (ac : accept_ctx) : bool :=
  if t_flags_event ct
  then match unique_step CFlags (ac_steps ac) with Some SFlags => true | _ => false end
  else negb (existsb (touches CFlags) (ac_steps ac)).

Definition is_some {A} (o : option A) : bool := match o with Some _ => true | None => false end.

(* accept() replays nothing but fields that the builder fills from the reader's visits, and consults
   only interest flags that the level's *Interests struct has *)
Definition step_justified (ct : ctx_table) (ac : accept_ctx) (s : astep) : bool :=
  let row_has V f := match find_row V (ac_builder ac) with Some row => str_eqb f (b_field row) | None => false end in
  let flag_ok g := mem g (t_interests ct) in
  match s with
  | SOpt g f V | SVec g f V => flag_ok g && row_has V f && (is_some (rassoc V (ac_visits ac)) || is_some (rassoc V (ac_deferred ac)))
  | SCode g f V | SRecord g f V => flag_ok g && row_has V f && is_some (rassoc V (ac_visits ac))
  | SLocals flags f V _ whole => forallb flag_ok whole && negb (is_nil flags) && forallb flag_ok flags && row_has V f && is_some (rassoc V (ac_deferred ac))
  | SUnknown g f V => flag_ok g && row_has V f && str_eqb V (ac_unknown_visit ac)
  | SMembers g _ _ _ | SInsns g => flag_ok g
  | _ => true
  end.

(* no component is replayed by two statements *)
Fixpoint distinct_comps (steps : list astep) : bool :=
  match steps with
  | [] => true
  | s :: l => match step_comp s with
              | Some c => negb (existsb (touches c) l)
              | None => true
              end && distinct_comps l
  end.

(* everything the reader delivers has a visit call on record *)
Definition arms_covered (ct : ctx_table) (ac : accept_ctx) : bool :=
  forallb (fun a => match a_pat a, a_guard a, a_act a with
                    | PName x, GAlways, AParse DNow | PName x, GAlways, AReadLen false
                    | PName x, GAlways, ACode _ | PName x, GAlways, ARecord _ => is_some (assoc x (ac_visits ac))
                    | _, _, _ => true
                    end) (t_arms ct)
  && forallb (fun slot => is_some (assoc slot (ac_deferred ac))) (t_deferred ct).

Fixpoint nodup_b (l : list str) : bool :=
  match l with [] => true | x :: l' => negb (mem x l') && nodup_b l' end.

Definition ctx_accept_ok (ct : ctx_table) (ac : accept_ctx) (AT : accept_tables) : bool :=
  forallb (visit_entry_ok ct ac) (ac_visits ac)
  && forallb (deferred_entry_ok ct ac AT) (ac_deferred ac)
  && unknown_ok ct ac
  && flags_ok ct ac
  && forallb (step_justified ct ac) (ac_steps ac)
  && distinct_comps (ac_steps ac)
  && arms_covered ct ac
  && nodup_b (builder_fields ac).

(* ---------- the check of all levels ---------- *)
Definition is_members (s : astep) : bool := match s with SMembers _ _ _ _ => true | _ => false end.

(* ClassFile::accept: … fields (if interests.fields) … methods (if interests.methods) …, nothing else of that kind *)
Definition members_ok (steps : list astep) : bool :=
  match split_first is_members steps with
  | Some (_, SMembers g1 _ _ false, b) =>
      str_eqb g1 FIELDS
      && match split_first is_members b with
         | Some (_, SMembers g2 _ _ true, c) => str_eqb g2 METHODS && negb (existsb is_members c)
         | _ => false
         end
  | _ => false
  end.

Definition count_steps (p : astep -> bool) (steps : list astep) : nat := length (filter p steps).

Definition code_shape_ok (T : reader_tables) (AT : accept_tables) : bool :=
  let steps := ac_steps (at_code AT) in
  Nat.eqb (count_steps (fun s => match s with SMax => true | _ => false end) steps) 1
  && Nat.eqb (count_steps (fun s => match s with SInsns _ => true | _ => false end) steps) 1
  && Nat.eqb (count_steps (fun s => match s with SExc => true | _ => false end) steps) 1
  && Nat.eqb (count_steps (fun s => match s with SLast => true | _ => false end) steps) 1
  (* frames reach a visitor iff it is interested in the flag that governs every attribute that supplies frames *)
  && stored_names_ok (rt_code T) STACK_MAP_FRAME (fun x => ostr_eqb (gov (rt_code T) x) (frames_flag AT))
  && mem (frames_flag AT) (t_interests (rt_code T)).

Definition accept_ok (T : reader_tables) (AT : accept_tables) : bool :=
  ctx_accept_ok (rt_class T) (at_class AT) AT
  && ctx_accept_ok (rt_field T) (at_field AT) AT
  && ctx_accept_ok (rt_method T) (at_method AT) AT
  && ctx_accept_ok (rt_code T) (at_code AT) AT
  && ctx_accept_ok (rt_rc T) (at_rc AT) AT
  && members_ok (ac_steps (at_class AT))
  && code_shape_ok T AT
  && at_builder_full AT && at_max_both AT && at_declined_noop AT.
