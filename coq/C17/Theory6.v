(* C17 — theory, part 6: what a partial / declining visitor receives is the projection of what the
   full accepting visitor receives (same order).  Pure reasoning on the specification functions;
   together with read_class_ok it transfers to the byte-level reader. *)
From FB Require Import C17.Model C17.Theory C17.Theory2 C17.Theory3 C17.Theory4.

(* ---------- the projection ---------- *)
Definition keep_ct (ct : ctx_table) (m : mask) (name : str) : bool := keep (t_arms ct) m name.

(* events of a loop without nested readers *)
Definition proj_ev0 (ct : ctx_table) (m : mask) (e : ev) : list ev :=
  match e with
  | EAttr name _ _ => if keep_ct ct m name then [e] else []
  | EDeferred slot srcs =>
      (* the table holds what is left of it for this visitor; whether it is handed over at all is decided as the reader
         decides it (a table without rows only to a visitor with all the interests of the slot's guard) *)
      let srcs' := filter (fun x => keep_ct ct m (fst x)) srcs in
      if table_delivered ct m slot srcs' then [EDeferred slot srcs'] else []
  | _ => [e]
  end.

(* events of the attribute loop of a method (kc = what visit_code() of this method answers) or of a class *)
Definition proj_ev (T : reader_tables) (v : visitor) (ct : ctx_table) (m : mask) (kc : option mask) (e : ev) : list ev :=
  match e with
  | ECode attr ms ml fs xr es =>
      if keep_ct ct m attr then
        [match kc with
         | Some cm => ECode attr ms ml (filter (keep_ct (rt_code T) cm) fs) xr (flat_map (proj_ev0 (rt_code T) cm) es)
         | None => ECodeDeclined attr
         end]
      else []
  | ECodeDeclined attr => if keep_ct ct m attr then [e] else []
  | ERc attr k n d es =>
      if keep_ct ct m attr then
        [ERc attr k n d (match v_rc v k with
                         | Some m' => option_map (flat_map (proj_ev0 (rt_rc T) m')) es
                         | None => None
                         end)]
      else []
  | e => proj_ev0 ct m e
  end.

(* the members and the class *)
Definition proj_member (T : reader_tables) (v : visitor) (e : ev) : list ev :=
  match e with
  | EField k a n d es =>
      if rt_honours_fields T && negb (interested (v_class v) FIELDS) then []
      else [EField k a n d (match v_field v k with
                            | Some m => option_map (flat_map (proj_ev T v (rt_field T) m None)) es
                            | None => None
                            end)]
  | EMethod k a n d es =>
      if rt_honours_methods T && negb (interested (v_class v) METHODS) then []
      else [EMethod k a n d (match v_method v k with
                             | Some m => option_map (flat_map (proj_ev T v (rt_method T) m (v_code v k))) es
                             | None => None
                             end)]
  | e => proj_ev T v (rt_class T) (v_class v) None e
  end.

Definition project (T : reader_tables) (v : visitor) (t : option (list ev)) : option (list ev) :=
  if v_accept_class v then option_map (flat_map (proj_member T v)) t else None.

(* [v_full]: the visitor that wants everything and declines nothing (Struct.v) *)

(* ---------- facts about the tables ---------- *)
Lemma governing_law flags : forall (n : nat) arms seen, (length arms <= n)%nat ->
  arms_ok flags seen arms = true ->
  forall name f, governing arms name = Some f ->
    mem f flags = true /\ forall w, dispatch arms flags name <> Some (AFlag w).
Proof.
  induction n as [|n IH]; intros arms seen Hlen Hok name f0.
  - destruct arms; [discriminate Hok | cbn in Hlen; lia].
  - apply arms_ok_inv in Hok as [(f & -> & Hf) | [(x & f & act & rest & -> & Hfx & Hf & Hseen & Hact & Hrest) | (x & act & rest & -> & Hal & Hseen & Hact & Hrest)]].
    + cbn [governing dispatch pat_matches a_pat a_guard a_act guard_holds andb].
      intros [= <-]. split; [exact Hf|]. intros w.
      change (interested flags f) with (mem f flags). rewrite Hf. cbn [negb]. discriminate.
    + assert (Hl : (length rest <= n)%nat) by (cbn in Hlen; lia).
      cbn [governing dispatch pat_matches a_pat a_guard a_act guard_holds].
      destruct (str_eqb name x) eqn:E; cbn [andb].
      * intros [= <-]. split; [exact Hf|]. intros w.
        change (interested flags f) with (mem f flags). rewrite Hf. cbn [negb].
        destruct act; try discriminate.
      * apply (IH rest (x :: seen) Hl Hrest).
    + assert (Hl : (length rest <= n)%nat) by (cbn in Hlen; lia).
      cbn [governing dispatch pat_matches a_pat a_guard a_act guard_holds].
      destruct (str_eqb name x) eqn:E; cbn [andb].
      * discriminate.
      * apply (IH rest (x :: seen) Hl Hrest).
Qed.

Lemma keep_full ct except name : ctx_ok ct except = true -> keep_ct ct (t_interests ct) name = true.
Proof.
  intros H. unfold keep_ct, keep. destruct (governing (t_arms ct) name) as [f|] eqn:E; [|reflexivity].
  apply (governing_law (t_interests ct) _ _ [] (le_n _) (ctx_ok_arms _ _ H) name f E).
Qed.

Lemma dropped_not_flag ct except m name w :
  ctx_ok ct except = true -> keep_ct ct m name = false -> act_full ct name <> Some (AFlag w).
Proof.
  intros H Hk. unfold keep_ct, keep in Hk. destruct (governing (t_arms ct) name) as [f|] eqn:E; [|discriminate].
  apply (governing_law (t_interests ct) _ _ [] (le_n _) (ctx_ok_arms _ _ H) name f E).
Qed.

Lemma act_under_full ct except name : ctx_ok ct except = true -> act_under ct (t_interests ct) name = act_full ct name.
Proof. intros H. unfold act_under. fold (keep_ct ct (t_interests ct) name). rewrite (keep_full ct except name H). reflexivity. Qed.

(* ---------- list lemmas ---------- *)
Lemma filter_rev' {A} (f : A -> bool) l : filter f (rev l) = rev (filter f l).
Proof.
  induction l as [|x l IH]; [reflexivity|]. cbn [rev filter]. rewrite filter_app, IH. cbn [filter].
  destruct (f x); cbn [rev]; [reflexivity|]. rewrite app_nil_r. reflexivity.
Qed.
Lemma filter_comm {A} (f g : A -> bool) l : filter f (filter g l) = filter g (filter f l).
Proof.
  induction l as [|x l IH]; [reflexivity|]. cbn [filter].
  destruct (f x) eqn:Ef, (g x) eqn:Eg; cbn [filter]; rewrite ?Ef, ?Eg, IH; reflexivity.
Qed.
Lemma filter_map_comm {A B} (h : A -> B) (f : B -> bool) l : filter f (map h l) = map h (filter (fun x => f (h x)) l).
Proof.
  induction l as [|x l IH]; [reflexivity|]. cbn [map filter]. destruct (f (h x)); cbn [map]; rewrite IH; reflexivity.
Qed.

Lemma filter_all {A} (f : A -> bool) l : (forall x, f x = true) -> filter f l = l.
Proof. intros H. induction l as [|x l IH]; [reflexivity|]. cbn [filter]. rewrite H, IH. reflexivity. Qed.

Definition small {A B} (pe : A -> list B) : Prop := forall e, pe e = [] \/ exists e', pe e = [e'].

Lemma flat_map_rev_small {A B} (pe : A -> list B) l : small pe -> flat_map pe (rev l) = rev (flat_map pe l).
Proof.
  intros Hs. induction l as [|x l IH]; [reflexivity|].
  cbn [rev flat_map]. rewrite flat_map_app, IH. cbn [flat_map]. rewrite app_nil_r, rev_app_distr.
  destruct (Hs x) as [->|[e' ->]]; reflexivity.
Qed.

(* ---------- one loop: the relation between the partial and the full run ---------- *)
Record attr_like (ct : ctx_table) (m : mask) (pe : ev -> list ev) : Prop := mkAL {
  al_attr : forall name r b, pe (EAttr name r b) = if keep_ct ct m name then [EAttr name r b] else [];
  al_flags : forall d s, pe (EFlags d s) = [EFlags d s];
  al_def : forall slot srcs, pe (EDeferred slot srcs) =
             if table_delivered ct m slot (filter (fun x => keep_ct ct m (fst x)) srcs)
             then [EDeferred slot (filter (fun x => keep_ct ct m (fst x)) srcs)] else [];
  al_small : small pe;
}.

Definition slot_kept (ct : ctx_table) (m : mask) (x : str * (str * bytes)) : bool := keep_ct ct m (fst (snd x)).

Record R (ct : ctx_table) (m : mask) (pe : ev -> list ev) (st_m st_f : lstate) : Prop := mkR {
  R_ev : l_events st_m = flat_map pe (l_events st_f);
  R_dep : l_dep st_m = l_dep st_f;
  R_syn : l_syn st_m = l_syn st_f;
  R_slots : l_slots st_m = filter (slot_kept ct m) (l_slots st_f);
}.

Lemma R_init ct m pe : R ct m pe l_init l_init.
Proof. constructor; reflexivity. Qed.

Lemma proj_ev0_like ct m : attr_like ct m (proj_ev0 ct m).
Proof.
  constructor; try reflexivity.
  intros e. destruct e; cbn [proj_ev0]; try (right; eexists; reflexivity).
  - destruct (keep_ct ct m name); [right; eexists; reflexivity|left; reflexivity].
  - cbv zeta. destruct (table_delivered ct m slot (filter (fun x => keep_ct ct m (fst x)) sources)); [right; eexists; reflexivity|left; reflexivity].
Qed.

Lemma proj_ev_like T v ct m kc : attr_like ct m (proj_ev T v ct m kc).
Proof.
  constructor; try reflexivity.
  intros e. destruct e; cbn [proj_ev proj_ev0]; try (right; eexists; reflexivity).
  - destruct (keep_ct ct m name); [right; eexists; reflexivity|left; reflexivity].
  - cbv zeta. destruct (table_delivered ct m slot (filter (fun x => keep_ct ct m (fst x)) sources)); [right; eexists; reflexivity|left; reflexivity].
  - destruct (keep_ct ct m attr); [right; eexists; reflexivity|left; reflexivity].
  - destruct (keep_ct ct m attr); [right; eexists; reflexivity|left; reflexivity].
  - destruct (keep_ct ct m attr); [right; eexists; reflexivity|left; reflexivity].
Qed.

Lemma plain_R ct except m pe p a st_m st_f :
  ctx_ok ct except = true -> attr_like ct m pe -> R ct m pe st_m st_f ->
  R ct m pe (spec_plain p ct m st_m a) (spec_plain p ct (t_interests ct) st_f a)
  /\ l_rc (spec_plain p ct m st_m a) = l_rc st_m /\ l_rc (spec_plain p ct (t_interests ct) st_f a) = l_rc st_f.
Proof.
  intros Hct Hal [Hev Hd Hs Hsl]. unfold spec_plain.
  destruct (pool_utf8 p (p_nidx a)) as [name|]; [|split; [constructor; assumption|split; reflexivity]].
  rewrite (act_under_full ct except name Hct). unfold act_under. fold (keep_ct ct m name).
  destruct (keep_ct ct m name) eqn:Ek.
  - (* looked at: the same action in both runs *)
    destruct (act_full ct name) as [[| w | [|s o] | u | b | o]|]; cbn [plain_result]; (split; [|split; reflexivity]);
      try (constructor; assumption).
    + constructor; cbn [l_events l_dep l_syn l_slots]; try assumption; destruct (w =? 0); congruence.
    + constructor; cbn [l_emit l_events l_dep l_syn l_slots flat_map]; try assumption.
      rewrite (al_attr _ _ _ Hal), Ek, Hev. reflexivity.
    + constructor; cbn [l_events l_dep l_syn l_slots filter]; try assumption.
      unfold slot_kept at 1. cbn [fst snd]. rewrite Ek, Hsl. reflexivity.
    + constructor; cbn [l_emit l_events l_dep l_syn l_slots flat_map]; try assumption.
      rewrite (al_attr _ _ _ Hal), Ek, Hev. reflexivity.
  - (* skipped by the partial visitor *)
    cbn [plain_result].
    destruct (act_full ct name) as [[| w | [|s o] | u | b | o]|] eqn:Ea; cbn [plain_result]; (split; [|split; reflexivity]);
      try (constructor; assumption).
    + exfalso. exact (dropped_not_flag ct except m name w Hct Ek Ea).
    + constructor; cbn [l_emit l_events l_dep l_syn l_slots flat_map]; try assumption.
      rewrite (al_attr _ _ _ Hal), Ek. exact Hev.
    + constructor; cbn [l_events l_dep l_syn l_slots filter]; try assumption.
      unfold slot_kept at 1. cbn [fst snd]. rewrite Ek. exact Hsl.
    + constructor; cbn [l_emit l_events l_dep l_syn l_slots flat_map]; try assumption.
      rewrite (al_attr _ _ _ Hal), Ek. exact Hev.
Qed.

Lemma plains_R ct except m pe p l : ctx_ok ct except = true -> attr_like ct m pe ->
  forall st_m st_f, R ct m pe st_m st_f ->
  R ct m pe (spec_plains p ct m l st_m) (spec_plains p ct (t_interests ct) l st_f).
Proof.
  intros Hct Hal. induction l as [|a l IH]; intros st_m st_f HR; [exact HR|].
  unfold spec_plains. cbn [fold_left]. apply IH. apply (plain_R ct except m pe p a st_m st_f Hct Hal HR).
Qed.

(* what is visited after the loop *)
Lemma slot_sources_R ct m pe st_m st_f slot : R ct m pe st_m st_f ->
  slot_sources ct st_m slot = filter (fun x => keep_ct ct m (fst x)) (slot_sources ct st_f slot).
Proof.
  intros [_ _ _ Hsl]. unfold slot_sources. rewrite Hsl.
  rewrite <- filter_rev', filter_comm, filter_map_comm. reflexivity.
Qed.

Lemma frame_sources_R ct m pe st_m st_f : R ct m pe st_m st_f ->
  frame_sources st_m = filter (keep_ct ct m) (frame_sources st_f).
Proof.
  intros [_ _ _ Hsl]. unfold frame_sources. rewrite Hsl.
  rewrite <- filter_rev', filter_comm, filter_map_comm. reflexivity.
Qed.

(* a table that is handed to some visitor is handed to the full visitor *)
Lemma has_rows_filter (srcs : list (str * list row)) (g : str * list row -> bool) :
  has_rows (filter g srcs) = true -> has_rows srcs = true.
Proof.
  unfold has_rows. intros H. apply existsb_exists in H as (x & Hx & Hr). apply filter_In in Hx as [Hx _].
  apply existsb_exists. exists x. split; assumption.
Qed.

Lemma whole_of_In slot l w : whole_of slot l = Some w -> In (slot, w) l.
Proof.
  induction l as [|[s0 w0] l IH]; cbn [whole_of]; [discriminate|].
  destruct (str_eqb_spec slot s0) as [->|_].
  - intros [= ->]. left; reflexivity.
  - intros H. right. apply IH. exact H.
Qed.

Lemma whole_full ct except slot w : ctx_ok ct except = true -> whole_of slot (t_whole ct) = Some w ->
  forallb (interested (t_interests ct)) w = true.
Proof.
  intros Hct Hw. pose proof (ctx_ok_whole _ _ Hct) as H. unfold whole_ok in H. rewrite forallb_forall in H.
  exact (H _ (whole_of_In _ _ _ Hw)).
Qed.

Lemma table_delivered_full ct except m slot srcs (g : str * list row -> bool) : ctx_ok ct except = true ->
  table_delivered ct m slot (filter g srcs) = true -> table_delivered ct (t_interests ct) slot srcs = true.
Proof.
  intros Hct. unfold table_delivered.
  destruct (filter g srcs) as [|y ys] eqn:Ef; [discriminate|].
  destruct srcs as [|x xs]; [discriminate|].
  destruct (whole_of slot (t_whole ct)) as [w|] eqn:Ew; [|reflexivity].
  intros _. rewrite (whole_full ct except slot w Hct Ew). apply orb_true_r.
Qed.

Lemma deferred_R ct except m pe st_m st_f : ctx_ok ct except = true -> attr_like ct m pe -> R ct m pe st_m st_f ->
  deferred_events ct m st_m = flat_map pe (deferred_events ct (t_interests ct) st_f).
Proof.
  intros Hct Hal HR. unfold deferred_events. induction (t_deferred ct) as [|slot l IH]; [reflexivity|].
  cbn [flat_map]. rewrite flat_map_app, <- IH. f_equal. cbv zeta.
  rewrite (slot_sources_R ct m pe st_m st_f slot HR).
  destruct (table_delivered ct (t_interests ct) slot (slot_sources ct st_f slot)) eqn:Efull.
  - cbn [flat_map]. rewrite app_nil_r, (al_def _ _ _ Hal). reflexivity.
  - destruct (table_delivered ct m slot (filter (fun x => keep_ct ct m (fst x)) (slot_sources ct st_f slot))) eqn:Em; [|reflexivity].
    rewrite (table_delivered_full ct except m slot _ _ Hct Em) in Efull. discriminate.
Qed.

Lemma loop_events_R ct except m pe st_m st_f : ctx_ok ct except = true -> attr_like ct m pe -> R ct m pe st_m st_f ->
  loop_events ct m st_m = flat_map pe (loop_events ct (t_interests ct) st_f).
Proof.
  intros Hct Hal HR. unfold loop_events. rewrite !flat_map_app.
  rewrite (flat_map_rev_small pe _ (al_small _ _ _ Hal)), <- (R_ev _ _ _ _ _ HR).
  rewrite <- (deferred_R ct except m pe st_m st_f Hct Hal HR).
  destruct (t_flags_event ct); [|reflexivity].
  cbn [flat_map]. rewrite app_nil_r, (al_flags _ _ _ Hal), (R_dep _ _ _ _ _ HR), (R_syn _ _ _ _ _ HR). reflexivity.
Qed.

(* ---------- Code and record components ---------- *)
Lemma spec_code_proj T p cm attr ms ml xr attrs : tok T ->
  [spec_code p T cm attr ms ml xr attrs]
  = proj_ev T (v_full T) (rt_method T) (t_interests (rt_method T)) (Some cm)
      (spec_code p T (t_interests (rt_code T)) attr ms ml xr attrs)
  \/ keep_ct (rt_method T) (t_interests (rt_method T)) attr = false.
Proof.
  intros HT. left. unfold spec_code. cbn [proj_ev].
  rewrite (keep_full (rt_method T) [] attr (tk_method T HT)).
  pose proof (plains_R (rt_code T) [] cm (proj_ev0 (rt_code T) cm) p attrs (tk_code T HT) (proj_ev0_like _ _) l_init l_init (R_init _ _ _)) as HR.
  rewrite (frame_sources_R _ _ _ _ _ HR), (loop_events_R _ [] _ _ _ _ (tk_code T HT) (proj_ev0_like _ _) HR). reflexivity.
Qed.

Lemma spec_code_R T p cm attr ms ml xr attrs : tok T ->
  spec_code p T cm attr ms ml xr attrs
  = (let st := spec_plains p (rt_code T) (t_interests (rt_code T)) attrs l_init in
     ECode attr ms ml (filter (keep_ct (rt_code T) cm) (frame_sources st)) xr (flat_map (proj_ev0 (rt_code T) cm) (loop_events (rt_code T) (t_interests (rt_code T)) st))).
Proof.
  intros HT. unfold spec_code.
  pose proof (plains_R (rt_code T) [] cm (proj_ev0 (rt_code T) cm) p attrs (tk_code T HT) (proj_ev0_like _ _) l_init l_init (R_init _ _ _)) as HR.
  cbv zeta. rewrite (frame_sources_R _ _ _ _ _ HR), (loop_events_R _ [] _ _ _ _ (tk_code T HT) (proj_ev0_like _ _) HR). reflexivity.
Qed.

Lemma spec_rc_R T p v attr k c : tok T ->
  spec_rc p T v attr k c
  = ERc attr k (fst (fst c)) (snd (fst c))
      (match v_rc v k with
       | Some m' => Some (flat_map (proj_ev0 (rt_rc T) m') (loop_events (rt_rc T) (t_interests (rt_rc T)) (spec_plains p (rt_rc T) (t_interests (rt_rc T)) (snd c) l_init)))
       | None => None
       end).
Proof.
  intros HT. unfold spec_rc. destruct (v_rc v k) as [m'|]; [|reflexivity].
  pose proof (plains_R (rt_rc T) [] m' (proj_ev0 (rt_rc T) m') p (snd c) (tk_rc T HT) (proj_ev0_like _ _) l_init l_init (R_init _ _ _)) as HR.
  rewrite (loop_events_R _ [] _ _ _ _ (tk_rc T HT) (proj_ev0_like _ _) HR). reflexivity.
Qed.

(* ---------- the attribute loop of a method or a class ---------- *)
Lemma rcs_R T p v ct m kc attr comps : tok T -> keep_ct ct m attr = true ->
  forall st_m st_f, R ct m (proj_ev T v ct m kc) st_m st_f -> l_rc st_m = l_rc st_f ->
  R ct m (proj_ev T v ct m kc) (spec_rcs p T v attr comps st_m) (spec_rcs p T (v_full T) attr comps st_f).
Proof.
  intros HT Hk. induction comps as [|c comps IH]; intros st_m st_f HR Hrc; [exact HR|].
  unfold spec_rcs. cbn [fold_left]. apply IH.
  - destruct HR as [Hev Hd Hs Hsl]. unfold push_rc. constructor; cbn [l_events l_dep l_syn l_slots flat_map]; try assumption.
    rewrite Hev, Hrc.
    rewrite (spec_rc_R T p v attr (l_rc st_f) c HT), (spec_rc_R T p (v_full T) attr (l_rc st_f) c HT).
    cbn [proj_ev v_full v_rc]. rewrite Hk. cbn [option_map app].
    (* the full visitor's own projection is the identity *)
    pose proof (plains_R (rt_rc T) [] (t_interests (rt_rc T)) (proj_ev0 (rt_rc T) (t_interests (rt_rc T))) p (snd c) (tk_rc T HT) (proj_ev0_like _ _) l_init l_init (R_init _ _ _)) as HR0.
    pose proof (loop_events_R _ [] _ _ _ _ (tk_rc T HT) (proj_ev0_like _ _) HR0) as Hid.
    rewrite <- Hid.
    destruct (v_rc v (l_rc st_f)); reflexivity.
  - unfold push_rc. cbn [l_rc]. congruence.
Qed.

Lemma set_record_R ct m pe st_m st_f : R ct m pe st_m st_f -> R ct m pe (set_record st_m) (set_record st_f).
Proof. intros [H1 H2 H3 H4]. constructor; assumption. Qed.

Lemma spec_rcs_rc p T v attr comps st : l_rc (spec_rcs p T v attr comps st) = (l_rc st + length comps)%nat.
Proof.
  revert st. induction comps as [|c comps IH]; intros st; [cbn; lia|].
  unfold spec_rcs in *. cbn [fold_left length]. rewrite IH. unfold push_rc. cbn [l_rc]. lia.
Qed.

(* what visit_code() answers in the full run: a visitor with all code interests — or, in a context
   without Code attributes, nothing on both sides *)
Definition kc_rel (T : reader_tables) (kc kcf : option mask) : Prop :=
  kcf = Some (t_interests (rt_code T)) \/ (kc = None /\ kcf = None).

Lemma attr_R T p v ct except m kc kcf a : tok T -> ctx_ok ct except = true -> kc_rel T kc kcf ->
  forall st_m st_f, R ct m (proj_ev T v ct m kc) st_m st_f -> (is_rec a = true -> l_rc st_m = l_rc st_f) ->
  R ct m (proj_ev T v ct m kc)
    (spec_attr p T v ct m kc st_m a)
    (spec_attr p T (v_full T) ct (t_interests ct) kcf st_f a)
  /\ (is_rec a = false -> l_rc (spec_attr p T v ct m kc st_m a) = l_rc st_m
                        /\ l_rc (spec_attr p T (v_full T) ct (t_interests ct) kcf st_f a) = l_rc st_f).
Proof.
  intros HT Hct Hkc st_m st_f HR Hrc.
  destruct a as [pa | nidx len ms ml code nexc exc attrs | nidx len comps]; cbn [spec_attr is_rec].
  - destruct (plain_R ct except m (proj_ev T v ct m kc) p pa st_m st_f Hct (proj_ev_like T v ct m kc) HR) as (H1 & H2 & H3).
    split; [exact H1|]. intros _. split; assumption.
  - split; [|intros _; destruct (pool_utf8 p nidx) as [name|]; [|split; reflexivity];
             fold (keep_ct ct m name); fold (keep_ct ct (t_interests ct) name);
             destruct (keep_ct ct m name), (keep_ct ct (t_interests ct) name); split; reflexivity].
    destruct (pool_utf8 p nidx) as [name|]; [|exact HR].
    fold (keep_ct ct m name). fold (keep_ct ct (t_interests ct) name). rewrite (keep_full ct except name Hct).
    destruct HR as [Hev Hd Hs Hsl].
    destruct Hkc as [->|[-> ->]].
    2: { destruct (keep_ct ct m name) eqn:Ek; constructor; cbn [l_emit l_events l_dep l_syn l_slots flat_map proj_ev]; try assumption;
         rewrite Ek, Hev; reflexivity. }
    destruct (keep_ct ct m name) eqn:Ek; constructor; cbn [l_emit l_events l_dep l_syn l_slots flat_map]; try assumption.
    + rewrite Hev.
      rewrite (spec_code_R T p (t_interests (rt_code T)) name ms ml (exc_rows nexc exc) attrs HT). cbv zeta. cbn [proj_ev]. rewrite Ek. cbn [app].
      destruct kc as [cm|]; [|reflexivity].
      rewrite (spec_code_R T p cm name ms ml (exc_rows nexc exc) attrs HT). cbv zeta.
      (* the full visitor's own projection is the identity *)
      pose proof (plains_R (rt_code T) [] (t_interests (rt_code T)) (proj_ev0 (rt_code T) (t_interests (rt_code T))) p attrs (tk_code T HT) (proj_ev0_like _ _) l_init l_init (R_init _ _ _)) as HR0.
      pose proof (loop_events_R _ [] _ _ _ _ (tk_code T HT) (proj_ev0_like _ _) HR0) as Hid.
      rewrite <- Hid.
      rewrite (filter_all (keep_ct (rt_code T) (t_interests (rt_code T)))) by (intros x; apply (keep_full (rt_code T) [] x (tk_code T HT))).
      reflexivity.
    + rewrite (spec_code_R T p (t_interests (rt_code T)) name ms ml (exc_rows nexc exc) attrs HT). cbv zeta. cbn [proj_ev]. rewrite Ek. exact Hev.
  - split; [|discriminate].
    destruct (pool_utf8 p nidx) as [name|]; [|exact HR].
    fold (keep_ct ct m name). fold (keep_ct ct (t_interests ct) name). rewrite (keep_full ct except name Hct).
    destruct (keep_ct ct m name) eqn:Ek.
    + apply (rcs_R T p v ct m kc name comps HT Ek); [apply set_record_R; exact HR|]. cbn [set_record l_rc]. apply Hrc. reflexivity.
    + (* the partial visitor skips the Record attribute: every component event is dropped *)
      assert (Hgen : forall sf, l_events st_m = flat_map (proj_ev T v ct m kc) (l_events sf) -> l_dep st_m = l_dep sf -> l_syn st_m = l_syn sf ->
                     l_slots st_m = filter (slot_kept ct m) (l_slots sf) ->
                     R ct m (proj_ev T v ct m kc) st_m (spec_rcs p T (v_full T) name comps sf)).
      { clear Hrc HR. induction comps as [|c comps IH]; intros sf H1 H2 H3 H4; [constructor; assumption|].
        unfold spec_rcs. cbn [fold_left]. apply IH; unfold push_rc; cbn [l_events l_dep l_syn l_slots flat_map]; try assumption.
        unfold spec_rc at 1. cbn [proj_ev]. rewrite Ek. exact H1. }
      destruct HR as [H1 H2 H3 H4]. apply Hgen; [exact H1|exact H2|exact H3|exact H4].
Qed.

Lemma attrs_R T p v ct except m kc kcf l : tok T -> ctx_ok ct except = true -> kc_rel T kc kcf -> (count_rec l <= 1)%nat ->
  forall st_m st_f, R ct m (proj_ev T v ct m kc) st_m st_f -> ((1 <= count_rec l)%nat -> l_rc st_m = l_rc st_f) ->
  R ct m (proj_ev T v ct m kc)
    (spec_attrs p T v ct m kc l st_m)
    (spec_attrs p T (v_full T) ct (t_interests ct) kcf l st_f).
Proof.
  intros HT Hct Hkc. induction l as [|a l IH]; intros Hcnt st_m st_f HR Hrc; [exact HR|].
  unfold spec_attrs. cbn [fold_left].
  destruct (attr_R T p v ct except m kc kcf a HT Hct Hkc st_m st_f HR) as (H1 & H2).
  { intros Ha. apply Hrc. cbn [count_rec]. rewrite Ha. lia. }
  apply IH.
  - cbn [count_rec] in Hcnt. lia.
  - exact H1.
  - intros Hl. destruct (is_rec a) eqn:Ea.
    + cbn [count_rec] in Hcnt. rewrite Ea in Hcnt. lia.
    + destruct (H2 eq_refl) as (E1 & E2). rewrite E1, E2. apply Hrc. cbn [count_rec]. lia.
Qed.

(* the events of an attribute loop are not member events *)
Definition not_member (e : ev) : bool := match e with EField _ _ _ _ _ | EMethod _ _ _ _ _ => false | _ => true end.

Lemma plain_not_member p ct m st a : forallb not_member (l_events st) = true -> forallb not_member (l_events (spec_plain p ct m st a)) = true.
Proof.
  intros H. unfold spec_plain. destruct (pool_utf8 p (p_nidx a)) as [nm|]; [|exact H].
  destruct (act_under ct m nm) as [[| w | [|s0 o] | u | b | o]|]; cbn [plain_result l_emit l_events forallb not_member andb]; exact H.
Qed.

Lemma rcs_not_member p T v attr comps : forall st, forallb not_member (l_events st) = true ->
  forallb not_member (l_events (spec_rcs p T v attr comps st)) = true.
Proof.
  induction comps as [|c comps IH]; intros st H; [exact H|].
  unfold spec_rcs. cbn [fold_left]. apply IH. unfold push_rc, spec_rc. cbn [l_events forallb not_member andb]. exact H.
Qed.

Lemma attrs_not_member p T v ct m kc l : forall st, forallb not_member (l_events st) = true ->
  forallb not_member (l_events (spec_attrs p T v ct m kc l st)) = true.
Proof.
  induction l as [|a l IH]; intros st H; [exact H|].
  unfold spec_attrs. cbn [fold_left]. apply IH.
  destruct a as [pa | nidx len ms ml code nexc exc attrs | nidx len comps]; cbn [spec_attr].
  - apply plain_not_member. exact H.
  - destruct (pool_utf8 p nidx) as [nm|]; [|exact H]. destruct (keep (t_arms ct) m nm); [|exact H].
    destruct kc; cbn [l_emit l_events forallb not_member spec_code andb]; exact H.
  - destruct (pool_utf8 p nidx) as [nm|]; [|exact H]. destruct (keep (t_arms ct) m nm); [|exact H].
    apply rcs_not_member. exact H.
Qed.

Lemma loop_not_member ct m st : forallb not_member (l_events st) = true -> forallb not_member (loop_events ct m st) = true.
Proof.
  intros H. unfold loop_events. rewrite !forallb_app. rewrite forallb_forall in H.
  apply andb_true_intro. split; [|apply andb_true_intro; split].
  - apply forallb_forall. intros x Hx. apply H. apply in_rev. exact Hx.
  - unfold deferred_events. apply forallb_forall. intros x Hx. apply in_flat_map in Hx as (slot & _ & Hx).
    cbv zeta in Hx. destruct (table_delivered ct m slot (slot_sources ct st slot)); [|destruct Hx]. destruct Hx as [<-|[]]. reflexivity.
  - destruct (t_flags_event ct); reflexivity.
Qed.

Lemma flat_map_ext_in' {A B} (f g : A -> list B) l : (forall x, In x l -> f x = g x) -> flat_map f l = flat_map g l.
Proof.
  induction l as [|x l IH]; intros H; [reflexivity|]. cbn [flat_map]. rewrite (H x (or_introl eq_refl)), IH; [reflexivity|].
  intros y Hy. apply H. right. exact Hy.
Qed.

Lemma proj_member_attr T v es : forallb not_member es = true ->
  flat_map (proj_member T v) es = flat_map (proj_ev T v (rt_class T) (v_class v) None) es.
Proof.
  intros H. apply flat_map_ext_in'. intros x Hx. rewrite forallb_forall in H. specialize (H x Hx).
  destruct x; try reflexivity; discriminate.
Qed.

(* ---------- members ---------- *)
Definition rec_bound (mb : member) : Prop := (count_rec (m_attrs mb) <= 1)%nat.

Lemma spec_field_proj T p v k mb : tok T -> rec_bound mb ->
  proj_member T v (spec_field p T (v_full T) k mb)
  = if rt_honours_fields T && negb (interested (v_class v) FIELDS) then [] else [spec_field p T v k mb].
Proof.
  intros HT Hb. unfold spec_field. cbn [proj_member v_full v_field].
  destruct (rt_honours_fields T && negb (interested (v_class v) FIELDS)); [reflexivity|].
  destruct (v_field v k) as [m|]; [|reflexivity]. cbn [option_map].
  pose proof (attrs_R T p v (rt_field T) [] m None None (m_attrs mb) HT (tk_field T HT) (or_intror (conj eq_refl eq_refl)) Hb
                l_init l_init (R_init _ _ _) (fun _ => eq_refl)) as HR.
  rewrite (loop_events_R _ [] _ _ _ _ (tk_field T HT) (proj_ev_like T v (rt_field T) m None) HR). reflexivity.
Qed.

Lemma spec_method_proj T p v k mb : tok T -> rec_bound mb ->
  proj_member T v (spec_method p T (v_full T) k mb)
  = if rt_honours_methods T && negb (interested (v_class v) METHODS) then [] else [spec_method p T v k mb].
Proof.
  intros HT Hb. unfold spec_method. cbn [proj_member v_full v_method v_code].
  destruct (rt_honours_methods T && negb (interested (v_class v) METHODS)); [reflexivity|].
  destruct (v_method v k) as [m|]; [|reflexivity]. cbn [option_map].
  pose proof (attrs_R T p v (rt_method T) [] m (v_code v k) (Some (t_interests (rt_code T))) (m_attrs mb) HT (tk_method T HT) (or_introl eq_refl) Hb
                l_init l_init (R_init _ _ _) (fun _ => eq_refl)) as HR.
  rewrite (loop_events_R _ [] _ _ _ _ (tk_method T HT) (proj_ev_like T v (rt_method T) m (v_code v k)) HR). reflexivity.
Qed.

Lemma spec_members_proj T v (skip : bool) (f ff : nat -> member -> ev) l :
  (forall k mb, In mb l -> proj_member T v (ff k mb) = if skip then [] else [f k mb]) ->
  forall k, spec_members skip f k l = flat_map (proj_member T v) (spec_members false ff k l).
Proof.
  induction l as [|mb l IH]; intros H k; [reflexivity|].
  cbn [spec_members flat_map app]. rewrite (H k mb (or_introl eq_refl)).
  rewrite (IH (fun k mb Hin => H k mb (or_intror Hin)) (S k)). reflexivity.
Qed.

(* ---------- Th 3: the class ---------- *)
Theorem spec_projection T g c h v :
  tables_ok T = true -> wf g T c h ->
  spec_class T v h c = project T v (spec_class T (v_full T) h c).
Proof.
  intros HTb [Hhdr Hf Hm Hc Hgf Hgm Hgc]. pose proof (tables_ok_tok T HTb) as HT.
  unfold spec_class, project. cbn [v_full v_accept_class v_class].
  destruct (v_accept_class v); [|reflexivity]. cbn [option_map]. f_equal.
  (* the full visitor skips no member *)
  change (interested (t_interests (rt_class T)) FIELDS) with (mem FIELDS (t_interests (rt_class T))).
  change (interested (t_interests (rt_class T)) METHODS) with (mem METHODS (t_interests (rt_class T))).
  rewrite (tk_fields_in T HT), (tk_methods_in T HT). cbn [negb]. rewrite !andb_false_r.
  rewrite !flat_map_app.
  assert (Hcnt : (count_rec (c_attrs c) <= 1)%nat).
  { unfold wf_attrs_b in Hc. apply andb_prop in Hc as [_ Hc]. apply PeanoNat.Nat.leb_le in Hc. exact Hc. }
  f_equal; [|f_equal].
  - (* class attributes *)
    pose proof (attrs_R T (h_pool h) v (rt_class T) [FIELDS; METHODS] (v_class v) None None (c_attrs c) HT (tk_class T HT)
                  (or_intror (conj eq_refl eq_refl)) Hcnt l_init l_init (R_init _ _ _) (fun _ => eq_refl)) as HR.
    rewrite proj_member_attr.
    + exact (loop_events_R _ [FIELDS; METHODS] _ _ _ _ (tk_class T HT) (proj_ev_like T v (rt_class T) (v_class v) None) HR).
    + apply loop_not_member. apply attrs_not_member. reflexivity.
  - apply spec_members_proj. intros k mb Hin. apply spec_field_proj; [exact HT|].
    pose proof (forallb_In _ _ _ Hf Hin) as Hw. unfold wf_member_b, wf_attrs_b in Hw.
    apply andb_prop in Hw as [_ Hw]. apply PeanoNat.Nat.leb_le in Hw. exact Hw.
  - apply spec_members_proj. intros k mb Hin. apply spec_method_proj; [exact HT|].
    pose proof (forallb_In _ _ _ Hm Hin) as Hw. unfold wf_member_b, wf_attrs_b in Hw.
    apply andb_prop in Hw as [_ Hw]. apply PeanoNat.Nat.leb_le in Hw. exact Hw.
Qed.

(* on the bytes: a partial / declining read delivers the projection of the full accepting read,
   and both stop at the same place *)
Theorem partial_is_projection T g c h :
  tables_ok T = true -> wf g T c h ->
  forall v rest,
    exists t_full,
      read_class g T (v_full T) (enc c ++ rest) = Ok (t_full, rest)
      /\ read_class g T v (enc c ++ rest) = Ok (project T v t_full, rest).
Proof.
  intros HT Hwf v rest. exists (spec_class T (v_full T) h c). split.
  - apply read_class_ok; assumption.
  - rewrite <- (spec_projection T g c h v HT Hwf). apply read_class_ok; assumption.
Qed.

(* ---------- locality: what the projection does to an event depends only on the visitor's answers
   for the item the event belongs to; declining (or masking) one member, record component or Code
   leaves the events of all the others as they are ---------- *)
Definition answers_at (v : visitor) (e : ev) : option mask * option mask :=
  match e with
  | EField k _ _ _ _ => (v_field v k, None)
  | EMethod k _ _ _ _ => (v_method v k, v_code v k)
  | ERc _ k _ _ _ => (v_rc v k, None)
  | _ => (None, None)
  end.

Lemma proj_ev_ext T v1 v2 ct m kc e : (forall k, v_rc v1 k = v_rc v2 k) -> proj_ev T v1 ct m kc e = proj_ev T v2 ct m kc e.
Proof. intros H. destruct e; cbn [proj_ev]; try reflexivity. rewrite H. reflexivity. Qed.

Theorem projection_local T v1 v2 e :
  v_class v1 = v_class v2 -> (forall k, v_rc v1 k = v_rc v2 k) ->
  answers_at v1 e = answers_at v2 e ->
  proj_member T v1 e = proj_member T v2 e.
Proof.
  intros Hc Hrc Ha. destruct e; cbn [proj_member answers_at] in *; rewrite <- ?Hc.
  - apply proj_ev_ext; exact Hrc.
  - apply proj_ev_ext; exact Hrc.
  - apply proj_ev_ext; exact Hrc.
  - apply proj_ev_ext; exact Hrc.
  - apply proj_ev_ext; exact Hrc.
  - apply proj_ev_ext; exact Hrc.
  - injection Ha as Ha. rewrite Ha.
    destruct (rt_honours_fields T && negb (interested (v_class v1) FIELDS)); [reflexivity|].
    destruct (v_field v2 k); [|reflexivity]. destruct es; [|reflexivity]. cbn [option_map]. do 3 f_equal.
    apply flat_map_ext_in'. intros x _. apply proj_ev_ext; exact Hrc.
  - injection Ha as Ha1 Ha2. rewrite Ha1, Ha2.
    destruct (rt_honours_methods T && negb (interested (v_class v1) METHODS)); [reflexivity|].
    destruct (v_method v2 k); [|reflexivity]. destruct es; [|reflexivity]. cbn [option_map]. do 3 f_equal.
    apply flat_map_ext_in'. intros x _. apply proj_ev_ext; exact Hrc.
Qed.

Theorem projection_local_rc T v1 v2 ct m kc attr k n d es :
  v_rc v1 k = v_rc v2 k ->
  proj_ev T v1 ct m kc (ERc attr k n d es) = proj_ev T v2 ct m kc (ERc attr k n d es).
Proof. intros H. cbn [proj_ev]. rewrite H. reflexivity. Qed.
