(* C17 — the parsed VALUES of the attributes whose contents the reader hands to a visitor as a tree of values:
   annotations (RuntimeVisibleAnnotations / RuntimeInvisibleAnnotations: element_value trees, JVMS 4.7.16),
   AnnotationDefault (one element_value), the attributes whose body is one constant pool index of a string
   (Signature, SourceFile) and the attributes that are rows of pool indices and flags (InnerClasses, EnclosingMethod,
   NestHost, NestMembers, PermittedSubclasses, ModuleMainClass, ModulePackages, Exceptions, MethodParameters), and type
   annotations (RuntimeVisibleTypeAnnotations / RuntimeInvisibleTypeAnnotations: target_type and target_info per location,
   type_path, annotation; JVMS 4.7.20).
   Definitions only.

   The parser follows `read_annotations_attribute`, `read_element_values_named`, `read_element_values_unnamed` and
   `read_element_value_unnamed` of duke/src/class_reader.rs; the tags, the pool accessor of every constant tag and
   MAX_ELEMENT_VALUE_NESTING come from the generated table (ValuesGen.v, translate/c17_values.py).  The events of the
   reader model (Model.v) carry the BODY BYTES of such an attribute; [attr_value] maps name and body to what the
   visitor is handed: the tree with every pool index resolved ([canon_*]: strings by a checksum of their bytes,
   numeric constants narrowed as the accessor narrows them).

   Not modelled: that a pool index designates an entry of the demanded kind and that a descriptor string is valid
   (`FieldDescriptor::try_from`) — the reader answers Err there; the model resolves what the resolver gives it. *)
From FB Require Export C17.Model C17.Struct.

Inductive evalue :=
| XConst (tag idx : N)                               (* B C D F I J S Z s: const_value_index *)
| XEnum (type_idx const_idx : N)                     (* e *)
| XClass (idx : N)                                   (* c *)
| XAnnot (type_idx : N) (pairs : list (N * evalue))  (* @: annotation_value *)
| XArray (vals : list evalue).                       (* [ *)

Definition annotation := (N * list (N * evalue))%type.   (* type_index, element_value_pairs *)

(* the arms of the element_value readers *)
Record xtable := mkXT {
  xt_consts : list (N * (N * N));    (* tag -> (tag of the pool entry the accessor demands, narrowing) *)
  xt_enum : N; xt_class : N; xt_annot : N; xt_array : N;
  xt_depth : nat;                    (* MAX_ELEMENT_VALUE_NESTING *)
}.

Fixpoint assocN {A} (k : N) (l : list (N * A)) : option A :=
  match l with
  | [] => None
  | (k', v) :: l' => if k =? k' then Some v else assocN k l'
  end.

Definition is_const (X : xtable) (t : N) : bool := match assocN t (xt_consts X) with Some _ => true | None => false end.

(* `for _ in 0..n { let name = …read_u16; <element value> }` and `for _ in 0..n { <element value> }` *)
Fixpoint loop_pairs (pv : bytes -> res (evalue * bytes)) (n : nat) (s : bytes) : res (list (N * evalue) * bytes) :=
  match n with
  | O => Ok ([], s)
  | S n' =>
    match rd16 s with Err => Err | Ok (nm, s1) =>
    match pv s1 with Err => Err | Ok (v, s2) =>
    match loop_pairs pv n' s2 with Err => Err | Ok (l, s3) => Ok ((nm, v) :: l, s3) end end end
  end.
Fixpoint loop_vals (pv : bytes -> res (evalue * bytes)) (n : nat) (s : bytes) : res (list evalue * bytes) :=
  match n with
  | O => Ok ([], s)
  | S n' =>
    match pv s with Err => Err | Ok (v, s1) =>
    match loop_vals pv n' s1 with Err => Err | Ok (l, s2) => Ok (v :: l, s2) end end
  end.

(* one element_value read at nesting level [xt_depth X - fuel]: the lists nested directly in it are at the next
   level, which `if nesting > MAX_ELEMENT_VALUE_NESTING { bail!(…) }` admits iff fuel > 0 *)
Fixpoint p_value (X : xtable) (fuel : nat) (s : bytes) : res (evalue * bytes) :=
  match rd8 s with Err => Err | Ok (t, s1) =>
  if is_const X t then
    match rd16 s1 with Err => Err | Ok (i, s2) => Ok (XConst t i, s2) end
  else if t =? xt_enum X then
    match rd16 s1 with Err => Err | Ok (a, s2) =>
    match rd16 s2 with Err => Err | Ok (b, s3) => Ok (XEnum a b, s3) end end
  else if t =? xt_class X then
    match rd16 s1 with Err => Err | Ok (c, s2) => Ok (XClass c, s2) end
  else if t =? xt_annot X then
    match rd16 s1 with Err => Err | Ok (ty, s2) =>
    match fuel with
    | O => Err
    | S f =>
      match rd16 s2 with Err => Err | Ok (n, s3) =>
      match loop_pairs (p_value X f) (N.to_nat n) s3 with Err => Err | Ok (ps, s4) => Ok (XAnnot ty ps, s4) end end
    end end
  else if t =? xt_array X then
    match fuel with
    | O => Err
    | S f =>
      match rd16 s1 with Err => Err | Ok (n, s2) =>
      match loop_vals (p_value X f) (N.to_nat n) s2 with Err => Err | Ok (vs, s3) => Ok (XArray vs, s3) end end
    end
  else Err
  end.

(* read_annotations_attribute: per annotation the type index and the named list at nesting 0 *)
Fixpoint loop_annots (X : xtable) (n : nat) (s : bytes) : res (list annotation * bytes) :=
  match n with
  | O => Ok ([], s)
  | S n' =>
    match rd16 s with Err => Err | Ok (ty, s1) =>
    match rd16 s1 with Err => Err | Ok (np, s2) =>
    match loop_pairs (p_value X (xt_depth X)) (N.to_nat np) s2 with Err => Err | Ok (ps, s3) =>
    match loop_annots X n' s3 with Err => Err | Ok (l, s4) => Ok ((ty, ps) :: l, s4) end end end end
  end.
Definition p_annotations (X : xtable) (s : bytes) : res (list annotation * bytes) :=
  match rd16 s with Err => Err | Ok (n, s1) => loop_annots X (N.to_nat n) s1 end.

(* ---------- the encoding (JVMS 4.7.16.1) ---------- *)
Fixpoint enc_value (X : xtable) (v : evalue) : bytes :=
  match v with
  | XConst t i => t :: e16 i
  | XEnum a b => xt_enum X :: e16 a ++ e16 b
  | XClass c => xt_class X :: e16 c
  | XAnnot ty ps => xt_annot X :: e16 ty ++ e16 (elen ps) ++ flat_map (fun p => e16 (fst p) ++ enc_value X (snd p)) ps
  | XArray vs => xt_array X :: e16 (elen vs) ++ flat_map (enc_value X) vs
  end.
Definition enc_pairs (X : xtable) (ps : list (N * evalue)) : bytes := flat_map (fun p => e16 (fst p) ++ enc_value X (snd p)) ps.
Definition enc_annotation (X : xtable) (a : annotation) : bytes := e16 (fst a) ++ e16 (elen (snd a)) ++ enc_pairs X (snd a).
Definition enc_annotations (X : xtable) (l : list annotation) : bytes := e16 (elen l) ++ flat_map (enc_annotation X) l.

Fixpoint max_list (l : list nat) : nat := match l with [] => O | x :: r => Nat.max x (max_list r) end.
(* levels of annotation / array nesting *)
Fixpoint depth (v : evalue) : nat :=
  match v with
  | XAnnot _ ps => S (max_list (map (fun p => depth (snd p)) ps))
  | XArray vs => S (max_list (map depth vs))
  | _ => O
  end.
(* every constant carries one of the table's constant tags *)
Fixpoint value_ok (X : xtable) (v : evalue) : bool :=
  match v with
  | XConst t _ => is_const X t
  | XAnnot _ ps => forallb (fun p => value_ok X (snd p)) ps
  | XArray vs => forallb (value_ok X) vs
  | _ => true
  end.
Definition annotation_ok (X : xtable) (a : annotation) : bool :=
  forallb (fun p => value_ok X (snd p) && Nat.leb (depth (snd p)) (xt_depth X)) (snd a).

(* the five kinds of arms are told apart by their tag *)
Fixpoint nodupN (l : list N) : bool :=
  match l with [] => true | x :: r => negb (existsb (N.eqb x) r) && nodupN r end.
Definition xtable_ok (X : xtable) : bool :=
  nodupN (map fst (xt_consts X) ++ [xt_enum X; xt_class X; xt_annot X; xt_array X]).

(* ---------- what the visitor is handed: every index resolved ---------- *)
Record resolver := mkRs {
  rs_str : N -> N;               (* pool index of a Utf8 entry -> checksum of the string *)
  rs_num : N -> N -> N;          (* tag of the demanded pool entry, index -> the entry's value (bits) *)
  rs_ref : N -> N -> list N;     (* tag of the demanded pool entry (1 Utf8, 7 Class, 20 Package: the name; 12 NameAndType: name
                                    and descriptor), index -> the checksums of the strings the entry designates *)
}.

Definition narrow (how v : N) : N :=
  match how with
  | 1 => v mod 256
  | 2 => v mod 65536
  | 3 => if v =? 0 then 0 else 1
  | _ => v
  end.

Definition canon_const (X : xtable) (rs : resolver) (t i : N) : N :=
  match assocN t (xt_consts X) with
  | Some (ptag, how) => if how =? 4 then rs_str rs i else narrow how (rs_num rs ptag i)
  | None => 0
  end.

(* a flat, self-delimiting list of numbers: tag, then the resolved fields; lists with their length *)
Fixpoint canon_value (X : xtable) (rs : resolver) (v : evalue) : list N :=
  match v with
  | XConst t i => [t; canon_const X rs t i]
  | XEnum a b => [xt_enum X; rs_str rs a; rs_str rs b]
  | XClass c => [xt_class X; rs_str rs c]
  | XAnnot ty ps => xt_annot X :: rs_str rs ty :: elen ps :: flat_map (fun p => rs_str rs (fst p) :: canon_value X rs (snd p)) ps
  | XArray vs => xt_array X :: elen vs :: flat_map (canon_value X rs) vs
  end.
Definition canon_annotation (X : xtable) (rs : resolver) (a : annotation) : list N :=
  rs_str rs (fst a) :: elen (snd a) :: flat_map (fun p => rs_str rs (fst p) :: canon_value X rs (snd p)) (snd a).
Definition canon_annotations (X : xtable) (rs : resolver) (l : list annotation) : list N :=
  elen l :: flat_map (canon_annotation X rs) l.

(* ---------- attributes that are (lists of) rows of constant pool indices and flags ----------
   InnerClasses, EnclosingMethod, NestHost, NestMembers, PermittedSubclasses, ModuleMainClass, ModulePackages, Exceptions,
   MethodParameters: `reader.read_vec(|r| r.read_u16_as_usize(), |r| …)` / a `let` sequence of `pool.get_x(reader.read_u16()?)`.
   Every column of a row is one u16. *)
Inductive col :=
| CIdx (kind : N)       (* an index resolved by the accessor of the pool entry kind (7 get_class, 1 get_utf8, 20 get_package) *)
| COpt (kind : N)       (* pool.get_optional(…): 0 = absent (12: get_method_name_and_type) *)
| CFlags (mask : N).    (* flags, of which the `From<u16>` impl of the tree type keeps the bits in mask *)
Inductive layout :=
| LRow (cols : list col)                    (* one row *)
| LVec (wide : bool) (cols : list col).     (* a count (u16 if wide, u8 otherwise) and that many rows *)

Definition layout_cols (lay : layout) : list col := match lay with LRow c => c | LVec _ c => c end.

(* the rows of a body: one raw u16 per column *)
Fixpoint p_cols (cols : list col) (s : bytes) : res (list N * bytes) :=
  match cols with
  | [] => Ok ([], s)
  | _ :: cols' =>
    match rd16 s with Err => Err | Ok (x, s1) =>
    match p_cols cols' s1 with Err => Err | Ok (r, s2) => Ok (x :: r, s2) end end
  end.
Fixpoint p_rows (cols : list col) (n : nat) (s : bytes) : res (list (list N) * bytes) :=
  match n with
  | O => Ok ([], s)
  | S n' =>
    match p_cols cols s with Err => Err | Ok (r, s1) =>
    match p_rows cols n' s1 with Err => Err | Ok (l, s2) => Ok (r :: l, s2) end end
  end.
Definition p_layout (lay : layout) (s : bytes) : res (list (list N) * bytes) :=
  match lay with
  | LRow cols => p_rows cols 1 s
  | LVec true cols => match rd16 s with Err => Err | Ok (n, s1) => p_rows cols (N.to_nat n) s1 end
  | LVec false cols => match rd8 s with Err => Err | Ok (n, s1) => p_rows cols (N.to_nat n) s1 end
  end.

Definition enc_rows (rows : list (list N)) : bytes := flat_map (flat_map e16) rows.
Definition enc_layout (lay : layout) (rows : list (list N)) : bytes :=
  match lay with
  | LRow _ => enc_rows rows
  | LVec true _ => e16 (elen rows) ++ enc_rows rows
  | LVec false _ => elen rows :: enc_rows rows
  end.
(* rows as wide as the layout has columns; exactly one row where the layout is a single row *)
Definition rows_ok (lay : layout) (rows : list (list N)) : bool :=
  forallb (fun r => Nat.eqb (length r) (length (layout_cols lay))) rows
  && match lay with LRow _ => Nat.eqb (length rows) 1 | LVec _ _ => true end.

Fixpoint canon_cols (rs : resolver) (cols : list col) (r : list N) : list N :=
  match cols, r with
  | c :: cols', x :: r' =>
      match c with
      | CIdx k => rs_ref rs k x
      | COpt k => if x =? 0 then [0] else 1 :: rs_ref rs k x
      | CFlags m => [N.land x m]
      end ++ canon_cols rs cols' r'
  | _, _ => []
  end.
Definition canon_layout (rs : resolver) (lay : layout) (rows : list (list N)) : list N :=
  match lay with
  | LRow cols => flat_map (canon_cols rs cols) rows
  | LVec _ cols => elen rows :: flat_map (canon_cols rs cols) rows
  end.

Fixpoint assoc_layout (name : str) (l : list (str * layout)) : option layout :=
  match l with
  | [] => None
  | (k, v) :: l' => if str_eqb name k then Some v else assoc_layout name l'
  end.

(* ---------- type annotations (JVMS 4.7.20): target_type, target_info, type_path, then an annotation ----------
   `read_type_annotations_attribute` / `read_type_annotations_attribute_code`: a u16 count; per type annotation
   `read_type_reference` (the impl of TargetInfoRead that the location's visitor trait demands; inside Code:
   `read_type_reference_code`) — one u8 target_type selecting the arm, then the fields the arm reads —, `read_type_path`,
   a u16 type index and the named element values at nesting 0.  Which target types a location admits and what each arm
   reads come from the generated table. *)
Inductive tfield :=
| TU8                 (* reader.read_u8() *)
| TU16                (* reader.read_u16() *)
| TOff                (* labels.get_or_create(reader.read_u16()): a bytecode offset, handed over as a label *)
| TTable.             (* u16 count, then per row start_pc, length (-> a label range), local variable index: three u16 *)
Inductive tval := TVNum (n : N) | TVTable (rows : list (N * N * N)).

Record tannot := mkTA {
  ta_tag : N;                      (* target_type *)
  ta_info : list tval;             (* target_info: one value per field the arm reads *)
  ta_path : list (N * N);          (* type_path: type_path_kind, type_argument_index *)
  ta_type : N;                     (* type_index *)
  ta_pairs : list (N * evalue);    (* element_value_pairs *)
}.

Definition ttable := list (N * list tfield).          (* target_type -> the fields its arm reads *)
Record tytable := mkTY {
  ty_targets : list (N * ttable);  (* location (0 class, 1 field, 2 method, 3 Code, 4 record component) -> its arms *)
  ty_path : list (N * bool);       (* type_path_kind -> does it carry an index (otherwise type_argument_index must be 0) *)
}.

Fixpoint loop_trows (n : nat) (s : bytes) : res (list (N * N * N) * bytes) :=
  match n with
  | O => Ok ([], s)
  | S n' =>
    match rd16 s with Err => Err | Ok (a, s1) =>
    match rd16 s1 with Err => Err | Ok (b, s2) =>
    match rd16 s2 with Err => Err | Ok (c, s3) =>
    match loop_trows n' s3 with Err => Err | Ok (l, s4) => Ok ((a, b, c) :: l, s4) end end end end
  end.
Definition p_tfield (f : tfield) (s : bytes) : res (tval * bytes) :=
  match f with
  | TU8 => match rd8 s with Err => Err | Ok (x, s1) => Ok (TVNum x, s1) end
  | TU16 | TOff => match rd16 s with Err => Err | Ok (x, s1) => Ok (TVNum x, s1) end
  | TTable => match rd16 s with Err => Err | Ok (n, s1) =>
              match loop_trows (N.to_nat n) s1 with Err => Err | Ok (rows, s2) => Ok (TVTable rows, s2) end end
  end.
Fixpoint p_tfields (fs : list tfield) (s : bytes) : res (list tval * bytes) :=
  match fs with
  | [] => Ok ([], s)
  | f :: fs' =>
    match p_tfield f s with Err => Err | Ok (v, s1) =>
    match p_tfields fs' s1 with Err => Err | Ok (l, s2) => Ok (v :: l, s2) end end
  end.
(* `match reader.read_u8()? { … tag => bail!(…) }` *)
Definition p_target (tbl : ttable) (s : bytes) : res (N * list tval * bytes) :=
  match rd8 s with Err => Err | Ok (t, s1) =>
  match assocN t tbl with
  | None => Err
  | Some fs => match p_tfields fs s1 with Err => Err | Ok (vs, s2) => Ok (t, vs, s2) end
  end end.
(* read_type_path: u8 path_length; per entry u8 kind, u8 index; a kind without index demands index 0 *)
Fixpoint loop_path (K : list (N * bool)) (n : nat) (s : bytes) : res (list (N * N) * bytes) :=
  match n with
  | O => Ok ([], s)
  | S n' =>
    match rd8 s with Err => Err | Ok (k, s1) =>
    match rd8 s1 with Err => Err | Ok (i, s2) =>
    match assocN k K with
    | None => Err
    | Some indexed =>
      if indexed || (i =? 0) then
        match loop_path K n' s2 with Err => Err | Ok (l, s3) => Ok ((k, i) :: l, s3) end
      else Err
    end end end
  end.
Definition p_type_path (K : list (N * bool)) (s : bytes) : res (list (N * N) * bytes) :=
  match rd8 s with Err => Err | Ok (n, s1) => loop_path K (N.to_nat n) s1 end.

Definition p_tannot (X : xtable) (K : list (N * bool)) (tbl : ttable) (s : bytes) : res (tannot * bytes) :=
  match p_target tbl s with Err => Err | Ok (t, vs, s1) =>
  match p_type_path K s1 with Err => Err | Ok (path, s2) =>
  match rd16 s2 with Err => Err | Ok (ty, s3) =>
  match rd16 s3 with Err => Err | Ok (np, s4) =>
  match loop_pairs (p_value X (xt_depth X)) (N.to_nat np) s4 with Err => Err | Ok (ps, s5) =>
    Ok (mkTA t vs path ty ps, s5)
  end end end end end.
Fixpoint loop_tannots (X : xtable) (K : list (N * bool)) (tbl : ttable) (n : nat) (s : bytes) : res (list tannot * bytes) :=
  match n with
  | O => Ok ([], s)
  | S n' =>
    match p_tannot X K tbl s with Err => Err | Ok (a, s1) =>
    match loop_tannots X K tbl n' s1 with Err => Err | Ok (l, s2) => Ok (a :: l, s2) end end
  end.
Definition p_type_annotations (X : xtable) (Y : tytable) (loc : N) (s : bytes) : res (list tannot * bytes) :=
  match assocN loc (ty_targets Y) with
  | None => Err
  | Some tbl => match rd16 s with Err => Err | Ok (n, s1) => loop_tannots X (ty_path Y) tbl (N.to_nat n) s1 end
  end.

(* the encoding (JVMS 4.7.20, 4.7.20.1, 4.7.20.2) *)
Definition enc_trows (rows : list (N * N * N)) : bytes :=
  flat_map (fun r => e16 (fst (fst r)) ++ e16 (snd (fst r)) ++ e16 (snd r)) rows.
Definition enc_tval (f : tfield) (v : tval) : bytes :=
  match f, v with
  | TU8, TVNum x => [x]
  | TU16, TVNum x | TOff, TVNum x => e16 x
  | TTable, TVTable rows => e16 (elen rows) ++ enc_trows rows
  | _, _ => []
  end.
Fixpoint enc_tvals (fs : list tfield) (vs : list tval) : bytes :=
  match fs, vs with
  | f :: fs', v :: vs' => enc_tval f v ++ enc_tvals fs' vs'
  | _, _ => []
  end.
Definition enc_path (path : list (N * N)) : bytes := elen path :: flat_map (fun p => [fst p; snd p]) path.
Definition enc_tannot (X : xtable) (tbl : ttable) (a : tannot) : bytes :=
  ta_tag a :: enc_tvals (match assocN (ta_tag a) tbl with Some fs => fs | None => [] end) (ta_info a)
  ++ enc_path (ta_path a) ++ e16 (ta_type a) ++ e16 (elen (ta_pairs a)) ++ enc_pairs X (ta_pairs a).
Definition enc_type_annotations (X : xtable) (tbl : ttable) (l : list tannot) : bytes :=
  e16 (elen l) ++ flat_map (enc_tannot X tbl) l.

(* a value fits the field it is read from; the target type has an arm; path kinds exist and carry an index only where
   the reader admits one; the element values as in [annotation_ok] *)
Definition tval_fits (f : tfield) (v : tval) : bool :=
  match f, v with
  | TTable, TVTable _ => true
  | TTable, _ | _, TVTable _ => false
  | _, TVNum _ => true
  end.
Fixpoint tvals_fit (fs : list tfield) (vs : list tval) : bool :=
  match fs, vs with
  | [], [] => true
  | f :: fs', v :: vs' => tval_fits f v && tvals_fit fs' vs'
  | _, _ => false
  end.
Definition path_ok (K : list (N * bool)) (path : list (N * N)) : bool :=
  forallb (fun p => match assocN (fst p) K with Some indexed => indexed || (snd p =? 0) | None => false end) path.
Definition tannot_ok (X : xtable) (K : list (N * bool)) (tbl : ttable) (a : tannot) : bool :=
  match assocN (ta_tag a) tbl with Some fs => tvals_fit fs (ta_info a) | None => false end
  && path_ok K (ta_path a)
  && annotation_ok X (ta_type a, ta_pairs a).

(* what the visitor is handed: target_type and the fields of target_info as numbers (a label as the bytecode offset it
   stands for, a range as start_pc and length), the path, then the annotation resolved as [canon_annotation] *)
Definition canon_tval (v : tval) : list N :=
  match v with
  | TVNum n => [n]
  | TVTable rows => elen rows :: flat_map (fun r => [fst (fst r); snd (fst r); snd r]) rows
  end.
Definition canon_tannot (X : xtable) (rs : resolver) (a : tannot) : list N :=
  ta_tag a :: flat_map canon_tval (ta_info a)
  ++ elen (ta_path a) :: flat_map (fun p => [fst p; snd p]) (ta_path a)
  ++ canon_annotation X rs (ta_type a, ta_pairs a).
Definition canon_type_annotations (X : xtable) (rs : resolver) (l : list tannot) : list N :=
  elen l :: flat_map (canon_tannot X rs) l.

(* which attributes are read how (names from the generated table) *)
Record vnames := mkVN { vn_annotations : list str; vn_element : str; vn_index : list str; vn_layouts : list (str * layout);
                        vn_type_annotations : list str; vn_types : tytable }.

(* name, raw, body -> the value handed over; None: not one of the attributes modelled here, or the body is not
   (exactly) an encoding *)
Definition attr_value (X : xtable) (V : vnames) (rs : resolver) (loc : N) (name : str) (raw : bool) (body : bytes) : option (list N) :=
  if raw then None
  else if existsb (str_eqb name) (vn_type_annotations V) then
    (* the one attribute whose grammar depends on WHERE it stands: loc = 0 class, 1 field, 2 method, 3 Code, 4 record component *)
    match p_type_annotations X (vn_types V) loc body with Ok (l, []) => Some (canon_type_annotations X rs l) | _ => None end
  else if existsb (str_eqb name) (vn_annotations V) then
    match p_annotations X body with Ok (l, []) => Some (canon_annotations X rs l) | _ => None end
  else if str_eqb name (vn_element V) then
    match p_value X (xt_depth X) body with Ok (v, []) => Some (canon_value X rs v) | _ => None end
  else if existsb (str_eqb name) (vn_index V) then
    match rd16 body with Ok (i, []) => Some [rs_str rs i] | _ => None end
  else match assoc_layout name (vn_layouts V) with
       | Some lay => match p_layout lay body with Ok (rows, []) => Some (canon_layout rs lay rows) | _ => None end
       | None => None
       end.

(* is [name] one of the attributes whose value is modelled *)
Definition valued (V : vnames) (name : str) : bool :=
  existsb (str_eqb name) (vn_type_annotations V) || existsb (str_eqb name) (vn_annotations V) || str_eqb name (vn_element V) || existsb (str_eqb name) (vn_index V)
  || match assoc_layout name (vn_layouts V) with Some _ => true | None => false end.
