(* C17 — executable model of duke/src/class_reader.rs at the level of attribute framing.

   The model is a function from the BYTES of a stream to the events a visitor receives and the
   rest of the stream.  It follows `read`, `read_field`, `read_method`, `read_code`,
   `read_record_component`, `skip_attributes` and `PoolRead::read` statement by statement as far
   as the position in the stream and the visitor calls are concerned; every attribute loop is
   DRIVEN by the generated table (AttrTable.v), i.e. the arms are tried in the order of the Rust
   match and do what the translator read off the source.

   Not modelled (assumed, and tied by the correspondence run): the grammar of the attribute bodies
   that the reader parses without consulting `attribute_length` — the model asks a function
   [g name length stream] how many bytes such a body parser consumes (the correspondence run uses
   "exactly `length`"; the theorems hold for every g) —, the decoding of instructions, the
   contents handed to the visitor (compared on the implementation alone by the harness), error
   messages, and seeking past the end of the stream (the model answers Err where `Seek` would
   succeed and the next read would fail). *)
From FB Require Export C17.Syntax.

Definition bytes := list N.
Definition mask := list str.                       (* the interest flags that are ON *)
Definition interested (m : mask) (f : str) : bool := existsb (str_eqb f) m.

(* ---------- ClassRead ---------- *)
Definition rd8 (s : bytes) : res (N * bytes) :=
  match s with b :: s' => Ok (b, s') | _ => Err end.
Definition rd16 (s : bytes) : res (N * bytes) :=
  match s with a :: b :: s' => Ok (a * 256 + b, s') | _ => Err end.
Definition rd32 (s : bytes) : res (N * bytes) :=
  match s with a :: b :: c :: d :: s' => Ok (((a * 256 + b) * 256 + c) * 256 + d, s') | _ => Err end.

(* reader.skip(n) followed by further reads *)
Fixpoint skipN (s : bytes) (n : N) : res bytes :=
  if n =? 0 then Ok s else
  match s with
  | [] => Err
  | _ :: s' => skipN s' (N.pred n)
  end.

(* reader.read_u8_vec(n) *)
Fixpoint takeN (s : bytes) (n : N) : res (bytes * bytes) :=
  if n =? 0 then Ok ([], s) else
  match s with
  | [] => Err
  | b :: s' => match takeN s' (N.pred n) with Ok (p, r) => Ok (b :: p, r) | Err => Err end
  end.

(* ---------- PoolRead::read: only what the attribute loops need (Utf8 entries by index) ---------- *)
Definition pool := list (N * bytes).

Fixpoint pool_utf8 (p : pool) (i : N) : option bytes :=
  match p with
  | [] => None
  | (j, u) :: p' => if i =? j then Some u else pool_utf8 p' i
  end.

(* size of the entry after its tag, and the number of pool slots it takes *)
Definition pool_entry_size (tag : N) : option (N * N) :=
  match tag with
  | 3 | 4 => Some (4, 1)
  | 5 | 6 => Some (8, 2)
  | 7 | 8 | 16 | 19 | 20 => Some (2, 1)
  | 9 | 10 | 11 | 12 | 17 | 18 => Some (4, 1)
  | 15 => Some (3, 1)
  | _ => None
  end.

(* `while pool.len() < constant_pool_count`; every round consumes the tag byte, so
   fuel = S (length s) always suffices *)
Fixpoint read_pool_entries (fuel : nat) (count idx : N) (s : bytes) (acc : pool) : res (pool * bytes) :=
  if count <=? idx then Ok (acc, s) else
  match fuel with
  | O => Err
  | S f =>
    match rd8 s with
    | Err => Err
    | Ok (tag, s1) =>
      if tag =? 1 then
        match rd16 s1 with
        | Err => Err
        | Ok (l, s2) =>
          match takeN s2 l with
          | Err => Err
          | Ok (u, s3) => read_pool_entries f count (idx + 1) s3 ((idx, u) :: acc)
          end
        end
      else
        match pool_entry_size tag with
        | None => Err
        | Some (sz, slots) =>
          match skipN s1 sz with
          | Err => Err
          | Ok s2 => read_pool_entries f count (idx + slots) s2 acc
          end
        end
    end
  end.

Definition read_pool (s : bytes) : res (pool * bytes) :=
  match rd16 s with
  | Err => Err
  | Ok (count, s1) => read_pool_entries (S (length s1)) count 1 s1 []
  end.

(* magic .. interfaces *)
Record header := mkHeader { h_pool : pool; h_minor : N; h_major : N; h_access : N; h_this : N; h_super : N; h_interfaces : N }.

Definition MAGIC : N := 3405691582. (* 0xCAFEBABE *)

Definition read_header (s : bytes) : res (header * bytes) :=
  match rd32 s with Err => Err | Ok (magic, s1) =>
  if negb (magic =? MAGIC) then Err else
  match rd16 s1 with Err => Err | Ok (minor, s2) =>
  match rd16 s2 with Err => Err | Ok (major, s3) =>
  (* version > Version::V23, ordered by major then minor *)
  if (67 <? major) || ((major =? 67) && (0 <? minor)) then Err else
  match read_pool s3 with Err => Err | Ok (p, s4) =>
  match rd16 s4 with Err => Err | Ok (access, s5) =>
  match rd16 s5 with Err => Err | Ok (this, s6) =>
  match rd16 s6 with Err => Err | Ok (super, s7) =>
  match rd16 s7 with Err => Err | Ok (icount, s8) =>
  match skipN s8 (2 * icount) with Err => Err | Ok s9 =>
    Ok (mkHeader p minor major access this super icount, s9)
  end end end end end end end end end.

(* ---------- skip_attributes ---------- *)
Fixpoint skip_attrs_loop (n : nat) (s : bytes) : res bytes :=
  match n with
  | O => Ok s
  | S n' =>
    match rd16 s with Err => Err | Ok (_, s1) =>
    match rd32 s1 with Err => Err | Ok (len, s2) =>
    match skipN s2 len with Err => Err | Ok s3 => skip_attrs_loop n' s3 end end end
  end.

Definition skip_attributes (s : bytes) : res bytes :=
  match rd16 s with Err => Err | Ok (count, s1) => skip_attrs_loop (N.to_nat count) s1 end.

(* first pass of `read` over fields / methods: count; per member skip(header); skip_attributes *)
Fixpoint skip_members_loop (hdr : N) (n : nat) (s : bytes) : res bytes :=
  match n with
  | O => Ok s
  | S n' =>
    match skipN s hdr with Err => Err | Ok s1 =>
    match skip_attributes s1 with Err => Err | Ok s2 => skip_members_loop hdr n' s2 end end
  end.

Definition skip_members (hdr : N) (s : bytes) : res bytes :=
  match rd16 s with Err => Err | Ok (count, s1) => skip_members_loop hdr (N.to_nat count) s1 end.

(* ---------- the rows of a table-like attribute body:  u16 count, then count rows of w u16 each ----------
   (`let n = reader.read_u16()?; for _ in 0..n { … w × reader.read_u16()? … table.push(…) }`; w comes from
   the generated table, [t_rows]).  Total: a u16 that the body is too short for reads as 0 — that cannot
   happen for a body the reader has parsed (it would have read on into the next attribute; excluded by
   the hypothesis that a parsed body is exactly attribute_length long). *)
Definition row := list N.

Fixpoint rd_row (w : nat) (s : bytes) : row * bytes :=
  match w with
  | O => ([], s)
  | S w' =>
    match rd16 s with
    | Ok (x, s1) => let (r, s2) := rd_row w' s1 in (x :: r, s2)
    | Err => let (r, s2) := rd_row w' [] in (0 :: r, s2)
    end
  end.

Fixpoint rd_rows (n w : nat) (s : bytes) : list row :=
  match n with
  | O => []
  | S n' => let (r, s1) := rd_row w s in r :: rd_rows n' w s1
  end.

Definition table_rows (w : N) (body : bytes) : list row :=
  match rd16 body with Ok (n, s) => rd_rows (N.to_nat n) (N.to_nat w) s | Err => [] end.

Fixpoint width_of (name : str) (l : list (str * N)) : option N :=
  match l with
  | [] => None
  | (x, w) :: l' => if str_eqb name x then Some w else width_of name l'
  end.

(* the exception table of a Code attribute: exception_table_length entries of 4 u16 *)
Definition exc_rows (nexc : N) (excb : bytes) : list row := rd_rows (N.to_nat nexc) 4 excb.

(* the rows that the arm of attribute [name] pushes for [body]; an attribute that is not table-like has none *)
Definition rows_of (ct : ctx_table) (name : str) (body : bytes) : list row :=
  match width_of name (t_rows ct) with Some w => table_rows w body | None => [] end.

(* ---------- events ---------- *)
Inductive ev :=
| EAttr (name : str) (raw : bool) (payload : bytes)
    (* a visit_* call caused by the attribute [name]; payload = the bytes of its body;
       raw = true when the visitor is handed exactly these bytes (read_u8_vec(length)) *)
| EFlags (deprecated synthetic : bool)             (* visit_deprecated_and_synthetic_attribute *)
| EDeferred (slot : str) (sources : list (str * list row))
    (* a table collected over the loop and visited after it; sources = the attributes (oldest first) that
       were collected into it, each with the rows it contributed, PARSED (one row = the u16 fields the
       arm's loop body reads, in file order: LineNumberTable [start_pc; line_number], LocalVariableTable
       [start_pc; length; name_index; descriptor_index; index], LocalVariableTypeTable [..; signature_index; ..]);
       what the visitor is handed is the concatenation of these row lists.  An attribute without rows
       makes the table present but contributes nothing to it *)
| ECodeDeclined (attr : str)                       (* visit_code() returned None (attr = name of the attribute: Code) *)
| ECode (attr : str) (max_stack max_locals : N) (frames : list str) (exc : list row) (es : list ev)
    (* visit_code() returned a visitor: max_stack/max_locals, the instruction stream (frames = the names of
       the parsed attributes that supply a non-empty frame table; the instructions carry frames iff this
       list is not empty), the exception table PARSED (visit_exception_table: one row per entry,
       [start_pc; end_pc; handler_pc; catch_type]), the events of the code attributes *)
| ERc (attr : str) (k : nat) (name desc : N) (es : option (list ev))
    (* visit_record_component for the k-th component the class visitor sees (attr = Record); None = declined *)
| EField (k : nat) (access name desc : N) (es : option (list ev))     (* the k-th visit_field *)
| EMethod (k : nat) (access name desc : N) (es : option (list ev)).

(* what the visitor side answers *)
Record visitor := mkVisitor {
  v_accept_class : bool;                 (* visit_class: Continue / Break *)
  v_class : mask;                        (* ClassVisitor::interests *)
  v_field : nat -> option mask;          (* k-th field: None = Break, Some m = Continue with FieldVisitor::interests = m *)
  v_method : nat -> option mask;
  v_code : nat -> option mask;           (* visit_code() of the k-th method: None, or Some CodeVisitor::interests *)
  v_rc : nat -> option mask;             (* k-th record component of the class *)
}.

(* ---------- the attribute loops ---------- *)
Definition pat_matches (p : pat) (name : str) : bool :=
  match p with PAny => true | PName x => str_eqb name x end.
Definition guard_holds (g : guard) (m : mask) : bool :=
  match g with GAlways => true | GNotInterested f => negb (interested m f) end.

(* the Rust match: first arm whose pattern and guard hold *)
Fixpoint dispatch (arms : list arm) (m : mask) (name : str) : option action :=
  match arms with
  | [] => None
  | a :: arms' => if pat_matches (a_pat a) name && guard_holds (a_guard a) m then Some (a_act a) else dispatch arms' m name
  end.

Record lstate := mkL {
  l_events : list ev;               (* most recent first *)
  l_dep : bool; l_syn : bool;
  l_slots : list (str * (str * bytes)); (* filled local slots (bootstrap_methods, stack_map_frame, …): slot, attribute name, body; most recent first *)
  l_record : bool;                  (* had_record_attribute *)
  l_rc : nat;                       (* record components seen so far *)
}.
Definition l_init : lstate := mkL [] false false [] false 0.
Definition l_emit (st : lstate) (e : ev) : lstate :=
  mkL (e :: l_events st) (l_dep st) (l_syn st) (l_slots st) (l_record st) (l_rc st).
Definition slot_filled (st : lstate) (slot : str) : bool := existsb (fun p => str_eqb (fst p) slot) (l_slots st).

Definition grammar := str -> N -> bytes -> option N.
  (* attribute name, attribute_length, the stream at the start of the body -> bytes its parser consumes *)

(* the part of one loop that depends on the context: nested readers for Code and Record *)
Record nested := mkNested {
  n_code : str -> bytes -> res (ev * bytes);                     (* after visit_code() -> Some *)
  n_code_accepts : bool;
  n_rc : str -> nat -> bytes -> res (ev * bytes);                (* one read_record_component *)
}.

Fixpoint rc_loop (nest : nested) (attr : str) (n : nat) (s : bytes) (st : lstate) : res (lstate * bytes) :=
  match n with
  | O => Ok (st, s)
  | S n' =>
    match n_rc nest attr (l_rc st) s with
    | Err => Err
    | Ok (e, s1) =>
      rc_loop nest attr n' s1 (mkL (e :: l_events st) (l_dep st) (l_syn st) (l_slots st) (l_record st) (S (l_rc st)))
    end
  end.

(* one iteration of `for _ in 0..attributes_count` *)
Definition attr_step (g : grammar) (p : pool) (ct : ctx_table) (m : mask) (nest : nested)
    (s : bytes) (st : lstate) : res (lstate * bytes) :=
  match rd16 s with Err => Err | Ok (nidx, s1) =>
  match pool_utf8 p nidx with None => Err | Some name =>        (* pool.get_utf8_ref(…)? *)
  match rd32 s1 with Err => Err | Ok (len, s2) =>
  match dispatch (t_arms ct) m name with
  | None => Err                                                  (* cannot happen: the match ends with `_ =>` *)
  | Some ASkip => match skipN s2 len with Err => Err | Ok s3 => Ok (st, s3) end
  | Some (AFlag w) =>
      Ok (mkL (l_events st) (if w =? 0 then true else l_dep st) (if w =? 0 then l_syn st else true)
              (l_slots st) (l_record st) (l_rc st), s2)
  | Some (AParse d) =>
      match g name len s2 with
      | None => Err
      | Some k =>
        match takeN s2 k with
        | Err => Err
        | Ok (body, s3) =>
          match d with
          | DNow => Ok (l_emit st (EAttr name false body), s3)
          | DStore slot once =>
              if once && slot_filled st slot then Err
              else Ok (mkL (l_events st) (l_dep st) (l_syn st) ((slot, (name, body)) :: l_slots st) (l_record st) (l_rc st), s3)
          end
        end
      end
  | Some (AReadLen _) =>
      match takeN s2 len with
      | Err => Err
      | Ok (body, s3) => Ok (l_emit st (EAttr name true body), s3)
      end
  | Some (ACode skip_on_decline) =>
      if n_code_accepts nest then
        match n_code nest name s2 with Err => Err | Ok (e, s3) => Ok (l_emit st e, s3) end
      else if skip_on_decline then
        match skipN s2 len with Err => Err | Ok s3 => Ok (l_emit st (ECodeDeclined name), s3) end
      else Ok (l_emit st (ECodeDeclined name), s2)                (* nothing is skipped *)
  | Some (ARecord once) =>
      if once && l_record st then Err else
      match rd16 s2 with Err => Err | Ok (count, s3) =>
        rc_loop nest name (N.to_nat count) s3
          (mkL (l_events st) (l_dep st) (l_syn st) (l_slots st) true (l_rc st))
      end
  end end end end.

Fixpoint attr_loop (g : grammar) (p : pool) (ct : ctx_table) (m : mask) (nest : nested)
    (n : nat) (s : bytes) (st : lstate) : res (lstate * bytes) :=
  match n with
  | O => Ok (st, s)
  | S n' =>
    match attr_step g p ct m nest s st with
    | Err => Err
    | Ok (st1, s1) => attr_loop g p ct m nest n' s1 st1
    end
  end.

(* events of a finished loop, oldest first: loop events, then the deferred slots that were filled,
   then the flags event *)
(* names of the attributes stored in [slot], oldest first *)
Definition slot_sources (ct : ctx_table) (st : lstate) (slot : str) : list (str * list row) :=
  map (fun p => (fst (snd p), rows_of ct (fst (snd p)) (snd (snd p)))) (filter (fun p => str_eqb (fst p) slot) (rev (l_slots st))).
(* `if let Some(table) = slot { if !table.is_empty() || (interests.f1 && interests.f2) { visitor.visit_…(table)?; } }`:
   a filled slot is delivered; when the slot carries the guard ([t_whole]), a table without rows only to a visitor
   with all the interests the guard names *)
Definition has_rows (srcs : list (str * list row)) : bool :=
  existsb (fun x => match snd x with [] => false | _ => true end) srcs.
Fixpoint whole_of (slot : str) (l : list (str * list str)) : option (list str) :=
  match l with
  | [] => None
  | (s, w) :: l' => if str_eqb slot s then Some w else whole_of slot l'
  end.
Definition table_delivered (ct : ctx_table) (m : mask) (slot : str) (srcs : list (str * list row)) : bool :=
  match srcs with
  | [] => false
  | _ => match whole_of slot (t_whole ct) with
         | None => true
         | Some w => has_rows srcs || forallb (interested m) w
         end
  end.
Definition deferred_events (ct : ctx_table) (m : mask) (st : lstate) : list ev :=
  flat_map (fun slot => let srcs := slot_sources ct st slot in
                        if table_delivered ct m slot srcs then [EDeferred slot srcs] else []) (t_deferred ct).
Definition loop_events (ct : ctx_table) (m : mask) (st : lstate) : list ev :=
  rev (l_events st) ++ deferred_events ct m st ++ (if t_flags_event ct then [EFlags (l_dep st) (l_syn st)] else []).

(* count; loop *)
Definition read_attributes (g : grammar) (p : pool) (ct : ctx_table) (m : mask) (nest : nested)
    (s : bytes) : res (lstate * bytes) :=
  match rd16 s with Err => Err | Ok (count, s1) => attr_loop g p ct m nest (N.to_nat count) s1 l_init end.

(* a context without nested readers (field, code, record component): Code/Record arms cannot occur
   in their tables; if a table had one the model answers Err *)
Definition no_nested : nested := mkNested (fun _ _ => Err) true (fun _ _ _ => Err).

(* attributes that supply a non-empty frame table: number_of_entries (first u16 of the body) is not 0 *)
Definition STACK_MAP_FRAME : str := [115;116;97;99;107;95;109;97;112;95;102;114;97;109;101]. (* stack_map_frame *)
Definition frame_sources (st : lstate) : list str :=
  map (fun p => fst (snd p))
    (filter (fun p => str_eqb (fst p) STACK_MAP_FRAME
                      && match rd16 (snd (snd p)) with Ok (n, _) => negb (n =? 0) | Err => false end) (rev (l_slots st))).

(* read_code *)
Definition read_code (g : grammar) (p : pool) (T : reader_tables) (m : mask) (attr : str) (s : bytes) : res (ev * bytes) :=
  match rd16 s with Err => Err | Ok (max_stack, s1) =>
  match rd16 s1 with Err => Err | Ok (max_locals, s2) =>
  match rd32 s2 with Err => Err | Ok (code_length, s3) =>
  if (code_length =? 0) || (65535 <? code_length) then Err else
  match skipN s3 code_length with Err => Err | Ok s4 =>          (* read_u8_vec(code_length); decoding not modelled *)
  match rd16 s4 with Err => Err | Ok (nexc, s5) =>
  match takeN s5 (8 * nexc) with Err => Err | Ok (excb, s6) =>       (* read_vec(read_u16_as_usize, 4 × read_u16) *)
  match read_attributes g p (rt_code T) m no_nested s6 with Err => Err | Ok (st, s7) =>
    Ok (ECode attr max_stack max_locals (frame_sources st) (exc_rows nexc excb) (loop_events (rt_code T) m st), s7)
  end end end end end end end.

(* read_record_component *)
Definition read_rc (g : grammar) (p : pool) (T : reader_tables) (v : visitor) (attr : str) (k : nat) (s : bytes) : res (ev * bytes) :=
  match rd16 s with Err => Err | Ok (name, s1) =>
  match rd16 s1 with Err => Err | Ok (desc, s2) =>
  match v_rc v k with
  | Some m =>
      match read_attributes g p (rt_rc T) m no_nested s2 with Err => Err | Ok (st, s3) =>
        Ok (ERc attr k name desc (Some (loop_events (rt_rc T) m st)), s3) end
  | None =>
      if rt_break_rc T then match skip_attributes s2 with Err => Err | Ok s3 => Ok (ERc attr k name desc None, s3) end
      else Ok (ERc attr k name desc None, s2)
  end end end.

(* read_field *)
Definition read_field (g : grammar) (p : pool) (T : reader_tables) (v : visitor) (k : nat) (s : bytes) : res (ev * bytes) :=
  match rd16 s with Err => Err | Ok (access, s1) =>
  match rd16 s1 with Err => Err | Ok (name, s2) =>
  match rd16 s2 with Err => Err | Ok (desc, s3) =>
  match v_field v k with
  | Some m =>
      match read_attributes g p (rt_field T) m no_nested s3 with Err => Err | Ok (st, s4) =>
        Ok (EField k access name desc (Some (loop_events (rt_field T) m st)), s4) end
  | None =>
      if rt_break_field T then match skip_attributes s3 with Err => Err | Ok s4 => Ok (EField k access name desc None, s4) end
      else Ok (EField k access name desc None, s3)
  end end end end.

(* read_method *)
Definition method_nested (g : grammar) (p : pool) (T : reader_tables) (v : visitor) (k : nat) : nested :=
  mkNested (fun attr s => match v_code v k with Some cm => read_code g p T cm attr s | None => Err end)
           (match v_code v k with Some _ => true | None => false end)
           (fun _ _ _ => Err).

Definition read_method (g : grammar) (p : pool) (T : reader_tables) (v : visitor) (k : nat) (s : bytes) : res (ev * bytes) :=
  match rd16 s with Err => Err | Ok (access, s1) =>
  match rd16 s1 with Err => Err | Ok (name, s2) =>
  match rd16 s2 with Err => Err | Ok (desc, s3) =>
  match v_method v k with
  | Some m =>
      match read_attributes g p (rt_method T) m (method_nested g p T v k) s3 with Err => Err | Ok (st, s4) =>
        Ok (EMethod k access name desc (Some (loop_events (rt_method T) m st)), s4) end
  | None =>
      if rt_break_method T then match skip_attributes s3 with Err => Err | Ok s4 => Ok (EMethod k access name desc None, s4) end
      else Ok (EMethod k access name desc None, s3)
  end end end end.


(* second pass: a member the class visitor is not interested in is skipped without any visitor call *)
Definition FIELDS : str := [102;105;101;108;100;115].    (* fields *)
Definition METHODS : str := [109;101;116;104;111;100;115]. (* methods *)

Fixpoint members_loop_opt (rd : nat -> bytes -> res (option ev * bytes)) (n : nat) (k : nat) (s : bytes) : res (list ev * bytes) :=
  match n with
  | O => Ok ([], s)
  | S n' =>
    match rd k s with Err => Err | Ok (e, s1) =>
    match members_loop_opt rd n' (S k) s1 with Err => Err | Ok (es, s2) =>
      Ok (match e with Some e' => e' :: es | None => es end, s2) end end
  end.

Definition member_reader (T : reader_tables) (honours wanted : bool) (rd : nat -> bytes -> res (ev * bytes))
    (k : nat) (s : bytes) : res (option ev * bytes) :=
  if honours && negb wanted then
    match skipN s (rt_member_header T) with Err => Err | Ok s1 =>
    match skip_attributes s1 with Err => Err | Ok s2 => Ok (None, s2) end end
  else match rd k s with Err => Err | Ok (e, s1) => Ok (Some e, s1) end.

Definition read_members (rd : nat -> bytes -> res (option ev * bytes)) (s : bytes) : res (list ev * bytes) :=
  match rd16 s with Err => Err | Ok (count, s1) => members_loop_opt rd (N.to_nat count) 0 s1 end.

Definition class_nested (g : grammar) (p : pool) (T : reader_tables) (v : visitor) : nested :=
  mkNested (fun _ _ => Err) true (fun attr k s => read_rc g p T v attr k s).

(* `read`: one class from the stream.  Result: what the visitor saw (None = the class was declined)
   and the stream after the class. *)
Definition read_class (g : grammar) (T : reader_tables) (v : visitor) (s : bytes) : res (option (list ev) * bytes) :=
  match read_header s with Err => Err | Ok (h, s_members) =>
  (* fields_start = marker; first pass skips the members *)
  match skip_members (rt_member_header T) s_members with Err => Err | Ok s1 =>
  match skip_members (rt_member_header T) s1 with Err => Err | Ok s_attrs =>
  if v_accept_class v then
    match read_attributes g (h_pool h) (rt_class T) (v_class v) (class_nested g (h_pool h) T v) s_attrs with Err => Err | Ok (st, s_end) =>
    (* with_pos(fields_start, …): second pass from the marker; afterwards back to s_end *)
    match read_members (member_reader T (rt_honours_fields T) (interested (v_class v) FIELDS) (read_field g (h_pool h) T v)) s_members with Err => Err | Ok (fs, s2) =>
    match read_members (member_reader T (rt_honours_methods T) (interested (v_class v) METHODS) (read_method g (h_pool h) T v)) s2 with Err => Err | Ok (ms, _) =>
      Ok (Some (loop_events (rt_class T) (v_class v) st ++ fs ++ ms), s_end)
    end end end
  else
    if rt_break_class T then match skip_attributes s_attrs with Err => Err | Ok s_end => Ok (None, s_end) end
    else Ok (None, s_attrs)
  end end end.

(* successive read_class_multi calls on one stream *)
Fixpoint read_many (g : grammar) (T : reader_tables) (vs : list visitor) (s : bytes) : res (list (option (list ev)) * bytes) :=
  match vs with
  | [] => Ok ([], s)
  | v :: vs' =>
    match read_class g T v s with Err => Err | Ok (r, s1) =>
    match read_many g T vs' s1 with Err => Err | Ok (rs, s2) => Ok (r :: rs, s2) end end
  end.

(* the grammar used by the correspondence run: a body parser consumes exactly attribute_length *)
Definition g_len : grammar := fun _ len _ => Some len.
