(* C17 — theory, part 4: every reader function, run on the encoding of a well-formed item followed
   by anything, succeeds and leaves exactly that anything — for every interest mask and every
   accept/decline choice. *)
From FB Require Import C17.Model C17.Theory C17.Theory2 C17.Theory3.

Arguments N.add : simpl never.
Arguments N.mul : simpl never.
Arguments N.div : simpl never.
Arguments N.modulo : simpl never.

(* ---------- one plain attribute ---------- *)
Lemma slot_filled_cons st s0 s name body :
  slot_filled (mkL (l_events st) (l_dep st) (l_syn st) ((s, (name, body)) :: l_slots st) (l_record st) (l_rc st)) s0
  = str_eqb s s0 || slot_filled st s0.
Proof. reflexivity. Qed.

Lemma plain_step_ok ct except g p m nest a st :
  ctx_ok ct except = true ->
  wf_plain_b p ct a = true -> g_resp_plain g p ct a ->
  (forall s, stores p ct a = Some (s, true) -> slot_filled st s = false) ->
  (forall rest, attr_step g p ct m nest (enc_pattr a ++ rest) st = Ok (spec_plain p ct m st a, rest))
    /\ l_record (spec_plain p ct m st a) = l_record st /\ l_rc (spec_plain p ct m st a) = l_rc st
    /\ (forall s, slot_filled (spec_plain p ct m st a) s = true -> slot_filled st s = true \/ exists o, stores p ct a = Some (s, o)).
Proof.
  intros Hct Hwf Hg Honce.
  unfold wf_plain_b in Hwf. unfold stores in *. unfold spec_plain, act_under.
  destruct (pool_utf8 p (p_nidx a)) as [name|] eqn:En; [|discriminate].
  apply andb_prop in Hwf as [Hlen Hact]. apply N.eqb_eq in Hlen.
  destruct (dispatch_ctx ct except m name Hct) as [_ Hd].
  assert (Hhead : forall rest, attr_step g p ct m nest (enc_pattr a ++ rest) st =
      match (if keep (t_arms ct) m name then act_full ct name else Some ASkip) with
      | None => Err
      | Some ASkip => match skipN (p_body a ++ rest) (p_len a) with Err => Err | Ok s3 => Ok (st, s3) end
      | Some (AFlag w) => Ok (mkL (l_events st) (if w =? 0 then true else l_dep st) (if w =? 0 then l_syn st else true) (l_slots st) (l_record st) (l_rc st), p_body a ++ rest)
      | Some (AParse d) =>
          match g name (p_len a) (p_body a ++ rest) with
          | None => Err
          | Some k => match takeN (p_body a ++ rest) k with
                      | Err => Err
                      | Ok (body, s3) =>
                        match d with
                        | DNow => Ok (l_emit st (EAttr name false body), s3)
                        | DStore slot once => if once && slot_filled st slot then Err
                            else Ok (mkL (l_events st) (l_dep st) (l_syn st) ((slot, (name, body)) :: l_slots st) (l_record st) (l_rc st), s3)
                        end
                      end
          end
      | Some (AReadLen _) => match takeN (p_body a ++ rest) (p_len a) with Err => Err | Ok (body, s3) => Ok (l_emit st (EAttr name true body), s3) end
      | Some (ACode sk) => if n_code_accepts nest then match n_code nest name (p_body a ++ rest) with Err => Err | Ok (e, s3) => Ok (l_emit st e, s3) end
                           else if sk then match skipN (p_body a ++ rest) (p_len a) with Err => Err | Ok s3 => Ok (l_emit st (ECodeDeclined name), s3) end
                           else Ok (l_emit st (ECodeDeclined name), p_body a ++ rest)
      | Some (ARecord once) => if once && l_record st then Err else
          match rd16 (p_body a ++ rest) with Err => Err | Ok (count, s3) =>
            rc_loop nest name (N.to_nat count) s3 (mkL (l_events st) (l_dep st) (l_syn st) (l_slots st) true (l_rc st)) end
      end).
  { intros rest. unfold attr_step, enc_pattr. rewrite <- !app_assoc, rd16_e16. cbv beta iota.
    rewrite En, rd32_e32. cbv beta iota. rewrite Hd. reflexivity. }
  assert (Hskip : (forall rest, match skipN (p_body a ++ rest) (p_len a) with Err => Err | Ok s3 => Ok (st, s3) end = Ok (st, rest))
      /\ l_record st = l_record st /\ l_rc st = l_rc st
      /\ (forall s, slot_filled st s = true -> slot_filled st s = true \/ exists o, match act_full ct name with Some (AParse (DStore s1 o1)) => Some (s1, o1) | _ => None end = Some (s, o))).
  { split; [|auto]. intros rest. rewrite (skipN_app_eq _ _ _ Hlen). reflexivity. }
  destruct (keep (t_arms ct) m name).
  2: { cbn [plain_result]. destruct Hskip as (H1 & H2). split; [|exact H2]. intros rest. rewrite Hhead. apply H1. }
  destruct (act_full ct name) as [[| w | d | u | b | o]|] eqn:Ea; try discriminate Hact.
  - cbn [plain_result]. destruct Hskip as (H1 & H2). split; [|exact H2]. intros rest. rewrite Hhead. apply H1.
  - destruct (p_body a) eqn:Eb; [|discriminate]. cbn [plain_result].
    split; [intros rest; rewrite Hhead; cbn [app]; reflexivity|]. cbn. auto.
  - destruct d as [|s o]; cbn [plain_result].
    + split; [intros rest; rewrite Hhead, (Hg name DNow rest En Ea), (takeN_app_eq _ _ _ Hlen); reflexivity|]. cbn. auto.
    + assert (Hf : o && slot_filled st s = false).
      { destruct o; [|reflexivity]. cbn [andb]. apply Honce. reflexivity. }
      split; [intros rest; rewrite Hhead, (Hg name (DStore s o) rest En Ea), (takeN_app_eq _ _ _ Hlen), Hf; reflexivity|].
      cbn [l_record l_rc]. split; [reflexivity|]. split; [reflexivity|].
      intros s0. rewrite slot_filled_cons. intros H. apply orb_prop in H as [H|H].
      * apply str_eqb_eq in H. subst s0. right. exists o. reflexivity.
      * left. exact H.
  - cbn [plain_result]. split; [intros rest; rewrite Hhead, (takeN_app_eq _ _ _ Hlen); reflexivity|]. cbn. auto.
Qed.

(* ---------- a list of plain attributes (field, code, record component level; also the plain part of the others) ---------- *)
Definition once_inv (p : pool) (ct : ctx_table) (st : lstate) (l : list pattr) : Prop :=
  forall b s, In b l -> stores p ct b = Some (s, true) -> slot_filled st s = false.

Lemma once_inv_step p ct st st' a l :
  once_ok p ct (a :: l) = true -> once_inv p ct st (a :: l) ->
  (forall s, slot_filled st' s = true -> slot_filled st s = true \/ exists o, stores p ct a = Some (s, o)) ->
  once_inv p ct st' l.
Proof.
  intros Hok Hinv Hst b s Hb Hs.
  destruct (slot_filled st' s) eqn:E; [|reflexivity]. exfalso.
  destruct (Hst s E) as [H|[o H]].
  - rewrite (Hinv b s (or_intror Hb) Hs) in H. discriminate.
  - cbn [once_ok] in Hok. rewrite H in Hok. apply andb_prop in Hok as [Hok _].
    apply negb_true_iff in Hok.
    assert (Hex : existsb (fun b0 => match stores p ct b0 with Some (s', true) => str_eqb s' s | _ => false end) l = true).
    { apply existsb_exists. exists b. split; [exact Hb|]. rewrite Hs. apply str_eqb_refl. }
    rewrite Hex in Hok. discriminate.
Qed.

Lemma once_ok_tail p ct a l : once_ok p ct (a :: l) = true -> once_ok p ct l = true.
Proof. cbn [once_ok]. intros H. apply andb_prop in H as [_ H]. exact H. Qed.

Lemma plain_loop_ok ct except g p m nest (Hct : ctx_ok ct except = true) : forall l st,
  forallb (wf_plain_b p ct) l = true -> once_ok p ct l = true -> Forall (g_resp_plain g p ct) l ->
  once_inv p ct st l ->
  (forall rest, attr_loop g p ct m nest (length l) (flat_map enc_pattr l ++ rest) st = Ok (spec_plains p ct m l st, rest))
    /\ l_record (spec_plains p ct m l st) = l_record st /\ l_rc (spec_plains p ct m l st) = l_rc st.
Proof.
  induction l as [|a l IH]; intros st Hwf Honce Hg Hinv.
  - cbn. auto.
  - cbn [forallb] in Hwf. apply andb_prop in Hwf as [Hwa Hwl].
    inversion Hg as [|? ? Hga Hgl]; subst.
    destruct (plain_step_ok ct except g p m nest a st Hct Hwa Hga) as (Hs & Hr & Hc & Hsl).
    { intros s Hs. apply (Hinv a s (or_introl eq_refl) Hs). }
    destruct (IH (spec_plain p ct m st a) Hwl (once_ok_tail _ _ _ _ Honce) Hgl (once_inv_step _ _ _ _ _ _ Honce Hinv Hsl)) as (H2 & Hr2 & Hc2).
    unfold spec_plains in *. cbn [fold_left]. split; [|split; congruence].
    intros rest. cbn [length attr_loop flat_map]. rewrite <- app_assoc, Hs. apply H2.
Qed.

Lemma once_inv_init p ct l : once_inv p ct l_init l.
Proof. intros b s _ _. reflexivity. Qed.

Lemma read_pattrs_ok ct except g p m nest l :
  ctx_ok ct except = true -> wf_pattrs_b p ct l = true -> Forall (g_resp_plain g p ct) l ->
  forall rest, read_attributes g p ct m nest (enc_pattrs l ++ rest) = Ok (spec_plains p ct m l l_init, rest).
Proof.
  intros Hct Hwf Hg. unfold wf_pattrs_b in Hwf. apply andb_prop in Hwf as [Hwf Honce].
  destruct (plain_loop_ok ct except g p m nest Hct l l_init Hwf Honce Hg (once_inv_init _ _ _)) as (H & _).
  intros rest.
  unfold read_attributes, enc_pattrs. rewrite <- app_assoc, rd16_e16. cbv beta iota. rewrite to_nat_elen.
  apply H.
Qed.

(* ---------- tables_ok, taken apart ---------- *)
Record tok (T : reader_tables) : Prop := mkTok {
  tk_class : ctx_ok (rt_class T) [FIELDS; METHODS] = true;
  tk_field : ctx_ok (rt_field T) [] = true;
  tk_method : ctx_ok (rt_method T) [] = true;
  tk_code : ctx_ok (rt_code T) [] = true;
  tk_rc : ctx_ok (rt_rc T) [] = true;
  tk_bclass : rt_break_class T = true;
  tk_bfield : rt_break_field T = true;
  tk_bmethod : rt_break_method T = true;
  tk_brc : rt_break_rc T = true;
  tk_hdr : rt_member_header T = 6;
  tk_fields_in : mem FIELDS (t_interests (rt_class T)) = true;
  tk_methods_in : mem METHODS (t_interests (rt_class T)) = true;
}.

Lemma tables_ok_tok T : tables_ok T = true -> tok T.
Proof.
  unfold tables_ok. intros H.
  destruct (ctx_ok (rt_class T) [FIELDS; METHODS]) eqn:E1; [|discriminate H].
  destruct (ctx_ok (rt_field T) []) eqn:E2; [|discriminate H].
  destruct (ctx_ok (rt_method T) []) eqn:E3; [|discriminate H].
  destruct (ctx_ok (rt_code T) []) eqn:E4; [|discriminate H].
  destruct (ctx_ok (rt_rc T) []) eqn:E5; [|discriminate H].
  cbn [andb] in H.
  repeat (apply andb_prop in H as [H ?]).
  constructor; try assumption; try reflexivity.
  apply N.eqb_eq. assumption.
Qed.

(* ---------- read_code ---------- *)
Lemma read_code_ok T g p cm attr ms ml code nexc exc attrs :
  tok T ->
  negb (elen code =? 0) = true -> negb (65535 <? elen code) = true -> elen exc = 8 * nexc ->
  wf_pattrs_b p (rt_code T) attrs = true -> Forall (g_resp_plain g p (rt_code T)) attrs ->
  forall rest, read_code g p T cm attr (code_body ms ml code nexc exc attrs ++ rest) = Ok (spec_code p T cm attr ms ml (exc_rows nexc exc) attrs, rest).
Proof.
  intros HT H0 H1 Hexc Hwf Hg.
  pose proof (read_pattrs_ok (rt_code T) [] g p cm no_nested attrs (tk_code T HT) Hwf Hg) as Hr.
  apply negb_true_iff in H0. apply negb_true_iff in H1.
  intros rest.
  unfold read_code, code_body. rewrite <- !app_assoc.
  rewrite rd16_e16. cbv beta iota. rewrite rd16_e16. cbv beta iota. rewrite rd32_e32. cbv beta iota.
  rewrite H0, H1. cbn [orb].
  rewrite skipN_app. rewrite rd16_e16. cbv beta iota.
  rewrite (takeN_app_eq exc _ (8 * nexc)) by (symmetry; exact Hexc).
  rewrite Hr. reflexivity.
Qed.

(* ---------- read_record_component ---------- *)
Lemma read_rc_ok T g p v attr k c :
  tok T -> wf_pattrs_b p (rt_rc T) (snd c) = true -> Forall (g_resp_plain g p (rt_rc T)) (snd c) ->
  forall rest, read_rc g p T v attr k (enc_rc c ++ rest) = Ok (spec_rc p T v attr k c, rest).
Proof.
  intros HT Hwf Hg.
  assert (Hhead : forall rest, read_rc g p T v attr k (enc_rc c ++ rest) =
     match v_rc v k with
     | Some m => match read_attributes g p (rt_rc T) m no_nested (enc_pattrs (snd c) ++ rest) with Err => Err
                 | Ok (st, s3) => Ok (ERc attr k (fst (fst c)) (snd (fst c)) (Some (loop_events (rt_rc T) m st)), s3) end
     | None => if rt_break_rc T then match skip_attributes (enc_pattrs (snd c) ++ rest) with Err => Err | Ok s3 => Ok (ERc attr k (fst (fst c)) (snd (fst c)) None, s3) end
               else Ok (ERc attr k (fst (fst c)) (snd (fst c)) None, enc_pattrs (snd c) ++ rest)
     end).
  { intros rest. unfold read_rc, enc_rc. rewrite <- !app_assoc.
    rewrite rd16_e16. cbv beta iota. rewrite rd16_e16. cbv beta iota. reflexivity. }
  unfold spec_rc.
  destruct (v_rc v k) as [m|].
  - pose proof (read_pattrs_ok (rt_rc T) [] g p m no_nested (snd c) (tk_rc T HT) Hwf Hg) as Hr.
    intros rest. rewrite Hhead, Hr. reflexivity.
  - unfold wf_pattrs_b in Hwf. apply andb_prop in Hwf as [Hwf _].
    intros rest. rewrite Hhead, (tk_brc T HT), (skip_pattrs_ok _ _ _ _ Hwf). reflexivity.
Qed.

Lemma rc_loop_ok T g p v attr comps : tok T ->
  forallb (fun c => wf_pattrs_b p (rt_rc T) (snd c)) comps = true ->
  Forall (fun c => Forall (g_resp_plain g p (rt_rc T)) (snd c)) comps ->
  forall st,
    (forall rest, rc_loop (class_nested g p T v) attr (length comps) (flat_map enc_rc comps ++ rest) st = Ok (spec_rcs p T v attr comps st, rest))
    /\ l_slots (spec_rcs p T v attr comps st) = l_slots st /\ l_record (spec_rcs p T v attr comps st) = l_record st.
Proof.
  intros HT. induction comps as [|c comps IH]; intros Hwf Hg st.
  - cbn. auto.
  - cbn [forallb] in Hwf. apply andb_prop in Hwf as [Hwc Hwl].
    inversion Hg as [|? ? Hgc Hgl]; subst.
    pose proof (read_rc_ok T g p v attr (l_rc st) c HT Hwc Hgc) as He.
    destruct (IH Hwl Hgl (push_rc p T v attr st c)) as (H2 & Hs2 & Hr2).
    unfold spec_rcs in *. cbn [fold_left]. split; [|cbn in *; auto].
    intros rest. cbn [length rc_loop flat_map]. rewrite <- app_assoc.
    cbn [class_nested n_rc]. rewrite He. apply H2.
Qed.

(* ---------- a list of attributes of any context ---------- *)
Definition not_plain (a : attr) : Prop := match a with AtPlain _ => False | _ => True end.

Lemma slot_filled_slots st st' s : l_slots st' = l_slots st -> slot_filled st' s = slot_filled st s.
Proof. unfold slot_filled. intros ->. reflexivity. Qed.

(* what the step lemma of a non-plain attribute (Code, Record) provides *)
Definition special_step (T : reader_tables) (g : grammar) (p : pool) (v : visitor) (ct : ctx_table) (kind : ctx_kind) (m : mask)
    (kc : option mask) (nest : nested) : Prop :=
  forall a st, wf_attr_b p T kind ct a = true -> g_resp_attr g p T ct a -> not_plain a ->
    (is_rec a = true -> l_record st = false) ->
    (forall rest, attr_step g p ct m nest (enc_attr a ++ rest) st = Ok (spec_attr p T v ct m kc st a, rest))
       /\ l_slots (spec_attr p T v ct m kc st a) = l_slots st
       /\ (is_rec a = false -> l_record (spec_attr p T v ct m kc st a) = l_record st).

Lemma attrs_loop_ok T g p v ct except kind m kc nest
  (Hct : ctx_ok ct except = true) (Hsp : special_step T g p v ct kind m kc nest) :
  forall l st,
    forallb (wf_attr_b p T kind ct) l = true -> once_ok p ct (plains l) = true -> (count_rec l <= 1)%nat ->
    Forall (g_resp_attr g p T ct) l ->
    once_inv p ct st (plains l) -> (l_record st = true -> count_rec l = 0%nat) ->
    forall rest, attr_loop g p ct m nest (length l) (flat_map enc_attr l ++ rest) st = Ok (spec_attrs p T v ct m kc l st, rest).
Proof.
  induction l as [|a l IH]; intros st Hwf Honce Hcnt Hg Hinv Hrec.
  - reflexivity.
  - cbn [forallb] in Hwf. apply andb_prop in Hwf as [Hwa Hwl].
    inversion Hg as [|? ? Hga Hgl]; subst.
    unfold spec_attrs. cbn [fold_left]. fold (spec_attrs p T v ct m kc l (spec_attr p T v ct m kc st a)).
    destruct a as [pa | nidx len ms ml code nexc exc attrs | nidx len comps].
    + (* plain *)
      change (plains (AtPlain pa :: l)) with (pa :: plains l) in *.
      change (spec_attr p T v ct m kc st (AtPlain pa)) with (spec_plain p ct m st pa).
      destruct (plain_step_ok ct except g p m nest pa st Hct Hwa Hga) as (Hs & Hr & _ & Hsl).
      { intros s Hs. apply (Hinv pa s (or_introl eq_refl) Hs). }
      assert (Hc' : (count_rec l <= 1)%nat) by (cbn in Hcnt; lia).
      assert (Hi' : once_inv p ct (spec_plain p ct m st pa) (plains l)) by (eapply once_inv_step; eauto).
      assert (Hr' : l_record (spec_plain p ct m st pa) = true -> count_rec l = 0%nat) by (intros H; rewrite Hr in H; apply Hrec in H; cbn in H; lia).
      pose proof (IH (spec_plain p ct m st pa) Hwl (once_ok_tail _ _ _ _ Honce) Hc' Hgl Hi' Hr') as H2.
      intros rest. cbn [length attr_loop flat_map]. rewrite <- app_assoc.
      change (enc_attr (AtPlain pa)) with (enc_pattr pa). rewrite Hs. apply H2.
    + (* Code *)
      change (plains (AtCode nidx len ms ml code nexc exc attrs :: l)) with (plains l) in *.
      destruct (Hsp _ st Hwa Hga I) as (Hs & Hsl & Hr).
      { discriminate. }
      set (st1 := spec_attr p T v ct m kc st (AtCode nidx len ms ml code nexc exc attrs)) in *.
      assert (Hc' : (count_rec l <= 1)%nat) by (cbn in Hcnt; lia).
      assert (Hi' : once_inv p ct st1 (plains l)).
      { intros b s Hb Hst. rewrite (slot_filled_slots _ _ _ Hsl). eapply Hinv; eauto. }
      assert (Hr' : l_record st1 = true -> count_rec l = 0%nat).
      { intros H. rewrite (Hr eq_refl) in H. apply Hrec in H. cbn in H. lia. }
      pose proof (IH st1 Hwl Honce Hc' Hgl Hi' Hr') as H2.
      intros rest. cbn [length attr_loop flat_map]. rewrite <- app_assoc, Hs. apply H2.
    + (* Record *)
      change (plains (AtRecord nidx len comps :: l)) with (plains l) in *.
      destruct (Hsp _ st Hwa Hga I) as (Hs & Hsl & Hr).
      { intros _. destruct (l_record st) eqn:E; [|reflexivity]. specialize (Hrec eq_refl). cbn in Hrec. lia. }
      set (st1 := spec_attr p T v ct m kc st (AtRecord nidx len comps)) in *.
      assert (Hc' : (count_rec l <= 1)%nat) by (cbn in Hcnt; lia).
      assert (Hz : count_rec l = 0%nat) by (cbn in Hcnt; lia).
      assert (Hi' : once_inv p ct st1 (plains l)).
      { intros b s Hb Hst. rewrite (slot_filled_slots _ _ _ Hsl). eapply Hinv; eauto. }
      pose proof (IH st1 Hwl Honce Hc' Hgl Hi' (fun _ => Hz)) as H2.
      intros rest. cbn [length attr_loop flat_map]. rewrite <- app_assoc, Hs. apply H2.
Qed.

Lemma read_attrs_ok T g p v ct except kind m kc nest l :
  ctx_ok ct except = true -> special_step T g p v ct kind m kc nest ->
  wf_attrs_b p T kind ct l = true -> Forall (g_resp_attr g p T ct) l ->
  forall rest, read_attributes g p ct m nest (enc_attrs l ++ rest) = Ok (spec_attrs p T v ct m kc l l_init, rest).
Proof.
  intros Hct Hsp Hwf Hg. unfold wf_attrs_b in Hwf.
  apply andb_prop in Hwf as [Hwf Hcnt]. apply andb_prop in Hwf as [Hwf Honce].
  apply PeanoNat.Nat.leb_le in Hcnt.
  assert (H : forall rest, attr_loop g p ct m nest (length l) (flat_map enc_attr l ++ rest) l_init = Ok (spec_attrs p T v ct m kc l l_init, rest)).
  { apply (attrs_loop_ok T g p v ct except kind m kc nest Hct Hsp l l_init Hwf Honce Hcnt Hg).
    - apply once_inv_init.
    - discriminate. }
  intros rest.
  unfold read_attributes, enc_attrs. rewrite <- app_assoc, rd16_e16. cbv beta iota. rewrite to_nat_elen.
  apply H.
Qed.

(* a context whose well-formed attributes are all plain (fields) *)
Lemma no_special_leaf T g p v ct m kc nest : special_step T g p v ct KLeaf m kc nest.
Proof. intros a st. destruct a; cbn [wf_attr_b is_method is_class andb not_plain]; intros; try discriminate; contradiction. Qed.

Lemma ctx_ok_arms ct except : ctx_ok ct except = true -> arms_ok (t_interests ct) [] (t_arms ct) = true.
Proof. intros H. apply andb_prop in H as [H _]. apply andb_prop in H as [H _]. exact H. Qed.
Lemma ctx_ok_whole ct except : ctx_ok ct except = true -> whole_ok ct = true.
Proof. intros H. apply andb_prop in H as [_ H]. exact H. Qed.

(* the Code attribute of a method *)
Lemma code_step_ok T g p v k m : tok T -> special_step T g p v (rt_method T) KMethod m (v_code v k) (method_nested g p T v k).
Proof.
  intros HT a st Hwf Hg Hnp _.
  destruct a as [pa | nidx len ms ml code nexc exc attrs | nidx len comps]; [contradiction| |cbn in Hwf; discriminate].
  cbn [wf_attr_b is_method andb] in Hwf. cbn [spec_attr].
  destruct (pool_utf8 p nidx) as [name|] eqn:En; [|discriminate].
  destruct (act_full (rt_method T) name) as [[| | | | b |]|] eqn:Ea; try discriminate.
  cbn [andb] in Hwf.
  repeat (apply andb_prop in Hwf as [Hwf ?]).
  apply N.eqb_eq in Hwf.
  match goal with E : (elen exc =? _) = true |- _ => apply N.eqb_eq in E end.
  cbn [g_resp_attr] in Hg.
  destruct (dispatch_ctx (rt_method T) [] m name (tk_method T HT)) as [_ Hd].
  assert (Hb : b = true).
  { eapply (dispatch_full_code (t_interests (rt_method T)) _ _ [] (le_n _) (ctx_ok_arms _ _ (tk_method T HT))). exact Ea. }
  subst b.
  assert (Hhead : forall rest, attr_step g p (rt_method T) m (method_nested g p T v k)
            (enc_attr (AtCode nidx len ms ml code nexc exc attrs) ++ rest) st =
     if keep (t_arms (rt_method T)) m name then
       match v_code v k with
       | Some cm => match read_code g p T cm name (code_body ms ml code nexc exc attrs ++ rest) with Err => Err | Ok (e, s3) => Ok (l_emit st e, s3) end
       | None => match skipN (code_body ms ml code nexc exc attrs ++ rest) len with Err => Err | Ok s3 => Ok (l_emit st (ECodeDeclined name), s3) end
       end
     else match skipN (code_body ms ml code nexc exc attrs ++ rest) len with Err => Err | Ok s3 => Ok (st, s3) end).
  { intros rest. unfold attr_step, enc_attr. cbn [attr_nidx attr_len attr_body].
    rewrite <- !app_assoc, rd16_e16. cbv beta iota. rewrite En, rd32_e32. cbv beta iota. rewrite Hd.
    destruct (keep (t_arms (rt_method T)) m name); [|reflexivity].
    fold (act_full (rt_method T) name). rewrite Ea. cbn [method_nested n_code_accepts n_code].
    destruct (v_code v k); reflexivity. }
  destruct (keep (t_arms (rt_method T)) m name).
  - destruct (v_code v k) as [cm|].
    + pose proof (read_code_ok T g p cm name ms ml code nexc exc attrs HT) as He.
      split; [intros rest; rewrite Hhead, He; auto|]. cbn. auto.
    + split; [intros rest; rewrite Hhead, (skipN_app_eq _ _ _ Hwf); reflexivity|]. cbn. auto.
  - split; [intros rest; rewrite Hhead, (skipN_app_eq _ _ _ Hwf); reflexivity|]. auto.
Qed.

(* the Record attribute of a class *)
Lemma record_step_ok T g p v m kc : tok T -> special_step T g p v (rt_class T) KClass m kc (class_nested g p T v).
Proof.
  intros HT a st Hwf Hg Hnp Hrec.
  destruct a as [pa | nidx len ms ml code nexc exc attrs | nidx len comps]; [contradiction|cbn in Hwf; discriminate|].
  cbn [wf_attr_b is_class andb] in Hwf. cbn [spec_attr].
  destruct (pool_utf8 p nidx) as [name|] eqn:En; [|discriminate].
  destruct (act_full (rt_class T) name) as [[| | | | | once]|] eqn:Ea; try discriminate.
  cbn [andb] in Hwf.
  apply andb_prop in Hwf as [Hlen Hcomps]. apply N.eqb_eq in Hlen.
  cbn [g_resp_attr] in Hg.
  destruct (dispatch_ctx (rt_class T) [FIELDS; METHODS] m name (tk_class T HT)) as [_ Hd].
  specialize (Hrec eq_refl).
  assert (Hhead : forall rest, attr_step g p (rt_class T) m (class_nested g p T v)
            (enc_attr (AtRecord nidx len comps) ++ rest) st =
     if keep (t_arms (rt_class T)) m name then
       rc_loop (class_nested g p T v) name (length comps) (flat_map enc_rc comps ++ rest) (set_record st)
     else match skipN (record_body comps ++ rest) len with Err => Err | Ok s3 => Ok (st, s3) end).
  { intros rest. unfold attr_step, enc_attr. cbn [attr_nidx attr_len attr_body].
    rewrite <- !app_assoc, rd16_e16. cbv beta iota. rewrite En, rd32_e32. cbv beta iota. rewrite Hd.
    destruct (keep (t_arms (rt_class T)) m name); [|reflexivity].
    fold (act_full (rt_class T) name). rewrite Ea, Hrec, andb_false_r.
    unfold record_body. rewrite <- app_assoc, rd16_e16. cbv beta iota. rewrite to_nat_elen. reflexivity. }
  destruct (keep (t_arms (rt_class T)) m name).
  - destruct (rc_loop_ok T g p v name comps HT Hcomps Hg (set_record st)) as (H2 & Hs2 & Hr2).
    split; [intros rest; rewrite Hhead; apply H2|]. cbn in *. split; [assumption|discriminate].
  - split; [intros rest; rewrite Hhead, (skipN_app_eq _ _ _ Hlen); reflexivity|]. auto.
Qed.

(* ---------- members ---------- *)
Lemma member_honest p T k ct mb : wf_member_b p T k ct mb = true -> Forall honest (m_attrs mb).
Proof.
  unfold wf_member_b, wf_attrs_b. intros H. apply andb_prop in H as [H _]. apply andb_prop in H as [H _].
  eapply wf_attrs_honest; eauto.
Qed.

Lemma read_field_ok T g p v k mb :
  tok T -> wf_member_b p T KLeaf (rt_field T) mb = true -> Forall (g_resp_attr g p T (rt_field T)) (m_attrs mb) ->
  forall rest, read_field g p T v k (enc_member mb ++ rest) = Ok (spec_field p T v k mb, rest).
Proof.
  intros HT Hwf Hg.
  assert (Hhead : forall rest, read_field g p T v k (enc_member mb ++ rest) =
     match v_field v k with
     | Some m => match read_attributes g p (rt_field T) m no_nested (enc_attrs (m_attrs mb) ++ rest) with Err => Err
                 | Ok (st, s4) => Ok (EField k (m_access mb) (m_name mb) (m_desc mb) (Some (loop_events (rt_field T) m st)), s4) end
     | None => if rt_break_field T then match skip_attributes (enc_attrs (m_attrs mb) ++ rest) with Err => Err | Ok s4 => Ok (EField k (m_access mb) (m_name mb) (m_desc mb) None, s4) end
               else Ok (EField k (m_access mb) (m_name mb) (m_desc mb) None, enc_attrs (m_attrs mb) ++ rest)
     end).
  { intros rest. unfold read_field, enc_member. rewrite <- !app_assoc.
    rewrite rd16_e16. cbv beta iota. rewrite rd16_e16. cbv beta iota. rewrite rd16_e16. cbv beta iota. reflexivity. }
  unfold spec_field.
  destruct (v_field v k) as [m|].
  - pose proof (read_attrs_ok T g p v (rt_field T) [] KLeaf m None no_nested (m_attrs mb) (tk_field T HT)
               (no_special_leaf T g p v (rt_field T) m None no_nested) Hwf Hg) as Hr.
    intros rest. rewrite Hhead, Hr. reflexivity.
  - intros rest. rewrite Hhead, (tk_bfield T HT), (skip_attributes_ok _ _ (member_honest _ _ _ _ _ Hwf)). reflexivity.
Qed.

Lemma read_method_ok T g p v k mb :
  tok T -> wf_member_b p T KMethod (rt_method T) mb = true -> Forall (g_resp_attr g p T (rt_method T)) (m_attrs mb) ->
  forall rest, read_method g p T v k (enc_member mb ++ rest) = Ok (spec_method p T v k mb, rest).
Proof.
  intros HT Hwf Hg.
  assert (Hhead : forall rest, read_method g p T v k (enc_member mb ++ rest) =
     match v_method v k with
     | Some m => match read_attributes g p (rt_method T) m (method_nested g p T v k) (enc_attrs (m_attrs mb) ++ rest) with Err => Err
                 | Ok (st, s4) => Ok (EMethod k (m_access mb) (m_name mb) (m_desc mb) (Some (loop_events (rt_method T) m st)), s4) end
     | None => if rt_break_method T then match skip_attributes (enc_attrs (m_attrs mb) ++ rest) with Err => Err | Ok s4 => Ok (EMethod k (m_access mb) (m_name mb) (m_desc mb) None, s4) end
               else Ok (EMethod k (m_access mb) (m_name mb) (m_desc mb) None, enc_attrs (m_attrs mb) ++ rest)
     end).
  { intros rest. unfold read_method, enc_member. rewrite <- !app_assoc.
    rewrite rd16_e16. cbv beta iota. rewrite rd16_e16. cbv beta iota. rewrite rd16_e16. cbv beta iota. reflexivity. }
  unfold spec_method.
  destruct (v_method v k) as [m|].
  - pose proof (read_attrs_ok T g p v (rt_method T) [] KMethod m (v_code v k) (method_nested g p T v k) (m_attrs mb) (tk_method T HT)
               (code_step_ok T g p v k m HT) Hwf Hg) as Hr.
    intros rest. rewrite Hhead, Hr. reflexivity.
  - intros rest. rewrite Hhead, (tk_bmethod T HT), (skip_attributes_ok _ _ (member_honest _ _ _ _ _ Hwf)). reflexivity.
Qed.

Lemma members_loop_ok T (honours wanted : bool) (rd : nat -> bytes -> res (ev * bytes)) (f : nat -> member -> ev) p kd ct l :
  tok T -> forallb (wf_member_b p T kd ct) l = true ->
  (forall k mb, In mb l -> forall rest, rd k (enc_member mb ++ rest) = Ok (f k mb, rest)) ->
  forall k rest,
    members_loop_opt (member_reader T honours wanted rd) (length l) k (flat_map enc_member l ++ rest)
    = Ok (spec_members (honours && negb wanted) f k l, rest).
Proof.
  intros HT. induction l as [|mb l IH]; intros Hwf Hrd k rest.
  - reflexivity.
  - cbn [forallb] in Hwf. apply andb_prop in Hwf as [Hwm Hwl].
    cbn [length members_loop_opt flat_map spec_members]. rewrite <- app_assoc.
    assert (Hone : member_reader T honours wanted rd k (enc_member mb ++ flat_map enc_member l ++ rest)
                   = Ok ((if honours && negb wanted then None else Some (f k mb)), flat_map enc_member l ++ rest)).
    { unfold member_reader. destruct (honours && negb wanted).
      - rewrite (tk_hdr T HT). unfold enc_member. rewrite <- !app_assoc, skip6.
        rewrite (skip_attributes_ok _ _ (member_honest _ _ _ _ _ Hwm)). reflexivity.
      - rewrite (Hrd k mb (or_introl eq_refl)). reflexivity. }
    rewrite Hone.
    rewrite (IH Hwl (fun k mb Hin => Hrd k mb (or_intror Hin)) (S k) rest).
    destruct (honours && negb wanted); reflexivity.
Qed.

Lemma read_members_ok T honours wanted rd f p kd ct l :
  tok T -> forallb (wf_member_b p T kd ct) l = true ->
  (forall k mb, In mb l -> forall rest, rd k (enc_member mb ++ rest) = Ok (f k mb, rest)) ->
  forall rest, read_members (member_reader T honours wanted rd) (enc_members l ++ rest)
               = Ok (spec_members (honours && negb wanted) f 0 l, rest).
Proof.
  intros HT Hwf Hrd rest.
  unfold read_members, enc_members. rewrite <- app_assoc, rd16_e16. cbv beta iota. rewrite to_nat_elen.
  eapply members_loop_ok; eauto.
Qed.

(* ---------- one class ---------- *)
Lemma Forall_In {A} (P : A -> Prop) l x : Forall P l -> In x l -> P x.
Proof. intros H. rewrite Forall_forall in H. apply H. Qed.
Lemma forallb_In {A} (f : A -> bool) l x : forallb f l = true -> In x l -> f x = true.
Proof. intros H. rewrite forallb_forall in H. apply H. Qed.

(* Reading a well-formed class, followed by anything, delivers exactly what the specification
   computes from the structure, and leaves exactly what followed — for every visitor. *)
Theorem read_class_ok T g c h v :
  tables_ok T = true -> wf g T c h ->
  forall rest, read_class g T v (enc c ++ rest) = Ok (spec_class T v h c, rest).
Proof.
  intros HTb [Hhdr Hf Hm Hc Hgf Hgm Hgc]. pose proof (tables_ok_tok T HTb) as HT.
  assert (Hhon : Forall honest (c_attrs c)).
  { unfold wf_attrs_b in Hc. apply andb_prop in Hc as [Hc _]. apply andb_prop in Hc as [Hc _]. eapply wf_attrs_honest; eauto. }
  assert (Hhead : forall rest, read_class g T v (enc c ++ rest) =
    if v_accept_class v then
      match read_attributes g (h_pool h) (rt_class T) (v_class v) (class_nested g (h_pool h) T v) (enc_attrs (c_attrs c) ++ rest) with Err => Err | Ok (st, s_end) =>
      match read_members (member_reader T (rt_honours_fields T) (interested (v_class v) FIELDS) (read_field g (h_pool h) T v))
              (enc_members (c_fields c) ++ enc_members (c_methods c) ++ enc_attrs (c_attrs c) ++ rest) with Err => Err | Ok (fs, s2) =>
      match read_members (member_reader T (rt_honours_methods T) (interested (v_class v) METHODS) (read_method g (h_pool h) T v)) s2 with Err => Err | Ok (ms, _) =>
        Ok (Some (loop_events (rt_class T) (v_class v) st ++ fs ++ ms), s_end)
      end end end
    else
      if rt_break_class T then match skip_attributes (enc_attrs (c_attrs c) ++ rest) with Err => Err | Ok s_end => Ok (None, s_end) end
      else Ok (None, enc_attrs (c_attrs c) ++ rest)).
  { intros rest. unfold read_class, enc. rewrite <- !app_assoc, Hhdr. cbv beta iota.
    rewrite (tk_hdr T HT).
    rewrite (skip_members_ok _ _ _ _ _ _ Hf), (skip_members_ok _ _ _ _ _ _ Hm). reflexivity. }
  unfold spec_class.
  destruct (v_accept_class v).
  - pose proof (read_attrs_ok T g (h_pool h) v (rt_class T) [FIELDS; METHODS] KClass (v_class v) None (class_nested g (h_pool h) T v) (c_attrs c)
               (tk_class T HT) (record_step_ok T g (h_pool h) v (v_class v) None HT) Hc Hgc) as Hr.
    pose proof (read_members_ok T (rt_honours_fields T) (interested (v_class v) FIELDS) (read_field g (h_pool h) T v) (spec_field (h_pool h) T v) (h_pool h) KLeaf (rt_field T)
               (c_fields c) HT Hf) as Hfs.
    pose proof (read_members_ok T (rt_honours_methods T) (interested (v_class v) METHODS) (read_method g (h_pool h) T v) (spec_method (h_pool h) T v) (h_pool h) KMethod (rt_method T)
               (c_methods c) HT Hm) as Hms.
    intros rest. rewrite Hhead, Hr, Hfs, Hms; [reflexivity| |].
    + intros k mb Hin. apply read_method_ok; auto. apply (forallb_In _ _ _ Hm Hin). apply (Forall_In _ _ _ Hgm Hin).
    + intros k mb Hin. apply read_field_ok; auto. apply (forallb_In _ _ _ Hf Hin). apply (Forall_In _ _ _ Hgf Hin).
  - intros rest. rewrite Hhead, (tk_bclass T HT), (skip_attributes_ok _ _ Hhon). reflexivity.
Qed.
