(* C06 — property theorems only.  Each is closed by [exact <lemma>] and followed by
   Print Assumptions; the statements are pinned here so they cannot be quietly weakened. *)
From FB Require Import C06.Model C06.ModelT C18.Theory C06.Theory1 C06.Theory2 C06.Theory3 C06.Theory4 C06.Theory5 C06.Theory6 C06.Theory7.

(* ---- 1. descriptor rewriting preserves the shape and maps exactly the class names ---- *)

(* For every field descriptor of the JVMS grammar (parse_field accepts exactly FieldTypeG, C18) and
   EVERY class map f, the scanner succeeds and its output is the printed form of the same type with
   the class names mapped; when f yields binary class names that output parses back to that type. *)
Theorem C06_map_desc_shape_field : forall f d t, parse_field d = Ok t ->
  map_desc f d = Ok (print_ty (map_ty f t)) /\
  (range_valid f -> parse_field (print_ty (map_ty f t)) = Ok (map_ty f t)).
Proof. exact map_desc_shape_field. Qed.
Print Assumptions C06_map_desc_shape_field.

Theorem C06_map_desc_shape_method : forall f d m, parse_method d = Ok m ->
  map_desc f d = Ok (print_method (map_mty f m)) /\
  (range_valid f -> parse_method (print_method (map_mty f m)) = Ok (map_mty f m)).
Proof. exact map_desc_shape_method. Qed.
Print Assumptions C06_map_desc_shape_method.

Theorem C06_map_desc_shape_return : forall f d r, parse_return d = Ok r ->
  map_desc f d = Ok (print_return (map_ret f r)) /\
  (range_valid f -> parse_return (print_return (map_ret f r)) = Ok (map_ret f r)).
Proof. exact map_desc_shape_return. Qed.
Print Assumptions C06_map_desc_shape_return.

(* array class names: dimensions kept, element class mapped *)
Theorem C06_map_desc_shape_array : forall f c, is_valid_arr_class_name c = true ->
  exists d a, parse_field c = Ok (TArr d a) /\ map_desc f c = Ok (print_ty (TArr d (map_aty f a))).
Proof. exact map_desc_shape_array. Qed.
Print Assumptions C06_map_desc_shape_array.

(* identity class map: for ALL strings the scanner fails or returns its input; on descriptors it succeeds *)
Theorem C06_map_desc_id_any : forall s o, map_desc (fun x => x) s = Ok o -> o = s.
Proof. exact map_desc_id_any. Qed.
Print Assumptions C06_map_desc_id_any.

Theorem C06_map_desc_id_field : forall d t, parse_field d = Ok t -> map_desc (fun x => x) d = Ok d.
Proof. exact map_desc_id_field. Qed.
Print Assumptions C06_map_desc_id_field.

Theorem C06_map_desc_id_method : forall d m, parse_method d = Ok m -> map_desc (fun x => x) d = Ok d.
Proof. exact map_desc_id_method. Qed.
Print Assumptions C06_map_desc_id_method.

Theorem C06_map_desc_id_return : forall d r, parse_return d = Ok r -> map_desc (fun x => x) d = Ok d.
Proof. exact map_desc_id_return. Qed.
Print Assumptions C06_map_desc_id_return.

(* ALL strings, well-formed or not: the scanner succeeds exactly on the strings that split into
   copied non-`L` characters and segments `L` name `;` with a non-empty name free of `;`, and then
   replaces exactly those names (everything else, including malformed input, is Err) *)
Theorem C06_map_desc_scan : forall f s o, map_desc f s = Ok o <-> Scan f s o.
Proof. exact map_desc_scan. Qed.
Print Assumptions C06_map_desc_scan.

(* two rewrites in a row compose (needed for X -> Y -> X) *)
Theorem C06_map_desc_twice_field : forall f g d t, range_valid f -> parse_field d = Ok t ->
  map_desc f d = Ok (print_ty (map_ty f t)) /\
  map_desc g (print_ty (map_ty f t)) = Ok (print_ty (map_ty (fun n => g (f n)) t)).
Proof. exact map_desc_twice_field. Qed.
Print Assumptions C06_map_desc_twice_field.

Theorem C06_map_desc_twice_method : forall f g d m, range_valid f -> parse_method d = Ok m ->
  map_desc f d = Ok (print_method (map_mty f m)) /\
  map_desc g (print_method (map_mty f m)) = Ok (print_method (map_mty (fun n => g (f n)) m)).
Proof. exact map_desc_twice_method. Qed.
Print Assumptions C06_map_desc_twice_method.

(* ---- 2. classes: the answer in terms of the mapping rows; identity fall-back ---- *)

(* every answer comes from a row carrying both names; no such row => the name is unchanged;
   when the `from` names are pairwise distinct every such row is answered *)
Theorem C06_map_class_spec : forall M from to c,
  let T := remapper_a M from to in
  (forall b, a_map_class_fail T c = Some b ->
             a_map_class T c = b /\ exists row, In row (ms_classes M) /\ row_has from to c b row) /\
  (a_map_class_fail T c = None ->
             a_map_class T c = c /\ forall row b, In row (ms_classes M) -> ~ row_has from to c b row) /\
  (NoDup (map fst T) -> forall row b, In row (ms_classes M) -> row_has from to c b row -> a_map_class T c = b).
Proof. exact a_map_class_spec. Qed.
Print Assumptions C06_map_class_spec.

(* the B remapper answers classes, descriptors and array classes exactly as the A remapper *)
Theorem C06_b_agrees_with_a : forall M from to R, remapper_b M from to = Ok R ->
  forall x, b_map_class R x = a_map_class (remapper_a M from to) x /\
            b_map_desc R x = a_map_desc (remapper_a M from to) x /\
            b_map_class_any R x = a_map_class_any (remapper_a M from to) x.
Proof. exact b_agrees_with_a. Qed.
Print Assumptions C06_b_agrees_with_a.

(* remapper_b cannot fail when every row descriptor is a descriptor *)
Theorem C06_remapper_b_total : forall M from to, rows_valid M = true -> exists R, remapper_b M from to = Ok R.
Proof. exact remapper_b_total. Qed.
Print Assumptions C06_remapper_b_total.

(* ---- 3. members: first declaring type of the depth-first pre-order ---- *)

(* for every acyclic provider (some rank decreases along every edge) the default fuel suffices and
   the search answers with the first type of the pre-order (owner first, then its super types
   depth-first in declaration order) whose table declares the key — whether or not the owner or an
   intermediate class has a mapping entry; otherwise the unchanged name with the remapped descriptor *)
Theorem C06_map_member_spec : forall sel R I rank c k,
  acyclic_rank I rank ->
  map_member_fail sel (default_fuel I) R I c k =
    Ok (first_declaring (fun x => declared sel R x k) (preorder I c)) /\
  map_member sel (default_fuel I) R I c k =
    match first_declaring (fun x => declared sel R x k) (preorder I c) with
    | Some v => Ok v
    | None => match b_map_desc R (snd k) with Ok d => Ok (fst k, d) | Err => Err end
    end.
Proof. exact map_member_spec. Qed.
Print Assumptions C06_map_member_spec.

(* "first declaring": everything before it in the pre-order declares nothing *)
Theorem C06_first_declaring_some : forall decl l v,
  first_declaring decl l = Some v <->
  exists l1 x l2, l = l1 ++ x :: l2 /\ decl x = Some v /\ forall y, In y l1 -> decl y = None.
Proof. exact first_declaring_some. Qed.
Print Assumptions C06_first_declaring_some.

Theorem C06_map_member_fallback : forall sel R I rank c k,
  acyclic_rank I rank ->
  (forall x, In x (preorder I c) -> declared sel R x k = None) ->
  map_member_fail sel (default_fuel I) R I c k = Ok None /\
  map_member sel (default_fuel I) R I c k =
    match b_map_desc R (snd k) with Ok d => Ok (fst k, d) | Err => Err end.
Proof. exact map_member_fallback. Qed.
Print Assumptions C06_map_member_fallback.

(* fuel: any amount that bounds the height gives the same answer; S (length I) always does *)
Theorem C06_fuel_irrelevant : forall sel R I k f f' c,
  bounded f I c = true -> (f <= f')%nat ->
  map_member_fail sel f' R I c k = map_member_fail sel f R I c k.
Proof. exact map_member_fail_fuel. Qed.
Print Assumptions C06_fuel_irrelevant.

Theorem C06_acyclic_fuel : forall I rank c, acyclic_rank I rank -> bounded (default_fuel I) I c = true.
Proof. exact acyclic_fuel. Qed.
Print Assumptions C06_acyclic_fuel.

Theorem C06_acyclicb_sound : forall I rank, acyclicb I rank = true -> acyclic_rank I rank.
Proof. exact acyclicb_sound. Qed.
Print Assumptions C06_acyclicb_sound.

(* ---- 4. from_not_first: consistency with the rows for ANY source namespace ---- *)

(* a field row (descriptor stored in namespace 0) of a class row, both named in `from` and `to`:
   queried under its `from` name with the descriptor re-expressed in `from`, the answer is its `to`
   name with the descriptor re-expressed in `to`, and the class maps to the row's `to` name *)
Theorem C06_from_not_first_field : forall M from to R I c a b f nf nt t,
  remapper_b M from to = Ok R -> tables_inj R = true ->
  In c (ms_classes M) -> row_has from to a b c ->
  In f (c_fields c) -> nth_name (f_names f) from = Some nf -> nth_name (f_names f) to = Some nt ->
  parse_field (f_desc f) = Ok t ->
  let kf := (nf, print_ty (map_ty (a_map_class (remapper_a M 0 from)) t)) in
  let kt := (nt, print_ty (map_ty (a_map_class (remapper_a M 0 to)) t)) in
  map_field_fail R I a kf = Ok (Some kt) /\ map_field R I a kf = Ok kt /\ map_field_ref R I a kf = Ok (b, kt).
Proof. exact field_row_spec. Qed.
Print Assumptions C06_from_not_first_field.

Theorem C06_from_not_first_method : forall M from to R I c a b m nf nt t,
  remapper_b M from to = Ok R -> tables_inj R = true ->
  In c (ms_classes M) -> row_has from to a b c ->
  In m (c_methods c) -> nth_name (m_names m) from = Some nf -> nth_name (m_names m) to = Some nt ->
  parse_method (m_desc m) = Ok t ->
  let kf := (nf, print_method (map_mty (a_map_class (remapper_a M 0 from)) t)) in
  let kt := (nt, print_method (map_mty (a_map_class (remapper_a M 0 to)) t)) in
  map_method_fail R I a kf = Ok (Some kt) /\ map_method R I a kf = Ok kt /\
  map_method_ref_obj R I a kf = Ok (b, kt).
Proof. exact method_row_spec. Qed.
Print Assumptions C06_from_not_first_method.

(* ---- 5. X -> Y -> X ---- *)

(* the remapper of the opposite direction is the swapped table (same rows, same success) *)
Theorem C06_remapper_b_swap : forall M from to R,
  remapper_b M from to = Ok R -> remapper_b M to from = Ok (swap_b R).
Proof. exact remapper_b_swap. Qed.
Print Assumptions C06_remapper_b_swap.

Theorem C06_roundtrip_class : forall R c,
  tables_inj (swap_b R) = true -> closedb R c = true -> b_map_class (swap_b R) (b_map_class R c) = c.
Proof. exact roundtrip_class. Qed.
Print Assumptions C06_roundtrip_class.

Theorem C06_roundtrip_field_desc : forall R d t,
  names_valid R = true -> tables_inj (swap_b R) = true ->
  parse_field d = Ok t -> forallb (closedb R) (ty_names t) = true ->
  b_map_desc R d = Ok (print_ty (map_ty (b_map_class R) t)) /\
  b_map_desc (swap_b R) (print_ty (map_ty (b_map_class R) t)) = Ok d.
Proof. exact roundtrip_field_desc. Qed.
Print Assumptions C06_roundtrip_field_desc.

Theorem C06_roundtrip_method_desc : forall R d m,
  names_valid R = true -> tables_inj (swap_b R) = true ->
  parse_method d = Ok m -> forallb (closedb R) (mty_names m) = true ->
  b_map_desc R d = Ok (print_method (map_mty (b_map_class R) m)) /\
  b_map_desc (swap_b R) (print_method (map_mty (b_map_class R) m)) = Ok d.
Proof. exact roundtrip_method_desc. Qed.
Print Assumptions C06_roundtrip_method_desc.

Theorem C06_roundtrip_return_desc : forall R d r,
  names_valid R = true -> tables_inj (swap_b R) = true ->
  parse_return d = Ok r -> forallb (closedb R) (ret_names r) = true ->
  b_map_desc R d = Ok (print_return (map_ret (b_map_class R) r)) /\
  b_map_desc (swap_b R) (print_return (map_ret (b_map_class R) r)) = Ok d.
Proof. exact roundtrip_return_desc. Qed.
Print Assumptions C06_roundtrip_return_desc.

(* on the mapping set: classes, and members a class declares directly, whatever the providers are *)
Theorem C06_roundtrip : forall M X Y R,
  remapper_b M X Y = Ok R -> tables_inj (swap_b R) = true ->
  exists R', remapper_b M Y X = Ok R' /\
    (forall c, closedb R c = true -> b_map_class R' (b_map_class R c) = c) /\
    (forall I I' c k v, declared b_fields R c k = Some v ->
        map_field R I c k = Ok v /\ map_field R' I' (b_map_class R c) v = Ok k) /\
    (forall I I' c k v, declared b_methods R c k = Some v ->
        map_method R I c k = Ok v /\ map_method R' I' (b_map_class R c) v = Ok k).
Proof. exact roundtrip_mappings. Qed.
Print Assumptions C06_roundtrip.

(* ---- 5. round trip of members reached through inheritance ----
   Forward: tables R with provider I.  Backward: the tables Mappings::remapper_b(Y, X, ..) builds
   (= swap_b R, C06_remapper_b_swap) with the provider JarSuperProv::remap(forward remapper, I)
   produces, [remap_inh (b_map_class R) I] (C06_remap_provs_inh).
     rt_world R I       target class names pairwise distinct and binary class names (tables_inj
                        (swap_b R), names_valid R), and every class name the provider mentions is
                        mapped or is not some other class's target name (prov_closed)
     rt_owner sel R I c the owner is such a name too (closedb), and the entries VISIBLE from c — the
                        table of c and of every type of its depth-first pre-order — are named
                        injectively in the target namespace: equal target keys have equal source keys
                        (no_shadow_collision; shadowing under the same source key is allowed)
     *_query_ok R I c k the key is declared by a visible type, or (fall-back answer) its descriptor
                        is a descriptor over closed class names and the fall-back key (same name,
                        mapped descriptor) is not the target of a visible entry
   All decidable; none can be dropped (C06_shadow_counterexample). *)
Theorem C06_roundtrip_field_inherited : forall R I rank c k,
  rt_world R I = true -> acyclic_rank I rank -> rt_owner b_fields R I c = true -> field_query_ok R I c k = true ->
  exists c' k', map_field_ref R I c k = Ok (c', k') /\
                map_field_ref (swap_b R) (remap_inh (b_map_class R) I) c' k' = Ok (c, k).
Proof. exact roundtrip_field_inherited. Qed.
Print Assumptions C06_roundtrip_field_inherited.

Theorem C06_roundtrip_method_inherited : forall R I rank c k,
  rt_world R I = true -> acyclic_rank I rank -> rt_owner b_methods R I c = true -> method_query_ok R I c k = true ->
  exists c' k', map_method_ref_obj R I c k = Ok (c', k') /\
                map_method_ref_obj (swap_b R) (remap_inh (b_map_class R) I) c' k' = Ok (c, k).
Proof. exact roundtrip_method_inherited. Qed.
Print Assumptions C06_roundtrip_method_inherited.

(* on the mapping set, for every owner — with or without an entry of its own *)
Theorem C06_roundtrip_inherited : forall M X Y R I rank,
  remapper_b M X Y = Ok R -> rt_world R I = true -> acyclic_rank I rank ->
  exists R', remapper_b M Y X = Ok R' /\
    (forall c k, rt_owner b_fields R I c = true -> field_query_ok R I c k = true ->
       exists c' k', map_field_ref R I c k = Ok (c', k') /\
                     map_field_ref R' (remap_inh (b_map_class R) I) c' k' = Ok (c, k)) /\
    (forall c k, rt_owner b_methods R I c = true -> method_query_ok R I c k = true ->
       exists c' k', map_method_ref_obj R I c k = Ok (c', k') /\
                     map_method_ref_obj R' (remap_inh (b_map_class R) I) c' k' = Ok (c, k)).
Proof. exact roundtrip_mappings_inherited. Qed.
Print Assumptions C06_roundtrip_inherited.

(* a member that some visible type declares: no condition on the query's descriptor *)
Theorem C06_roundtrip_inherited_found : forall sel R I rank c k v,
  sel = b_fields \/ sel = b_methods -> tables_inj (swap_b R) = true -> acyclic_rank I rank ->
  closedb R c = true -> prov_closed R I = true -> no_shadow_collision sel R I c = true ->
  map_member_fail sel (default_fuel I) R I c k = Ok (Some v) ->
  map_member sel (default_fuel I) R I c k = Ok v /\
  map_member sel (default_fuel (remap_inh (b_map_class R) I)) (swap_b R) (remap_inh (b_map_class R) I) (b_map_class R c) v = Ok k.
Proof. exact roundtrip_inherited_found. Qed.
Print Assumptions C06_roundtrip_inherited_found.

(* JarSuperProv::remap (remap_provs: IndexMap / IndexSet inserts, per provider) is remap_inh on
   providers with distinct keys and distinct super types whose names the class map keeps apart *)
Theorem C06_remap_provs_inh : forall R ps,
  tables_inj (swap_b R) = true -> prov_closed R (concat ps) = true -> forallb prov_wf ps = true ->
  concat (remap_provs (b_map_class R) ps) = remap_inh (b_map_class R) (concat ps).
Proof. exact remap_provs_inh. Qed.
Print Assumptions C06_remap_provs_inh.

(* the hypotheses are needed: Sub.m -> n, Base.p -> n, Sub extends Base satisfies everything but
   no_shadow_collision and Sub.p -> n -> m; C.a -> b with an unmapped b satisfies everything but
   method_query_ok and D.b -> b -> a (D extends C) *)
Theorem C06_shadow_counterexample : shadow_counterexample.
Proof. exact shadow_counterexample_holds. Qed.
Print Assumptions C06_shadow_counterexample.

(* non-vacuity with real inheritance: owners without a row, a mapped owner that declares nothing,
   shadowing, a diamond, an inherited field, a fall-back key — all inside the hypotheses *)
Theorem C06_inherited_examples : inherited_examples.
Proof. exact inherited_examples_hold. Qed.
Print Assumptions C06_inherited_examples.

(* ---- non-vacuity (three namespaces, from = 1, shadowing, unmapped owner, half-named row) ---- *)
Theorem C06_examples : nonvacuous.
Proof. exact nonvacuous_holds. Qed.
Print Assumptions C06_examples.

(* ================================================================== *)
(* round 4 *)

(* ---- 6. the search on ARBITRARY providers (after "fix: cyclic inheritance information is an error
   for the remapper instead of an endless recursion") ---- *)

(* for EVERY provider, cyclic or not, more fuel than the default changes nothing: the model's Err is
   never "out of fuel" — the real search terminates on every input (and, searching every class at
   most once per query, quickly: C06_round4_examples evaluates a tower of 40 diamonds) *)
Theorem C06_fuel_never_runs_out : forall sel R I c k f, (default_fuel I <= f)%nat ->
  map_member_fail sel f R I c k = map_member_fail sel (default_fuel I) R I c k.
Proof. exact fuel_never_runs_out. Qed.
Print Assumptions C06_fuel_never_runs_out.

(* the memo of finished owners ("fix: the remapper searches a class once per query instead of once per
   path to it") never changes an answer: on EVERY provider, cyclic or not, the search of the code is the
   path-only search map_member_fail_p (the code before that repair: Err when a class on the current
   path is met again, otherwise the first declaring type in depth-first order) *)
Theorem C06_memo_sound : forall sel R I c k f, (default_fuel I <= f)%nat ->
  map_member_fail sel f R I c k = map_member_fail_p sel f R I [] c k.
Proof. exact memo_sound. Qed.
Print Assumptions C06_memo_sound.

(* the invariant behind it, for any path and any set of finished owners: every finished owner is clean
   (no cycle below it, nothing below it declares the key), and the two searches agree *)
Theorem C06_memo_invariant : forall sel R I k fuel p fl c,
  suff I fuel p c -> (forall z, In z p -> reachp I z c) -> (forall x, In x fl -> clean sel R I k x) ->
  match map_member_fail_m sel fuel R I k p fl c with
  | Found v => map_member_fail_p sel fuel R I p c k = Ok (Some v)
  | Bail => map_member_fail_p sel fuel R I p c k = Err
  | NotFound fl' => map_member_fail_p sel fuel R I p c k = Ok None /\ forall x, In x fl' -> clean sel R I k x
  end.
Proof. exact map_member_fail_m_equiv. Qed.
Print Assumptions C06_memo_invariant.

(* the work of one query: map_member_fail_t is the search of the code instrumented with the list of owners
   whose member table it consults; erasing the list gives the model back, and the list never contains a
   class twice — on any provider, whatever the number of paths — so a query costs at most one table
   look-up per class name the provider mentions, plus one for the owner *)
Theorem C06_tables_consulted_once : forall sel R I k fuel c,
  fst (map_member_fail_t sel fuel R I k [] [] [] c) = map_member_fail_m sel fuel R I k [] [] c /\
  NoDup (snd (map_member_fail_t sel fuel R I k [] [] [] c)).
Proof. exact tables_consulted_once. Qed.
Print Assumptions C06_tables_consulted_once.

Theorem C06_work_bound : forall sel R I k fuel c,
  (length (snd (map_member_fail_t sel fuel R I k [] [] [] c)) <=
   S (length (flat_map (fun e => fst e :: snd e) I)))%nat.
Proof. exact work_bound. Qed.
Print Assumptions C06_work_bound.

(* when the traversal from the owner is bounded (no cycle can be reached) the cycle check never fires:
   the repaired search is the search without the check (the code before the repair) *)
Theorem C06_cycle_check_silent : forall sel R I k fuel c, bounded fuel I c = true ->
  map_member_fail sel fuel R I c k = search sel fuel R I c k.
Proof. exact map_member_fail_bounded. Qed.
Print Assumptions C06_cycle_check_silent.

(* acyclicity needs no rank witness: it is decided by bounding the traversal from every key *)
Theorem C06_acyclic_dec : forall I, acyclic_dec I = true <-> exists rank, acyclic_rank I rank.
Proof. exact acyclic_dec_spec. Qed.
Print Assumptions C06_acyclic_dec.

(* the search answers Err only for cyclic inheritance information *)
Theorem C06_err_only_cyclic : forall sel R I c k,
  map_member_fail sel (default_fuel I) R I c k = Err -> acyclic_dec I = false.
Proof. exact search_err_only_cyclic. Qed.
Print Assumptions C06_err_only_cyclic.

(* and a class that is its own (only) super type, asked for a key it does not declare, IS an Err *)
Theorem C06_self_loop_err : forall sel R I c ss k,
  supers I c = Some ss -> (forall s, In s ss -> s = c) -> ss <> [] -> declared sel R c k = None ->
  map_member_fail sel (default_fuel I) R I c k = Err.
Proof. exact self_loop_err. Qed.
Print Assumptions C06_self_loop_err.

(* the inherited round trip (C06_roundtrip_inherited) with decidable hypotheses only *)
Theorem C06_roundtrip_inherited_dec : forall M X Y R I,
  remapper_b M X Y = Ok R -> rt_world R I = true -> acyclic_dec I = true ->
  exists R', remapper_b M Y X = Ok R' /\
    (forall c k, rt_owner b_fields R I c = true -> field_query_ok R I c k = true ->
       exists c' k', map_field_ref R I c k = Ok (c', k') /\
                     map_field_ref R' (remap_inh (b_map_class R) I) c' k' = Ok (c, k)) /\
    (forall c k, rt_owner b_methods R I c = true -> method_query_ok R I c k = true ->
       exists c' k', map_method_ref_obj R I c k = Ok (c', k') /\
                     map_method_ref_obj R' (remap_inh (b_map_class R) I) c' k' = Ok (c, k)).
Proof. exact roundtrip_mappings_inherited_dec. Qed.
Print Assumptions C06_roundtrip_inherited_dec.

(* ---- 7. map_desc on ALL strings ---- *)

(* whether the scanner succeeds depends on the string alone, never on the remapper *)
Theorem C06_map_desc_ok_indep : forall f g s, map_desc f s = Err <-> map_desc g s = Err.
Proof. exact map_desc_ok_indep. Qed.
Print Assumptions C06_map_desc_ok_indep.

(* rewriting the output of a rewrite is the rewrite with the composed class map, for every string the
   first rewrite accepts, when the first class map keeps names non-empty and free of `;` *)
Theorem C06_map_desc_compose : forall f g s o, keeps_names f -> map_desc f s = Ok o ->
  map_desc g o = map_desc (fun n => g (f n)) s.
Proof. exact map_desc_compose. Qed.
Print Assumptions C06_map_desc_compose.

Theorem C06_map_desc_compose_needs_names :
  exists f g s o, map_desc f s = Ok o /\ map_desc g o <> map_desc (fun n => g (f n)) s.
Proof. exact map_desc_compose_needs_names. Qed.
Print Assumptions C06_map_desc_compose_needs_names.

Theorem C06_map_desc_twice_return : forall f g d r, range_valid f -> parse_return d = Ok r ->
  map_desc f d = Ok (print_return (map_ret f r)) /\
  map_desc g (print_return (map_ret f r)) = Ok (print_return (map_ret (fun n => g (f n)) r)).
Proof. exact map_desc_twice_return. Qed.
Print Assumptions C06_map_desc_twice_return.

(* ---- 8. the member tables are expressed through the first namespace ---- *)

(* soundness of the tables (the converse of C06_from_not_first_field and _method): every class entry is a class row,
   every member entry (kf, kt) is a member row of that class row, with the row's names in from / to and
   the row's descriptor expressed 0 -> from in the key and 0 -> to in the value — whatever from and to are
   (entry_of_row; a remapper_b that expressed the value through from -> to, or the key through
   from -> 0, does not satisfy this) *)
Theorem C06_tables_via_first : forall M from to R a cl,
  remapper_b M from to = Ok R -> In (a, cl) R ->
  exists c, In c (ms_classes M) /\ row_has from to a (b_name cl) c /\
    (forall kf kt, In (kf, kt) (b_fields cl) ->
       exists f, In f (c_fields c) /\
         nth_name (f_names f) from = Some (fst kf) /\ nth_name (f_names f) to = Some (fst kt) /\
         a_map_desc (remapper_a M 0 from) (f_desc f) = Ok (snd kf) /\
         a_map_desc (remapper_a M 0 to) (f_desc f) = Ok (snd kt)) /\
    (forall kf kt, In (kf, kt) (b_methods cl) ->
       exists m, In m (c_methods c) /\
         nth_name (m_names m) from = Some (fst kf) /\ nth_name (m_names m) to = Some (fst kt) /\
         a_map_desc (remapper_a M 0 from) (m_desc m) = Ok (snd kf) /\
         a_map_desc (remapper_a M 0 to) (m_desc m) = Ok (snd kt)).
Proof. exact remapper_b_sound. Qed.
Print Assumptions C06_tables_via_first.

(* every answer of map_field_fail / map_method_fail is such a row of a type of the pre-order *)
Theorem C06_field_answer_via_first : forall M from to R I rank c k v,
  remapper_b M from to = Ok R -> acyclic_rank I rank ->
  map_field_fail R I c k = Ok (Some v) ->
  exists y row f, In y (preorder I c) /\ In row (ms_classes M) /\ nth_name (c_names row) from = Some y /\
    In f (c_fields row) /\
    nth_name (f_names f) from = Some (fst k) /\ nth_name (f_names f) to = Some (fst v) /\
    a_map_desc (remapper_a M 0 from) (f_desc f) = Ok (snd k) /\
    a_map_desc (remapper_a M 0 to) (f_desc f) = Ok (snd v).
Proof. exact field_answer_via_first. Qed.
Print Assumptions C06_field_answer_via_first.

Theorem C06_method_answer_via_first : forall M from to R I rank c k v,
  remapper_b M from to = Ok R -> acyclic_rank I rank ->
  map_method_fail R I c k = Ok (Some v) ->
  exists y row m, In y (preorder I c) /\ In row (ms_classes M) /\ nth_name (c_names row) from = Some y /\
    In m (c_methods row) /\
    nth_name (m_names m) from = Some (fst k) /\ nth_name (m_names m) to = Some (fst v) /\
    a_map_desc (remapper_a M 0 from) (m_desc m) = Ok (snd k) /\
    a_map_desc (remapper_a M 0 to) (m_desc m) = Ok (snd v).
Proof. exact method_answer_via_first. Qed.
Print Assumptions C06_method_answer_via_first.

(* ---- 9. a found member's descriptor agrees with map_field_desc / map_method_desc ---- *)

(* coherent_rows M from to (decidable): the `from` names are non-empty and free of `;`, every row
   descriptor parses, and for every class name n it mentions, expressing n in `to` directly equals
   expressing it in `from` and sending that through from -> to.  Then the descriptor of every found
   member is the query's descriptor rewritten by the same remapper. *)
Theorem C06_field_desc_coherent : forall M from to R I rank c k v,
  remapper_b M from to = Ok R -> coherent_rows M from to = true -> acyclic_rank I rank ->
  map_field_fail R I c k = Ok (Some v) -> b_map_desc R (snd k) = Ok (snd v).
Proof. exact field_desc_coherent. Qed.
Print Assumptions C06_field_desc_coherent.

Theorem C06_method_desc_coherent : forall M from to R I rank c k v,
  remapper_b M from to = Ok R -> coherent_rows M from to = true -> acyclic_rank I rank ->
  map_method_fail R I c k = Ok (Some v) -> b_map_desc R (snd k) = Ok (snd v).
Proof. exact method_desc_coherent. Qed.
Print Assumptions C06_method_desc_coherent.

(* a structural condition that gives coherence (the one the harness evaluates): every class row has a
   name in the first namespace, in `from` and in `to`; first-namespace names and `from` names pairwise
   distinct; every class name of a row descriptor is a first-namespace name or nobody's `from` name *)
Theorem C06_complete_world_coherent : forall M from to,
  complete_world M from to = true -> coherent_rows M from to = true.
Proof. exact complete_world_coherent. Qed.
Print Assumptions C06_complete_world_coherent.

(* completeness cannot be dropped: a class row without a name in `to` lets its first-namespace name
   show through in the descriptor of a found member (C.f : LA; with A -> A1 -> nothing, asked 1 -> 2:
   found as (f2, LA;) while map_field_desc leaves LA1; alone) *)
Theorem C06_partial_row_witness : partial_row_witness.
Proof. exact partial_row_witness_holds. Qed.
Print Assumptions C06_partial_row_witness.

(* non-vacuity: a tower of 40 diamonds (2^40 paths) searched at once; class names that are a permutation
   of one another across the namespaces, asked from the second namespace; cyclic providers (Err, found
   before the cycle, fuel 100 = default fuel) *)
Theorem C06_round4_examples : round4_examples.
Proof. exact round4_examples_hold. Qed.
Print Assumptions C06_round4_examples.

(* ================================================================== *)
(* round 5 *)

(* ---- 10. the default methods of the traits ARemapper / BRemapper (ModelT.v: one function per default
   method, over whatever map_class_fail / map_field_fail / map_method_fail an implementor supplies, Err
   handed on) ----
     ARemapper::map_class              t_map_class        C06_default_map_class, _inv, C06_map_class_default
     ARemapper::map_class_any          t_map_class_any    C06_defaults_a / _b (= a_/b_map_class_any: C06_map_desc_shape_array)
     ARemapper::map_field_desc, map_method_desc, map_return_desc
                                       t_map_desc         C06_map_desc_r_scan, _pure (= map_desc: C06_map_desc_scan and the shape theorems)
     BRemapper::map_field, map_method, map_method_name_and_desc
                                       t_map_member       C06_defaults_b (= map_field / map_method: C06_map_member_spec)
     BRemapper::map_field_ref, map_method_ref_obj
                                       t_map_member_ref   C06_defaults_b (= map_field_ref / map_method_ref_obj)
     BRemapper::map_method_ref         t_map_method_ref   C06_defaults_b (= map_method_ref)
   and the implementors / providers: ARemapperImpl (C06_defaults_a), BRemapperImpl (C06_defaults_b),
   ARemapperAsBRemapper (C06_defaults_wrapper), NoSuperClassProvider (C06_no_supers), Vec<S> (C06_supers_app) *)

(* map_class of ANY implementor: Err handed on; a mapping answered; a class WITHOUT a mapping answered
   unchanged, whatever its shape (an `Outer$Inner` whose outer class is mapped included) *)
Theorem C06_default_map_class : forall (mcf : mcf_t) c,
  (mcf c = Err -> t_map_class mcf c = Err) /\
  (forall x, mcf c = Ok (Some x) -> t_map_class mcf c = Ok x) /\
  (mcf c = Ok None -> t_map_class mcf c = Ok c).
Proof. exact t_map_class_spec. Qed.
Print Assumptions C06_default_map_class.

Theorem C06_default_map_class_inv : forall (mcf : mcf_t) c x, t_map_class mcf c = Ok x ->
  mcf c = Ok (Some x) \/ (mcf c = Ok None /\ x = c).
Proof. exact t_map_class_inv. Qed.
Print Assumptions C06_default_map_class_inv.

(* the map_class every other theorem of this file speaks about IS that default method *)
Theorem C06_map_class_default :
  (forall T c, a_map_class T c = match a_map_class_fail T c with Some x => x | None => c end) /\
  (forall R c, b_map_class R c = match b_map_class_fail R c with Some x => x | None => c end).
Proof. exact map_class_default. Qed.
Print Assumptions C06_map_class_default.

(* the scanner with a class map that may fail, on ALL strings: success exactly on the strings that split
   into copied non-`L` characters and segments `L` name `;` whose names the class map answers *)
Theorem C06_map_desc_r_scan : forall f s o, map_desc_r f s = Ok o <-> ScanR f s o.
Proof. exact map_desc_r_scan. Qed.
Print Assumptions C06_map_desc_r_scan.

Theorem C06_map_desc_r_pure : forall f g s, (forall n, f n = Ok (g n)) -> map_desc_r f s = map_desc g s.
Proof. exact map_desc_r_pure. Qed.
Print Assumptions C06_map_desc_r_pure.

(* a failing class map can only turn an answer into Err *)
Theorem C06_map_desc_r_erase : forall f s o, map_desc_r f s = Ok o ->
  map_desc (fun n => match f n with Ok x => x | Err => n end) s = Ok o.
Proof. exact map_desc_r_erase. Qed.
Print Assumptions C06_map_desc_r_erase.

Theorem C06_defaults_a : forall T x,
  t_map_class (a_mcf T) x = Ok (a_map_class T x) /\
  t_map_desc (a_mcf T) x = a_map_desc T x /\
  t_map_class_any (a_mcf T) x = a_map_class_any T x.
Proof. exact a_defaults. Qed.
Print Assumptions C06_defaults_a.

Theorem C06_defaults_b : forall R I x o k,
  t_map_class (b_mcf R) x = Ok (b_map_class R x) /\
  t_map_desc (b_mcf R) x = b_map_desc R x /\
  t_map_class_any (b_mcf R) x = b_map_class_any R x /\
  t_map_member (b_mcf R) (map_field_fail R I) o k = map_field R I o k /\
  t_map_member (b_mcf R) (map_method_fail R I) o k = map_method R I o k /\
  t_map_member_ref (b_mcf R) (map_field_fail R I) o k = map_field_ref R I o k /\
  t_map_member_ref (b_mcf R) (map_method_fail R I) o k = map_method_ref_obj R I o k /\
  t_map_method_ref (b_mcf R) (map_method_fail R I) o k = map_method_ref R I o k.
Proof. exact b_defaults. Qed.
Print Assumptions C06_defaults_b.

(* ARemapperAsBRemapper over ANY ARemapper *)
Theorem C06_defaults_wrapper : forall (mcf : mcf_t) o k,
  no_members o k = Ok None /\
  t_map_member mcf no_members o k =
    match t_map_desc mcf (snd k) with Ok d => Ok (fst k, d) | Err => Err end /\
  t_map_member_ref mcf no_members o k =
    match t_map_desc mcf (snd k) with
    | Ok d => match t_map_class mcf o with Ok c' => Ok (c', (fst k, d)) | Err => Err end
    | Err => Err
    end /\
  t_map_method_ref mcf no_members o k =
    match (if is_array_name o then Ok k else match t_map_desc mcf (snd k) with Ok d => Ok (fst k, d) | Err => Err end) with
    | Ok k' => match t_map_class_any mcf o with Ok c' => Ok (c', k') | Err => Err end
    | Err => Err
    end.
Proof. exact wrapper_defaults. Qed.
Print Assumptions C06_defaults_wrapper.

(* NoSuperClassProvider: only the owner's own table *)
Theorem C06_no_supers : forall sel R c k,
  map_member_fail sel (default_fuel no_supers) R no_supers c k = Ok (declared sel R c k) /\
  map_member sel (default_fuel no_supers) R no_supers c k =
    match declared sel R c k with
    | Some v => Ok v
    | None => match b_map_desc R (snd k) with Ok d => Ok (fst k, d) | Err => Err end
    end.
Proof. exact no_supers_spec. Qed.
Print Assumptions C06_no_supers.

(* Vec<S>: the first provider that knows the class answers *)
Theorem C06_supers_app : forall p1 p2 c,
  supers (p1 ++ p2) c = match supers p1 c with Some ss => Some ss | None => supers p2 c end.
Proof. exact supers_app. Qed.
Print Assumptions C06_supers_app.

(* ---- 11. JarSuperProv::remap without hypotheses ---- *)

(* for ANY class map and ANY provider: the remapped provider answers for a class exactly what the LAST
   entry whose key maps to that class lists, every super type mapped (IndexSet: first occurrences) *)
Theorem C06_remap_prov_supers : forall f p c,
  supers (remap_prov f p) c = get_last str_eqb c (remap_entries f p).
Proof. exact remap_prov_supers. Qed.
Print Assumptions C06_remap_prov_supers.

Theorem C06_remap_prov_keys : forall f p,
  NoDup (map fst (remap_prov f p)) /\ (forall x, In x (map fst (remap_prov f p)) <-> In x (map f (map fst p))).
Proof. exact remap_prov_keys. Qed.
Print Assumptions C06_remap_prov_keys.

(* every entry of the result: key AND every listed super type are map_class of an original entry's —
   whether or not the key itself is mapped (f k = k is not a special case) *)
Theorem C06_remap_prov_entries : forall f p k' ss', In (k', ss') (remap_prov f p) ->
  exists k ss, In (k, ss) p /\ k' = f k /\ ss' = set_of (map f ss) /\
    (forall x, In x ss' <-> In x (map f ss)).
Proof. exact remap_prov_entries. Qed.
Print Assumptions C06_remap_prov_entries.

(* every original entry is answered under its mapped key with its mapped super types *)
Theorem C06_remap_prov_entry : forall f p k ss,
  NoDup (map fst p) -> (forall a, In a (map fst p) -> f a = f k -> a = k) -> In (k, ss) p ->
  supers (remap_prov f p) (f k) = Some (set_of (map f ss)).
Proof. exact remap_prov_entry. Qed.
Print Assumptions C06_remap_prov_entry.

Theorem C06_set_of_spec : forall l, (forall x, In x (set_of l) <-> In x l) /\ NoDup (set_of l).
Proof. exact set_of_spec. Qed.
Print Assumptions C06_set_of_spec.

(* with a remapper whose map_class may fail: Err exactly when some key or super type fails *)
Theorem C06_remap_provs_r_pure : forall f g ps, (forall n, f n = Ok (g n)) -> remap_provs_r f ps = Ok (remap_provs g ps).
Proof. exact remap_provs_r_pure. Qed.
Print Assumptions C06_remap_provs_r_pure.

Theorem C06_remap_provs_r_err : forall f ps,
  remap_provs_r f ps = Err <->
  exists p e n, In p ps /\ In e p /\ (n = fst e \/ In n (snd e)) /\ f n = Err.
Proof. exact remap_provs_r_err. Qed.
Print Assumptions C06_remap_provs_r_err.

(* ---- 12. the member tables: sound AND complete ---- *)

(* every registered table is the table of a class row, and every class row named in both namespaces has
   its table; the entries of a table are EXACTLY the member rows with a name in `from` AND in `to`
   (table_of_row: an iff per entry) — a member row without a target name is absent *)
Theorem C06_tables_sound_complete : forall M from to R, remapper_b M from to = Ok R ->
  (forall a cl, In (a, cl) R -> exists c, In c (ms_classes M) /\ table_of_row M from to c a cl) /\
  (forall c a b, In c (ms_classes M) -> row_has from to a b c ->
     exists cl, In (a, cl) R /\ b_name cl = b /\ table_of_row M from to c a cl).
Proof. exact tables_sound_complete. Qed.
Print Assumptions C06_tables_sound_complete.

Theorem C06_no_target_not_declared_field : forall M from to R a k, remapper_b M from to = Ok R ->
  (forall c f, In c (ms_classes M) -> nth_name (c_names c) from = Some a -> In f (c_fields c) ->
     nth_name (f_names f) from = Some (fst k) -> a_map_desc (remapper_a M 0 from) (f_desc f) = Ok (snd k) ->
     nth_name (f_names f) to = None) ->
  declared b_fields R a k = None.
Proof. exact no_target_not_declared_field. Qed.
Print Assumptions C06_no_target_not_declared_field.

Theorem C06_no_target_not_declared_method : forall M from to R a k, remapper_b M from to = Ok R ->
  (forall c m, In c (ms_classes M) -> nth_name (c_names c) from = Some a -> In m (c_methods c) ->
     nth_name (m_names m) from = Some (fst k) -> a_map_desc (remapper_a M 0 from) (m_desc m) = Ok (snd k) ->
     nth_name (m_names m) to = None) ->
  declared b_methods R a k = None.
Proof. exact no_target_not_declared_method. Qed.
Print Assumptions C06_no_target_not_declared_method.

(* such an owner answers what its super types answer (it hides nothing) *)
Theorem C06_undeclared_owner_inherits : forall sel R I rank c k, acyclic_rank I rank -> declared sel R c k = None ->
  map_member_fail sel (default_fuel I) R I c k =
    Ok (first_declaring (fun x => declared sel R x k) (tl (preorder I c))).
Proof. exact undeclared_owner_inherits. Qed.
Print Assumptions C06_undeclared_owner_inherits.

(* ---- 13. the specification side is not truncated by fuel ---- *)

(* on an acyclic provider the list the member theorems speak about is the depth-first pre-order itself: the
   owner, then the pre-orders of its super types in declaration order (no fuel in the equation) *)
Theorem C06_preorder_unfold : forall I rank c, acyclic_rank I rank ->
  preorder I c = c :: match supers I c with Some ss => flat_map (preorder I) ss | None => [] end.
Proof. exact preorder_unfold. Qed.
Print Assumptions C06_preorder_unfold.

Theorem C06_preorder_fuel : forall I rank c f, acyclic_rank I rank -> (default_fuel I <= f)%nat -> dfs_pre f I c = preorder I c.
Proof. exact preorder_fuel. Qed.
Print Assumptions C06_preorder_fuel.

(* non-vacuity: a member row with a source name and no target name below a super type that carries the
   real name; an unmapped `U$1` beside a mapped `U`; JarSuperProv::remap on an unmapped key with a mapped
   super type and the way back through it; colliding keys; a failing class map; NoSuperClassProvider *)
Theorem C06_round5_examples : round5_examples.
Proof. exact round5_examples_hold. Qed.
Print Assumptions C06_round5_examples.
