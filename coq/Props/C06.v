(* C06 — property theorems only.  Each is closed by [exact <lemma>] and followed by
   Print Assumptions; the statements are pinned here so they cannot be quietly weakened. *)
From FB Require Import C06.Model C18.Theory C06.Theory1 C06.Theory2 C06.Theory3 C06.Theory4.

(* ---- 1. descriptor rewriting preserves the shape and maps exactly the class names ---- *)

(* For every field descriptor of the JVMS grammar (parse_field accepts exactly FieldTypeG, C18) and
   EVERY class map f, the scanner succeeds and its output is the printed form of the same type with
   the class names mapped; when f yields binary class names that output parses back to that type. *)
Theorem C06_map_desc_shape_field : forall f d t, parse_field d = Ok t ->
  map_desc f d = Ok (print_ty (map_ty f t)) /\
  (range_valid f -> parse_field (print_ty (map_ty f t)) = Ok (map_ty f t)).
Proof. exact map_desc_shape_field. Qed.
Print Assumptions C06_map_desc_shape_field.

Theorem C06_map_desc_shape_method : forall f d m, parse_method d = Ok m ->
  map_desc f d = Ok (print_method (map_mty f m)) /\
  (range_valid f -> parse_method (print_method (map_mty f m)) = Ok (map_mty f m)).
Proof. exact map_desc_shape_method. Qed.
Print Assumptions C06_map_desc_shape_method.

Theorem C06_map_desc_shape_return : forall f d r, parse_return d = Ok r ->
  map_desc f d = Ok (print_return (map_ret f r)) /\
  (range_valid f -> parse_return (print_return (map_ret f r)) = Ok (map_ret f r)).
Proof. exact map_desc_shape_return. Qed.
Print Assumptions C06_map_desc_shape_return.

(* array class names: dimensions kept, element class mapped *)
Theorem C06_map_desc_shape_array : forall f c, is_valid_arr_class_name c = true ->
  exists d a, parse_field c = Ok (TArr d a) /\ map_desc f c = Ok (print_ty (TArr d (map_aty f a))).
Proof. exact map_desc_shape_array. Qed.
Print Assumptions C06_map_desc_shape_array.

(* identity class map: for ALL strings the scanner fails or returns its input; on descriptors it succeeds *)
Theorem C06_map_desc_id_any : forall s o, map_desc (fun x => x) s = Ok o -> o = s.
Proof. exact map_desc_id_any. Qed.
Print Assumptions C06_map_desc_id_any.

Theorem C06_map_desc_id_field : forall d t, parse_field d = Ok t -> map_desc (fun x => x) d = Ok d.
Proof. exact map_desc_id_field. Qed.
Print Assumptions C06_map_desc_id_field.

Theorem C06_map_desc_id_method : forall d m, parse_method d = Ok m -> map_desc (fun x => x) d = Ok d.
Proof. exact map_desc_id_method. Qed.
Print Assumptions C06_map_desc_id_method.

Theorem C06_map_desc_id_return : forall d r, parse_return d = Ok r -> map_desc (fun x => x) d = Ok d.
Proof. exact map_desc_id_return. Qed.
Print Assumptions C06_map_desc_id_return.

(* ALL strings, well-formed or not: the scanner succeeds exactly on the strings that split into
   copied non-`L` characters and segments `L` name `;` with a non-empty name free of `;`, and then
   replaces exactly those names (everything else, including malformed input, is Err) *)
Theorem C06_map_desc_scan : forall f s o, map_desc f s = Ok o <-> Scan f s o.
Proof. exact map_desc_scan. Qed.
Print Assumptions C06_map_desc_scan.

(* two rewrites in a row compose (needed for X -> Y -> X) *)
Theorem C06_map_desc_twice_field : forall f g d t, range_valid f -> parse_field d = Ok t ->
  map_desc f d = Ok (print_ty (map_ty f t)) /\
  map_desc g (print_ty (map_ty f t)) = Ok (print_ty (map_ty (fun n => g (f n)) t)).
Proof. exact map_desc_twice_field. Qed.
Print Assumptions C06_map_desc_twice_field.

Theorem C06_map_desc_twice_method : forall f g d m, range_valid f -> parse_method d = Ok m ->
  map_desc f d = Ok (print_method (map_mty f m)) /\
  map_desc g (print_method (map_mty f m)) = Ok (print_method (map_mty (fun n => g (f n)) m)).
Proof. exact map_desc_twice_method. Qed.
Print Assumptions C06_map_desc_twice_method.

(* ---- 2. classes: the answer in terms of the mapping rows; identity fall-back ---- *)

(* every answer comes from a row carrying both names; no such row => the name is unchanged;
   when the `from` names are pairwise distinct every such row is answered *)
Theorem C06_map_class_spec : forall M from to c,
  let T := remapper_a M from to in
  (forall b, a_map_class_fail T c = Some b ->
             a_map_class T c = b /\ exists row, In row (ms_classes M) /\ row_has from to c b row) /\
  (a_map_class_fail T c = None ->
             a_map_class T c = c /\ forall row b, In row (ms_classes M) -> ~ row_has from to c b row) /\
  (NoDup (map fst T) -> forall row b, In row (ms_classes M) -> row_has from to c b row -> a_map_class T c = b).
Proof. exact a_map_class_spec. Qed.
Print Assumptions C06_map_class_spec.

(* the B remapper answers classes, descriptors and array classes exactly as the A remapper *)
Theorem C06_b_agrees_with_a : forall M from to R, remapper_b M from to = Ok R ->
  forall x, b_map_class R x = a_map_class (remapper_a M from to) x /\
            b_map_desc R x = a_map_desc (remapper_a M from to) x /\
            b_map_class_any R x = a_map_class_any (remapper_a M from to) x.
Proof. exact b_agrees_with_a. Qed.
Print Assumptions C06_b_agrees_with_a.

(* remapper_b cannot fail when every row descriptor is a descriptor *)
Theorem C06_remapper_b_total : forall M from to, rows_valid M = true -> exists R, remapper_b M from to = Ok R.
Proof. exact remapper_b_total. Qed.
Print Assumptions C06_remapper_b_total.

(* ---- 3. members: first declaring type of the depth-first pre-order ---- *)

(* for every acyclic provider (some rank decreases along every edge) the default fuel suffices and
   the search answers with the first type of the pre-order (owner first, then its super types
   depth-first in declaration order) whose table declares the key — whether or not the owner or an
   intermediate class has a mapping entry; otherwise the unchanged name with the remapped descriptor *)
Theorem C06_map_member_spec : forall sel R I rank c k,
  acyclic_rank I rank ->
  map_member_fail sel (default_fuel I) R I c k =
    Ok (first_declaring (fun x => declared sel R x k) (preorder I c)) /\
  map_member sel (default_fuel I) R I c k =
    match first_declaring (fun x => declared sel R x k) (preorder I c) with
    | Some v => Ok v
    | None => match b_map_desc R (snd k) with Ok d => Ok (fst k, d) | Err => Err end
    end.
Proof. exact map_member_spec. Qed.
Print Assumptions C06_map_member_spec.

(* "first declaring": everything before it in the pre-order declares nothing *)
Theorem C06_first_declaring_some : forall decl l v,
  first_declaring decl l = Some v <->
  exists l1 x l2, l = l1 ++ x :: l2 /\ decl x = Some v /\ forall y, In y l1 -> decl y = None.
Proof. exact first_declaring_some. Qed.
Print Assumptions C06_first_declaring_some.

Theorem C06_map_member_fallback : forall sel R I rank c k,
  acyclic_rank I rank ->
  (forall x, In x (preorder I c) -> declared sel R x k = None) ->
  map_member_fail sel (default_fuel I) R I c k = Ok None /\
  map_member sel (default_fuel I) R I c k =
    match b_map_desc R (snd k) with Ok d => Ok (fst k, d) | Err => Err end.
Proof. exact map_member_fallback. Qed.
Print Assumptions C06_map_member_fallback.

(* fuel: any amount that bounds the height gives the same answer; S (length I) always does *)
Theorem C06_fuel_irrelevant : forall sel R I k f f' c,
  bounded f I c = true -> (f <= f')%nat ->
  map_member_fail sel f' R I c k = map_member_fail sel f R I c k.
Proof. exact map_member_fail_fuel. Qed.
Print Assumptions C06_fuel_irrelevant.

Theorem C06_acyclic_fuel : forall I rank c, acyclic_rank I rank -> bounded (default_fuel I) I c = true.
Proof. exact acyclic_fuel. Qed.
Print Assumptions C06_acyclic_fuel.

Theorem C06_acyclicb_sound : forall I rank, acyclicb I rank = true -> acyclic_rank I rank.
Proof. exact acyclicb_sound. Qed.
Print Assumptions C06_acyclicb_sound.

(* ---- 4. from_not_first: consistency with the rows for ANY source namespace ---- *)

(* a field row (descriptor stored in namespace 0) of a class row, both named in `from` and `to`:
   queried under its `from` name with the descriptor re-expressed in `from`, the answer is its `to`
   name with the descriptor re-expressed in `to`, and the class maps to the row's `to` name *)
Theorem C06_from_not_first_field : forall M from to R I c a b f nf nt t,
  remapper_b M from to = Ok R -> tables_inj R = true ->
  In c (ms_classes M) -> row_has from to a b c ->
  In f (c_fields c) -> nth_name (f_names f) from = Some nf -> nth_name (f_names f) to = Some nt ->
  parse_field (f_desc f) = Ok t ->
  let kf := (nf, print_ty (map_ty (a_map_class (remapper_a M 0 from)) t)) in
  let kt := (nt, print_ty (map_ty (a_map_class (remapper_a M 0 to)) t)) in
  map_field_fail R I a kf = Ok (Some kt) /\ map_field R I a kf = Ok kt /\ map_field_ref R I a kf = Ok (b, kt).
Proof. exact field_row_spec. Qed.
Print Assumptions C06_from_not_first_field.

Theorem C06_from_not_first_method : forall M from to R I c a b m nf nt t,
  remapper_b M from to = Ok R -> tables_inj R = true ->
  In c (ms_classes M) -> row_has from to a b c ->
  In m (c_methods c) -> nth_name (m_names m) from = Some nf -> nth_name (m_names m) to = Some nt ->
  parse_method (m_desc m) = Ok t ->
  let kf := (nf, print_method (map_mty (a_map_class (remapper_a M 0 from)) t)) in
  let kt := (nt, print_method (map_mty (a_map_class (remapper_a M 0 to)) t)) in
  map_method_fail R I a kf = Ok (Some kt) /\ map_method R I a kf = Ok kt /\
  map_method_ref_obj R I a kf = Ok (b, kt).
Proof. exact method_row_spec. Qed.
Print Assumptions C06_from_not_first_method.

(* ---- 5. X -> Y -> X ---- *)

(* the remapper of the opposite direction is the swapped table (same rows, same success) *)
Theorem C06_remapper_b_swap : forall M from to R,
  remapper_b M from to = Ok R -> remapper_b M to from = Ok (swap_b R).
Proof. exact remapper_b_swap. Qed.
Print Assumptions C06_remapper_b_swap.

Theorem C06_roundtrip_class : forall R c,
  tables_inj (swap_b R) = true -> closedb R c = true -> b_map_class (swap_b R) (b_map_class R c) = c.
Proof. exact roundtrip_class. Qed.
Print Assumptions C06_roundtrip_class.

Theorem C06_roundtrip_field_desc : forall R d t,
  names_valid R = true -> tables_inj (swap_b R) = true ->
  parse_field d = Ok t -> forallb (closedb R) (ty_names t) = true ->
  b_map_desc R d = Ok (print_ty (map_ty (b_map_class R) t)) /\
  b_map_desc (swap_b R) (print_ty (map_ty (b_map_class R) t)) = Ok d.
Proof. exact roundtrip_field_desc. Qed.
Print Assumptions C06_roundtrip_field_desc.

Theorem C06_roundtrip_method_desc : forall R d m,
  names_valid R = true -> tables_inj (swap_b R) = true ->
  parse_method d = Ok m -> forallb (closedb R) (mty_names m) = true ->
  b_map_desc R d = Ok (print_method (map_mty (b_map_class R) m)) /\
  b_map_desc (swap_b R) (print_method (map_mty (b_map_class R) m)) = Ok d.
Proof. exact roundtrip_method_desc. Qed.
Print Assumptions C06_roundtrip_method_desc.

Theorem C06_roundtrip_return_desc : forall R d r,
  names_valid R = true -> tables_inj (swap_b R) = true ->
  parse_return d = Ok r -> forallb (closedb R) (ret_names r) = true ->
  b_map_desc R d = Ok (print_return (map_ret (b_map_class R) r)) /\
  b_map_desc (swap_b R) (print_return (map_ret (b_map_class R) r)) = Ok d.
Proof. exact roundtrip_return_desc. Qed.
Print Assumptions C06_roundtrip_return_desc.

(* on the mapping set: classes, and members a class declares directly, whatever the providers are *)
Theorem C06_roundtrip : forall M X Y R,
  remapper_b M X Y = Ok R -> tables_inj (swap_b R) = true ->
  exists R', remapper_b M Y X = Ok R' /\
    (forall c, closedb R c = true -> b_map_class R' (b_map_class R c) = c) /\
    (forall I I' c k v, declared b_fields R c k = Some v ->
        map_field R I c k = Ok v /\ map_field R' I' (b_map_class R c) v = Ok k) /\
    (forall I I' c k v, declared b_methods R c k = Some v ->
        map_method R I c k = Ok v /\ map_method R' I' (b_map_class R c) v = Ok k).
Proof. exact roundtrip_mappings. Qed.
Print Assumptions C06_roundtrip.

(* ---- 5. round trip of members reached through inheritance ----
   Forward: tables R with provider I.  Backward: the tables Mappings::remapper_b(Y, X, ..) builds
   (= swap_b R, C06_remapper_b_swap) with the provider JarSuperProv::remap(forward remapper, I)
   produces, [remap_inh (b_map_class R) I] (C06_remap_provs_inh).
     rt_world R I       target class names pairwise distinct and binary class names (tables_inj
                        (swap_b R), names_valid R), and every class name the provider mentions is
                        mapped or is not some other class's target name (prov_closed)
     rt_owner sel R I c the owner is such a name too (closedb), and the entries VISIBLE from c — the
                        table of c and of every type of its depth-first pre-order — are named
                        injectively in the target namespace: equal target keys have equal source keys
                        (no_shadow_collision; shadowing under the same source key is allowed)
     *_query_ok R I c k the key is declared by a visible type, or (fall-back answer) its descriptor
                        is a descriptor over closed class names and the fall-back key (same name,
                        mapped descriptor) is not the target of a visible entry
   All decidable; none can be dropped (C06_shadow_counterexample). *)
Theorem C06_roundtrip_field_inherited : forall R I rank c k,
  rt_world R I = true -> acyclic_rank I rank -> rt_owner b_fields R I c = true -> field_query_ok R I c k = true ->
  exists c' k', map_field_ref R I c k = Ok (c', k') /\
                map_field_ref (swap_b R) (remap_inh (b_map_class R) I) c' k' = Ok (c, k).
Proof. exact roundtrip_field_inherited. Qed.
Print Assumptions C06_roundtrip_field_inherited.

Theorem C06_roundtrip_method_inherited : forall R I rank c k,
  rt_world R I = true -> acyclic_rank I rank -> rt_owner b_methods R I c = true -> method_query_ok R I c k = true ->
  exists c' k', map_method_ref_obj R I c k = Ok (c', k') /\
                map_method_ref_obj (swap_b R) (remap_inh (b_map_class R) I) c' k' = Ok (c, k).
Proof. exact roundtrip_method_inherited. Qed.
Print Assumptions C06_roundtrip_method_inherited.

(* on the mapping set, for every owner — with or without an entry of its own *)
Theorem C06_roundtrip_inherited : forall M X Y R I rank,
  remapper_b M X Y = Ok R -> rt_world R I = true -> acyclic_rank I rank ->
  exists R', remapper_b M Y X = Ok R' /\
    (forall c k, rt_owner b_fields R I c = true -> field_query_ok R I c k = true ->
       exists c' k', map_field_ref R I c k = Ok (c', k') /\
                     map_field_ref R' (remap_inh (b_map_class R) I) c' k' = Ok (c, k)) /\
    (forall c k, rt_owner b_methods R I c = true -> method_query_ok R I c k = true ->
       exists c' k', map_method_ref_obj R I c k = Ok (c', k') /\
                     map_method_ref_obj R' (remap_inh (b_map_class R) I) c' k' = Ok (c, k)).
Proof. exact roundtrip_mappings_inherited. Qed.
Print Assumptions C06_roundtrip_inherited.

(* a member that some visible type declares: no condition on the query's descriptor *)
Theorem C06_roundtrip_inherited_found : forall sel R I rank c k v,
  sel = b_fields \/ sel = b_methods -> tables_inj (swap_b R) = true -> acyclic_rank I rank ->
  closedb R c = true -> prov_closed R I = true -> no_shadow_collision sel R I c = true ->
  map_member_fail sel (default_fuel I) R I c k = Ok (Some v) ->
  map_member sel (default_fuel I) R I c k = Ok v /\
  map_member sel (default_fuel (remap_inh (b_map_class R) I)) (swap_b R) (remap_inh (b_map_class R) I) (b_map_class R c) v = Ok k.
Proof. exact roundtrip_inherited_found. Qed.
Print Assumptions C06_roundtrip_inherited_found.

(* JarSuperProv::remap (remap_provs: IndexMap / IndexSet inserts, per provider) is remap_inh on
   providers with distinct keys and distinct super types whose names the class map keeps apart *)
Theorem C06_remap_provs_inh : forall R ps,
  tables_inj (swap_b R) = true -> prov_closed R (concat ps) = true -> forallb prov_wf ps = true ->
  concat (remap_provs (b_map_class R) ps) = remap_inh (b_map_class R) (concat ps).
Proof. exact remap_provs_inh. Qed.
Print Assumptions C06_remap_provs_inh.

(* the hypotheses are needed: Sub.m -> n, Base.p -> n, Sub extends Base satisfies everything but
   no_shadow_collision and Sub.p -> n -> m; C.a -> b with an unmapped b satisfies everything but
   method_query_ok and D.b -> b -> a (D extends C) *)
Theorem C06_shadow_counterexample : shadow_counterexample.
Proof. exact shadow_counterexample_holds. Qed.
Print Assumptions C06_shadow_counterexample.

(* non-vacuity with real inheritance: owners without a row, a mapped owner that declares nothing,
   shadowing, a diamond, an inherited field, a fall-back key — all inside the hypotheses *)
Theorem C06_inherited_examples : inherited_examples.
Proof. exact inherited_examples_hold. Qed.
Print Assumptions C06_inherited_examples.

(* ---- non-vacuity (three namespaces, from = 1, shadowing, unmapped owner, half-named row) ---- *)
Theorem C06_examples : nonvacuous.
Proof. exact nonvacuous_holds. Qed.
Print Assumptions C06_examples.
