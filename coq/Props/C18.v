(* C18 — property theorems only.  Each is closed by [exact <lemma>] and followed by
   Print Assumptions; the statements are pinned here so they cannot be quietly weakened. *)
From FB Require Import C18.Model C18.Theory.

(* Parsing a field descriptor yields exactly the structure the JVMS grammar assigns to it,
   and fails on every string outside the grammar. *)
Theorem C18_field_parse_iff_grammar : forall s t, parse_field s = Ok t <-> FieldTypeG s t.
Proof. exact parse_field_spec. Qed.
Print Assumptions C18_field_parse_iff_grammar.

Theorem C18_field_rejects_outside_grammar : forall s, (forall t, ~ FieldTypeG s t) -> parse_field s = Err.
Proof. exact parse_field_rejects. Qed.
Print Assumptions C18_field_rejects_outside_grammar.

Theorem C18_return_parse_iff_grammar : forall s r, parse_return s = Ok r <-> ReturnG s r.
Proof. exact parse_return_spec. Qed.
Print Assumptions C18_return_parse_iff_grammar.

Theorem C18_method_parse_iff_grammar : forall s m, parse_method s = Ok m <-> MethodG s m.
Proof. exact parse_method_spec. Qed.
Print Assumptions C18_method_parse_iff_grammar.

(* printing and parsing are mutually inverse *)
Theorem C18_field_parse_print : forall t, wf_ty t -> parse_field (print_ty t) = Ok t.
Proof. exact parse_print_field. Qed.
Print Assumptions C18_field_parse_print.

Theorem C18_field_print_parse : forall s t, parse_field s = Ok t -> print_ty t = s /\ wf_ty t.
Proof. exact print_parse_field. Qed.
Print Assumptions C18_field_print_parse.

Theorem C18_return_parse_print : forall r, wf_ret r -> parse_return (print_return r) = Ok r.
Proof. exact parse_print_return. Qed.
Print Assumptions C18_return_parse_print.

Theorem C18_return_print_parse : forall s r, parse_return s = Ok r -> print_return r = s /\ wf_ret r.
Proof. exact print_parse_return. Qed.
Print Assumptions C18_return_print_parse.

Theorem C18_method_parse_print : forall m, wf_method m -> parse_method (print_method m) = Ok m.
Proof. exact parse_print_method. Qed.
Print Assumptions C18_method_parse_print.

Theorem C18_method_print_parse : forall s m, parse_method s = Ok m -> print_method m = s /\ wf_method m.
Proof. exact print_parse_method. Qed.
Print Assumptions C18_method_print_parse.

(* the name predicates accept exactly the documented sets *)
Theorem C18_unqualified_name : forall s, is_valid_unqualified_name s = true <-> Unq s.
Proof. exact unqualified_spec. Qed.
Print Assumptions C18_unqualified_name.

Theorem C18_method_name : forall s, is_valid_method_name s = true <-> MethodNameG s.
Proof. exact method_name_spec. Qed.
Print Assumptions C18_method_name.

Theorem C18_obj_class_name : forall s, is_valid_obj_class_name s = true <-> ClassNameG s.
Proof. exact obj_class_name_spec. Qed.
Print Assumptions C18_obj_class_name.

Theorem C18_arr_class_name : forall s, is_valid_arr_class_name s = true <-> ArrClassNameG s.
Proof. exact arr_class_name_spec. Qed.
Print Assumptions C18_arr_class_name.

Theorem C18_class_name : forall s, is_valid_class_name s = true <-> AnyClassNameG s.
Proof. exact class_name_spec. Qed.
Print Assumptions C18_class_name.

(* split / join of inner class names *)
Theorem C18_split_join : forall p i, inner_ok p i -> split_inner (join_inner p i) = Some (p, i).
Proof. exact split_join. Qed.
Print Assumptions C18_split_join.

Theorem C18_join_split : forall s p i, split_inner s = Some (p, i) -> join_inner p i = s /\ inner_ok p i.
Proof. exact join_split. Qed.
Print Assumptions C18_join_split.

(* non-vacuity *)
Theorem C18_examples : nonvacuous.
Proof. exact nonvacuous_holds. Qed.
Print Assumptions C18_examples.
