(* C18 — property theorems only.  Each is closed by [exact <lemma>] and followed by
   Print Assumptions; the statements are pinned here so they cannot be quietly weakened. *)
From FB Require Import C18.Model C18.Model2 C18.Theory C18.Theory2 C18.Theory3 C18.NamesGen.
From Coq Require Import Arith.

(* Parsing a field descriptor yields exactly the structure the JVMS grammar assigns to it,
   and fails on every string outside the grammar. *)
Theorem C18_field_parse_iff_grammar : forall s t, parse_field s = Ok t <-> FieldTypeG s t.
Proof. exact parse_field_spec. Qed.
Print Assumptions C18_field_parse_iff_grammar.

Theorem C18_field_rejects_outside_grammar : forall s, (forall t, ~ FieldTypeG s t) -> parse_field s = Err.
Proof. exact parse_field_rejects. Qed.
Print Assumptions C18_field_rejects_outside_grammar.

Theorem C18_return_parse_iff_grammar : forall s r, parse_return s = Ok r <-> ReturnG s r.
Proof. exact parse_return_spec. Qed.
Print Assumptions C18_return_parse_iff_grammar.

Theorem C18_method_parse_iff_grammar : forall s m, parse_method s = Ok m <-> MethodG s m.
Proof. exact parse_method_spec. Qed.
Print Assumptions C18_method_parse_iff_grammar.

(* printing and parsing are mutually inverse *)
Theorem C18_field_parse_print : forall t, wf_ty t -> parse_field (print_ty t) = Ok t.
Proof. exact parse_print_field. Qed.
Print Assumptions C18_field_parse_print.

Theorem C18_field_print_parse : forall s t, parse_field s = Ok t -> print_ty t = s /\ wf_ty t.
Proof. exact print_parse_field. Qed.
Print Assumptions C18_field_print_parse.

Theorem C18_return_parse_print : forall r, wf_ret r -> parse_return (print_return r) = Ok r.
Proof. exact parse_print_return. Qed.
Print Assumptions C18_return_parse_print.

Theorem C18_return_print_parse : forall s r, parse_return s = Ok r -> print_return r = s /\ wf_ret r.
Proof. exact print_parse_return. Qed.
Print Assumptions C18_return_print_parse.

Theorem C18_method_parse_print : forall m, wf_method m -> parse_method (print_method m) = Ok m.
Proof. exact parse_print_method. Qed.
Print Assumptions C18_method_parse_print.

Theorem C18_method_print_parse : forall s m, parse_method s = Ok m -> print_method m = s /\ wf_method m.
Proof. exact print_parse_method. Qed.
Print Assumptions C18_method_print_parse.

(* the name predicates accept exactly the documented sets *)
Theorem C18_unqualified_name : forall s, is_valid_unqualified_name s = true <-> Unq s.
Proof. exact unqualified_spec. Qed.
Print Assumptions C18_unqualified_name.

Theorem C18_method_name : forall s, is_valid_method_name s = true <-> MethodNameG s.
Proof. exact method_name_spec. Qed.
Print Assumptions C18_method_name.

Theorem C18_obj_class_name : forall s, is_valid_obj_class_name s = true <-> ClassNameG s.
Proof. exact obj_class_name_spec. Qed.
Print Assumptions C18_obj_class_name.

Theorem C18_arr_class_name : forall s, is_valid_arr_class_name s = true <-> ArrClassNameG s.
Proof. exact arr_class_name_spec. Qed.
Print Assumptions C18_arr_class_name.

Theorem C18_class_name : forall s, is_valid_class_name s = true <-> AnyClassNameG s.
Proof. exact class_name_spec. Qed.
Print Assumptions C18_class_name.

(* split / join of inner class names *)
Theorem C18_split_join : forall p i, inner_ok p i -> split_inner (join_inner p i) = Some (p, i).
Proof. exact split_join. Qed.
Print Assumptions C18_split_join.

Theorem C18_join_split : forall s p i, split_inner s = Some (p, i) -> join_inner p i = s /\ inner_ok p i.
Proof. exact join_split. Qed.
Print Assumptions C18_join_split.

(* non-vacuity *)
Theorem C18_examples : nonvacuous.
Proof. exact nonvacuous_holds. Qed.
Print Assumptions C18_examples.

(* ================================================================== *)
(* Round 4 *)

(* MethodDescriptorSlice::get_arguments_size: on a well-formed method descriptor it is 1 (this) + the slots of the
   parsed parameters (D and J count 2, everything else - arrays of D/J too - 1); above 255 it is an error *)
Theorem C18_args_size_of_method : forall s ps r,
  parse_method s = Ok (ps, r) ->
  args_size s = if N.leb (args_slots ps) 255 then Ok (args_slots ps) else Err.
Proof. exact args_size_of_method. Qed.
Print Assumptions C18_args_size_of_method.

(* ... and on ALL strings (it does not validate): Ok n exactly for `(` tokens `)` anything, n = 1 + the token slots <= 255 *)
Theorem C18_args_size_all_strings : forall s n, args_size s = Ok n <-> LenientArgs s n.
Proof. exact args_size_lenient. Qed.
Print Assumptions C18_args_size_all_strings.

Theorem C18_args_size_range : forall s n, args_size s = Ok n -> 1 <= n <= 255.
Proof. exact args_size_range. Qed.
Print Assumptions C18_args_size_range.

(* ClassName = ArrClassName + ObjClassName, decided by the leading `[` (as_arr_and_obj, into_arr/into_obj, as_arr/as_obj,
   From<ArrClassName>/From<ObjClassName> for ClassName, as_class_name: what their SAFETY comments claim) *)
Theorem C18_class_name_partition : forall s,
  is_valid_class_name s = (if is_array_name s then is_valid_arr_class_name s else is_valid_obj_class_name s).
Proof. exact class_name_partition. Qed.
Print Assumptions C18_class_name_partition.

Theorem C18_class_name_conversions : forall s,
  (is_valid_class_name s = true -> forall a, as_arr s = Some a -> a = s /\ is_valid_arr_class_name a = true) /\
  (is_valid_class_name s = true -> forall o, as_obj s = Some o -> o = s /\ is_valid_obj_class_name o = true) /\
  (is_valid_arr_class_name s = true -> is_valid_class_name s = true /\ as_arr s = Some s /\ as_obj s = None) /\
  (is_valid_obj_class_name s = true -> is_valid_class_name s = true /\ as_obj s = Some s /\ as_arr s = None) /\
  (is_valid_arr_class_name s = true -> is_valid_obj_class_name s = false).
Proof. exact class_name_conversions. Qed.
Print Assumptions C18_class_name_conversions.

(* an array class name is valid iff it is a valid field descriptor that starts with `[` *)
Theorem C18_arr_class_name_is_field_descriptor : forall s,
  is_valid_arr_class_name s = true <-> (exists r, s = cLBRACK :: r) /\ exists t, FieldTypeG s t.
Proof. exact arr_class_name_is_field_descriptor. Qed.
Print Assumptions C18_arr_class_name_is_field_descriptor.

(* ArrClassNameSlice::dimension on a valid array class name: 1..255, no u8 truncation, no assertion failure, and the
   dimension of the parsed descriptor *)
Theorem C18_arr_dimension : forall s, ArrClassNameG s ->
  exists d a, FT s d a /\ 1 <= d <= 255 /\ arr_dimension s = Ok d /\ parse_field s = Ok (TArr d a).
Proof. exact arr_dimension_spec. Qed.
Print Assumptions C18_arr_dimension.

Theorem C18_arr_dimension_panics_iff : forall s, arr_dimension s = Err <-> N.modulo (count_leading s) 256 = 0.
Proof. exact arr_dimension_total. Qed.
Print Assumptions C18_arr_dimension_panics_iff.

(* FieldDescriptor::from_class / from_obj_class / from_arr_class *)
Theorem C18_desc_of_class : forall s,
  (ClassNameG s -> desc_of_class s = desc_of_obj_class s /\ parse_field (desc_of_class s) = Ok (TObj s)) /\
  (ArrClassNameG s -> desc_of_class s = s /\ exists d a, parse_field (desc_of_class s) = Ok (TArr d a)).
Proof. exact desc_of_class_spec. Qed.
Print Assumptions C18_desc_of_class.

(* From<FieldDescriptor> for ReturnDescriptor *)
Theorem C18_field_is_return : forall s t, parse_field s = Ok t <-> parse_return s = Ok (Some t).
Proof. exact field_is_return. Qed.
Print Assumptions C18_field_is_return.

(* the inner-class helpers only produce valid object class names (their SAFETY comments) *)
Theorem C18_join_inner_valid : forall p i, ClassNameG p -> ClassNameG i -> ClassNameG (join_inner p i).
Proof. exact join_inner_valid. Qed.
Print Assumptions C18_join_inner_valid.

Theorem C18_split_inner_valid : forall s p i,
  ClassNameG s -> split_inner s = Some (p, i) ->
  ClassNameG p /\ Unq i /\ ClassNameG i /\ inner_parent s = Some p /\ inner_name s = Some i.
Proof. exact split_inner_valid. Qed.
Print Assumptions C18_split_inner_valid.

Theorem C18_simple_name_valid : forall s, ClassNameG s ->
  Unq (get_simple_name s) /\
  ((s = get_simple_name s /\ ~ In cSLASH s) \/ (exists p, ClassNameG p /\ s = p ++ cSLASH :: get_simple_name s)).
Proof. exact simple_name_valid. Qed.
Print Assumptions C18_simple_name_valid.

(* which predicate guards which checked newtype: the table translate/c18_newtypes.py regenerates from
   duke/src/macros.rs + every make_string_str_like! call site is this one *)
Theorem C18_newtype_guards : gen_newtypes =
  [ (n_ArrClassName, GArrClassName); (n_ClassName, GClassName); (n_ClassSignature, GAlways);
    (n_FieldDescriptor, GAlways); (n_FieldName, GUnqualified); (n_FieldSignature, GAlways);
    (n_LocalVariableName, GUnqualified); (n_MethodDescriptor, GAlways); (n_MethodName, GMethodName);
    (n_MethodSignature, GAlways); (n_ModuleName, GAlways); (n_ObjClassName, GObjClassName);
    (n_PackageName, GAlways); (n_ParameterName, GUnqualified); (n_RecordName, GAlways);
    (n_ReturnDescriptor, GAlways) ].
Proof. exact newtype_guards. Qed.
Print Assumptions C18_newtype_guards.

(* and the literals of `mod names` (excluded characters, special method names, `[`, `/`) are the model's *)
Theorem C18_predicate_literals :
  gen_unq_excluded = [cDOT; cSLASH; cSEMI; cLBRACK] /\
  gen_meth_excluded = [cDOT; cSLASH; cSEMI; cLT; cGT; cLBRACK] /\
  gen_meth_special = [s_clinit; s_init] /\
  Forall (eq cLBRACK) gen_array_marker /\ Forall (eq cSLASH) gen_separator.
Proof. exact predicate_literals. Qed.
Print Assumptions C18_predicate_literals.

Theorem C18_predicate_literals_model : forall c,
  unq_char c = negb (mem_N c gen_unq_excluded) /\ meth_char c = negb (mem_N c gen_meth_excluded).
Proof. exact predicate_literals_model. Qed.
Print Assumptions C18_predicate_literals_model.

(* every guard accepts exactly its grammar, so every newtype of the table accepts exactly the language of its row *)
Theorem C18_guard_spec : forall g s, guard_pred g s = true <-> guard_lang g s.
Proof. exact guard_spec. Qed.
Print Assumptions C18_guard_spec.

Theorem C18_name_types_guarded :
  lookup_guard n_ClassName gen_newtypes = Some GClassName /\
  lookup_guard n_ArrClassName gen_newtypes = Some GArrClassName /\
  lookup_guard n_ObjClassName gen_newtypes = Some GObjClassName /\
  lookup_guard n_FieldName gen_newtypes = Some GUnqualified /\
  lookup_guard n_MethodName gen_newtypes = Some GMethodName /\
  lookup_guard n_ParameterName gen_newtypes = Some GUnqualified /\
  lookup_guard n_LocalVariableName gen_newtypes = Some GUnqualified.
Proof. exact name_types_guarded. Qed.
Print Assumptions C18_name_types_guarded.

(* Display of the name types (make_display!): the string itself, an error exactly when it holds a surrogate *)
Theorem C18_display : forall s,
  (display s = Ok s <-> Forall (fun c => is_surrogate c = false) s) /\ (forall r, display s = Ok r -> r = s).
Proof. exact display_spec. Qed.
Print Assumptions C18_display.

(* the writers on arbitrary values: write() panics (its assertion) exactly when the class name inside starts with `[`,
   otherwise it prints print_ty; well-formed values never panic; the round trip holds EXACTLY on the well-formed values *)
Theorem C18_write_total : forall t,
  (print_ty_res t = Err <-> exists n, name_of_ty t = Some n /\ starts_with [cLBRACK] n = true) /\
  (forall s, print_ty_res t = Ok s -> s = print_ty t).
Proof. exact print_ty_res_spec. Qed.
Print Assumptions C18_write_total.

Theorem C18_write_wf_no_panic : forall m, wf_method m -> print_method_res m = Ok (print_method m).
Proof. exact wf_print_method_res. Qed.
Print Assumptions C18_write_wf_no_panic.

Theorem C18_field_roundtrip_iff_wf : forall t, parse_field (print_ty t) = Ok t <-> wf_ty t.
Proof. exact field_roundtrip_iff_wf. Qed.
Print Assumptions C18_field_roundtrip_iff_wf.

Theorem C18_return_roundtrip_iff_wf : forall r, parse_return (print_return r) = Ok r <-> wf_ret r.
Proof. exact return_roundtrip_iff_wf. Qed.
Print Assumptions C18_return_roundtrip_iff_wf.

Theorem C18_method_roundtrip_iff_wf : forall m, parse_method (print_method m) = Ok m <-> wf_method m.
Proof. exact method_roundtrip_iff_wf. Qed.
Print Assumptions C18_method_roundtrip_iff_wf.

(* a string has at most one structure *)
Theorem C18_grammar_unambiguous :
  (forall s t t', FieldTypeG s t -> FieldTypeG s t' -> t = t') /\
  (forall s r r', ReturnG s r -> ReturnG s r' -> r = r') /\
  (forall s m m', MethodG s m -> MethodG s m' -> m = m').
Proof. exact grammar_unambiguous. Qed.
Print Assumptions C18_grammar_unambiguous.

(* the letter tables of read_field_type / write_field_type / get_arguments_size, regenerated from descriptor.rs, are the
   JVMS ones the model uses: each of B C D F I J S Z yields (and is printed by) the variant of the same name, with and
   without dimensions; the dimension cap is 255; `L` … `;` delimit a class name, `[` counts a dimension; D and J are the
   wide letters, the slot counts are 1 and 2 on top of 1 for `this` *)
Theorem C18_descriptor_tables :
  gen_read_prims = prim_letters /\ gen_read_arrs = prim_letters /\
  gen_write_prims = prim_letters /\ gen_write_arrs = prim_letters /\
  gen_max_dim = 255 /\ Forall (eq cL) gen_obj_open /\ Forall (eq cSEMI) gen_obj_close /\ Forall (eq cLBRACK) gen_dim_marker /\
  incl gen_write_pushed [cSEMI; cB; cC; cD; cF; cI; cJ; cL; cS; cZ; cLBRACK] /\
  incl gen_args_letters [cLPAR; cRPAR; cSEMI; cD; cJ; cL; cLBRACK] /\ incl gen_args_adds [1; 2] /\ gen_args_init = 1.
Proof. exact descriptor_tables. Qed.
Print Assumptions C18_descriptor_tables.

Theorem C18_descriptor_tables_model : forall c v,
  In (c, v) gen_read_prims ->
  exists a, aty_letter a = Some v /\
            (forall r, read_base (c :: r) = Ok (a, r)) /\
            (forall r, read_field_type (c :: r) = Ok (ty_of_aty a, r)) /\
            (forall k r, (1 <= k <= 255)%nat ->
                         read_field_type (repeat cLBRACK k ++ c :: r) = Ok (TArr (N.of_nat k) a, r)) /\
            print_aty a = [c] /\ print_ty (ty_of_aty a) = [c] /\ In (v, c) gen_write_prims /\ In (v, c) gen_write_arrs.
Proof. exact descriptor_tables_model. Qed.
Print Assumptions C18_descriptor_tables_model.

Theorem C18_examples2 : nonvacuous2.
Proof. exact nonvacuous2_holds. Qed.
Print Assumptions C18_examples2.

(* ================================================================== *)
(* Round 5 *)

(* "fails on every string outside the grammar" for return and method descriptors too *)
Theorem C18_return_rejects_outside_grammar : forall s, (forall r, ~ ReturnG s r) -> parse_return s = Err.
Proof. exact parse_return_rejects. Qed.
Print Assumptions C18_return_rejects_outside_grammar.

Theorem C18_method_rejects_outside_grammar : forall s, (forall m, ~ MethodG s m) -> parse_method s = Err.
Proof. exact parse_method_rejects. Qed.
Print Assumptions C18_method_rejects_outside_grammar.

(* split_inner_class_parent_and_name answers exactly on parent$inner: parent non-empty and not ending in `/`, inner
   name non-empty and free of `/` and `$` *)
Theorem C18_split_iff : forall s p i, split_inner s = Some (p, i) <-> s = join_inner p i /\ inner_ok p i.
Proof. exact split_inner_iff. Qed.
Print Assumptions C18_split_iff.

(* get_inner_class_name, get_inner_class_parent and the split agree with each other on EVERY string: the name (the parent)
   is answered exactly where the split answers, with the split's half, and the two halves join to the input *)
Theorem C18_inner_helpers_agree : forall s,
  (forall i, inner_name s = Some i <-> exists p, split_inner s = Some (p, i)) /\
  (forall p, inner_parent s = Some p <-> exists i, split_inner s = Some (p, i)) /\
  (inner_name s = None <-> split_inner s = None) /\
  (inner_parent s = None <-> split_inner s = None) /\
  (forall p i, inner_parent s = Some p -> inner_name s = Some i -> join_inner p i = s).
Proof. exact inner_helpers_agree. Qed.
Print Assumptions C18_inner_helpers_agree.

Theorem C18_inner_name_iff : forall s i, inner_name s = Some i <-> exists p, s = join_inner p i /\ inner_ok p i.
Proof. exact inner_name_spec. Qed.
Print Assumptions C18_inner_name_iff.

Theorem C18_inner_parent_iff : forall s p, inner_parent s = Some p <-> exists i, s = join_inner p i /\ inner_ok p i.
Proof. exact inner_parent_spec. Qed.
Print Assumptions C18_inner_parent_iff.

(* com/sun/proxy/$Proxy0, $Proxy0, a/$b, a/B$ are valid object class names and not inner class names for any helper;
   a/B$C$D splits at the last `$` *)
Theorem C18_inner_examples : inner_examples.
Proof. exact inner_examples_hold. Qed.
Print Assumptions C18_inner_examples.

(* the dimension cap as an equation, for EVERY number k of `[` in front of every base type (primitive letter or
   L<class name>;): field and return descriptors, array class names, class names, ArrClassName::dimension ... *)
Theorem C18_dimension_cap : forall k b a, BaseG b a ->
  parse_field (repeat cLBRACK k ++ b) = (if (k <=? 255)%nat then Ok (ty_of (N.of_nat k) a) else Err) /\
  parse_return (repeat cLBRACK k ++ b) = (if (k <=? 255)%nat then Ok (Some (ty_of (N.of_nat k) a)) else Err) /\
  is_valid_arr_class_name (repeat cLBRACK k ++ b) = ((1 <=? k)%nat && (k <=? 255)%nat)%bool /\
  ((1 <= k)%nat -> is_valid_class_name (repeat cLBRACK k ++ b) = (k <=? 255)%nat) /\
  ((1 <= k <= 255)%nat -> arr_dimension (repeat cLBRACK k ++ b) = Ok (N.of_nat k)).
Proof.
  exact (fun k b a H => conj (dimension_cap_field k b a H) (conj (dimension_cap_return k b a H)
          (conj (dimension_cap_arr_class_name k b a H) (conj (dimension_cap_class_name k b a H) (dimension_cap_dimension k b a H))))).
Qed.
Print Assumptions C18_dimension_cap.

(* ... and a parameter / the return type of a method descriptor, behind any parameters *)
Theorem C18_dimension_cap_method : forall ss ps k b a rs rt, Forall2 FieldTypeG ss ps -> BaseG b a -> ReturnG rs rt ->
  parse_method (cLPAR :: concat ss ++ repeat cLBRACK k ++ b ++ cRPAR :: rs)
    = (if (k <=? 255)%nat then Ok (ps ++ [ty_of (N.of_nat k) a], rt) else Err) /\
  parse_method (cLPAR :: concat ss ++ cRPAR :: repeat cLBRACK k ++ b)
    = (if (k <=? 255)%nat then Ok (ps, Some (ty_of (N.of_nat k) a)) else Err).
Proof. exact dimension_cap_method. Qed.
Print Assumptions C18_dimension_cap_method.

(* more than 255 `[` are an error whatever follows them *)
Theorem C18_dimension_cap_any_tail : forall k r, (255 < k)%nat -> read_field_type (repeat cLBRACK k ++ r) = Err.
Proof. exact read_field_type_over. Qed.
Print Assumptions C18_dimension_cap_any_tail.

(* 254 / 255 / 256 / 257 dimensions with a primitive and an object element through every predicate that counts them *)
Theorem C18_dimension_cap_examples : dimension_cap_examples.
Proof. exact dimension_cap_examples_hold. Qed.
Print Assumptions C18_dimension_cap_examples.
