(* C08 — property theorems only.  Each is closed by [exact <lemma>] and followed by
   Print Assumptions; the statements are pinned here so they cannot be quietly weakened.
   Model: C08/Model.v ([reorder M t] with t the lookup table "old index at each new position",
   [reorder_by_names] the public entry point).  [reordered], [class_rel], [field_rel], [meth_rel],
   [param_rel] (C08/Theory.v) and [keys_good] (C08/TheoryA.v) are the declarative description. *)
From FB Require Import C08.Model C08.ModelOk C08.TheoryA C08.TheoryB C08.Theory C08.Theory2 C08.Theory3 C08.Theory4 C08.Theory5.
From Coq Require Import Permutation.

(* Th 1. reorder succeeds with M' exactly when M' has the namespace row permuted, the same
   classes / fields / methods / parameters in the same order, each with its names row permuted,
   comments and parameter indices untouched, member descriptors rewritten by map_desc over the
   class renaming (namespace 0 -> new first namespace), and all new keys present and distinct. *)
Theorem C08_reorder_spec : forall M t M', reorder M t = Ok M' <-> reordered M t M'.
Proof. exact reorder_spec. Qed.
Print Assumptions C08_reorder_spec.

(* the key of every reordered entry is its name in the new first namespace (plus the rewritten descriptor) *)
Theorem C08_reordered_keys : forall f t0 tr c c',
  class_rel f (t0 :: tr) c c' ->
  class_key c' = nth_name (c_names c) t0
  /\ Forall2 (fun x x' => exists d', map_desc f (f_desc x) = Ok d' /\
                          field_key x' = match nth_name (f_names x) t0 with Some n => Some (n, d') | None => None end)
             (c_fields c) (c_fields c')
  /\ Forall2 (fun x x' => exists d', map_desc f (m_desc x) = Ok d' /\
                          meth_key x' = match nth_name (m_names x) t0 with Some n => Some (n, d') | None => None end)
             (c_methods c) (c_methods c').
Proof. exact reordered_keys. Qed.
Print Assumptions C08_reordered_keys.

(* the descriptor rewrite: a descriptor is a sequence of plain characters (not `L`) and groups
   `L name ;` (name non-empty, without `;`); exactly the names are replaced; anything else fails *)
Theorem C08_map_desc_spec : forall f d d',
  map_desc f d = Ok d' <-> exists t, toks_wf t /\ d = print_toks t /\ d' = print_toks (map (map_tok f) t).
Proof. exact map_desc_spec. Qed.
Print Assumptions C08_map_desc_spec.

(* the class renaming: the to-name of the class whose from-name is x, else x itself *)
Theorem C08_map_class_spec : forall M from to x y,
  NoDup (map (col_name from) (ms_classes M)) ->
  (map_class (remapper_a M from to) x = y <->
   (exists c, In c (ms_classes M) /\ col_name from c = Some x /\ col_name to c = Some y)
   \/ ((forall c, In c (ms_classes M) -> col_name from c = Some x -> col_name to c = None) /\ y = x)).
Proof. exact map_class_spec. Qed.
Print Assumptions C08_map_class_spec.

(* nothing is dropped or added, at any level *)
Theorem C08_reorder_same_shape : forall M t M',
  reorder M t = Ok M' ->
  length (ms_classes M') = length (ms_classes M)
  /\ Forall2 (fun c c' => length (c_fields c') = length (c_fields c) /\ length (c_methods c') = length (c_methods c)
                          /\ Forall2 (fun m m' => length (m_params m') = length (m_params m)) (c_methods c) (c_methods c'))
             (ms_classes M) (ms_classes M').
Proof. exact reorder_same_shape. Qed.
Print Assumptions C08_reorder_same_shape.

(* Th 2. the identity order changes nothing (not even the insertion order) *)
Theorem C08_reorder_id : forall M,
  wf M = true -> descs_scan M = true -> reorder M (seq 0 (length (ms_ns M))) = Ok M.
Proof. exact reorder_id. Qed.
Print Assumptions C08_reorder_id.

Theorem C08_reorder_by_names_id : forall M,
  wf M = true -> nodup_ns M = true -> descs_scan M = true -> reorder_by_names M (ms_ns M) = Ok M.
Proof. exact reorder_by_names_id. Qed.
Print Assumptions C08_reorder_by_names_id.

(* Th 3. reordering by a permutation and then by its inverse gives back the original, for every
   well-formed mapping set with any number of namespaces, provided no class name that a
   descriptor mentions without being a key equals the new-first-namespace name of a class *)
Theorem C08_reorder_inv : forall M p M',
  wf M = true -> is_permb (length (ms_ns M)) p = true ->
  no_collision M (hd O p) = true -> class_names_clean M = true ->
  reorder M p = Ok M' -> reorder M' (inv_perm p) = Ok M.
Proof. exact reorder_inv. Qed.
Print Assumptions C08_reorder_inv.

Theorem C08_reorder_by_names_inv : forall M nms M',
  wf M = true -> nodup_ns M = true -> Permutation nms (ms_ns M) ->
  no_collision_names M nms = true -> class_names_clean M = true ->
  reorder_by_names M nms = Ok M' -> reorder_by_names M' (ms_ns M) = Ok M.
Proof. exact reorder_by_names_inv. Qed.
Print Assumptions C08_reorder_by_names_inv.

(* the result of a successful reorder is again well-formed (reorders can be chained, and Th 3
   applies to the result) *)
Theorem C08_reorder_wf : forall M p M',
  wf M = true -> is_permb (length (ms_ns M)) p = true -> reorder M p = Ok M' -> wf M' = true.
Proof. exact reorder_wf. Qed.
Print Assumptions C08_reorder_wf.

(* what is_permb / inv_perm mean *)
Theorem C08_is_permb_Permutation : forall n p, is_permb n p = true <-> Permutation p (seq 0 n).
Proof. exact is_permb_Permutation. Qed.
Print Assumptions C08_is_permb_Permutation.

Theorem C08_inv_perm_is_perm : forall n p, is_permb n p = true -> is_permb n (inv_perm p) = true.
Proof. exact inv_perm_is_perm. Qed.
Print Assumptions C08_inv_perm_is_perm.

Theorem C08_inv_perm_involutive : forall n p, is_permb n p = true -> inv_perm (inv_perm p) = p.
Proof. exact inv_perm_involutive. Qed.
Print Assumptions C08_inv_perm_involutive.

Theorem C08_reorder_table_perm : forall M nms,
  NoDup (ms_ns M) -> Permutation nms (ms_ns M) ->
  exists t, reorder_table M nms = Ok t /\ is_permb (length (ms_ns M)) t = true
            /\ permute [] t (ms_ns M) = nms.
Proof. exact reorder_table_perm. Qed.
Print Assumptions C08_reorder_table_perm.

(* Th 3'. THE ACTION LAW.  [compose p q] = the table whose position j holds p[q[j]].  Reordering by p
   and then reordering the result by q IS reordering the original by [compose p q] - success and
   failure of the second step included - for every well-formed set, every first table p (the first
   step is assumed to succeed), every second table q with entries below [length p] (not even a
   permutation), under the hypotheses of the inverse law.  Identity (Th 2) and inverse (Th 3) are the
   instances q = seq 0 n and q = inv_perm p (C08_compose_laws).  The law fixes the DIRECTION of the
   table: a table built the other way round passes identity, inverse and every involution, and fails
   this law on two non-commuting orders of three namespaces (C08_compose_example). *)
Theorem C08_reorder_compose : forall M p q M1,
  wf M = true -> in_range (length p) q = true ->
  no_collision M (hd O p) = true -> class_names_clean M = true ->
  reorder M p = Ok M1 ->
  forall M2, reorder M1 q = Ok M2 <-> reorder M (compose p q) = Ok M2.
Proof. exact reorder_compose. Qed.
Print Assumptions C08_reorder_compose.

Theorem C08_reorder_compose_eq : forall M p q M1,
  wf M = true -> in_range (length p) q = true ->
  no_collision M (hd O p) = true -> class_names_clean M = true ->
  reorder M p = Ok M1 -> reorder M1 q = reorder M (compose p q).
Proof. exact reorder_compose_eq. Qed.
Print Assumptions C08_reorder_compose_eq.

(* through the public entry point: after reordering to any order of the namespaces, reordering the
   result to a further list of names (any list: an order, a list with repetitions or unknown names)
   gives exactly what reordering the original to that list gives - the path does not matter *)
Theorem C08_reorder_by_names_compose : forall M nms M1,
  wf M = true -> nodup_ns M = true -> Permutation nms (ms_ns M) ->
  no_collision_names M nms = true -> class_names_clean M = true ->
  reorder_by_names M nms = Ok M1 ->
  forall nms2, reorder_by_names M1 nms2 = reorder_by_names M nms2.
Proof. exact reorder_by_names_compose. Qed.
Print Assumptions C08_reorder_by_names_compose.

(* what [compose] is: rows compose; the identity table is neutral; the inverse table composes to the identity *)
Theorem C08_compose_laws :
  (forall (d : option str) p q l, in_range (length p) q = true -> permute d q (permute d p l) = permute d (compose p q) l)
  /\ (forall n q, in_range n q = true -> compose (seq 0 n) q = q)
  /\ (forall p, compose p (seq 0 (length p)) = p)
  /\ (forall n p, is_permb n p = true -> compose p (inv_perm p) = seq 0 n)
  /\ (forall n p, is_permb n p = true -> in_range n p = true).
Proof.
  exact (conj (fun d p q l => permute_compose d p q l)
        (conj compose_id_l (conj compose_id_r (conj compose_inv is_permb_in_range)))).
Qed.
Print Assumptions C08_compose_laws.

Theorem C08_compose_example : compose_example.
Proof. exact compose_example_holds. Qed.
Print Assumptions C08_compose_example.

(* Th 1, spelled out without the vocabulary of Theory.v: the header is permuted by the table (by
   names: it is the list of names asked for), the comment of the set is untouched; the k-th class
   stays the k-th class (fields, methods, parameters likewise), comments and parameter indices
   untouched, and the name at NEW position i is the name in OLD column t[i] *)
Theorem C08_reorder_header : forall M t M',
  reorder M t = Ok M' ->
  ms_ns M' = map (fun i => nth i (ms_ns M) []) t /\ ms_doc M' = ms_doc M.
Proof. exact reorder_header. Qed.
Print Assumptions C08_reorder_header.

Theorem C08_reorder_by_names_header : forall M nms M',
  reorder_by_names M nms = Ok M' -> ms_ns M' = nms /\ ms_doc M' = ms_doc M.
Proof. exact reorder_by_names_header. Qed.
Print Assumptions C08_reorder_by_names_header.

Theorem C08_reorder_direction : forall M t M',
  reorder M t = Ok M' ->
  forall k c, nth_error (ms_classes M) k = Some c ->
  exists c', nth_error (ms_classes M') k = Some c'
    /\ c_doc c' = c_doc c
    /\ (forall i, (i < length t)%nat -> nth_name (c_names c') i = nth_name (c_names c) (nth i t O))
    /\ (forall j f, nth_error (c_fields c) j = Some f -> exists f', nth_error (c_fields c') j = Some f'
          /\ f_doc f' = f_doc f
          /\ forall i, (i < length t)%nat -> nth_name (f_names f') i = nth_name (f_names f) (nth i t O))
    /\ (forall j m, nth_error (c_methods c) j = Some m -> exists m', nth_error (c_methods c') j = Some m'
          /\ m_doc m' = m_doc m
          /\ (forall i, (i < length t)%nat -> nth_name (m_names m') i = nth_name (m_names m) (nth i t O))
          /\ forall l x, nth_error (m_params m) l = Some x -> exists x', nth_error (m_params m') l = Some x'
               /\ p_index x' = p_index x /\ p_doc x' = p_doc x
               /\ forall i, (i < length t)%nat -> nth_name (p_names x') i = nth_name (p_names x) (nth i t O)).
Proof. exact reorder_direction. Qed.
Print Assumptions C08_reorder_direction.

(* Th 4. a class, field or method without a name in the new first namespace makes reorder fail
   (no hypothesis at all); parameters are keyed by index and are not concerned *)
Theorem C08_reorder_fails : forall M t0 tr, entry_without_name M t0 = true -> reorder M (t0 :: tr) = Err.
Proof. exact reorder_fails. Qed.
Print Assumptions C08_reorder_fails.

(* the hypotheses of Th 3 are needed: witnesses on which the inverse law fails without them *)
Theorem C08_reorder_inv_refuted_without_no_collision :
  exists M p M' M'',
    wf M = true /\ is_permb (length (ms_ns M)) p = true /\ class_names_clean M = true
    /\ descs_scan M = true /\ no_collision M (hd O p) = false
    /\ reorder M p = Ok M' /\ reorder M' (inv_perm p) = Ok M'' /\ equivb M'' M = false.
Proof. exact reorder_inv_needs_no_collision. Qed.
Print Assumptions C08_reorder_inv_refuted_without_no_collision.

Theorem C08_reorder_inv_refuted_without_clean :
  exists M p M' M'',
    wf M = true /\ is_permb (length (ms_ns M)) p = true /\ no_collision M (hd O p) = true
    /\ class_names_clean M = false
    /\ reorder M p = Ok M' /\ reorder M' (inv_perm p) = Ok M'' /\ equivb M'' M = false.
Proof. exact reorder_inv_needs_clean. Qed.
Print Assumptions C08_reorder_inv_refuted_without_clean.

(* non-vacuity: a three-namespace set satisfying every hypothesis, all 3! orders succeed, one
   result spelled out; failing examples for a missing and for a duplicate name *)
Theorem C08_examples : nonvacuous.
Proof. exact nonvacuous_holds. Qed.
Print Assumptions C08_examples.

(* ---------------------------------------------------------------------------------------------
   Round 5: WHEN reorder succeeds (coq/C08/ModelOk.v holds the decidable vocabulary) *)

(* Th 4'. COLLISIONS.  Two entries that would get the same key in the new first namespace - two classes
   with the same name there, or two fields (two methods) of one class with the same name there and the
   same rewritten descriptor - make reorder fail: it neither drops one of them nor lets the later one
   overwrite the earlier.  No hypothesis at all. *)
Theorem C08_reorder_collision_err : forall M t0 tr, key_collision M t0 = true -> reorder M (t0 :: tr) = Err.
Proof. exact reorder_collision_err. Qed.
Print Assumptions C08_reorder_collision_err.

(* what key_collision says, without the boolean vocabulary *)
Theorem C08_key_collision_meaning : forall M t0,
  key_collision M t0 = true <->
  same_key_twice (new_class_keys M t0)
  \/ exists c, In c (ms_classes M) /\
       (same_key_twice (new_field_keys (map_class (remapper_a M 0 t0)) t0 c)
        \/ same_key_twice (new_meth_keys (map_class (remapper_a M 0 t0)) t0 c)).
Proof. exact key_collision_meaning. Qed.
Print Assumptions C08_key_collision_meaning.

Theorem C08_same_key_twice_definition : forall (K : Type) (l : list (option K)),
  same_key_twice l <-> exists i j k, (i < j)%nat /\ nth_error l i = Some (Some k) /\ nth_error l j = Some (Some k).
Proof. exact (fun K l => iff_refl _). Qed.
Print Assumptions C08_same_key_twice_definition.

(* Th 4''. reorder fails for EXACTLY four causes (any mapping set, any table): an entry without a name in
   the new first namespace (Th 4), a member descriptor that does not scan, a collision (Th 4'), two
   parameters of one method with the same index; on well-formed sets the last cannot occur.  In
   particular: on a well-formed set whose descriptors scan, reorder to a permutation succeeds iff every
   class, field and method has a name in the new first namespace and no two entries collide there. *)
Theorem C08_reorder_err_iff : forall M t0 tr,
  reorder M (t0 :: tr) = Err <->
  entry_without_name M t0 = true \/ descs_scan M = false \/ key_collision M t0 = true \/ dup_param_index M = true.
Proof. exact reorder_err_iff. Qed.
Print Assumptions C08_reorder_err_iff.

Theorem C08_reorder_err_iff_wf : forall M t0 tr,
  wf M = true ->
  (reorder M (t0 :: tr) = Err <->
   entry_without_name M t0 = true \/ descs_scan M = false \/ key_collision M t0 = true).
Proof. exact reorder_err_iff_wf. Qed.
Print Assumptions C08_reorder_err_iff_wf.

(* success depends on the new FIRST namespace only (not on the rest of the table) and is decided by
   reorder_okb: all new keys present and pairwise distinct, level by level *)
Theorem C08_reorder_ok_eq : forall M t0 tr, is_ok (reorder M (t0 :: tr)) = reorder_okb M t0.
Proof. exact reorder_ok_eq. Qed.
Print Assumptions C08_reorder_ok_eq.

(* non-vacuity: a collision of each kind (two classes; two fields; two methods; two fields whose
   descriptors differ before the class renaming and coincide after it) fails; same new name with
   different descriptors is no collision and succeeds; the three-namespace example has none *)
Theorem C08_collision_examples : collision_examples.
Proof. exact collision_examples_hold. Qed.
Print Assumptions C08_collision_examples.
