(* C13 — property theorems only.  Each is closed by [exact <lemma>] and followed by
   Print Assumptions; the statements are pinned here so they cannot be quietly weakened. *)
From Coq Require Import Permutation.
From FB Require Import C13.Model C13.Theory C13.Theory2 C13.Theory3 C13.Theory4 C13.ModelAnn C13.TheoryAnn.

(* merge_preserve_order terminates: the fuel handed over is always enough *)
Theorem C13_mpo_fuel_suffices : forall (A : Type) (eqb : A -> A -> bool), eqb_ok eqb ->
  forall a b : list A, exists r, mpo_res eqb a b = Ok r.
Proof. exact @mpo_fuel_suffices. Qed.
Print Assumptions C13_mpo_fuel_suffices.

(* every element of either list exactly once: the result is a duplicate-free permutation of
   a ++ (b minus a) *)
Theorem C13_mpo_exact_once : forall (A : Type) (eqb : A -> A -> bool), eqb_ok eqb ->
  forall a b r : list A, NoDup a -> NoDup b -> mpo_res eqb a b = Ok r ->
  Permutation r (a ++ filter (fun y => negb (memb eqb y a)) b) /\ NoDup r /\
  (forall x, In x r <-> In x a \/ In x b).
Proof. exact @mpo_exact_once. Qed.
Print Assumptions C13_mpo_exact_once.

(* when the elements both lists have come in the same order in both, both lists are
   subsequences of the result *)
Theorem C13_mpo_order : forall (A : Type) (eqb : A -> A -> bool), eqb_ok eqb ->
  forall a b r : list A,
  filter (fun x => memb eqb x b) a = filter (fun y => memb eqb y a) b ->
  mpo_res eqb a b = Ok r -> subseq a r /\ subseq b r.
Proof. exact @mpo_order. Qed.
Print Assumptions C13_mpo_order.

(* the first (client) order is kept whatever the second list is *)
Theorem C13_mpo_order_client_always : forall (A : Type) (eqb : A -> A -> bool), eqb_ok eqb ->
  forall a b r : list A, mpo_res eqb a b = Ok r -> subseq a r.
Proof. exact @mpo_order_a. Qed.
Print Assumptions C13_mpo_order_client_always.

(* the hypothesis of C13_mpo_order is the expected notion: for duplicate-free lists it holds
   exactly when the two lists have a duplicate-free common supersequence *)
Theorem C13_compatible_iff_common_supersequence : forall (A : Type) (eqb : A -> A -> bool), eqb_ok eqb ->
  forall a b : list A, NoDup a -> NoDup b ->
  (filter (fun x => memb eqb x b) a = filter (fun y => memb eqb y a) b
   <-> exists s, NoDup s /\ subseq a s /\ subseq b s).
Proof. exact @compatible_iff_common_supersequence. Qed.
Print Assumptions C13_compatible_iff_common_supersequence.

(* ARBITRARY lists (duplicates allowed, any relative order): the function terminates within its fuel,
   the result is a permutation of a ++ (b minus a) — an element of [a] occurs as often as in [a], an
   element only [b] has as often as in [b] —, and the first list and the b-only elements of the second
   are subsequences of it *)
Theorem C13_mpo_any_lists : forall (A : Type) (eqb : A -> A -> bool), eqb_ok eqb ->
  forall a b : list A, exists r, mpo_res eqb a b = Ok r /\
    Permutation r (a ++ filter (fun y => negb (memb eqb y a)) b) /\
    (forall x, In x r <-> In x a \/ In x b) /\
    subseq a r /\ subseq (filter (fun y => negb (memb eqb y a)) b) r.
Proof. exact @mpo_any_lists. Qed.
Print Assumptions C13_mpo_any_lists.

(* duplicate-free lists: the second list's order is kept exactly when the two orders are compatible *)
Theorem C13_mpo_b_order_iff_compatible : forall (A : Type) (eqb : A -> A -> bool), eqb_ok eqb ->
  forall a b r : list A, NoDup a -> NoDup b -> mpo_res eqb a b = Ok r ->
  (subseq b r <-> filter (fun x => memb eqb x b) a = filter (fun y => memb eqb y a) b).
Proof. exact @mpo_b_order_iff_compatible. Qed.
Print Assumptions C13_mpo_b_order_iff_compatible.

(* scrambled orders (shared elements in opposite relative order): still every element exactly once,
   the first list's order and the order of the b-only elements kept; the second list's order is not *)
Theorem C13_mpo_scrambled : forall (A : Type) (eqb : A -> A -> bool), eqb_ok eqb ->
  forall a b r : list A, NoDup a -> NoDup b ->
  filter (fun x => memb eqb x b) a <> filter (fun y => memb eqb y a) b -> mpo_res eqb a b = Ok r ->
  NoDup r /\ (forall x, In x r <-> In x a \/ In x b) /\ subseq a r /\
  subseq (filter (fun y => negb (memb eqb y a)) b) r /\ ~ subseq b r.
Proof. exact @mpo_scrambled. Qed.
Print Assumptions C13_mpo_scrambled.

(* the exact shape of the result, for arbitrary lists: the loop consumes [ra] and [rb] into an
   interleaving [m] (Theory.Merged: shared elements once, one-sided ones in place), stops where no
   inner loop can take anything (Theory.stuck: nothing left, or the heads differ and each occurs in
   the other list), then the rest of [a] and the b-only rest of [b] follow *)
Theorem C13_mpo_shape : forall (A : Type) (eqb : A -> A -> bool), eqb_ok eqb ->
  forall a b r : list A, mpo_res eqb a b = Ok r ->
  exists ra rb af bf m, a = ra ++ af /\ b = rb ++ bf /\ Merged a b ra rb m /\ stuck eqb a b af bf /\
                        r = m ++ af ++ filter (fun y => negb (memb eqb y a)) bf.
Proof. exact @mpo_shape. Qed.
Print Assumptions C13_mpo_shape.

(* ------------------------------------------------------------------------------------------
   members of a class both sides have, differing (fields and methods alike) *)

(* every member key of either side exactly once; both key orders kept when compatible (the
   client's always); a member only one side has is that side's member plus the side mark; a member
   both sides have is there unmarked (the client's version); nothing else is there *)
Theorem C13_members_marked : forall (tbl : table) (cf sf ms : list member), all_client tbl = true ->
  NoDup (map mkey cf) -> NoDup (map mkey sf) -> merge_members tbl cf sf = OK ms ->
  let kc := map mkey cf in let ks := map mkey sf in let km := map mkey ms in
  NoDup km /\ Permutation km (kc ++ filter (fun y => negb (memb key_eqb y kc)) ks) /\
  subseq kc km /\
  (filter (fun x => memb key_eqb x ks) kc = filter (fun y => memb key_eqb y kc) ks -> subseq ks km) /\
  (forall ec, In ec cf -> ~ In (mkey ec) ks -> In (mark_member ec Client) ms) /\
  (forall es, In es sf -> ~ In (mkey es) kc -> In (mark_member es Server) ms) /\
  (forall ec es, In ec cf -> In es sf -> mkey ec = mkey es -> In ec ms) /\
  (forall m, In m ms ->
     (exists ec, In ec cf /\ ~ In (mkey ec) ks /\ m = mark_member ec Client) \/
     (exists es, In es sf /\ ~ In (mkey es) kc /\ m = mark_member es Server) \/
     (exists ec es, In ec cf /\ In es sf /\ mkey ec = mkey es /\ m = ec)).
Proof. exact members_marked. Qed.
Print Assumptions C13_members_marked.

(* the side mark is one @Environment(side) appended to the member's invisible annotations,
   nothing else changes *)
Theorem C13_mark_member : forall m sd,
  mark_member m sd = mkMember (m_name m) (m_desc m) (m_access m) (m_depr m) (m_synth m) (m_inv m ++ [AEnv sd]) (m_rest m).
Proof. exact (fun m sd => eq_refl). Qed.
Print Assumptions C13_mark_member.

(* the member merge succeeds whenever shared members agree in the deprecated/synthetic flags (the
   Rust code asserts that) and in every opaque field whose row of the `inner` literal is
   merge_from_client / merge_eq (Theory2.rest_agree; no such row today) *)
Theorem C13_merge_members_ok : forall tbl cf sf, scalar_table tbl = true ->
  (forall ec es, In ec cf -> In es sf -> mkey ec = mkey es -> m_depr ec = m_depr es /\ m_synth ec = m_synth es) ->
  (forall ec es, In ec cf -> In es sf -> mkey ec = mkey es -> rest_agree tbl (m_rest ec) (m_rest es)) ->
  exists ms, merge_members tbl cf sf = OK ms.
Proof. exact merge_members_ok. Qed.
Print Assumptions C13_merge_members_ok.

(* the merged class, every component of the model's class accounted for: version, access, name
   (equal on both sides) and super class; interfaces merged by merge_preserve_order; fields and
   methods by merge_members (above); no class-level side mark; the client's invisible annotations
   plus one @EnvironmentInterfaces for the one-sided interfaces; PermittedSubclasses absent iff
   absent on both sides, else both lists merged by merge_preserve_order; the record components
   (c_rec) the client's; every other field of duke's ClassFile (c_rest) row by row as the
   regenerated table of the struct literal says (C13_class_frame; the client's when the table says
   `client.f` throughout: C13_class_rest_client).  (deprecated/synthetic flags and inner
   classes: see C13_class_merge_ok and the model; they are equal on both sides resp. a keyed union) *)
Theorem C13_class_merge : forall c s m, class_merge c s = OK m ->
  (c_version m = c_version c /\ c_version c = c_version s) /\
  (c_access m = c_access c /\ c_access c = c_access s) /\
  (c_name m = c_name c /\ c_name c = c_name s) /\
  c_super m = c_super c /\
  mpo_res str_eqb (c_itfs c) (c_itfs s) = Ok (c_itfs m) /\
  merge_members field_rest_table (c_fields c) (c_fields s) = OK (c_fields m) /\
  merge_members method_rest_table (c_methods c) (c_methods s) = OK (c_methods m) /\
  c_vis m = c_vis c /\
  c_inv m = c_inv c ++ match itf_marks (c_itfs m) (c_itfs c) (c_itfs s) with [] => [] | marks => [AItfs marks] end /\
  match c_perm c, c_perm s with
  | None, None => c_perm m = None
  | pc, ps => exists l, c_perm m = Some l /\ mpo_res str_eqb (unwrap_or_default pc) (unwrap_or_default ps) = Ok l
  end /\
  c_rec m = c_rec c /\
  merge_rest class_rest_table (c_rest c) (c_rest s) = OK (c_rest m).
Proof. exact class_merge_spelled. Qed.
Print Assumptions C13_class_merge.

(* permitted subclasses of a class both sides have: present iff either side has them; every
   permitted class of either side exactly once, the client's order always kept, the server's when
   the two orders are compatible *)
Theorem C13_permitted_merged : forall c s m, class_merge c s = OK m ->
  let pc := unwrap_or_default (c_perm c) in let ps := unwrap_or_default (c_perm s) in
  (c_perm m = None <-> c_perm c = None /\ c_perm s = None) /\
  (forall l, c_perm m = Some l ->
     subseq pc l /\
     (filter (fun x => memb str_eqb x ps) pc = filter (fun y => memb str_eqb y pc) ps -> subseq ps l) /\
     (NoDup pc -> NoDup ps -> NoDup l /\ forall x, In x l <-> In x pc \/ In x ps)).
Proof. exact permitted_merged. Qed.
Print Assumptions C13_permitted_merged.

(* inside the hypotheses the class merge returns a class: the two versions agree in version,
   access, name, super class, deprecated/synthetic flags (also of shared members), in the records
   of shared inner classes, and in every opaque field whose row of the regenerated table asserts
   equality (none today) — everything else may differ *)
Theorem C13_class_merge_ok : forall c s,
  c_version c = c_version s /\ c_access c = c_access s /\ c_name c = c_name s /\ c_super c = c_super s /\
  c_depr c = c_depr s /\ c_synth c = c_synth s /\
  flags_agree (c_fields c) (c_fields s) /\ flags_agree (c_methods c) (c_methods s) /\
  inner_agree (unwrap_or_default (c_inner c)) (unwrap_or_default (c_inner s)) /\
  rests_agree field_rest_table (c_fields c) (c_fields s) /\ rests_agree method_rest_table (c_methods c) (c_methods s) /\
  rest_agree class_rest_table (c_rest c) (c_rest s) ->
  exists m, class_merge c s = OK m.
Proof. exact class_merge_ok. Qed.
Print Assumptions C13_class_merge_ok.

(* interfaces: exactly once, orders kept, one-sided ones (and only those) listed with their side
   in one @EnvironmentInterfaces appended to the client's invisible class annotations *)
Theorem C13_interfaces_marked : forall c s m,
  NoDup (c_itfs c) -> NoDup (c_itfs s) -> class_merge c s = OK m ->
  let ci := c_itfs c in let si := c_itfs s in let mi := c_itfs m in
  NoDup mi /\ (forall i, In i mi <-> In i ci \/ In i si) /\
  subseq ci mi /\
  (filter (fun x => memb str_eqb x si) ci = filter (fun y => memb str_eqb y ci) si -> subseq si mi) /\
  exists marks, NoDup marks /\
    (forall sd i, In (sd, i) marks <-> (sd = Client /\ In i ci /\ ~ In i si) \/ (sd = Server /\ In i si /\ ~ In i ci)) /\
    c_inv m = c_inv c ++ match marks with [] => [] | _ => [AItfs marks] end.
Proof. exact interfaces_marked. Qed.
Print Assumptions C13_interfaces_marked.

(* ------------------------------------------------------------------------------------------
   the struct literals of class_merger_merge, field by field (tables regenerated from merge.rs and
   duke's struct definitions by translate/c13_merge_table.py on every check) *)

(* the regenerated tables cover every field of duke's ClassFile / Field / Method exactly once; the
   fields the model spells out carry the actions the model implements; members are keyed by (name,
   descriptor) and marked in runtime_invisible_annotations, one-sided classes in
   runtime_visible_annotations; each of the 12 + 6 + 9 remaining fields is an opaque component with
   a scalar action (client.f | server.f | merge_from_client | merge_eq) *)
Theorem C13_tables_checked : tables_checked.
Proof. exact tables_checked_holds. Qed.
Print Assumptions C13_tables_checked.

(* the opaque components of a merge, row by row, for ANY table: as many as the client has; row i is
   the client's value (client.f), the server's (server.f), or the client's with both sides equal
   (merge_from_client / merge_eq); nothing else returns a value *)
Theorem C13_merge_rest_frame : forall tbl c s r, merge_rest tbl c s = OK r ->
  length r = length c /\
  forall i x, nth_error c i = Some x ->
    let y := match nth_error s i with Some y => y | None => x end in
    match row_act tbl i with
    | AClient => nth_error r i = Some x
    | AServer => nth_error r i = Some y
    | AAssertEq | ABailEq => nth_error r i = Some x /\ x = y
    | _ => False
    end.
Proof. exact merge_rest_frame. Qed.
Print Assumptions C13_merge_rest_frame.

(* the merged class over the regenerated table of the ClassFile literal: every field the model keeps
   opaque (enclosing method, signature, source file, source debug extension, type annotations, module
   data, nest host and members, unknown attributes) is taken whole from the side its row names; what
   both versions agree on is what the merged class says *)
Theorem C13_class_frame : forall c s m, class_merge c s = OK m ->
  length (c_rest m) = length (c_rest c) /\
  (forall i x, nth_error (c_rest c) i = Some x ->
     let y := match nth_error (c_rest s) i with Some y => y | None => x end in
     match row_act class_rest_table i with
     | AClient => nth_error (c_rest m) i = Some x
     | AServer => nth_error (c_rest m) i = Some y
     | AAssertEq | ABailEq => nth_error (c_rest m) i = Some x /\ x = y
     | _ => False
     end) /\
  (forall i x, nth_error (c_rest c) i = Some x -> nth_error (c_rest s) i = Some x -> nth_error (c_rest m) i = Some x).
Proof. exact class_frame. Qed.
Print Assumptions C13_class_frame.

(* tables that say `client.f` throughout (today's do — C13/MergeGen.v — but which side an opaque field
   comes from is not part of the property, so this is a hypothesis, not an obligation): the opaque
   components are the client's *)
Theorem C13_rest_all_client : forall tbl c s, all_client tbl = true -> merge_rest tbl c s = OK c.
Proof. exact merge_rest_all_client. Qed.
Print Assumptions C13_rest_all_client.

Theorem C13_class_rest_client : forall c s m,
  all_client class_rest_table = true -> class_merge c s = OK m -> c_rest m = c_rest c.
Proof. exact class_rest_client. Qed.
Print Assumptions C13_class_rest_client.

(* a member both sides have in different versions, over the table of its `inner` literal *)
Theorem C13_member_frame : forall tbl ec es m, merge_member tbl ec es = OK m ->
  m_name m = m_name ec /\ m_desc m = m_desc ec /\ m_access m = m_access ec /\
  (m_depr m = m_depr ec /\ m_depr ec = m_depr es) /\ (m_synth m = m_synth ec /\ m_synth ec = m_synth es) /\
  m_inv m = m_inv ec /\
  length (m_rest m) = length (m_rest ec) /\
  (forall i x, nth_error (m_rest ec) i = Some x ->
     let y := match nth_error (m_rest es) i with Some y => y | None => x end in
     match row_act tbl i with
     | AClient => nth_error (m_rest m) i = Some x
     | AServer => nth_error (m_rest m) i = Some y
     | AAssertEq | ABailEq => nth_error (m_rest m) i = Some x /\ x = y
     | _ => False
     end) /\
  (forall i x, nth_error (m_rest ec) i = Some x -> nth_error (m_rest es) i = Some x -> nth_error (m_rest m) i = Some x).
Proof. exact member_frame. Qed.
Print Assumptions C13_member_frame.

(* every member of the merged list, for ANY table: a one-sided member with its mark, a member equal
   on both sides as it is, or the `inner` literal's result for the two versions *)
Theorem C13_shared_member_merged : forall tbl cf sf ms,
  NoDup (map mkey cf) -> NoDup (map mkey sf) -> merge_members tbl cf sf = OK ms ->
  forall m, In m ms ->
    (exists ec, In ec cf /\ ~ In (mkey ec) (map mkey sf) /\ m = mark_member ec Client) \/
    (exists es, In es sf /\ ~ In (mkey es) (map mkey cf) /\ m = mark_member es Server) \/
    (exists ec es, In ec cf /\ In es sf /\ mkey ec = mkey es /\ (m = ec /\ ec = es \/ merge_member tbl ec es = OK m)).
Proof. exact shared_member_merged. Qed.
Print Assumptions C13_shared_member_merged.

(* the class-level side mark: one @Environment(side) appended to the visible annotations, every
   other component of the class untouched *)
Theorem C13_mark_class_frame : forall p sd,
  mark_class p sd = mkClass (c_version p) (c_access p) (c_name p) (c_super p) (c_itfs p) (c_fields p) (c_methods p)
    (c_depr p) (c_synth p) (c_inner p) (c_vis p ++ [AEnv sd]) (c_inv p) (c_perm p) (c_rec p) (c_rest p).
Proof. exact mark_class_frame. Qed.
Print Assumptions C13_mark_class_frame.

(* ------------------------------------------------------------------------------------------
   entry names: the skip rules as the code decides them (predicate trees regenerated from the
   conditions in fn merge) *)

(* today: META-INF/ prefix and .SF, .RSA, .DSA or .EC suffix — the signature file and the three kinds of signature block
   file of the JAR specification (round 5, fix 39805d3; before it .DSA and .EC were kept) —; .class suffix, no net/minecraft/
   prefix, a '/' *)
Theorem C13_rules_today :
  g_signature_rule = PAnd (PStarts s_metainf) (POr (POr (POr (PEnds s_SF) (PEnds s_RSA)) (PEnds s_DSA)) (PEnds s_EC)) /\
  g_library_rule = PAnd (PAnd (PEnds s_class) (PNot (PStarts s_minecraft))) (PContains cSLASH).
Proof. exact (conj (proj1 (proj2 (proj2 rules_today))) (proj1 (proj2 (proj2 (proj2 rules_today))))). Qed.
Print Assumptions C13_rules_today.

Theorem C13_signature_rule_spec : forall n,
  is_signature n = true <->
  (exists r, n = s_metainf ++ r) /\
  ((exists p, n = p ++ s_SF) \/ (exists p, n = p ++ s_RSA) \/ (exists p, n = p ++ s_DSA) \/ (exists p, n = p ++ s_EC)).
Proof. exact signature_rule_spec. Qed.
Print Assumptions C13_signature_rule_spec.

Theorem C13_library_rule_spec : forall n,
  is_server_library n = true <->
  (exists p, n = p ++ s_class) /\ ~ (exists r, n = s_minecraft ++ r) /\ In cSLASH n.
Proof. exact library_rule_spec. Qed.
Print Assumptions C13_library_rule_spec.

(* a class directly in the package net/minecraft or in a sub package, a class in the default
   package, and anything that is not a *.class is never skipped as a bundled library *)
Theorem C13_library_rule_never : forall n,
  (exists r, n = s_minecraft ++ r) \/ ~ In cSLASH n \/ ~ (exists p, n = p ++ s_class) -> is_server_library n = false.
Proof. exact library_rule_never. Qed.
Print Assumptions C13_library_rule_never.

(* what the library rule skips is a class entry of a zip archive (zip_impls.rs decides the kind by the
   name: trailing '/' or '\' directory, .class class) *)
Theorem C13_library_is_class : forall n, is_server_library n = true -> zip_kind n = KClass.
Proof. exact library_is_class. Qed.
Print Assumptions C13_library_is_class.

(* net/minecraft/Bootstrap.class, Top.class, .class kept; net/minecraftx/E.class, net/minecraft.class,
   a/.class bundled; META-INF/sub/Y.SF, META-INF/.SF, META-INF/X.DSA, META-INF/X.EC signature files; meta-inf/Z.SF,
   META-INF/x.dsa, META-INF/X.DSA.txt, META-INF/SIG-X, X.SF, X.DSA not; … (Theory3.rule_examples) *)
Theorem C13_rule_examples : rule_examples.
Proof. exact rule_examples_hold. Qed.
Print Assumptions C13_rule_examples.

(* the verdict on a name is a function of the name and of which jars have it *)
Theorem C13_name_verdict_spec : forall n inc ins,
  match name_verdict n inc ins with
  | VManifest => n = s_manifest
  | VSignature => n <> s_manifest /\ is_signature n = true
  | VLibrary => n <> s_manifest /\ is_signature n = false /\ inc = false /\ ins = true /\ is_server_library n = true
  | VKept => n <> s_manifest /\ is_signature n = false /\ (inc = true \/ ins = false \/ is_server_library n = false)
  end.
Proof. exact name_verdict_spec. Qed.
Print Assumptions C13_name_verdict_spec.

(* the partition: every entry name of either jar lands in exactly one of {replaced manifest, kept,
   skipped as signature file, skipped as bundled library}; the first two are in the merged jar
   (once: its names are duplicate-free), the last two are not; nothing else is in the merged jar *)
Theorem C13_entries_partition : forall (c s : jar) out,
  NoDup (map e_name c) -> NoDup (map e_name s) -> merge_jar c s = OK out ->
  NoDup (map o_name out) /\
  (forall n, In n (map o_name out) -> In n (map e_name c) \/ In n (map e_name s)) /\
  (forall n, In n (map e_name c) \/ In n (map e_name s) ->
     match name_verdict n (memb str_eqb n (map e_name c)) (memb str_eqb n (map e_name s)) with
     | VManifest | VKept => In n (map o_name out)
     | VSignature | VLibrary => ~ In n (map o_name out)
     end).
Proof. exact entries_partition. Qed.
Print Assumptions C13_entries_partition.

(* ------------------------------------------------------------------------------------------
   jars *)

(* every entry name of either jar exactly once, minus signature files (META-INF/*.SF, *.RSA, *.DSA, *.EC) and
   the classes the server bundles (server-only, *.class outside net/minecraft/ in some package);
   in the order client entries first; each entry built from the entries of that name *)
Theorem C13_entries_once : forall (c s : jar) out,
  NoDup (map e_name c) -> NoDup (map e_name s) -> merge_jar c s = OK out ->
  NoDup (map o_name out) /\
  (forall n, In n (map o_name out) <->
     (In n (map e_name c) \/ In n (map e_name s)) /\
     (n = s_manifest \/ (is_signature n = false /\ (In n (map e_name c) \/ is_server_library n = false)))) /\
  subseq (map o_name out) (map e_name c ++ filter (fun n => negb (memb str_eqb n (map e_name c))) (map e_name s)) /\
  (forall oe, In oe out -> entry_spec c s oe).
Proof. exact entries_once. Qed.
Print Assumptions C13_entries_once.

(* entry_spec, spelled out: which content function applies to an entry *)
Theorem C13_entry_spec_unfold : forall c s oe,
  entry_spec c s oe <->
  match find (fun e => str_eqb (e_name e) (o_name oe)) c, find (fun e => str_eqb (e_name e) (o_name oe)) s with
  | Some ce, None => o_attr oe = e_attr ce /\
      (if str_eqb (o_name oe) s_manifest then o_content oe = OOther manifest_bytes else one_side ce Client = OK (o_content oe))
  | None, Some se => o_attr oe = e_attr se /\
      (if str_eqb (o_name oe) s_manifest then o_content oe = OOther manifest_bytes else one_side se Server = OK (o_content oe))
  | Some ce, Some se => o_attr oe = e_attr ce /\
      (if str_eqb (o_name oe) s_manifest then o_content oe = OOther manifest_bytes else both_sides ce se = OK (o_content oe))
  | None, None => False
  end.
Proof. exact (fun c s oe => conj (fun x => x) (fun x => x)). Qed.
Print Assumptions C13_entry_spec_unfold.

(* a class only one side has is read and gets the class-level side mark, nothing else changes *)
Theorem C13_one_sided_class_marked : forall e sd x r raw p,
  e_content e = Class r raw (Some p) -> one_side e sd = OK x ->
  x = OParsed (mark_class p sd) /\
  c_vis (mark_class p sd) = c_vis p ++ [AEnv sd] /\
  c_fields (mark_class p sd) = c_fields p /\ c_methods (mark_class p sd) = c_methods p /\
  c_itfs (mark_class p sd) = c_itfs p /\ c_inv (mark_class p sd) = c_inv p /\ c_rest (mark_class p sd) = c_rest p.
Proof. exact (fun e sd x r raw p H1 H2 => conj (one_sided_class_marked e sd x r raw p H1 H2) (mark_class_adds_side p sd)). Qed.
Print Assumptions C13_one_sided_class_marked.

Theorem C13_one_sided_resource_unchanged : forall e sd x d,
  e_content e = Other d -> one_side e sd = OK x -> x = OOther d.
Proof. exact one_sided_resource_unchanged. Qed.
Print Assumptions C13_one_sided_resource_unchanged.

(* a class with the same bytes on both sides is handed through as these very bytes *)
Theorem C13_identical_class_passed_through : forall ce se x raw pc ps r,
  e_content ce = Class RVec raw pc -> e_content se = Class r raw ps ->
  both_sides ce se = OK x -> x = OVec raw.
Proof. exact identical_class_passed_through. Qed.
Print Assumptions C13_identical_class_passed_through.

(* classes with different bytes are both read and merged by class_merge *)
Theorem C13_differing_class_merged : forall ce se x rc rs rawc raws pc ps,
  e_content ce = Class rc rawc pc -> e_content se = Class rs raws ps -> rawc <> raws ->
  both_sides ce se = OK x -> exists p q m, pc = Some p /\ ps = Some q /\ class_merge p q = OK m /\ x = OParsed m.
Proof. exact differing_class_merged. Qed.
Print Assumptions C13_differing_class_merged.

Theorem C13_shared_resource_is_clients : forall ce se x dc ds,
  e_content ce = Other dc -> e_content se = Other ds -> both_sides ce se = OK x -> x = OOther dc.
Proof. exact shared_resource_is_clients. Qed.
Print Assumptions C13_shared_resource_is_clients.

(* ------------------------------------------------------------------------------------------
   round 5: the clauses of the property for WHOLE jars (read off C13_entries_once entry by entry) *)

(* a class present on one side only is in the merged jar, under its name, as that class plus the class-level mark of that side
   (a server-only class unless the library rule skips its name); a class with the same bytes on both sides is passed through —
   these very bytes, or for a ClassRepr::Parsed input this very tree —; a class with different bytes is the class_merge of the
   two versions, whose fields / methods / interfaces C13_class_merge, C13_members_marked, C13_interfaces_marked describe *)
Theorem C13_jar_classes : forall c s out, NoDup (map e_name c) -> NoDup (map e_name s) -> merge_jar c s = OK out ->
  (forall ce r raw p, In ce c -> e_content ce = Class r raw (Some p) -> ~ In (e_name ce) (map e_name s) ->
     e_name ce <> s_manifest -> is_signature (e_name ce) = false ->
     In (mkOEntry (e_name ce) (e_attr ce) (OParsed (mark_class p Client))) out) /\
  (forall se r raw p, In se s -> e_content se = Class r raw (Some p) -> ~ In (e_name se) (map e_name c) ->
     e_name se <> s_manifest -> is_signature (e_name se) = false -> is_server_library (e_name se) = false ->
     In (mkOEntry (e_name se) (e_attr se) (OParsed (mark_class p Server))) out) /\
  (forall ce se rc rs raw pc ps, In ce c -> In se s -> e_name ce = e_name se ->
     e_content ce = Class rc raw pc -> e_content se = Class rs raw ps ->
     e_name ce <> s_manifest -> is_signature (e_name ce) = false ->
     match rc, pc with
     | RVec, _ => In (mkOEntry (e_name ce) (e_attr ce) (OVec raw)) out
     | RParsed, Some p => In (mkOEntry (e_name ce) (e_attr ce) (OParsed p)) out
     | RParsed, None => True
     end) /\
  (forall ce se rc rs rawc raws pc ps, In ce c -> In se s -> e_name ce = e_name se ->
     e_content ce = Class rc rawc pc -> e_content se = Class rs raws ps -> rawc <> raws ->
     e_name ce <> s_manifest -> is_signature (e_name ce) = false ->
     exists p q m, pc = Some p /\ ps = Some q /\ class_merge p q = OK m /\
                   In (mkOEntry (e_name ce) (e_attr ce) (OParsed m)) out).
Proof. exact jar_classes. Qed.
Print Assumptions C13_jar_classes.

(* every resource of the client, and every server-only resource the library rule does not name, is there unchanged (a resource
   both sides have: the client's bytes); the manifest is the replacement; no signature file is there *)
Theorem C13_jar_other_entries : forall c s out, NoDup (map e_name c) -> NoDup (map e_name s) -> merge_jar c s = OK out ->
  (forall ce d, In ce c -> e_content ce = Other d -> e_name ce <> s_manifest -> is_signature (e_name ce) = false ->
     In (mkOEntry (e_name ce) (e_attr ce) (OOther d)) out) /\
  (forall se d, In se s -> e_content se = Other d -> ~ In (e_name se) (map e_name c) -> e_name se <> s_manifest ->
     is_signature (e_name se) = false -> is_server_library (e_name se) = false ->
     In (mkOEntry (e_name se) (e_attr se) (OOther d)) out) /\
  (forall oe, In oe out -> o_name oe = s_manifest -> o_content oe = OOther manifest_bytes) /\
  (forall n, n <> s_manifest -> is_signature n = true -> ~ In n (map o_name out)).
Proof. exact jar_other_entries. Qed.
Print Assumptions C13_jar_other_entries.

(* the merge YIELDS a jar inside the hypotheses (the half the exact-once theorems presuppose): entries of one name have the same
   kind; classes with the same bytes always combine, classes with different bytes when both are readable and agree as
   C13_class_merge_ok demands; a class only one side has is readable — all of it only for names whose content the merge looks
   at (not the manifest, not a signature file, not a bundled server library) *)
Theorem C13_merge_jar_ok : forall c s, NoDup (map e_name c) -> NoDup (map e_name s) ->
  (forall ce, In ce c -> ~ In (e_name ce) (map e_name s) -> content_matters (e_name ce) -> single_ok ce) ->
  (forall se, In se s -> ~ In (e_name se) (map e_name c) -> content_matters (e_name se) -> is_server_library (e_name se) = false -> single_ok se) ->
  (forall ce se, In ce c -> In se s -> e_name ce = e_name se -> content_matters (e_name ce) -> pair_ok ce se) ->
  exists out, merge_jar c s = OK out.
Proof. exact merge_jar_ok. Qed.
Print Assumptions C13_merge_jar_ok.

Theorem C13_merge_jar_hyps_spec : forall ce se e n,
  (pair_ok ce se <->
   match e_content ce, e_content se with
   | Dir, Dir => True
   | Other _, Other _ => True
   | Class rc rawc pc, Class _ raws ps =>
       if N.eqb rawc raws then (rc = RParsed -> pc <> None)
       else exists p q, pc = Some p /\ ps = Some q /\ classes_agree p q
   | _, _ => False
   end) /\
  (single_ok e <-> match e_content e with Class _ _ None => False | _ => True end) /\
  (content_matters n <-> n <> s_manifest /\ is_signature n = false).
Proof. exact (fun ce se e n => conj (conj (fun x => x) (fun x => x)) (conj (conj (fun x => x) (fun x => x)) (conj (fun x => x) (fun x => x)))). Qed.
Print Assumptions C13_merge_jar_hyps_spec.

(* an input that was merged before: marks accumulate (a second merge appends its own mark, whatever marks are there) *)
Theorem C13_marks_accumulate : forall p m sd sd',
  c_vis (mark_class (mark_class p sd) sd') = c_vis p ++ [AEnv sd; AEnv sd'] /\
  m_inv (mark_member (mark_member m sd) sd') = m_inv m ++ [AEnv sd; AEnv sd'] /\
  (forall e x r raw, e_content e = Class r raw (Some (mark_class p sd)) -> one_side e sd' = OK x ->
     x = OParsed (mark_class (mark_class p sd) sd')).
Proof. exact marks_accumulate. Qed.
Print Assumptions C13_marks_accumulate.

(* non-vacuity: the repaired witness [1;2;3] / [1;9;2;3], an incompatible pair, and a jar pair with
   every kind of table row, evaluated by the model *)
Theorem C13_examples : nonvacuous.
Proof. exact nonvacuous_holds. Qed.
Print Assumptions C13_examples.

(* non-vacuity of the round-5 theorems: a two-step sequence evaluated by the model — step 1 merges jars with a multi-release
   class (META-INF/versions/9/net/minecraft/V.class, differing between the sides: merged and marked), META-INF/X.DSA and X.EC
   (dropped), one-sided classes (marked); step 2 takes the result as the server of a second merge: the class the first merge
   marked CLIENT carries [CLIENT; SERVER] afterwards, the server-only multi-release class falls under the library rule *)
Theorem C13_examples4 : nonvacuous4.
Proof. exact nonvacuous4_holds. Qed.
Print Assumptions C13_examples4.

(* ------------------------------------------------------------------------------------------
   round 7: the side marks as the annotation TREES merge.rs builds (C13/ModelAnn.v: sided_annotation,
   make_annotation, the EnvironmentInterfaces literal, FieldDescriptor::from_class) and the reader of
   these trees (what a consumer, and the harness' proj_ann, takes a tree to say) *)

(* a tree reads as @Environment of side sd iff it is exactly the tree sided_annotation(sd) builds; a tree
   reads as the interface marks l iff it is exactly the EnvironmentInterfaces tree built for l (any names) *)
Theorem C13_env_tree_exact : forall t sd, read_env t = Some sd <-> t = sided_annotation sd.
Proof. exact env_tree_exact. Qed.
Print Assumptions C13_env_tree_exact.

Theorem C13_itfs_tree_exact : forall t marks, read_itfs t = Some marks <-> t = itfs_annotation marks.
Proof. exact itfs_tree_exact. Qed.
Print Assumptions C13_itfs_tree_exact.

(* the abstract marks AEnv / AItfs of the model and the trees are in bijection; the two sides' trees differ *)
Theorem C13_read_ann_bijection :
  (forall a t o, tree_of a = Some t -> read_ann o t = a) /\
  (forall t o a, read_ann o t = a -> tree_of a = Some t \/ a = AOther o) /\
  sided_annotation Client <> sided_annotation Server.
Proof. exact read_ann_bijection. Qed.
Print Assumptions C13_read_ann_bijection.

(* a one-sided class / member gets, after what it had, the tree of its side, which reads as that side only *)
Theorem C13_one_sided_mark_trees : forall p m sd,
  map tree_of (c_vis (mark_class p sd)) = map tree_of (c_vis p) ++ [Some (sided_annotation sd)] /\
  map tree_of (m_inv (mark_member m sd)) = map tree_of (m_inv m) ++ [Some (sided_annotation sd)] /\
  forall sd', read_env (sided_annotation sd) = Some sd' <-> sd' = sd.
Proof. exact one_sided_mark_trees. Qed.
Print Assumptions C13_one_sided_mark_trees.

(* a differing class: after the client's invisible annotations ONE EnvironmentInterfaces tree iff some
   interface is one-sided; it is what pushed_itfs_tree computes (compared with the real tree in stream
   ann-itfs) and reads back as exactly the one-sided interfaces with their sides *)
Theorem C13_class_merge_itf_tree : forall c s m,
  NoDup (c_itfs c) -> NoDup (c_itfs s) -> class_merge c s = OK m ->
  let ci := c_itfs c in let si := c_itfs s in
  exists marks, NoDup marks /\
    (forall sd i, In (sd, i) marks <-> (sd = Client /\ In i ci /\ ~ In i si) \/ (sd = Server /\ In i si /\ ~ In i ci)) /\
    map tree_of (c_inv m) = map tree_of (c_inv c) ++ match marks with [] => [] | _ => [Some (itfs_annotation marks)] end /\
    pushed_itfs_tree ci si = match marks with [] => None | _ => Some (itfs_annotation marks) end /\
    read_itfs (itfs_annotation marks) = Some marks.
Proof. exact class_merge_itf_tree. Qed.
Print Assumptions C13_class_merge_itf_tree.

Theorem C13_ann_examples : ann_examples.
Proof. exact ann_examples_hold. Qed.
Print Assumptions C13_ann_examples.
