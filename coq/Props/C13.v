(* C13 — property theorems only.  Each is closed by [exact <lemma>] and followed by
   Print Assumptions; the statements are pinned here so they cannot be quietly weakened. *)
From Coq Require Import Permutation.
From FB Require Import C13.Model C13.Theory C13.Theory2.

(* merge_preserve_order terminates: the fuel handed over is always enough *)
Theorem C13_mpo_fuel_suffices : forall (A : Type) (eqb : A -> A -> bool), eqb_ok eqb ->
  forall a b : list A, exists r, mpo_res eqb a b = Ok r.
Proof. exact @mpo_fuel_suffices. Qed.
Print Assumptions C13_mpo_fuel_suffices.

(* every element of either list exactly once: the result is a duplicate-free permutation of
   a ++ (b minus a) *)
Theorem C13_mpo_exact_once : forall (A : Type) (eqb : A -> A -> bool), eqb_ok eqb ->
  forall a b r : list A, NoDup a -> NoDup b -> mpo_res eqb a b = Ok r ->
  Permutation r (a ++ filter (fun y => negb (memb eqb y a)) b) /\ NoDup r /\
  (forall x, In x r <-> In x a \/ In x b).
Proof. exact @mpo_exact_once. Qed.
Print Assumptions C13_mpo_exact_once.

(* when the elements both lists have come in the same order in both, both lists are
   subsequences of the result *)
Theorem C13_mpo_order : forall (A : Type) (eqb : A -> A -> bool), eqb_ok eqb ->
  forall a b r : list A,
  filter (fun x => memb eqb x b) a = filter (fun y => memb eqb y a) b ->
  mpo_res eqb a b = Ok r -> subseq a r /\ subseq b r.
Proof. exact @mpo_order. Qed.
Print Assumptions C13_mpo_order.

(* the first (client) order is kept whatever the second list is *)
Theorem C13_mpo_order_client_always : forall (A : Type) (eqb : A -> A -> bool), eqb_ok eqb ->
  forall a b r : list A, mpo_res eqb a b = Ok r -> subseq a r.
Proof. exact @mpo_order_a. Qed.
Print Assumptions C13_mpo_order_client_always.

(* the hypothesis of C13_mpo_order is the expected notion: for duplicate-free lists it holds
   exactly when the two lists have a duplicate-free common supersequence *)
Theorem C13_compatible_iff_common_supersequence : forall (A : Type) (eqb : A -> A -> bool), eqb_ok eqb ->
  forall a b : list A, NoDup a -> NoDup b ->
  (filter (fun x => memb eqb x b) a = filter (fun y => memb eqb y a) b
   <-> exists s, NoDup s /\ subseq a s /\ subseq b s).
Proof. exact @compatible_iff_common_supersequence. Qed.
Print Assumptions C13_compatible_iff_common_supersequence.

(* ------------------------------------------------------------------------------------------
   members of a class both sides have, differing (fields and methods alike) *)

(* every member key of either side exactly once; both key orders kept when compatible (the
   client's always); a member only one side has is that side's member plus the side mark; a member
   both sides have is there unmarked (the client's version); nothing else is there *)
Theorem C13_members_marked : forall cf sf ms : list member,
  NoDup (map mkey cf) -> NoDup (map mkey sf) -> merge_members cf sf = OK ms ->
  let kc := map mkey cf in let ks := map mkey sf in let km := map mkey ms in
  NoDup km /\ Permutation km (kc ++ filter (fun y => negb (memb key_eqb y kc)) ks) /\
  subseq kc km /\
  (filter (fun x => memb key_eqb x ks) kc = filter (fun y => memb key_eqb y kc) ks -> subseq ks km) /\
  (forall ec, In ec cf -> ~ In (mkey ec) ks -> In (mark_member ec Client) ms) /\
  (forall es, In es sf -> ~ In (mkey es) kc -> In (mark_member es Server) ms) /\
  (forall ec es, In ec cf -> In es sf -> mkey ec = mkey es -> In ec ms) /\
  (forall m, In m ms ->
     (exists ec, In ec cf /\ ~ In (mkey ec) ks /\ m = mark_member ec Client) \/
     (exists es, In es sf /\ ~ In (mkey es) kc /\ m = mark_member es Server) \/
     (exists ec es, In ec cf /\ In es sf /\ mkey ec = mkey es /\ m = ec)).
Proof. exact members_marked. Qed.
Print Assumptions C13_members_marked.

(* the side mark is one @Environment(side) appended to the member's invisible annotations,
   nothing else changes *)
Theorem C13_mark_member : forall m sd,
  mark_member m sd = mkMember (m_name m) (m_desc m) (m_access m) (m_depr m) (m_synth m) (m_inv m ++ [AEnv sd]) (m_rest m).
Proof. exact (fun m sd => eq_refl). Qed.
Print Assumptions C13_mark_member.

(* the member merge succeeds whenever shared members agree in the deprecated/synthetic flags
   (the Rust code asserts that) *)
Theorem C13_merge_members_ok : forall cf sf,
  (forall ec es, In ec cf -> In es sf -> mkey ec = mkey es -> m_depr ec = m_depr es /\ m_synth ec = m_synth es) ->
  exists ms, merge_members cf sf = OK ms.
Proof. exact merge_members_ok. Qed.
Print Assumptions C13_merge_members_ok.

(* the merged class, every component of the model's class accounted for: version, access, name
   (equal on both sides) and super class; interfaces merged by merge_preserve_order; fields and
   methods by merge_members (above); no class-level side mark; the client's invisible annotations
   plus one @EnvironmentInterfaces for the one-sided interfaces; PermittedSubclasses absent iff
   absent on both sides, else both lists merged by merge_preserve_order; the record components
   (c_rec) and everything else (c_rest) the client's.  (deprecated/synthetic flags and inner
   classes: see C13_class_merge_ok and the model; they are equal on both sides resp. a keyed union) *)
Theorem C13_class_merge : forall c s m, class_merge c s = OK m ->
  (c_version m = c_version c /\ c_version c = c_version s) /\
  (c_access m = c_access c /\ c_access c = c_access s) /\
  (c_name m = c_name c /\ c_name c = c_name s) /\
  c_super m = c_super c /\
  mpo_res str_eqb (c_itfs c) (c_itfs s) = Ok (c_itfs m) /\
  merge_members (c_fields c) (c_fields s) = OK (c_fields m) /\
  merge_members (c_methods c) (c_methods s) = OK (c_methods m) /\
  c_vis m = c_vis c /\
  c_inv m = c_inv c ++ match itf_marks (c_itfs m) (c_itfs c) (c_itfs s) with [] => [] | marks => [AItfs marks] end /\
  match c_perm c, c_perm s with
  | None, None => c_perm m = None
  | pc, ps => exists l, c_perm m = Some l /\ mpo_res str_eqb (unwrap_or_default pc) (unwrap_or_default ps) = Ok l
  end /\
  c_rec m = c_rec c /\
  c_rest m = c_rest c.
Proof. exact class_merge_spelled. Qed.
Print Assumptions C13_class_merge.

(* permitted subclasses of a class both sides have: present iff either side has them; every
   permitted class of either side exactly once, the client's order always kept, the server's when
   the two orders are compatible *)
Theorem C13_permitted_merged : forall c s m, class_merge c s = OK m ->
  let pc := unwrap_or_default (c_perm c) in let ps := unwrap_or_default (c_perm s) in
  (c_perm m = None <-> c_perm c = None /\ c_perm s = None) /\
  (forall l, c_perm m = Some l ->
     subseq pc l /\
     (filter (fun x => memb str_eqb x ps) pc = filter (fun y => memb str_eqb y pc) ps -> subseq ps l) /\
     (NoDup pc -> NoDup ps -> NoDup l /\ forall x, In x l <-> In x pc \/ In x ps)).
Proof. exact permitted_merged. Qed.
Print Assumptions C13_permitted_merged.

(* inside the hypotheses the class merge returns a class: the two versions agree in version,
   access, name, super class, deprecated/synthetic flags (also of shared members) and in the
   records of shared inner classes — everything else may differ *)
Theorem C13_class_merge_ok : forall c s,
  c_version c = c_version s /\ c_access c = c_access s /\ c_name c = c_name s /\ c_super c = c_super s /\
  c_depr c = c_depr s /\ c_synth c = c_synth s /\
  flags_agree (c_fields c) (c_fields s) /\ flags_agree (c_methods c) (c_methods s) /\
  inner_agree (unwrap_or_default (c_inner c)) (unwrap_or_default (c_inner s)) ->
  exists m, class_merge c s = OK m.
Proof. exact class_merge_ok. Qed.
Print Assumptions C13_class_merge_ok.

(* interfaces: exactly once, orders kept, one-sided ones (and only those) listed with their side
   in one @EnvironmentInterfaces appended to the client's invisible class annotations *)
Theorem C13_interfaces_marked : forall c s m,
  NoDup (c_itfs c) -> NoDup (c_itfs s) -> class_merge c s = OK m ->
  let ci := c_itfs c in let si := c_itfs s in let mi := c_itfs m in
  NoDup mi /\ (forall i, In i mi <-> In i ci \/ In i si) /\
  subseq ci mi /\
  (filter (fun x => memb str_eqb x si) ci = filter (fun y => memb str_eqb y ci) si -> subseq si mi) /\
  exists marks, NoDup marks /\
    (forall sd i, In (sd, i) marks <-> (sd = Client /\ In i ci /\ ~ In i si) \/ (sd = Server /\ In i si /\ ~ In i ci)) /\
    c_inv m = c_inv c ++ match marks with [] => [] | _ => [AItfs marks] end.
Proof. exact interfaces_marked. Qed.
Print Assumptions C13_interfaces_marked.

(* ------------------------------------------------------------------------------------------
   jars *)

(* every entry name of either jar exactly once, minus signature files (META-INF/*.SF, *.RSA) and
   the classes the server bundles (server-only, *.class outside net/minecraft/ in some package);
   in the order client entries first; each entry built from the entries of that name *)
Theorem C13_entries_once : forall (c s : jar) out,
  NoDup (map e_name c) -> NoDup (map e_name s) -> merge_jar c s = OK out ->
  NoDup (map o_name out) /\
  (forall n, In n (map o_name out) <->
     (In n (map e_name c) \/ In n (map e_name s)) /\
     (n = s_manifest \/ (is_signature n = false /\ (In n (map e_name c) \/ is_server_library n = false)))) /\
  subseq (map o_name out) (map e_name c ++ filter (fun n => negb (memb str_eqb n (map e_name c))) (map e_name s)) /\
  (forall oe, In oe out -> entry_spec c s oe).
Proof. exact entries_once. Qed.
Print Assumptions C13_entries_once.

(* entry_spec, spelled out: which content function applies to an entry *)
Theorem C13_entry_spec_unfold : forall c s oe,
  entry_spec c s oe <->
  match find (fun e => str_eqb (e_name e) (o_name oe)) c, find (fun e => str_eqb (e_name e) (o_name oe)) s with
  | Some ce, None => o_attr oe = e_attr ce /\
      (if str_eqb (o_name oe) s_manifest then o_content oe = OOther manifest_bytes else one_side ce Client = OK (o_content oe))
  | None, Some se => o_attr oe = e_attr se /\
      (if str_eqb (o_name oe) s_manifest then o_content oe = OOther manifest_bytes else one_side se Server = OK (o_content oe))
  | Some ce, Some se => o_attr oe = e_attr ce /\
      (if str_eqb (o_name oe) s_manifest then o_content oe = OOther manifest_bytes else both_sides ce se = OK (o_content oe))
  | None, None => False
  end.
Proof. exact (fun c s oe => conj (fun x => x) (fun x => x)). Qed.
Print Assumptions C13_entry_spec_unfold.

(* a class only one side has is read and gets the class-level side mark, nothing else changes *)
Theorem C13_one_sided_class_marked : forall e sd x r raw p,
  e_content e = Class r raw (Some p) -> one_side e sd = OK x ->
  x = OParsed (mark_class p sd) /\
  c_vis (mark_class p sd) = c_vis p ++ [AEnv sd] /\
  c_fields (mark_class p sd) = c_fields p /\ c_methods (mark_class p sd) = c_methods p /\
  c_itfs (mark_class p sd) = c_itfs p /\ c_inv (mark_class p sd) = c_inv p /\ c_rest (mark_class p sd) = c_rest p.
Proof. exact (fun e sd x r raw p H1 H2 => conj (one_sided_class_marked e sd x r raw p H1 H2) (mark_class_adds_side p sd)). Qed.
Print Assumptions C13_one_sided_class_marked.

Theorem C13_one_sided_resource_unchanged : forall e sd x d,
  e_content e = Other d -> one_side e sd = OK x -> x = OOther d.
Proof. exact one_sided_resource_unchanged. Qed.
Print Assumptions C13_one_sided_resource_unchanged.

(* a class with the same bytes on both sides is handed through as these very bytes *)
Theorem C13_identical_class_passed_through : forall ce se x raw pc ps r,
  e_content ce = Class RVec raw pc -> e_content se = Class r raw ps ->
  both_sides ce se = OK x -> x = OVec raw.
Proof. exact identical_class_passed_through. Qed.
Print Assumptions C13_identical_class_passed_through.

(* classes with different bytes are both read and merged by class_merge *)
Theorem C13_differing_class_merged : forall ce se x rc rs rawc raws pc ps,
  e_content ce = Class rc rawc pc -> e_content se = Class rs raws ps -> rawc <> raws ->
  both_sides ce se = OK x -> exists p q m, pc = Some p /\ ps = Some q /\ class_merge p q = OK m /\ x = OParsed m.
Proof. exact differing_class_merged. Qed.
Print Assumptions C13_differing_class_merged.

Theorem C13_shared_resource_is_clients : forall ce se x dc ds,
  e_content ce = Other dc -> e_content se = Other ds -> both_sides ce se = OK x -> x = OOther dc.
Proof. exact shared_resource_is_clients. Qed.
Print Assumptions C13_shared_resource_is_clients.

(* non-vacuity: the repaired witness [1;2;3] / [1;9;2;3], an incompatible pair, and a jar pair with
   every kind of table row, evaluated by the model *)
Theorem C13_examples : nonvacuous.
Proof. exact nonvacuous_holds. Qed.
Print Assumptions C13_examples.
