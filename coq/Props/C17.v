(* C17 — property theorems only.  Each is closed by [exact <lemma>] and followed by
   Print Assumptions; the statements are pinned here so they cannot be quietly weakened.

   Vocabulary (coq/C17): [read_class g T v s] is the model of duke's class_reader::read on the
   byte stream [s] — T the attribute dispatch tables, v what the visitor side answers (interest
   masks per level, accept/decline per class, field, method, record component, code), g the
   grammar oracle for attribute bodies; [tables] are the tables generated from class_reader.rs;
   [enc c] the bytes of the class structure [c]; [wf g T c h]: the header parses to [h], every
   declared attribute_length is the length of the body that follows (and the grammar of a parsed
   body consumes exactly that), flag attributes are empty, names resolve in the pool, no
   insert_if_empty slot is filled twice, at most one Record attribute. *)
From FB Require Import C17.Model C17.AttrTable C17.Theory C17.Theory2 C17.Theory3 C17.Theory4 C17.Struct C17.Theory5 C17.Theory6 C17.Theory7.

(* The attribute dispatch tables that the translator reads off duke/src/class_reader.rs at every
   check: every arm that parses an attribute is preceded by a skip arm guarded by the interest flag
   of that attribute (flag = snake_case of the attribute name; StackMap shares stack_map_table),
   only Deprecated / Synthetic / BootstrapMethods are looked at unconditionally, the default arms
   skip unless unknown_attributes is wanted and then read exactly attribute_length bytes, a declined
   Code attribute is skipped, every ControlFlow::Break path calls skip_attributes, and the member
   loops honour the fields / methods flags. *)
Theorem C17_generated_tables_ok : tables_ok tables = true.
Proof. exact generated_tables_ok. Qed.
Print Assumptions C17_generated_tables_ok.

(* Under any interest mask an attribute is either skipped or handled exactly as under the full
   mask, and which of the two is decided by the one flag that governs the attribute. *)
Theorem C17_dispatch_law : forall ct except m name,
  ctx_ok ct except = true ->
  dispatch (t_arms ct) (t_interests ct) name <> None
  /\ dispatch (t_arms ct) m name
     = (if keep (t_arms ct) m name then dispatch (t_arms ct) (t_interests ct) name else Some ASkip).
Proof. exact dispatch_ctx. Qed.
Print Assumptions C17_dispatch_law.

(* Th 1 (position): for every table set that passes the finite check, every grammar, every
   well-formed class, every visitor (masks and accept/decline choices) and every continuation of
   the stream, the read succeeds, delivers what the specification [spec_class] computes
   from the class structure (so it does not depend on the continuation), and leaves exactly the
   continuation. *)
Theorem C17_position_independent : forall T g c h,
  tables_ok T = true -> wf g T c h ->
  forall v rest, read_class g T v (enc c ++ rest) = Ok (spec_class T v h c, rest).
Proof. exact position_independent. Qed.
Print Assumptions C17_position_independent.

Theorem C17_final_position : forall T g c h,
  tables_ok T = true -> wf g T c h ->
  forall v rest t r, read_class g T v (enc c ++ rest) = Ok (t, r) ->
    (length (enc c ++ rest) - length r = length (enc c))%nat.
Proof. exact final_position. Qed.
Print Assumptions C17_final_position.

(* Th 2 (concatenation): successive reads on enc c1 ++ enc c2 ++ … deliver c1, c2, … each as if
   read alone, whatever each of the visitors skips or declines. *)
Theorem C17_concat : forall T g (items : list item),
  tables_ok T = true -> Forall (fun x => wf g T (i_cls x) (i_hdr x)) items ->
  forall rest,
    read_many g T (map i_vis items) (flat_map (fun x => enc (i_cls x)) items ++ rest)
    = Ok (map (fun x => spec_class T (i_vis x) (i_hdr x) (i_cls x)) items, rest).
Proof. exact concat. Qed.
Print Assumptions C17_concat.

(* Th 3 (projection): what a masked / declining visitor receives is the projection of what the
   full accepting visitor [v_full] receives from the same bytes — same order; [project] filters
   attribute events by the flag that governs their attribute, replaces the contents of a declined
   member / record component / Code by "declined", and is local: what it does to the k-th member
   depends only on the visitor's answers for that member, so declining an item never disturbs
   the items after it.  Both reads stop at the same place. *)
Theorem C17_partial_is_projection : forall T g c h,
  tables_ok T = true -> wf g T c h ->
  forall v rest,
    exists t_full,
      read_class g T (v_full T) (enc c ++ rest) = Ok (t_full, rest)
      /\ read_class g T v (enc c ++ rest) = Ok (project T v t_full, rest).
Proof. exact partial_is_projection. Qed.
Print Assumptions C17_partial_is_projection.

(* "declining an item never disturbs the items after it": what the projection does to a member's
   event depends only on the visitor's answers for that very member (accept/decline, its mask, its
   visit_code answer); two visitors that differ in what they answer for other members receive the
   same events for this one. *)
Theorem C17_projection_local : forall T v1 v2 e,
  v_class v1 = v_class v2 -> (forall k, v_rc v1 k = v_rc v2 k) ->
  answers_at v1 e = answers_at v2 e ->
  proj_member T v1 e = proj_member T v2 e.
Proof. exact projection_local. Qed.
Print Assumptions C17_projection_local.

(* the same on the specification: [spec_class] computes the events from the class structure *)
Theorem C17_spec_projection : forall T g c h v,
  tables_ok T = true -> wf g T c h ->
  spec_class T v h c = project T v (spec_class T (v_full T) h c).
Proof. exact spec_projection. Qed.
Print Assumptions C17_spec_projection.

(* the two theorems for the tables of the code as it is now *)
Theorem C17_position_generated : forall g c h,
  wf g tables c h ->
  forall v rest, read_class g tables v (enc c ++ rest) = Ok (spec_class tables v h c, rest).
Proof. exact (fun g c h => position_independent tables g c h generated_tables_ok). Qed.
Print Assumptions C17_position_generated.

(* Th 1 and Th 3 with decidable hypotheses only: for the grammar of the correspondence run
   ([g_len]: a parsed body consumes exactly attribute_length) and the generated tables, [wf_b]
   is a boolean function of the class structure; the correspondence run evaluates
   [stream_wf tables] (decode, re-encode, wf_b) on every stream it compares. *)
Theorem C17_position_decidable : forall c, wf_b tables c = true ->
  forall v rest, read_class g_len tables v (enc c ++ rest) = Ok (spec_class tables v (header_of c) c, rest).
Proof. exact position_decidable. Qed.
Print Assumptions C17_position_decidable.

Theorem C17_projection_decidable : forall c, wf_b tables c = true ->
  forall v rest,
    read_class g_len tables v (enc c ++ rest)
    = Ok (project tables v (spec_class tables (v_full tables) (header_of c) c), rest).
Proof. exact projection_decidable. Qed.
Print Assumptions C17_projection_decidable.

(* non-vacuity: a javac-17 class file with fields, methods, code and debug tables decodes to a
   structure that satisfies wf_b and encodes back to the same bytes *)
Theorem C17_examples : nonvacuous.
Proof. exact nonvacuous_holds. Qed.
Print Assumptions C17_examples.

(* ======================= the replay half (Th 4) =======================

   Vocabulary (coq/C17/Replay.v, Theory8.v, Theory9.v): [build strict T AT t] is the model of duke's
   tree-building visitor (visitor/implementations/tree.rs) fed with the events [t] of one class:
   which visit call an attribute's reader arm makes, which tree field that call stores into and how
   (insert_if_empty / assignment / extend / push) come from the generated AcceptTable.v; Err where the
   real builder errs (`only one X attribute is allowed`) or where [t] is no visitor protocol at all.
   [accept_class T AT v tree] is the model of ClassFile::accept and the accept() functions below it,
   driven by the generated list of their statements (order, interest flag, emptiness guard, visit
   call).  [accept_ok T AT] is the finite check of those tables against the reader's dispatch tables.
   [sim_trace]: the attribute-level events of one item as a multiset, Code / record components /
   fields / methods by index and header with equivalent contents, a table visited after the loop by
   the rows it holds.  [v_full T]: every interest, nothing declined.
   [build true] ("strict") additionally refuses the two situations in which a tree cannot tell
   what the reader said: an annotations attribute with no annotations, an at-most-once attribute
   that the builder merges or overwrites occurring twice.  [replay_inexact] = "the strict builder
   refuses".  (A LocalVariableTable / LocalVariableTypeTable without rows was a third until the
   reader and Code::accept were given one rule for it — an empty table is handed only to a visitor
   interested in both tables; both guards are read off the source, [t_whole] / [SLocals … whole],
   and the finite check compares them.) *)
From FB Require Import C17.Replay C17.AcceptTable C17.Theory8 C17.Theory9 C17.Theory11 C17.Theory13 C17.Theory14.

(* The tables that the translator reads off class_reader.rs, visitor/implementations/tree.rs and
   tree/{class,field,method,method/code,record}.rs at every check: every attribute the reader
   delivers is stored by the builder in a field that exactly one statement of accept() reads, with
   the same visit call, under the interest flag that governs the attribute in the reader, with the
   emptiness guard that fits the field (Option: if let Some, Vec: !is_empty()); likewise the tables
   delivered after the loop, unknown attributes, flags, Code, record components, fields, methods;
   accept() replays nothing else, consults only existing flags, no field twice. *)
Theorem C17_generated_accept_tables_ok : accept_ok tables accept_tables_gen = true.
Proof. exact generated_accept_ok. Qed.
Print Assumptions C17_generated_accept_tables_ok.

(* Th 4a (replay_is_projection): for all tables that pass the finite checks, every event list that
   the strict tree builder accepts, and every visitor: replaying the tree delivers the projection
   of the events, up to sim_trace. *)
Theorem C17_replay_is_projection : forall T AT,
  tables_ok T = true -> accept_ok T AT = true ->
  forall (t_full : option (list ev)) tree,
    build true T AT t_full = Ok tree ->
    forall v, sim_trace (accept_class T AT v tree) (project T v t_full).
Proof. exact replay_is_projection. Qed.
Print Assumptions C17_replay_is_projection.

(* Th 4b (replay_equals_partial_read): on the bytes of a well-formed class — replaying the tree of
   the full read into a visitor ≈ reading the bytes with that visitor. *)
Theorem C17_replay_equals_partial_read : forall T AT g c h,
  tables_ok T = true -> accept_ok T AT = true -> wf g T c h ->
  forall rest,
    exists t_full,
      read_class g T (v_full T) (enc c ++ rest) = Ok (t_full, rest)
      /\ forall tree, build true T AT t_full = Ok tree ->
           forall v, exists t_v, read_class g T v (enc c ++ rest) = Ok (t_v, rest)
                                 /\ sim_trace (accept_class T AT v tree) t_v.
Proof. exact replay_equals_partial_read. Qed.
Print Assumptions C17_replay_equals_partial_read.

(* Th 4c (rebuild): replaying a tree into the tree builder reproduces the tree — for every event
   list the (strict or lenient) builder accepts, without any restriction. *)
Theorem C17_rebuild : forall T AT,
  tables_ok T = true -> accept_ok T AT = true ->
  forall strict t_full tree, build strict T AT t_full = Ok tree ->
    build false T AT (accept_class T AT (v_full T) tree) = Ok tree.
Proof. exact rebuild. Qed.
Print Assumptions C17_rebuild.

(* the strict builder is the lenient one wherever it succeeds *)
Theorem C17_strict_lenient : forall T AT t_full tree,
  build true T AT t_full = Ok tree -> build false T AT t_full = Ok tree.
Proof. exact strict_lenient. Qed.
Print Assumptions C17_strict_lenient.

(* restricted by the decidable known class *)
Theorem C17_replay_known : forall T AT,
  tables_ok T = true -> accept_ok T AT = true ->
  forall t_full tree, build false T AT t_full = Ok tree -> replay_inexact T AT t_full = false ->
    forall v, sim_trace (accept_class T AT v tree) (project T v t_full).
Proof. exact replay_known. Qed.
Print Assumptions C17_replay_known.

(* all of it for the code as it is, with decidable hypotheses only (wf_b, build = Ok, replay_inexact) *)
Theorem C17_replay_decidable : forall c, wf_b tables c = true ->
  forall rest,
    let t_full := spec_class tables (v_full tables) (header_of c) c in
    read_class g_len tables (v_full tables) (enc c ++ rest) = Ok (t_full, rest)
    /\ forall tree, build false tables accept_tables_gen t_full = Ok tree ->
         build false tables accept_tables_gen (accept_class tables accept_tables_gen (v_full tables) tree) = Ok tree
         /\ (replay_inexact tables accept_tables_gen t_full = false ->
             forall v, read_class g_len tables v (enc c ++ rest) = Ok (project tables v t_full, rest)
                       /\ sim_trace (accept_class tables accept_tables_gen v tree) (project tables v t_full)).
Proof. exact replay_decidable. Qed.
Print Assumptions C17_replay_decidable.

(* the known class is not empty, and the restriction is needed: two witnesses (class structure,
   visitor) on which the class is well-formed, the tree builder succeeds, the strict builder
   refuses, and replay and read differ.  F20a: `class A` with an empty RuntimeVisibleAnnotations,
   full visitor.  Precondition: RuntimeVisibleAnnotations twice on one class. *)
Theorem C17_replay_empty_annotations_refuted : refutes w_empty_annotations (v_full tables).
Proof. exact replay_empty_annotations_refuted. Qed.
Print Assumptions C17_replay_empty_annotations_refuted.

Theorem C17_replay_duplicate_refuted : refutes w_duplicate (v_full tables).
Proof. exact replay_duplicate_refuted. Qed.
Print Assumptions C17_replay_duplicate_refuted.

(* the unrestricted statement [replay_full] (Theory14.v) is not a theorem *)
Theorem C17_replay_full_refuted : ~ replay_full.
Proof. exact replay_full_refuted. Qed.
Print Assumptions C17_replay_full_refuted.

(* non-vacuity: the javac-17 class of C17_examples is outside the known class and its tree is built *)
Theorem C17_replay_examples : replay_nonvacuous.
Proof. exact replay_nonvacuous_holds. Qed.
Print Assumptions C17_replay_examples.

(* ======================= contents of the table-like deliveries of Code =======================

   Vocabulary (coq/C17/Model.v, Replay.v, Theory15.v).  The events carry PARSED rows: [EDeferred slot sources]
   — a table visited after the Code attribute loop (visit_line_numbers, visit_local_variables) — holds, per
   attribute that was collected into it (file order), the rows that attribute contributed, one row = the u16
   fields its arm reads (LineNumberTable [start_pc; line_number]; LocalVariableTable [start_pc; length;
   name_index; descriptor_index; index]; LocalVariableTypeTable the same with signature_index); the number
   of u16 per row is read off the arm's loop by the translator ([t_rows]).  [ECode … exc …] holds the rows of
   the exception table [start_pc; end_pc; handler_pc; catch_type].  The tree keeps a table as its rows in
   order, each tagged with the attribute it came from (for a local variable: whether descriptor or signature
   is Some); Code::accept filters them row by row.  Because the theorems above are equalities / [sim_trace]
   on these events, they already cover the rows; the statements below say so explicitly.
   [delivers t k d]: in trace t the code visitor of the k-th method is handed d — [DTable slot rows] (the
   rows of one table, in order, each with its source attribute) or [DExc rows] (the exception table).
   [restrict T cm d]: d without the rows of the attributes that the code interests cm do not cover. *)
From FB Require Import C17.Theory15.

(* the parsed rows are the values the bytes encode: the row parser inverts the row encoder, for every width *)
Theorem C17_table_rows_parse : forall w rows, Forall (fun r => length r = w) rows ->
  table_rows (N.of_nat w) (enc_table rows) = rows.
Proof. exact table_rows_enc. Qed.
Print Assumptions C17_table_rows_parse.

Theorem C17_exc_rows_parse : forall rows, Forall (fun r => length r = 4%nat) rows ->
  exc_rows (elen rows) (flat_map enc_row rows) = rows.
Proof. exact exc_rows_enc. Qed.
Print Assumptions C17_exc_rows_parse.

(* with the row widths the translator reads off class_reader.rs today: 2, 5 and 5 u16 *)
Theorem C17_generated_rows_of :
  (forall rows, Forall (fun r => length r = 2%nat) rows -> rows_of code_table nLNT (enc_table rows) = rows)
  /\ (forall rows, Forall (fun r => length r = 5%nat) rows -> rows_of code_table nLVT (enc_table rows) = rows)
  /\ (forall rows, Forall (fun r => length r = 5%nat) rows -> rows_of code_table nLVTT (enc_table rows) = rows).
Proof. exact generated_rows_of. Qed.
Print Assumptions C17_generated_rows_of.

(* content_projection for the tables: whatever the projection hands the code visitor of method k is what the
   full trace hands it, minus the rows of the attributes outside its interests — same rows, same order; the
   exception table is handed over unchanged *)
Theorem C17_project_delivers : forall T v t k d, delivers (project T v t) k d ->
  exists cm d0, v_code v k = Some cm /\ delivers t k d0 /\ d = restrict T cm d0.
Proof. exact project_delivers. Qed.
Print Assumptions C17_project_delivers.

(* … on the bytes of a well-formed class, for every visitor *)
Theorem C17_read_rows_projection : forall T g c h, tables_ok T = true -> wf g T c h ->
  forall v rest t_v, read_class g T v (enc c ++ rest) = Ok (t_v, rest) ->
  forall k d, delivers t_v k d ->
    exists cm d0, v_code v k = Some cm /\ delivers (spec_class T (v_full T) h c) k d0 /\ d = restrict T cm d0.
Proof. exact read_rows_projection. Qed.
Print Assumptions C17_read_rows_projection.

(* the equivalence of the replay theorems preserves every delivery: same tables, same rows in the same order
   with the same source attribute, same exception table *)
Theorem C17_sim_delivers : forall a b, sim_trace a b -> forall k d, delivers a k d <-> delivers b k d.
Proof. exact sim_delivers. Qed.
Print Assumptions C17_sim_delivers.

(* content_replay for the tables: replaying the tree hands every visitor exactly the deliveries of the
   projection of the full read *)
Theorem C17_replay_rows : forall T AT, tables_ok T = true -> accept_ok T AT = true ->
  forall t_full tree, build true T AT t_full = Ok tree ->
  forall v k d, delivers (accept_class T AT v tree) k d <-> delivers (project T v t_full) k d.
Proof. exact replay_rows. Qed.
Print Assumptions C17_replay_rows.

Theorem C17_replay_rows_known : forall T AT, tables_ok T = true -> accept_ok T AT = true ->
  forall t_full tree, build false T AT t_full = Ok tree -> replay_inexact T AT t_full = false ->
  forall v k d, delivers (accept_class T AT v tree) k d <-> delivers (project T v t_full) k d.
Proof. exact replay_rows_known. Qed.
Print Assumptions C17_replay_rows_known.

(* non-vacuity, and the order of the rows: a Code with LocalVariableTypeTable, LocalVariableTable,
   LocalVariableTypeTable (one row each) and one exception-table entry is well-formed, outside the known
   class, its tree is built; reading and replaying deliver the three rows in FILE order to the full visitor,
   and the two type-table rows in order to a visitor interested in local_variable_type_table only *)
Theorem C17_interleaved_tables : interleaved_statement.
Proof. exact interleaved_holds. Qed.
Print Assumptions C17_interleaved_tables.

(* tables WITHOUT rows (the former finding F20b; corpus/C17/replay/RowlessLocalVariableTable.class is [enc w_rowless_locals]):
   a Code whose only table is a LocalVariableTable without rows, and a Code with a LocalVariableTable of one row next to a
   LocalVariableTypeTable without rows, are well-formed and OUTSIDE the known class; reading the bytes and replaying the tree
   hand the same to the full visitor (the table, without rows / with the one row), to a visitor interested in
   local_variable_table only and to one interested in local_variable_type_table only (local variables exactly when there is a
   row for it) *)
Theorem C17_rowless_tables : rowless_statement.
Proof. exact rowless_holds. Qed.
Print Assumptions C17_rowless_tables.

(* ======================= the tree builder succeeds (build_succeeds) =======================

   Vocabulary (coq/C17/Theory16.v).  [once_b T AT c]: no item of c (the class, a field, a method, a Code, a record
   component) carries two attributes whose visit call fills the same insert_if_empty field of the tree
   (Signature, ConstantValue, EnclosingMethod, …; attributes that are merged or overwritten — annotation lists,
   debug tables — may repeat), and no method has two Code attributes; decidable, computed from the generated
   tables.  [build_ok T AT]: one more finite check of the generated tables — the tables visited after an attribute
   loop are distinct and their visit calls are not the visit call of any arm. *)
From FB Require Import C17.Theory16.

Theorem C17_generated_build_ok : build_ok tables accept_tables_gen = true.
Proof. exact generated_build_ok. Qed.
Print Assumptions C17_generated_build_ok.

(* for ALL tables that pass the finite checks, every grammar and every well-formed class without a repeated
   at-most-once attribute: the (lenient) tree builder accepts the events of the full read — the hypothesis
   `build … = Ok tree` of C17_rebuild / C17_replay_known / C17_replay_rows_known is met *)
Theorem C17_build_succeeds_gen : forall T AT g c h,
  tables_ok T = true -> accept_ok T AT = true -> build_ok T AT = true ->
  wf g T c h ->
  forallb (fun m => once_item_b (h_pool h) T AT (rt_field T) (at_field AT) (m_attrs m)) (c_fields c) = true ->
  forallb (fun m => once_item_b (h_pool h) T AT (rt_method T) (at_method AT) (m_attrs m)) (c_methods c) = true ->
  once_item_b (h_pool h) T AT (rt_class T) (at_class AT) (c_attrs c) = true ->
  exists tree, build false T AT (spec_class T (v_full T) h c) = Ok tree.
Proof. exact build_succeeds_gen. Qed.
Print Assumptions C17_build_succeeds_gen.

(* for the code as it is, with decidable hypotheses only *)
Theorem C17_build_succeeds : forall c, wf_b tables c = true -> once_b tables accept_tables_gen c = true ->
  exists tree, build false tables accept_tables_gen (spec_class tables (v_full tables) (header_of c) c) = Ok tree.
Proof. exact build_succeeds. Qed.
Print Assumptions C17_build_succeeds.

(* non-vacuity (the javac-17 class of C17_examples satisfies both hypotheses) and necessity (a class with two
   Signature attributes is well-formed, violates once_b, and the builder refuses it) *)
Theorem C17_build_once_examples : once_examples.
Proof. exact once_examples_hold. Qed.
Print Assumptions C17_build_once_examples.

(* everything together for the code as it is, with decidable hypotheses only (wf_b, once_b, replay_inexact): the
   tree of the full read exists; replaying it into the tree builder reproduces it; and outside the known class,
   for EVERY visitor, replaying the tree delivers what reading the bytes delivers — the same events up to the
   order of attribute-level events within an item, and the same line-number / local-variable / exception tables
   row by row in the same order *)
Theorem C17_replay_total : forall c, wf_b tables c = true -> once_b tables accept_tables_gen c = true ->
  exists tree, build false tables accept_tables_gen (full_of c) = Ok tree
    /\ build false tables accept_tables_gen (accept_class tables accept_tables_gen (v_full tables) tree) = Ok tree
    /\ (replay_inexact tables accept_tables_gen (full_of c) = false ->
        forall v rest, exists t_v, read_class g_len tables v (enc c ++ rest) = Ok (t_v, rest)
           /\ sim_trace (accept_class tables accept_tables_gen v tree) t_v
           /\ forall k d, delivers (accept_class tables accept_tables_gen v tree) k d <-> delivers t_v k d).
Proof. exact replay_total. Qed.
Print Assumptions C17_replay_total.

(* ======================= parsed VALUES: annotations, AnnotationDefault, Signature, SourceFile =======================

   Vocabulary (coq/C17/Values.v, ValuesGen.v, Theory17.v, Theory18.v).  [evalue]: an element_value tree (JVMS 4.7.16.1) with
   its pool indices; [enc_value] / [enc_annotations] its JVMS encoding; [p_value X fuel] / [p_annotations X] the model of
   duke's `read_element_value_unnamed` / `read_element_values_named` / `read_annotations_attribute`, driven by the table X
   (tags, pool accessor of every constant tag, MAX_ELEMENT_VALUE_NESTING) that translate/c17_values.py reads off
   class_reader.rs at every check ([xtable_gen]); [xtable_ok X]: the five kinds of arms are told apart by their tags.
   [attr_value X V rs loc name raw body]: the value a visitor at location [loc] (0 class, 1 field, 2 method, 3 Code, 4 record
   component; [loc_of pl]) is handed for the attribute [name] with body [body] — the parsed tree with every index resolved by
   [rs] (strings, numeric constants narrowed as the accessor narrows them), flattened; defined for the annotations attributes,
   AnnotationDefault, the attributes whose body is one index of a string, the attributes that are rows of pool indices and
   flags, with the layout read off their reader arm, and the TYPE annotations attributes ([vnames_gen]).
   [attr_at t pl e]: in trace t the visitor at place pl (class, k-th field, k-th method, Code of the k-th method, k-th record
   component) receives the attribute event e (name, raw?, body);  [value_at … t pl name val]: … and its parsed value is val.
   [wanted T v pl name]: v accepts the class and the item at pl, and the interest flags that govern [name] there (and the Code /
   Record attribute and the fields / methods around it) are set. *)
From FB Require Import C17.Values C17.ValuesGen C17.Theory17 C17.Theory18.

Theorem C17_generated_xtable_ok : xtable_ok xtable_gen = true.
Proof. exact generated_xtable_ok. Qed.
Print Assumptions C17_generated_xtable_ok.

(* the parsed value IS the value the bytes encode, and the parser consumes exactly the encoding: for every table that passes
   the finite check, every element_value tree whose constants carry constant tags, nested at most [fuel] deep *)
Theorem C17_element_value_parse : forall X, xtable_ok X = true ->
  forall f v rest, value_ok X v = true -> (depth v <= f)%nat ->
    p_value X f (enc_value X v ++ rest) = Ok (v, rest).
Proof. exact p_value_enc. Qed.
Print Assumptions C17_element_value_parse.

Theorem C17_annotations_parse : forall X, xtable_ok X = true -> forall l rest,
  forallb (annotation_ok X) l = true ->
  p_annotations X (enc_annotations X l ++ rest) = Ok (l, rest).
Proof. exact p_annotations_enc. Qed.
Print Assumptions C17_annotations_parse.

(* one level deeper than the limit is refused (arrays nested fuel+1 deep around any value) *)
Theorem C17_element_value_too_deep : forall X, xtable_ok X = true ->
  forall f v rest, p_value X f (enc_value X (nest_arrays (S f) v) ++ rest) = Err.
Proof. exact p_value_too_deep. Qed.
Print Assumptions C17_element_value_too_deep.

(* what the visitor is handed for an annotations attribute is the resolved, flattened list of the annotations it encodes *)
Theorem C17_attr_value_annotations : forall X V rs loc name l, xtable_ok X = true ->
  existsb (str_eqb name) (vn_type_annotations V) = false ->
  existsb (str_eqb name) (vn_annotations V) = true -> forallb (annotation_ok X) l = true ->
  attr_value X V rs loc name false (enc_annotations X l) = Some (canon_annotations X rs l).
Proof. exact attr_value_annotations. Qed.
Print Assumptions C17_attr_value_annotations.

Theorem C17_values_examples : values_nonvacuous.
Proof. exact values_nonvacuous_holds. Qed.
Print Assumptions C17_values_examples.

(* content_projection for attributes: the projection hands a place exactly the attributes (name, body) of the full trace that
   the visitor wants there — nothing else, nothing changed *)
Theorem C17_project_attr_at : forall T v t pl n r b,
  attr_at (project T v t) pl (EAttr n r b) <-> attr_at t pl (EAttr n r b) /\ wanted T v pl n.
Proof. exact project_attr_at. Qed.
Print Assumptions C17_project_attr_at.

(* the equivalence of the replay theorems preserves them *)
Theorem C17_sim_attr_at : forall a b, sim_trace a b ->
  forall pl n r body, attr_at a pl (EAttr n r body) <-> attr_at b pl (EAttr n r body).
Proof. exact sim_attr_at. Qed.
Print Assumptions C17_sim_attr_at.

(* reading: at every place a visitor is handed exactly the parsed values the full read reports there, if it wants them *)
Theorem C17_read_values_projection : forall X V rs T g c h, tables_ok T = true -> wf g T c h ->
  forall v rest t_v, read_class g T v (enc c ++ rest) = Ok (t_v, rest) ->
  forall pl name val,
    value_at X V rs t_v pl name val <-> value_at X V rs (spec_class T (v_full T) h c) pl name val /\ wanted T v pl name.
Proof. exact read_values_projection. Qed.
Print Assumptions C17_read_values_projection.

(* replaying: the same for the tree of the full read replayed into any visitor *)
Theorem C17_replay_values : forall X V rs T AT, tables_ok T = true -> accept_ok T AT = true ->
  forall t_full tree, build true T AT t_full = Ok tree ->
  forall v pl name val,
    value_at X V rs (accept_class T AT v tree) pl name val <-> value_at X V rs t_full pl name val /\ wanted T v pl name.
Proof. exact replay_values. Qed.
Print Assumptions C17_replay_values.

Theorem C17_replay_values_known : forall X V rs T AT, tables_ok T = true -> accept_ok T AT = true ->
  forall t_full tree, build false T AT t_full = Ok tree -> replay_inexact T AT t_full = false ->
  forall v pl name val,
    value_at X V rs (accept_class T AT v tree) pl name val <-> value_at X V rs t_full pl name val /\ wanted T v pl name.
Proof. exact replay_values_known. Qed.
Print Assumptions C17_replay_values_known.

(* for the code as it is, with decidable hypotheses only: reading with any visitor and replaying into it hand over the same
   parsed values at every place, and they are those of the full read that the visitor wants *)
Theorem C17_values_total : forall c, wf_b tables c = true -> once_b tables accept_tables_gen c = true ->
  replay_inexact tables accept_tables_gen (full_of c) = false ->
  exists tree, build false tables accept_tables_gen (full_of c) = Ok tree
    /\ forall rs v rest, exists t_v, read_class g_len tables v (enc c ++ rest) = Ok (t_v, rest)
         /\ forall pl name val,
              (value_at xtable_gen vnames_gen rs t_v pl name val
               <-> value_at xtable_gen vnames_gen rs (full_of c) pl name val /\ wanted tables v pl name)
              /\ (value_at xtable_gen vnames_gen rs (accept_class tables accept_tables_gen v tree) pl name val
                  <-> value_at xtable_gen vnames_gen rs t_v pl name val).
Proof. exact values_total. Qed.
Print Assumptions C17_values_total.

Theorem C17_values_example : values_example.
Proof. exact values_example_holds. Qed.
Print Assumptions C17_values_example.

(* the attributes that are rows of constant pool indices and flags (InnerClasses, EnclosingMethod, NestHost, NestMembers,
   PermittedSubclasses, ModuleMainClass, ModulePackages, Exceptions, MethodParameters; layouts read off their reader arms by the
   translator: [layouts_gen]): the row parser inverts the encoding and consumes exactly it, for every layout; and the value handed
   over is the rows with every index resolved and every flags word masked as the tree type's From<u16> masks it *)
Theorem C17_layout_parse : forall lay rows rest, rows_ok lay rows = true ->
  p_layout lay (enc_layout lay rows ++ rest) = Ok (rows, rest).
Proof. exact p_layout_enc. Qed.
Print Assumptions C17_layout_parse.

Theorem C17_attr_value_layout : forall X V rs loc name lay rows,
  existsb (str_eqb name) (vn_type_annotations V) = false ->
  existsb (str_eqb name) (vn_annotations V) = false -> str_eqb name (vn_element V) = false ->
  existsb (str_eqb name) (vn_index V) = false -> assoc_layout name (vn_layouts V) = Some lay ->
  rows_ok lay rows = true ->
  attr_value X V rs loc name false (enc_layout lay rows) = Some (canon_layout rs lay rows).
Proof. exact attr_value_layout. Qed.
Print Assumptions C17_attr_value_layout.

(* ======================= parsed VALUES of type annotations (JVMS 4.7.20) =======================

   Vocabulary (coq/C17/Values.v).  [tannot]: one type annotation — target_type, the values of its target_info (one per field the
   reader's arm reads: a u8, a u16, a bytecode offset that becomes a label, or the table of a local-variable target: rows of
   start_pc, length, index), the type_path (kind, index), the annotation's type index and element-value pairs.  [ttable]:
   target_type -> the fields its arm reads; [tytable] = per location (0 class, 1 field, 2 method, 3 Code, 4 record component) the
   ttable of the `impl TargetInfoRead` that the location's visitor trait demands (inside Code: `read_type_reference_code`), and which
   type_path kinds carry an index — all read off class_reader.rs, class_constants.rs and the visitor traits at every check
   ([targets_gen], [path_kinds_gen]).  [p_type_annotations X Y loc]: the model of `read_type_annotations_attribute(_code)` at that
   location; [enc_type_annotations]: the JVMS encoding; [tannot_ok]: the target type has an arm there, the values fit its fields,
   path kinds exist and carry an index only where the reader admits one, element values as for annotations.
   [canon_type_annotations]: what the visitor is handed — target type and target info as numbers (a label as the offset it stands
   for, a range as start_pc and length), the path, the annotation resolved.  Because [value_at] is defined through [attr_value] at
   [loc_of pl], C17_read_values_projection / C17_replay_values(_known) / C17_values_total above now also speak of these values. *)

(* the parser inverts the encoding and consumes exactly it: for every table of target types and every location it has arms for *)
Theorem C17_type_annotations_parse : forall X Y loc tbl, xtable_ok X = true -> assocN loc (ty_targets Y) = Some tbl ->
  forall l rest, forallb (tannot_ok X (ty_path Y) tbl) l = true ->
    p_type_annotations X Y loc (enc_type_annotations X tbl l ++ rest) = Ok (l, rest).
Proof. exact p_type_annotations_enc. Qed.
Print Assumptions C17_type_annotations_parse.

(* a target type that the location has no arm for is refused, whatever follows (e.g. FIELD inside a method_info: C01's F13t) *)
Theorem C17_type_annotations_foreign_target : forall X Y loc tbl t n rest,
  assocN loc (ty_targets Y) = Some tbl -> assocN t tbl = None ->
  p_type_annotations X Y loc (e16 (N.succ n) ++ t :: rest) = Err.
Proof. exact p_type_annotations_foreign_target. Qed.
Print Assumptions C17_type_annotations_foreign_target.

(* an index on a type_path kind that carries none (array, nested, wildcard) is refused *)
Theorem C17_type_path_index_refused : forall K k i rest, assocN k K = Some false -> i <> 0 ->
  p_type_path K (1 :: k :: i :: rest) = Err.
Proof. exact p_type_path_index_refused. Qed.
Print Assumptions C17_type_path_index_refused.

(* what the visitor is handed for a type annotations attribute is the resolved, flattened list of the type annotations it encodes *)
Theorem C17_attr_value_type_annotations : forall X V rs loc name tbl l, xtable_ok X = true ->
  existsb (str_eqb name) (vn_type_annotations V) = true -> assocN loc (ty_targets (vn_types V)) = Some tbl ->
  forallb (tannot_ok X (ty_path (vn_types V)) tbl) l = true ->
  attr_value X V rs loc name false (enc_type_annotations X tbl l) = Some (canon_type_annotations X rs l).
Proof. exact attr_value_type_annotations. Qed.
Print Assumptions C17_attr_value_type_annotations.

(* non-vacuity with the tables of the code as it is: a method-level and two Code-level type annotations satisfy [tannot_ok], their
   encodings are the stated bytes and parse back; FIELD (0x13) is refused at a method and accepted at a field *)
Theorem C17_type_values_examples : type_values_nonvacuous.
Proof. exact type_values_nonvacuous_holds. Qed.
Print Assumptions C17_type_values_examples.

(* … and through the whole chain: a class with a class-level and a Code-level RuntimeVisibleTypeAnnotations is well-formed, outside
   the known class, and the full visitor is handed [1; 0x10; 65535; path 0; type; 0 pairs] at the class and [1; 0x44; offset 0; …]
   at the Code of method 0 *)
Theorem C17_type_values_example : type_values_example.
Proof. exact type_values_example_holds. Qed.
Print Assumptions C17_type_values_example.

(* ======================= content_projection / content_replay for EVERY attribute; ConstantValue and Module =======================

   Vocabulary (coq/C17/Theory19.v, Values2.v).  [fvalue_at F t pl name val]: in trace t the visitor at place pl receives an
   attribute named [name] (raw flag r, body b) with F (loc_of pl) name r b = Some val — for an ARBITRARY function F of location,
   name, raw flag and body, i.e. for every parser of an attribute body.  ([value_at X V rs] is [fvalue_at (attr_value X V rs)].)
   [attr_value2 X V W rs tg]: [attr_value] extended by ConstantValue (the body is one pool index; the KIND [tg i] of the entry
   selects the variant — [constant_value_gen], read off `as_constant_value` —, a number is handed over as its bits, a String
   entry as the string its string_index designates, any other kind is refused) and Module (`read_module`: [module_secs_gen] —
   the leading name / flags / version, then requires, exports, opens, uses, provides; the rows of exports / opens / provides
   end in a nested vector of indices; [p_module] parses, [enc_module] is the JVMS 4.7.25 encoding, [module_ok] the shape). *)
From FB Require Import C17.Values2 C17.Theory19.

(* reading: whatever is computed from an attribute handed over — by any parser F — a partial or declining visitor gets at a place
   exactly what the full visitor gets there, if it wants the attribute; nothing else *)
Theorem C17_read_fvalues_projection : forall A (F : N -> str -> bool -> bytes -> option A) T g c h,
  tables_ok T = true -> wf g T c h ->
  forall v rest t_v, read_class g T v (enc c ++ rest) = Ok (t_v, rest) ->
  forall pl name val,
    fvalue_at F t_v pl name val <-> fvalue_at F (spec_class T (v_full T) h c) pl name val /\ wanted T v pl name.
Proof. exact (@read_fvalues_projection). Qed.
Print Assumptions C17_read_fvalues_projection.

(* replaying: the same for the tree of the full read replayed into any visitor (strict builder / lenient builder outside the
   known class) *)
Theorem C17_replay_fvalues : forall A (F : N -> str -> bool -> bytes -> option A) T AT,
  tables_ok T = true -> accept_ok T AT = true ->
  forall t_full tree, build true T AT t_full = Ok tree ->
  forall v pl name val,
    fvalue_at F (accept_class T AT v tree) pl name val <-> fvalue_at F t_full pl name val /\ wanted T v pl name.
Proof. exact (@replay_fvalues). Qed.
Print Assumptions C17_replay_fvalues.

Theorem C17_replay_fvalues_known : forall A (F : N -> str -> bool -> bytes -> option A) T AT,
  tables_ok T = true -> accept_ok T AT = true ->
  forall t_full tree, build false T AT t_full = Ok tree -> replay_inexact T AT t_full = false ->
  forall v pl name val,
    fvalue_at F (accept_class T AT v tree) pl name val <-> fvalue_at F t_full pl name val /\ wanted T v pl name.
Proof. exact (@replay_fvalues_known). Qed.
Print Assumptions C17_replay_fvalues_known.

(* for the code as it is, with decidable hypotheses only, and for every parser at once *)
Theorem C17_fvalues_total : forall c, wf_b tables c = true -> once_b tables accept_tables_gen c = true ->
  replay_inexact tables accept_tables_gen (full_of c) = false ->
  exists tree, build false tables accept_tables_gen (full_of c) = Ok tree
    /\ forall A (F : N -> str -> bool -> bytes -> option A) v rest,
         exists t_v, read_class g_len tables v (enc c ++ rest) = Ok (t_v, rest)
         /\ forall pl name val,
              (fvalue_at F t_v pl name val <-> fvalue_at F (full_of c) pl name val /\ wanted tables v pl name)
              /\ (fvalue_at F (accept_class tables accept_tables_gen v tree) pl name val <-> fvalue_at F t_v pl name val).
Proof. exact fvalues_total. Qed.
Print Assumptions C17_fvalues_total.

(* Module: for every list of sections the parser inverts the encoding and consumes exactly it *)
Theorem C17_module_parse : forall secs vals rest, module_ok secs vals = true ->
  p_module secs (enc_module secs vals ++ rest) = Ok (vals, rest).
Proof. exact p_module_enc. Qed.
Print Assumptions C17_module_parse.

(* what the visitor is handed for a Module attribute is the resolved, flattened value the body encodes *)
Theorem C17_attr_value_module : forall X V W rs tg loc name vals, valued V name = false -> str_eqb name (vn_constant W) = false ->
  str_eqb name (vn_module W) = true -> module_ok (vn_msecs W) vals = true ->
  attr_value2 X V W rs tg loc name false (enc_module (vn_msecs W) vals) = Some (canon_module rs (vn_msecs W) vals).
Proof. exact attr_value2_module. Qed.
Print Assumptions C17_attr_value_module.

(* ConstantValue: the value is decided by the kind of the pool entry the body designates *)
Theorem C17_attr_value_constant : forall X V W rs tg loc name i, valued V name = false -> str_eqb name (vn_constant W) = true ->
  attr_value2 X V W rs tg loc name false (e16 i)
  = match assocN (tg i) (vn_cv W) with
    | Some true => Some (tg i :: rs_ref rs (tg i) i)
    | Some false => Some [tg i; rs_num rs (tg i) i]
    | None => None
    end.
Proof. exact attr_value2_constant. Qed.
Print Assumptions C17_attr_value_constant.

(* attr_value2 extends attr_value: nothing the theorems of the previous part speak of is changed *)
Theorem C17_attr_value2_extends : forall X V W rs tg loc name raw body val,
  attr_value X V rs loc name raw body = Some val -> attr_value2 X V W rs tg loc name raw body = Some val.
Proof. exact attr_value2_extends. Qed.
Print Assumptions C17_attr_value2_extends.

(* non-vacuity with the tables of the code as it is: a module declaration (one row in every vector but one, nested vectors of
   two) satisfies [module_ok], its encoding is the stated 44 bytes and the value handed over is the stated list; an Integer
   entry gives [3; bits], a String entry [8; checksum], a Class entry is refused *)
Theorem C17_values2_examples : values2_nonvacuous.
Proof. exact values2_nonvacuous_holds. Qed.
Print Assumptions C17_values2_examples.

(* … and through the whole chain: `class A` with a field f:I carrying ConstantValue -> #6 (Integer) is well-formed, outside the
   known class, the full visitor wants the attribute at field 0 and is handed [3; the entry's bits] *)
Theorem C17_constant_example : constant_example.
Proof. exact constant_example_holds. Qed.
Print Assumptions C17_constant_example.

(* the known class, kind by kind.  The strict builder (replay_inexact) refuses an attribute that extends a list by no element
   (F20a: C17_replay_empty_annotations_refuted), a second attribute extending an already filled list
   (C17_replay_duplicate_refuted) and a second attribute OVERWRITING an already assigned field; the third kind has its witness
   here — an annotation method with two AnnotationDefault attributes is well-formed, inside the known class, its tree is built
   (the last default wins) and the replay into the full visitor differs from the read: every kind of refusal is a situation in
   which the replay genuinely differs *)
Theorem C17_replay_overwrite_refuted : refutes w_overwrite (v_full tables).
Proof. exact replay_overwrite_refuted. Qed.
Print Assumptions C17_replay_overwrite_refuted.

(* … while the same method with ONE AnnotationDefault is outside the known class, and the full read hands the method visitor
   the int constant of pool entry 7 *)
Theorem C17_one_default_example : one_default_example.
Proof. exact one_default_example_holds. Qed.
Print Assumptions C17_one_default_example.
