(* C17 — property theorems only.  Each is closed by [exact <lemma>] and followed by
   Print Assumptions; the statements are pinned here so they cannot be quietly weakened. *)
From FB Require Import C17.Model C17.AttrTable C17.Theory.

(* The attribute dispatch tables that the translator reads off duke/src/class_reader.rs at every
   check: every arm that parses an attribute is preceded by a skip arm guarded by the interest flag
   of that attribute (flag = snake_case of the attribute name; StackMap shares stack_map_table),
   only Deprecated / Synthetic / BootstrapMethods are looked at unconditionally, the default arms
   skip unless unknown_attributes is wanted and then read exactly attribute_length bytes, a declined
   Code attribute is skipped, every ControlFlow::Break path calls skip_attributes, and the member
   loops honour the fields / methods flags. *)
Theorem C17_generated_tables_ok : tables_ok tables = true.
Proof. exact generated_tables_ok. Qed.
Print Assumptions C17_generated_tables_ok.
