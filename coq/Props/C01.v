(* C01 — property theorems only.  Each is closed by [exact <lemma>] and followed by Print Assumptions;
   the statements are pinned here so they cannot be quietly weakened.
   Model: C01/Model.v (code-array reader, general encoder), Pool.v, Resolve.v, Attr.v; generated
   tables: C01/Opcodes.v, C01/Tables.v (regenerated from duke's source on every run). *)
From Coq Require Import Permutation Sorted.
From FB Require Import Base.Sort C01.Model C01.Pool C01.Resolve C01.Attr C01.Fmt C01.Formats C01.ClassFile C01.Annot C01.Mutf8
  C01.Theory1 C01.Theory2 C01.Theory3 C01.Theory4 C01.Theory5 C01.Theory6 C01.Theory7 C01.Theory8 C01.Theory9 C01.Theory10 C01.Theory11
  C01.Theory12 C01.Theory13 C01.Theory14 C01.Theory15 C01.Theory16 C01.Theory17 C01.Theory18 C01.Theory19 C01.Theory20 C01.Theory21 C01.Theory22 C01.Theory23 C01.Theory24 C01.Theory25
  C01.Examples C01.Witness C01.Examples2 C01.Examples3 C01.Examples4.

(* ---- the code array ---------------------------------------------------------------------------- *)

(* The first-pass match (instruction boundaries, label creation) and the second-pass match
   (decoding) of read_code agree on every opcode and on every opcode behind the wide prefix: same
   operand length, a label created exactly for the branch operands. *)
Theorem C01_passes_agree : forall op, agree_top op = true /\ agree_wide op = true.
Proof. exact (fun op => conj (agree_top_all op) (agree_wide_all op)). Qed.
Print Assumptions C01_passes_agree.

(* For every body and every choice function (any opcode form that duke maps to the instruction's
   constructor: xload_n / xload / wide xload, ldc / ldc_w / ldc2_w, iinc / wide iinc, goto / goto_w,
   jsr / jsr_w; any value of the ignored bytes; switch padding forced by position): pass 1 over the
   encoded body ends exactly at its end and creates exactly the labels of the branch targets. *)
Theorem C01_scan_encode : forall ch body bs,
  encode ch body = Some bs -> targets_ok body -> N.of_nat (length bs) <= 65535 ->
  scan (S (length bs)) (N.of_nat (length bs)) 0 bs []
  = Ok (fold_left lbl_add (map (posf_of (layout ch body)) (flat_map targets body)) []).
Proof. exact scan_encode. Qed.
Print Assumptions C01_scan_encode.

(* … and pass 2 decodes the body back: every instruction at the offset the layout gives it, with its
   operands, every branch/switch target being the offset of the designated instruction. *)
Theorem C01_decode_encode : forall ch body bs ls,
  encode ch body = Some bs -> targets_ok body -> N.of_nat (length bs) <= 65535 ->
  (forall t, In t (flat_map targets body) -> lbl_get ls (posf_of (layout ch body) t) = true) ->
  decode (S (length bs)) ls 0 bs
  = Ok (combine (starts_from ch 0 0 body) (map (map_insn (posf_of (layout ch body))) body)).
Proof. exact decode_encode. Qed.
Print Assumptions C01_decode_encode.

(* offsets and instructions correspond one to one (the layout is strictly increasing) *)
Theorem C01_offset_designates : forall ch body t, (t <= length body)%nat ->
  index_of (posf_of (layout ch body) t) (layout ch body) 0 = Some t.
Proof. exact offset_designates. Qed.
Print Assumptions C01_offset_designates.

(* read_encode: the whole Code attribute.  For every body, every choice function and every set of
   tables over instruction indices (exception ranges whose end may be the code length, line
   numbers, local-variable ranges, strictly increasing stack-map frames, further offsets), reading
   the encoded attribute yields [expected body t]: the same instructions with the same targets;
   exactly the referenced instructions (and the end of the code, if referenced) carry a label;
   every table entry designates the instruction it was built from; the frames are attached in
   order to their instructions. *)
Theorem C01_read_encode : forall ch body bs t,
  encode ch body = Some bs -> body <> [] -> N.of_nat (length bs) <= 65535 ->
  targets_ok body -> tables_ok (length body) t ->
  read_code (code_in_of (posf_of (layout ch body)) t bs) = Ok (expected body t).
Proof. exact read_encode. Qed.
Print Assumptions C01_read_encode.

(* what [expected] says about the instruction list: nothing invented, nothing dropped, nothing moved *)
Theorem C01_expected_shape : forall body t,
  length (cs_insns (expected body t)) = length body /\
  forall k i, nth_error body k = Some i ->
    exists fr, nth_error (cs_insns (expected body t)) k = Some (mem_nat k (refs body t), fr, map_insn Some i).
Proof. exact expected_shape. Qed.
Print Assumptions C01_expected_shape.

(* tables_resolve, frames: the m-th frame, naming instruction f, ends up on instruction f *)
Theorem C01_frames_attached : forall cnt k fs j,
  incr_from k fs -> (forall f, In f fs -> (f < k + cnt)%nat) ->
  forall m f, nth_error fs m = Some f -> nth_error (attach_idx k cnt fs j) (f - k) = Some (Some (j + m)%nat).
Proof. exact attach_idx_spec. Qed.
Print Assumptions C01_frames_attached.

(* StackMapTable, JVMS 4.7.4: the first frame sits at its offset_delta, every later frame at the offset
   of the frame before it + offset_delta + 1 (the rule is part of [read_code]: C01_read_encode builds
   the deltas of its hypothesis by exactly this rule, [frame_deltas]) *)
Theorem C01_frame_offsets_jvms : forall ds os, frame_offsets true 0 ds = Ok os ->
  length os = length ds /\
  (forall d, nth_error ds 0 = Some d -> nth_error os 0 = Some d) /\
  (forall i o d, nth_error os i = Some o -> nth_error ds (S i) = Some d -> nth_error os (S i) = Some (o + d + 1)).
Proof. exact frame_offsets_jvms. Qed.
Print Assumptions C01_frame_offsets_jvms.

(* the CLDC StackMap attribute (J2ME / preverified classes): absolute offsets, entries in ANY order
   [order]; each frame is delivered on the instruction at its offset, exactly as for the
   StackMapTable with the same frames (fix 15936f8: duke ordered the entries by label id) *)
Theorem C01_read_encode_cldc : forall ch body bs t order,
  encode ch body = Some bs -> body <> [] -> N.of_nat (length bs) <= 65535 ->
  targets_ok body -> tables_ok (length body) t -> Permutation order (t_frames t) ->
  read_code {| ci_code := bs;
               ci_exc := map (fun e => match e with (s, e', h) =>
                              (posf_of (layout ch body) s, posf_of (layout ch body) e', posf_of (layout ch body) h) end) (t_exc t);
               ci_lines := map (fun e => (posf_of (layout ch body) (fst e), snd e)) (t_lines t);
               ci_ranges := map (fun e => (posf_of (layout ch body) (fst e),
                                           posf_of (layout ch body) (snd e) - posf_of (layout ch body) (fst e))) (t_ranges t);
               ci_frames := [];
               ci_cldc := Some (map (posf_of (layout ch body)) order);
               ci_points := map (posf_of (layout ch body)) (t_points t) |}
  = Ok (expected body t).
Proof. exact read_encode_cldc. Qed.
Print Assumptions C01_read_encode_cldc.

(* … at the class-file level: the frames the tree receives from a StackMap attribute are its entries —
   a permutation: all of them, nothing else — in the order of their offsets; an attribute that lists
   them in that order (what a preverifier writes) is taken as it is *)
Theorem C01_cldc_frames_sorted : forall l,
  Permutation (cldc_sorted l) l /\ Sorted (fun a b => cldc_key a <= cldc_key b) (cldc_sorted l) /\
  (Sorted (fun a b => cldc_key a <= cldc_key b) l -> cldc_sorted l = l) /\
  forall st, slot_get a_StackMap (st_slots st) = Some (VList l) -> frames_of_state st = map cldc_norm (cldc_sorted l).
Proof. exact (fun l => conj (proj1 (cldc_sorted_spec l)) (conj (proj2 (cldc_sorted_spec l)) (conj (cldc_sorted_id l) (fun st => frames_of_state_cldc st l)))). Qed.
Print Assumptions C01_cldc_frames_sorted.

(* NO JUNK ACCEPTED (the converse of C01_decode_encode / C01_read_encode): whatever code array the
   reader accepts is the encoding — under the opcode forms and the ignored bytes read off the array
   itself: the choice function [ch] — of exactly the instruction list it hands to the visitor,
   provided every branch / switch target it read is the offset of an instruction.  (A target inside an
   instruction gets a label that no instruction carries; the reader does not notice it, and no
   instruction list has such a target.)  [Forall (< 256)]: the array consists of bytes. *)
Theorem C01_no_junk_code : forall ci cr,
  read_code_raw ci = Ok cr -> Forall (fun x => x < 256) (ci_code ci) ->
  (forall p i t, In (p, i) (cr_insns cr) -> In t (targets i) -> In t (map fst (cr_insns cr))) ->
  exists ch body,
    encode ch body = Some (ci_code ci) /\
    cr_insns cr = combine (starts_from ch 0 0 body) (map (map_insn (posf_of (layout ch body))) body).
Proof. exact no_junk_read_code. Qed.
Print Assumptions C01_no_junk_code.

(* ---- the constant pool -------------------------------------------------------------------------- *)

(* two-slot entries: every entry is found at its slot; the slot after a Long/Double holds nothing *)
Theorem C01_pool_slots : forall es1 e es2,
  pget (pool_of_entries (es1 ++ e :: es2)) (1 + slots_before es1) = Ok e /\
  (two_slot e = true -> pget (pool_of_entries (es1 ++ e :: es2)) (2 + slots_before es1) = Err).
Proof. exact (fun es1 e es2 => conj (pget_pool_of_entries es1 e es2) (pget_second_slot es1 e es2)). Qed.
Print Assumptions C01_pool_slots.

(* pool_layout_independent: any re-layout of the pool (order, extra entries, duplicates) resolves the
   renamed index to the same value, for every accessor (loadable constants incl. nested dynamic
   constants through the bootstrap table, field/method/interface-method references, invokedynamic,
   classes, constant values, handles, modules, packages) *)
Theorem C01_pool_layout_independent : forall pi p p' b, pool_iso pi p p' -> forall kind i v,
  resolve_kind p b kind i = Ok v -> resolve_kind p' (rename_bsm pi b) kind (pi i) = Ok v.
Proof. exact pool_layout_independent. Qed.
Print Assumptions C01_pool_layout_independent.

(* … lifted to instruction operands *)
Theorem C01_insn_layout_independent : forall pi p p' b, pool_iso pi p p' -> forall (i : ainsn (option nat)) x,
  resolve_insn p b i = Ok x -> resolve_insn p' (rename_bsm pi b) (rename_insn pi i) = Ok x.
Proof. exact insn_layout_independent. Qed.
Print Assumptions C01_insn_layout_independent.

(* the same as an equation, for an exact re-layout (p' holds the renamed entry where p holds one and
   nothing where p holds nothing): every accessor gives the same answer in both pools, refusals
   included — hence also the converse direction *)
Theorem C01_pool_layout_exact : forall pi p p' b,
  (forall i, pget p' (pi i) = match pget p i with Ok e => Ok (rename_entry pi e) | Err => Err end) ->
  forall kind i, resolve_kind p' (rename_bsm pi b) kind (pi i) = resolve_kind p b kind i.
Proof. exact pool_layout_exact. Qed.
Print Assumptions C01_pool_layout_exact.

Theorem C01_pool_layout_converse : forall pi p p' b, pool_iso_strict pi p p' -> forall kind i v,
  resolve_kind p' (rename_bsm pi b) kind (pi i) = Ok v -> resolve_kind p b kind i = Ok v.
Proof. exact pool_layout_converse. Qed.
Print Assumptions C01_pool_layout_converse.

(* … for the accessors of the class-file formats, the narrowing accessors of element values
   (B C S Z I J F D) included, and for instruction operands *)
Theorem C01_acc_layout_exact : forall pi p p', pool_iso_strict pi p p' -> forall k i, acc p' k (pi i) = acc p k i.
Proof. exact acc_layout_exact. Qed.
Print Assumptions C01_acc_layout_exact.

Theorem C01_insn_layout_exact : forall pi p p' b, pool_iso_strict pi p p' -> forall (i : ainsn (option nat)),
  resolve_insn p' (rename_bsm pi b) (rename_insn pi i) = resolve_insn p b i.
Proof. exact insn_layout_exact. Qed.
Print Assumptions C01_insn_layout_exact.

(* ---- Dynamic / InvokeDynamic entries (round 5) --------------------------------------------------- *)
(* What a CONSTANT_Dynamic entry resolves to, at every nesting level with room for one: name and
   descriptor are those of the entry's OWN NameAndType, method handle and arguments those of the
   bootstrap method it names — two independent halves.  (The model is a function of pool, table and
   index: nothing depends on what was resolved before.) *)
Theorem C01_dynamic_resolution : forall f p b i bi nt,
  pget p i = Ok (EDynamic bi nt) ->
  get_loadable (S (S f)) p b i =
  (do nd <- get_nt p nt;
   match nth_error b (N.to_nat bi) with
   | Some (h, args) =>
     do hv <- get_method_handle p h;
     do avs <- map_res (get_loadable (S f) p b) args;
     Ok (VDynamic (fst nd) (snd nd) hv avs)
   | None => Err
   end).
Proof. exact dynamic_resolution. Qed.
Print Assumptions C01_dynamic_resolution.

(* two Dynamic entries that share a bootstrap method, loaded by ldc / ldc_w / ldc2_w: the same handle, the
   same arguments, each its own name and type (seed C01-a4: a cache keyed by the bootstrap index) *)
Theorem C01_dynamic_share_bootstrap : forall p b i j bi nt nt' v v',
  pget p i = Ok (EDynamic bi nt) -> pget p j = Ok (EDynamic bi nt') ->
  resolve_kind p b 0 i = Ok v -> resolve_kind p b 0 j = Ok v' ->
  exists n d n' d' hv avs,
    v = VDynamic n d hv avs /\ v' = VDynamic n' d' hv avs /\
    get_nt p nt = Ok (n, d) /\ get_nt p nt' = Ok (n', d').
Proof. exact ldc_dynamic_share_bootstrap. Qed.
Print Assumptions C01_dynamic_share_bootstrap.

(* … nested as bootstrap arguments at any level, and for two invokedynamic call sites *)
Theorem C01_dynamic_share_bootstrap_nested : forall f p b i j bi nt nt' v v',
  pget p i = Ok (EDynamic bi nt) -> pget p j = Ok (EDynamic bi nt') ->
  get_loadable (S (S f)) p b i = Ok v -> get_loadable (S (S f)) p b j = Ok v' ->
  exists n d n' d' hv avs,
    v = VDynamic n d hv avs /\ v' = VDynamic n' d' hv avs /\
    get_nt p nt = Ok (n, d) /\ get_nt p nt' = Ok (n', d').
Proof. exact dynamic_share_bootstrap. Qed.
Print Assumptions C01_dynamic_share_bootstrap_nested.

Theorem C01_indy_share_bootstrap : forall p b i j bi nt nt' v v',
  pget p i = Ok (EInvokeDynamic bi nt) -> pget p j = Ok (EInvokeDynamic bi nt') ->
  get_invoke_dynamic p b i = Ok v -> get_invoke_dynamic p b j = Ok v' ->
  exists n d n' d' hv avs,
    v = VIndy n d hv avs /\ v' = VIndy n' d' hv avs /\
    get_nt p nt = Ok (n, d) /\ get_nt p nt' = Ok (n', d').
Proof. exact indy_share_bootstrap. Qed.
Print Assumptions C01_indy_share_bootstrap.

(* ---- tag tables against the JVMS ------------------------------------------------------------------ *)
(* The tables generated from the reader's match arms (Formats.v, regenerated on every run), ordered by
   tag, ARE the hand-transcribed JVMS tables of Theory12.v: verification_type_info (ITEM_Double = 3,
   ITEM_Long = 4, …), element_value tags with the kind of constant each denotes, target_info per
   location, MethodHandle reference kinds with the kind of reference each demands *)
Theorem C01_tag_tables_match_jvms :
  by_tag vti_ctor_tbl = jvms_vti /\
  by_tag ev_consts = jvms_ev_consts /\
  (ev_enum_tag = 101 /\ ev_class_tag = 99 /\ ev_annot_tag = 64 /\ ev_array_tag = 91) /\
  by_tag target_class_tbl = jvms_target_class /\ by_tag target_field_tbl = jvms_target_field /\
  by_tag target_method_tbl = jvms_target_method /\ by_tag target_code_tbl = jvms_target_code /\
  by_tag3 handle_tbl = jvms_handles /\
  (vti_plain ++ [vti_object_tag; vti_uninit_tag] = map fst jvms_vti).
Proof. exact tag_tables_match_jvms. Qed.
Print Assumptions C01_tag_tables_match_jvms.

(* the model's MethodHandle resolution follows the generated table for every reference_kind *)
Theorem C01_handle_of_table : forall p k r,
  handle_of p k r =
  match handle_acc k handle_tbl with
  | Some a => do x <- resolve_kind p [] a r; Ok (VHandle k x)
  | None => Err
  end.
Proof. exact handle_of_table. Qed.
Print Assumptions C01_handle_of_table.

(* ---- attributes --------------------------------------------------------------------------------- *)

Theorem C01_attr_framing : forall l rest,
  N.of_nat (length l) < 65536 -> (forall a, In a l -> attr_raw_ok a) ->
  parse_attrs (enc_attrs l ++ rest) = Ok (l, rest).
Proof. exact parse_enc_attrs. Qed.
Print Assumptions C01_attr_framing.

(* unknown_verbatim: an attribute whose name has no arm is delivered with its bytes untouched; nothing
   else is delivered as unknown; the order of the file is kept *)
Theorem C01_unknown_verbatim : forall known (l : list attr) name payload,
  In (name, payload) l -> mem_str name known = false -> In (name, payload) (unknown_of known l).
Proof. exact unknown_verbatim. Qed.
Print Assumptions C01_unknown_verbatim.

Theorem C01_unknown_nothing_invented : forall known (l : list attr) a,
  In a (unknown_of known l) -> In a l /\ mem_str (fst a) known = false.
Proof. exact unknown_nothing_invented. Qed.
Print Assumptions C01_unknown_nothing_invented.

Theorem C01_unknown_in_order : forall known (l1 l2 : list attr),
  unknown_of known (l1 ++ l2) = unknown_of known l1 ++ unknown_of known l2.
Proof. exact unknown_in_order. Qed.
Print Assumptions C01_unknown_in_order.

(* attr_order_independent: for attribute lists with distinct names, every permutation hands every arm
   the same payload and the visitor the same unknown attributes *)
Theorem C01_attr_order_independent : forall known (l l' : list attr),
  NoDup (map fst l) -> Permutation l l' ->
  (forall name, lookup_attr name l = lookup_attr name l') /\
  Permutation (unknown_of known l) (unknown_of known l').
Proof. exact attr_order_independent. Qed.
Print Assumptions C01_attr_order_independent.

(* … the same for the dispatch the whole-file reader really uses (round 5): [fold_attrs (apply_attr …)] with the
   tree visitor's bookkeeping, at every level (ctx 0 class, 1 field, 2 method, 3 Code, 4 record component).
   [akey]: the attribute's name, LocalVariableTypeTable counting as LocalVariableTable (their entries share one
   list, kept in file order) and StackMap as StackMapTable (they share one slot).  Over any permutation of a
   list with pairwise different keys the fold fails for both orders or ends in equivalent states ([requiv]:
   the same value under every attribute name, the same Code attribute, the same Record flag, the same
   unknown attributes up to their order). *)
Theorem C01_fold_attrs_perm : forall impl p b ctx l l', Permutation l l' -> NoDup (map akey l) -> forall st,
  requiv (fold_attrs (apply_attr impl p b ctx) st l) (fold_attrs (apply_attr impl p b ctx) st l').
Proof. exact fold_attrs_perm. Qed.
Print Assumptions C01_fold_attrs_perm.

(* … lifted to ONE statement about whole class files (round 7).  [cperm dec c c']: c' is c with the class-level
   attribute list and the attribute list of every field_info and method_info permuted, the keys (attribute names
   through the constant pool, [rkey]) pairwise different within each list.  duke reads the two files to equivalent
   descriptions or refuses both ([res_rel cequiv]; [cequiv]: header, super types, and member by member flags, name,
   descriptor and Code equal; under every attribute name the same value; the unknown attributes a permutation;
   BootstrapMethods is consumed by the constants).  The lists inside Code attributes and record components are not
   permuted here (C01_fold_attrs_perm covers each of them alone). *)
Theorem C01_read_class_attr_order : forall impl dec c c',
  class_fits impl dec c = true -> class_fits impl dec c' = true -> cperm dec c c' ->
  res_rel cequiv (read_class impl dec (encode_class c)) (read_class impl dec (encode_class c')).
Proof. exact read_class_attr_order. Qed.
Print Assumptions C01_read_class_attr_order.

(* the same one stage later, on what the format reader hands to the tree builder (any values, no fit needed) *)
Theorem C01_build_class_perm : forall impl p minor major head al al' fl fl' ml ml',
  Permutation al al' -> NoDup (map akey al) -> Forall2 mperm fl fl' -> Forall2 mperm ml ml' ->
  res_rel cequiv (build_class impl p minor major head (VList al) (VList fl) (VList ml))
                 (build_class impl p minor major head (VList al') (VList fl') (VList ml')).
Proof. exact build_class_perm. Qed.
Print Assumptions C01_build_class_perm.

(* what it rests on: every attribute acts on the state as one of six kinds of operation ([op_of]: fail, nothing,
   read some slots and write one, append an unknown attribute, set the Code, set the Record), touching only
   slots that have its key; two operations on disjoint slots that are not both Code / both Record commute *)
Theorem C01_attr_operations : forall impl p b ctx,
  (forall st n v, apply_attr impl p b ctx st n v = run (op_of impl p b ctx n v) st) /\
  (forall n v a, In a (touches (op_of impl p b ctx n v)) -> key a = key n) /\
  (forall o1 o2 st, disj o1 o2 -> ~ clash o1 o2 -> requiv (do s <- run o1 st; run o2 s) (do s <- run o2 st; run o1 s)).
Proof. exact (fun impl p b ctx => conj (fun st n v => apply_attr_run impl p b ctx st n v) (conj (fun n v a => touches_key impl p b ctx n v a) run_comm)). Qed.
Print Assumptions C01_attr_operations.

(* nothing_dropped (restricted): every attribute name with an arm of its own is parsed and handed to
   the visitor or sets its flag — except the two parameter-annotation attributes of methods (F13p) *)
Theorem C01_nothing_dropped_partial : forall c name, c <= 4 ->
  known_class_f13p c name = false -> In name (ctx_known c) -> delivered c name.
Proof. exact nothing_dropped_partial. Qed.
Print Assumptions C01_nothing_dropped_partial.

Theorem C01_nothing_dropped_refuted : exists c name,
  known_class_f13p c name = true /\ In name (ctx_known c) /\ ~ delivered c name.
Proof. exact nothing_dropped_refuted. Qed.
Print Assumptions C01_nothing_dropped_refuted.

(* F13 repaired: read_code calls visit_local_variables *)
Theorem C01_local_variables_visited : mem_str s_visit_local_variables code_visits = true.
Proof. exact local_variables_visited. Qed.
Print Assumptions C01_local_variables_visited.

(* debug tables: a Code attribute may carry several LineNumberTable (JVMS 4.7.12), LocalVariableTable and
   LocalVariableTypeTable attributes; the tree holds every entry of every one of them, in the order of
   the file, each offset replaced by its instruction ([attr_entries], [lv_entries]: the entries of the
   attributes of that name, concatenated in list order) *)
Theorem C01_debug_tables_in_file_order : forall impl p b v ms ml code exc attrs cd,
  code_parts v = Some (ms, ml, code, exc, attrs) -> build_code impl p b v = Ok cd ->
  exists ix,
    k_lines cd = map (map_pcs ix) (flat_map (attr_entries a_LineNumberTable) attrs) /\
    k_lvs cd = map (map_pcs ix) (flat_map lv_entries attrs).
Proof. exact debug_tables_in_file_order. Qed.
Print Assumptions C01_debug_tables_in_file_order.

(* ---- access flags ------------------------------------------------------------------------------- *)

Theorem C01_access_roundtrip : forall kind v, kind <= 8 -> v < 65536 ->
  access_back kind v = N.land v (mask_of (fst (flag_tables kind))).
Proof. exact access_roundtrip. Qed.
Print Assumptions C01_access_roundtrip.

Theorem C01_flags_match_jvms : forall kind, kind <= 8 ->
  fst (flag_tables kind) = jvms_flags kind /\ snd (flag_tables kind) = jvms_flags kind.
Proof. exact flags_match_jvms. Qed.
Print Assumptions C01_flags_match_jvms.

(* ---- header ------------------------------------------------------------------------------------- *)
(* skeleton, gate: the reader accepts exactly magic 0xCAFEBABE with a version up to 67.0 (constants
   regenerated from class_reader.rs / version.rs) *)
Theorem C01_header_gate : forall mg minor major, minor < 65536 ->
  (header_ok mg minor major = true <-> mg = 3405691582 /\ (major < 67 \/ (major = 67 /\ minor = 0))).
Proof. exact header_gate. Qed.
Print Assumptions C01_header_gate.

(* ---- the whole class file ------------------------------------------------------------------------ *)
(* Byte layouts outside the code array are format terms (Fmt.v; the attribute formats are generated
   into Formats.v from the reader's source, assembled in ClassFile.v).  For EVERY format, every pool
   accessor [rs], every decoder of modified UTF-8 [dec] and every structure that fits the format
   (numbers fit their fields, counts their count fields, tags are known): reading the encoding of the
   structure, whatever follows it, yields its description — each pool index replaced by what it
   resolves to (or Err if it does not resolve), everything else as written — and leaves exactly
   what follows.  Instances: the exception table, LineNumberTable, LocalVariable(Type)Table, every
   StackMapTable frame kind with its verification_type_info, annotations and type annotations with
   target_info and type_path, InnerClasses, EnclosingMethod, NestHost/NestMembers, PermittedSubclasses,
   Exceptions, MethodParameters, Signature, SourceFile, ConstantValue, Module, ModulePackages,
   ModuleMainClass, Record, BootstrapMethods, field_info / method_info / attribute_info. *)
Theorem C01_format_roundtrip : forall impl dec rs f r rest, fits impl rs f r = true ->
  rd_fmt impl dec rs f (enc_raw r ++ rest) = (do v <- desc_fmt impl dec rs f r; Ok (v, rest)).
Proof. exact fmt_roundtrip. Qed.
Print Assumptions C01_format_roundtrip.

(* NO JUNK outside the code array (round 5).  [rd_strict] is the format reader with two more checks: the payload
   of an attribute must take exactly attribute_length bytes, and a skipped payload may not pass the end of
   the input.  It accepts EXACTLY the encodings of the structures that fit the format (nothing that is not a
   class-file structure, and every one of them), and where it accepts, duke's reader [rd_fmt] gives the same
   answer.  What duke accepts beyond the encodings is therefore only: an attribute_length that disagrees with
   the attribute's content (duke does not compare them), a skipped attribute running past the end. *)
Theorem C01_no_junk_formats : forall impl dec rs f s v rest, is_bytes s ->
  (rd_strict impl dec rs f s = Ok (v, rest) <->
   exists r, fits impl rs f r = true /\ s = enc_raw r ++ rest /\ desc_fmt impl dec rs f r = Ok v).
Proof. exact strict_iff_encoding. Qed.
Print Assumptions C01_no_junk_formats.

Theorem C01_strict_is_restriction : forall impl dec rs f s x,
  rd_strict impl dec rs f s = Ok x -> rd_fmt impl dec rs f s = Ok x.
Proof. exact rd_strict_rd_fmt. Qed.
Print Assumptions C01_strict_is_restriction.

(* NO JUNK for the WHOLE FILE in one statement (round 7).  [read_class_strict] is read_class with the checked format
   reader of C01_no_junk_formats and two more checks: the constant pool fills exactly constant_pool_count slots
   (duke's `while pool.len() < count` lets a Long / Double in the last slot overshoot) and no byte follows the
   class attributes (duke leaves the rest to the caller).  It keeps read_class's structure — members skipped by
   their declared attribute lengths, class attributes read where the skipping ended, then back to the members,
   read by content; that both walks end at the same place is not checked but proved.  For every byte string:
   the checked reader answers d  iff  the string is encode_class of a structure that fits and is described by d;
   and whatever the checked reader accepts, duke's reader accepts with the same answer. *)
Theorem C01_read_class_no_junk : forall impl dec s d, is_bytes s ->
  (read_class_strict impl dec s = Ok d <->
   exists c, class_fits impl dec c = true /\ s = encode_class c /\ describe impl dec c = Ok d).
Proof. exact read_class_no_junk. Qed.
Print Assumptions C01_read_class_no_junk.

Theorem C01_read_class_strict_is_restriction : forall impl dec s d,
  read_class_strict impl dec s = Ok d -> read_class impl dec s = Ok d.
Proof. exact read_class_strict_read_class. Qed.
Print Assumptions C01_read_class_strict_is_restriction.

(* the constant pool alone: the checked pool reader accepts exactly the encodings of fitting pools *)
Theorem C01_pool_no_junk : forall dec s p rest, is_bytes s ->
  (rd_pool_strict dec s = Ok (p, rest) <->
   exists es, pool_fits es = true /\ s = enc_pool es ++ rest /\ decode_pool dec es = Ok p).
Proof. exact pool_no_junk. Qed.
Print Assumptions C01_pool_no_junk.

(* constant_pool_count and the entries, two-slot entries included: PoolRead::read on the bytes of a
   pool yields the pool (Utf8 bytes through the decoder) *)
Theorem C01_pool_bytes : forall dec es rest, pool_fits es = true ->
  rd_pool dec (enc_pool es ++ rest) = (do p <- decode_pool dec es; Ok (p, rest)).
Proof. exact rd_pool_enc. Qed.
Print Assumptions C01_pool_bytes.

(* ONE statement for the whole file: magic, version gate, constant pool, access flags, this/super,
   interfaces, the field and method loops (first skipped by their attribute lengths, read after the
   class attributes), every attribute at class / field / method / Code / record-component level, the
   Code attribute's framing handed to the code-array reader of C01_read_encode, the tree visitor's
   bookkeeping (once / extend / push / overwrite).  [impl] = true is duke as it is. *)
Theorem C01_read_class_encode : forall impl dec c, class_fits impl dec c = true ->
  read_class impl dec (encode_class c) = describe impl dec c.
Proof. exact read_class_encode. Qed.
Print Assumptions C01_read_class_encode.

(* the encoding of a class whose byte payloads (Utf8 entries, code arrays, unknown attributes) are
   bytes consists of bytes: the class-file theorems are about real files *)
Theorem C01_encode_class_bytes : forall c, class_bytes_ok c -> Forall (fun x => x < 256) (encode_class c).
Proof. exact encode_class_bytes. Qed.
Print Assumptions C01_encode_class_bytes.

(* … and against the description the JVMS / javac give of the structure ([describe false]): equal
   outside the three known findings (F13p a method with Runtime(In)VisibleParameterAnnotations, F13r a
   Record attribute without components, F13t target_type 0x13 inside method_info) *)
Theorem C01_read_class_spec : forall dec c, class_fits true dec c = true -> known_free dec c = true ->
  read_class true dec (encode_class c) = describe false dec c.
Proof. exact read_class_spec. Qed.
Print Assumptions C01_read_class_spec.

(* [known_free] in closed form.  Its first conjuncts ([tags_agree]: no tag on which duke and javac
   disagree) never fail on the header, the fields and the class attributes, and fail on the methods
   exactly when some method_info carries a Runtime(In)VisibleTypeAnnotations attribute with a type
   annotation of target_type 0x13 ([field_target_in_method], a direct test on the structure: F13t) *)
Theorem C01_tags_agree_closed : forall rs r,
  tags_agree rs head_fmt r = true /\ tags_agree rs fields_fmt r = true /\ tags_agree rs class_attrs_fmt r = true /\
  tags_agree rs methods_fmt r = negb (field_target_in_method rs r).
Proof. exact (fun rs r => match tags_agree_elsewhere rs r with conj a (conj b c) => conj a (conj b (conj c (tags_agree_methods rs r))) end). Qed.
Print Assumptions C01_tags_agree_closed.

Theorem C01_known_free_closed : forall dec c,
  known_free dec c =
  match decode_pool dec (rc_pool c) with
  | Err => true
  | Ok p =>
    negb (field_target_in_method (acc p) (rc_methods c))
    && match desc_fmt false dec (acc p) class_attrs_fmt (rc_attrs c) with Ok a => no_empty_record a | Err => true end
    && match desc_fmt false dec (acc p) methods_fmt (rc_methods c) with Ok m => no_param_annotations m | Err => true end
  end.
Proof. exact known_free_closed. Qed.
Print Assumptions C01_known_free_closed.

(* each known class is refuted on a witness: well-formed, described, and duke's reading differs
   (F13p, F13r: something is missing from the tree; F13t: the file is rejected) *)
Theorem C01_read_class_refuted_f13p : refuted_on w_f13p /\ class_fits true mutf8_dec w_f13p = true.
Proof. exact f13p_refuted. Qed.
Print Assumptions C01_read_class_refuted_f13p.
Theorem C01_read_class_refuted_f13r : refuted_on w_f13r /\ class_fits true mutf8_dec w_f13r = true.
Proof. exact f13r_refuted. Qed.
Print Assumptions C01_read_class_refuted_f13r.
Theorem C01_read_class_refuted_f13t : refuted_on w_f13t /\ read_class true mutf8_dec (encode_class w_f13t) = Err.
Proof. exact f13t_refuted. Qed.
Print Assumptions C01_read_class_refuted_f13t.
(* the unrestricted statement is the Definition read_class_spec_full (Examples2.v): not proved — refuted *)
Theorem C01_read_class_spec_full_refuted : ~ read_class_spec_full.
Proof. exact read_class_spec_full_refuted. Qed.
Print Assumptions C01_read_class_spec_full_refuted.

(* The Code attribute inside the class, composed with the code-array theorems (C01_read_encode): if the
   code array is the encoding of [body] under the choice function [ch] and the label-carrying tables
   of the attribute — parsed from their bytes by the formats above: exception table, LineNumberTable,
   LocalVariable(Type)Table, StackMapTable frame offsets and Uninitialized offsets, type-annotation
   targets — are the tables [t] over instruction indices seen through the layout of that encoding,
   then the class reader builds: the instructions of the body (labels exactly on the referenced
   ones, frames attached in order: [expected body t]), and every table with each bytecode offset
   replaced by [ix_of_layout] of it — the index of the instruction at that offset
   (C01_layout_index). *)
Theorem C01_code_in_class : forall impl p b ch body bs t v ms ml exc attrs st,
  encode ch body = Some bs -> body <> [] -> N.of_nat (length bs) <= 65535 ->
  targets_ok body -> tables_ok (length body) t ->
  code_parts v = Some (ms, ml, bs, exc, attrs) ->
  fold_attrs (apply_simple impl 3) st_empty attrs = Ok st ->
  code_in_of_state bs exc st = Ok (code_in_of (posf_of (layout ch body)) t bs) ->
  build_code impl p b v =
    (do xi <- map_res (resolve_entry p b) (cs_insns (expected body t));
     Ok (code_desc_of ms ml xi (cs_last (expected body t)) (ix_of_layout ch body) exc st
           (count_some (map (fun x => snd (fst x)) (cs_insns (expected body t)))))).
Proof. exact code_in_class. Qed.
Print Assumptions C01_code_in_class.

Theorem C01_layout_index : forall ch body k, (k <= length body)%nat ->
  ix_of_layout ch body (posf_of (layout ch body) k) = Some k.
Proof. exact ix_of_layout_designates. Qed.
Print Assumptions C01_layout_index.

(* ---- pool layout independence of whole class files (round 5) -------------------------------------- *)
(* [ren_raw pi rs f r]: the structure r, read along its format f as the reader reads it, with every
   constant-pool index renamed (FIdx, FOptIdx keeping 0, every attribute_name_index, through vectors,
   tagged unions and nested attribute lists); no byte moves, every attribute_length stays. *)
Theorem C01_ren_raw_length : forall pi rs f r, length (enc_raw (ren_raw pi rs f r)) = length (enc_raw r).
Proof. exact ren_raw_length. Qed.
Print Assumptions C01_ren_raw_length.

(* For every format that keeps no index beside its resolution ([closed]: all but the BootstrapMethods
   table) the renamed structure over the re-laid-out pool has the description of the original structure
   over the original pool — refusals included.  The header, the fields, the methods (with Code, its
   exception table and attributes) and every class attribute but BootstrapMethods are such formats. *)
Theorem C01_ren_raw_desc : forall impl dec pi p p', pool_iso_strict pi p p' -> nonzero pi ->
  forall f, closed f -> forall r,
  desc_fmt impl dec (acc p') f (ren_raw pi (acc p) f r) = desc_fmt impl dec (acc p) f r.
Proof. exact ren_raw_desc. Qed.
Print Assumptions C01_ren_raw_desc.

Theorem C01_formats_closed :
  closed head_fmt /\ closed fields_fmt /\ closed methods_fmt /\ closed code_fmt /\
  forall name len, str_eqb a_BootstrapMethods name = false -> closed (class_sel name len).
Proof. exact (conj closed_head (conj closed_fields (conj closed_methods (conj closed_code closed_class_sel)))). Qed.
Print Assumptions C01_formats_closed.

(* the code array: two arrays related along pi ([code_rel]: beside the same tables the reader takes both
   or refuses both, finds the same boundaries, labels and frame offsets, and decodes the same
   instructions with renamed pool operands) give the same Code attribute over the two pools … *)
Theorem C01_build_code_rel : forall impl pi p p' b code code' ms ml exc attrs,
  pool_iso_strict pi p p' -> code_rel pi code code' ->
  build_code impl p' (rename_bsm pi b) (VSeq [VN ms; VN ml; VB code'; VList exc; VList attrs])
  = build_code impl p b (VSeq [VN ms; VN ml; VB code; VList exc; VList attrs]).
Proof. exact build_code_rel. Qed.
Print Assumptions C01_build_code_rel.

(* … and the encodings of a body and of the body with renamed operands under one choice function are
   related (by C01_no_junk_code every accepted array whose targets are instruction starts is such an encoding) *)
Theorem C01_code_rel_encode : forall pi ch body bs bs',
  encode ch body = Some bs -> encode ch (map (rename_insn pi) body) = Some bs' -> targets_ok body ->
  code_rel pi bs bs'.
Proof. exact code_rel_encode. Qed.
Print Assumptions C01_code_rel_encode.

(* THE WHOLE FILE.  [class_iso dec pi c c' p p']: same version; the pools of c and c' decode to p and p',
   p' holding at pi i exactly the renamed entry of p's i; pi i <> 0 for i <> 0; header, fields and class
   attributes of c' are c's with every index renamed (the BootstrapMethods table: method refs and
   arguments); the methods are c's with every index renamed and every code array replaced by a related
   one.  Then c' has the description of c — hence duke reads both files to the same tree. *)
Theorem C01_class_layout_independent : forall impl dec pi c c' p p', class_iso dec pi c c' p p' ->
  describe impl dec c' = describe impl dec c.
Proof. exact class_layout_independent. Qed.
Print Assumptions C01_class_layout_independent.

Theorem C01_read_class_layout_independent : forall impl dec pi c c' p p', class_iso dec pi c c' p p' ->
  class_fits impl dec c = true -> class_fits impl dec c' = true ->
  read_class impl dec (encode_class c') = read_class impl dec (encode_class c).
Proof. exact read_class_layout_independent. Qed.
Print Assumptions C01_read_class_layout_independent.

(* ---- annotations -------------------------------------------------------------------------------- *)
(* element_value trees over all tags (B C D F I J S Z s e c @ [): every element value whose indices
   and counts fit and whose annotations / arrays nest at most 64 deep is read from its encoding to
   its structural description *)
Theorem C01_element_value_roundtrip : forall impl dec rs e rest, ev_ok e = true -> (ev_depth e <= 64)%nat ->
  rd_fmt impl dec rs (ev_fmt max_ev_nesting) (enc_raw (raw_of_ev e) ++ rest) = (do v <- describe_ev rs e; Ok (v, rest)).
Proof. exact ev_roundtrip. Qed.
Print Assumptions C01_element_value_roundtrip.

Theorem C01_annotation_roundtrip : forall impl dec rs a rest, annotation_ok a = true -> (annotation_depth a <= 64)%nat ->
  rd_fmt impl dec rs annotation_fmt (enc_raw (raw_of_annotation a) ++ rest) = (do v <- describe_annotation rs a; Ok (v, rest)).
Proof. exact annotation_roundtrip. Qed.
Print Assumptions C01_annotation_roundtrip.

(* the limit is the reader's (fix cd3a624): 64 levels are read, 65 are refused *)
Theorem C01_ev_nesting_limit : forall impl dec rs,
  (exists v, rd_fmt impl dec (fun _ _ => Ok (VInt 0)) (ev_fmt max_ev_nesting) (enc_raw (raw_of_ev (nested_array 64 1))) = Ok (v, [])) /\
  rd_fmt impl dec rs (ev_fmt max_ev_nesting) (enc_raw (raw_of_ev (nested_array 65 1))) = Err.
Proof. exact ev_nesting_limit. Qed.
Print Assumptions C01_ev_nesting_limit.

(* ---- non-vacuity -------------------------------------------------------------------------------- *)
Theorem C01_examples : nonvacuous.
Proof. exact nonvacuous_holds. Qed.
Print Assumptions C01_examples.

Theorem C01_examples2 : nonvacuous2.
Proof. exact nonvacuous2_holds. Qed.
Print Assumptions C01_examples2.

Theorem C01_examples3 : nonvacuous3.
Proof. exact nonvacuous3_holds. Qed.
Print Assumptions C01_examples3.

Theorem C01_examples4 : nonvacuous4.
Proof. exact nonvacuous4_holds. Qed.
Print Assumptions C01_examples4.

Theorem C01_examples5 : nonvacuous17 /\ nonvacuous5 /\ nonvacuous22 /\ nonvacuous24 /\ nonvacuous25.
Proof. exact (conj nonvacuous17_holds (conj nonvacuous5_holds (conj nonvacuous22_holds (conj nonvacuous24_holds nonvacuous25_holds)))). Qed.
Print Assumptions C01_examples5.
