(* C01 — property theorems only.  Each is closed by [exact <lemma>] and followed by Print Assumptions;
   the statements are pinned here so they cannot be quietly weakened.
   Model: C01/Model.v (code-array reader, general encoder), Pool.v, Resolve.v, Attr.v; generated
   tables: C01/Opcodes.v, C01/Tables.v (regenerated from duke's source on every run). *)
From Coq Require Import Permutation.
From FB Require Import C01.Model C01.Pool C01.Resolve C01.Attr
  C01.Theory1 C01.Theory2 C01.Theory3 C01.Theory4 C01.Theory5 C01.Theory6 C01.Examples.

(* ---- the code array ---------------------------------------------------------------------------- *)

(* The first-pass match (instruction boundaries, label creation) and the second-pass match
   (decoding) of read_code agree on every opcode and on every opcode behind the wide prefix: same
   operand length, a label created exactly for the branch operands. *)
Theorem C01_passes_agree : forall op, agree_top op = true /\ agree_wide op = true.
Proof. exact (fun op => conj (agree_top_all op) (agree_wide_all op)). Qed.
Print Assumptions C01_passes_agree.

(* For every body and every choice function (any opcode form that duke maps to the instruction's
   constructor: xload_n / xload / wide xload, ldc / ldc_w / ldc2_w, iinc / wide iinc, goto / goto_w,
   jsr / jsr_w; any value of the ignored bytes; switch padding forced by position): pass 1 over the
   encoded body ends exactly at its end and creates exactly the labels of the branch targets. *)
Theorem C01_scan_encode : forall ch body bs,
  encode ch body = Some bs -> targets_ok body -> N.of_nat (length bs) <= 65535 ->
  scan (S (length bs)) (N.of_nat (length bs)) 0 bs []
  = Ok (fold_left lbl_add (map (posf_of (layout ch body)) (flat_map targets body)) []).
Proof. exact scan_encode. Qed.
Print Assumptions C01_scan_encode.

(* … and pass 2 decodes the body back: every instruction at the offset the layout gives it, with its
   operands, every branch/switch target being the offset of the designated instruction. *)
Theorem C01_decode_encode : forall ch body bs ls,
  encode ch body = Some bs -> targets_ok body -> N.of_nat (length bs) <= 65535 ->
  (forall t, In t (flat_map targets body) -> lbl_get ls (posf_of (layout ch body) t) = true) ->
  decode (S (length bs)) ls 0 bs
  = Ok (combine (starts_from ch 0 0 body) (map (map_insn (posf_of (layout ch body))) body)).
Proof. exact decode_encode. Qed.
Print Assumptions C01_decode_encode.

(* offsets and instructions correspond one to one (the layout is strictly increasing) *)
Theorem C01_offset_designates : forall ch body t, (t <= length body)%nat ->
  index_of (posf_of (layout ch body) t) (layout ch body) 0 = Some t.
Proof. exact offset_designates. Qed.
Print Assumptions C01_offset_designates.

(* read_encode: the whole Code attribute.  For every body, every choice function and every set of
   tables over instruction indices (exception ranges whose end may be the code length, line
   numbers, local-variable ranges, strictly increasing stack-map frames, further offsets), reading
   the encoded attribute yields [expected body t]: the same instructions with the same targets;
   exactly the referenced instructions (and the end of the code, if referenced) carry a label;
   every table entry designates the instruction it was built from; the frames are attached in
   order to their instructions. *)
Theorem C01_read_encode : forall ch body bs t,
  encode ch body = Some bs -> body <> [] -> N.of_nat (length bs) <= 65535 ->
  targets_ok body -> tables_ok (length body) t ->
  read_code (code_in_of (posf_of (layout ch body)) t bs) = Ok (expected body t).
Proof. exact read_encode. Qed.
Print Assumptions C01_read_encode.

(* what [expected] says about the instruction list: nothing invented, nothing dropped, nothing moved *)
Theorem C01_expected_shape : forall body t,
  length (cs_insns (expected body t)) = length body /\
  forall k i, nth_error body k = Some i ->
    exists fr, nth_error (cs_insns (expected body t)) k = Some (mem_nat k (refs body t), fr, map_insn Some i).
Proof. exact expected_shape. Qed.
Print Assumptions C01_expected_shape.

(* tables_resolve, frames: the m-th frame, naming instruction f, ends up on instruction f *)
Theorem C01_frames_attached : forall cnt k fs j,
  incr_from k fs -> (forall f, In f fs -> (f < k + cnt)%nat) ->
  forall m f, nth_error fs m = Some f -> nth_error (attach_idx k cnt fs j) (f - k) = Some (Some (j + m)%nat).
Proof. exact attach_idx_spec. Qed.
Print Assumptions C01_frames_attached.

(* ---- the constant pool -------------------------------------------------------------------------- *)

(* two-slot entries: every entry is found at its slot; the slot after a Long/Double holds nothing *)
Theorem C01_pool_slots : forall es1 e es2,
  pget (pool_of_entries (es1 ++ e :: es2)) (1 + slots_before es1) = Ok e /\
  (two_slot e = true -> pget (pool_of_entries (es1 ++ e :: es2)) (2 + slots_before es1) = Err).
Proof. exact (fun es1 e es2 => conj (pget_pool_of_entries es1 e es2) (pget_second_slot es1 e es2)). Qed.
Print Assumptions C01_pool_slots.

(* pool_layout_independent: any re-layout of the pool (order, extra entries, duplicates) resolves the
   renamed index to the same value, for every accessor (loadable constants incl. nested dynamic
   constants through the bootstrap table, field/method/interface-method references, invokedynamic,
   classes, constant values, handles, modules, packages) *)
Theorem C01_pool_layout_independent : forall pi p p' b, pool_iso pi p p' -> forall kind i v,
  resolve_kind p b kind i = Ok v -> resolve_kind p' (rename_bsm pi b) kind (pi i) = Ok v.
Proof. exact pool_layout_independent. Qed.
Print Assumptions C01_pool_layout_independent.

(* … lifted to instruction operands *)
Theorem C01_insn_layout_independent : forall pi p p' b, pool_iso pi p p' -> forall (i : ainsn (option nat)) x,
  resolve_insn p b i = Ok x -> resolve_insn p' (rename_bsm pi b) (rename_insn pi i) = Ok x.
Proof. exact insn_layout_independent. Qed.
Print Assumptions C01_insn_layout_independent.

(* ---- attributes --------------------------------------------------------------------------------- *)

Theorem C01_attr_framing : forall l rest,
  N.of_nat (length l) < 65536 -> (forall a, In a l -> attr_raw_ok a) ->
  parse_attrs (enc_attrs l ++ rest) = Ok (l, rest).
Proof. exact parse_enc_attrs. Qed.
Print Assumptions C01_attr_framing.

(* unknown_verbatim: an attribute whose name has no arm is delivered with its bytes untouched; nothing
   else is delivered as unknown; the order of the file is kept *)
Theorem C01_unknown_verbatim : forall known (l : list attr) name payload,
  In (name, payload) l -> mem_str name known = false -> In (name, payload) (unknown_of known l).
Proof. exact unknown_verbatim. Qed.
Print Assumptions C01_unknown_verbatim.

Theorem C01_unknown_nothing_invented : forall known (l : list attr) a,
  In a (unknown_of known l) -> In a l /\ mem_str (fst a) known = false.
Proof. exact unknown_nothing_invented. Qed.
Print Assumptions C01_unknown_nothing_invented.

Theorem C01_unknown_in_order : forall known (l1 l2 : list attr),
  unknown_of known (l1 ++ l2) = unknown_of known l1 ++ unknown_of known l2.
Proof. exact unknown_in_order. Qed.
Print Assumptions C01_unknown_in_order.

(* attr_order_independent: for attribute lists with distinct names, every permutation hands every arm
   the same payload and the visitor the same unknown attributes *)
Theorem C01_attr_order_independent : forall known (l l' : list attr),
  NoDup (map fst l) -> Permutation l l' ->
  (forall name, lookup_attr name l = lookup_attr name l') /\
  Permutation (unknown_of known l) (unknown_of known l').
Proof. exact attr_order_independent. Qed.
Print Assumptions C01_attr_order_independent.

(* nothing_dropped (restricted): every attribute name with an arm of its own is parsed and handed to
   the visitor or sets its flag — except the two parameter-annotation attributes of methods (F13p) *)
Theorem C01_nothing_dropped_partial : forall c name, c <= 4 ->
  known_class_f13p c name = false -> In name (ctx_known c) -> delivered c name.
Proof. exact nothing_dropped_partial. Qed.
Print Assumptions C01_nothing_dropped_partial.

Theorem C01_nothing_dropped_refuted : exists c name,
  known_class_f13p c name = true /\ In name (ctx_known c) /\ ~ delivered c name.
Proof. exact nothing_dropped_refuted. Qed.
Print Assumptions C01_nothing_dropped_refuted.

(* F13 repaired: read_code calls visit_local_variables *)
Theorem C01_local_variables_visited : mem_str s_visit_local_variables code_visits = true.
Proof. exact local_variables_visited. Qed.
Print Assumptions C01_local_variables_visited.

(* ---- access flags ------------------------------------------------------------------------------- *)

Theorem C01_access_roundtrip : forall kind v, kind <= 8 -> v < 65536 ->
  access_back kind v = N.land v (mask_of (fst (flag_tables kind))).
Proof. exact access_roundtrip. Qed.
Print Assumptions C01_access_roundtrip.

Theorem C01_flags_match_jvms : forall kind, kind <= 8 ->
  fst (flag_tables kind) = jvms_flags kind /\ snd (flag_tables kind) = jvms_flags kind.
Proof. exact flags_match_jvms. Qed.
Print Assumptions C01_flags_match_jvms.

(* ---- header ------------------------------------------------------------------------------------- *)
(* skeleton, gate: the reader accepts exactly magic 0xCAFEBABE with a version up to 67.0 (constants
   regenerated from class_reader.rs / version.rs) *)
Theorem C01_header_gate : forall mg minor major, minor < 65536 ->
  (header_ok mg minor major = true <-> mg = 3405691582 /\ (major < 67 \/ (major = 67 /\ minor = 0))).
Proof. exact header_gate. Qed.
Print Assumptions C01_header_gate.

(* ---- non-vacuity -------------------------------------------------------------------------------- *)
Theorem C01_examples : nonvacuous.
Proof. exact nonvacuous_holds. Qed.
Print Assumptions C01_examples.
