(* C01 — property theorems only.  Each is closed by [exact <lemma>] and followed by Print Assumptions. *)
From FB Require Import C01.Model C01.Theory1 C01.Theory2 C01.Theory3.

(* The first-pass match (instruction boundaries, label creation) and the second-pass match
   (decoding) of read_code agree on every opcode and on every opcode behind the wide prefix: same
   operand length, a label created exactly for the branch operands.  Both tables are regenerated
   from the Rust source on every run. *)
Theorem C01_passes_agree : forall op, agree_top op = true /\ agree_wide op = true.
Proof. exact (fun op => conj (agree_top_all op) (agree_wide_all op)). Qed.
Print Assumptions C01_passes_agree.

(* For every body and every choice function (any opcode form that duke maps to the instruction's
   constructor: xload_n / xload / wide xload, ldc / ldc_w / ldc2_w, iinc / wide iinc, goto / goto_w,
   jsr / jsr_w; any value of the ignored bytes; switch padding forced by position): pass 1 over the
   encoded body ends exactly at its end and creates exactly the labels of the branch targets. *)
Theorem C01_scan_encode : forall ch body bs,
  encode ch body = Some bs -> targets_ok body -> N.of_nat (length bs) <= 65535 ->
  scan (S (length bs)) (N.of_nat (length bs)) 0 bs []
  = Ok (fold_left lbl_add (map (posf_of (layout ch body)) (flat_map targets body)) []).
Proof. exact scan_encode. Qed.
Print Assumptions C01_scan_encode.

(* … and pass 2 decodes the body back: every instruction at the offset the layout gives it, with its
   operands, every branch/switch target being the offset of the designated instruction. *)
Theorem C01_decode_encode : forall ch body bs ls,
  encode ch body = Some bs -> targets_ok body -> N.of_nat (length bs) <= 65535 ->
  (forall t, In t (flat_map targets body) -> lbl_get ls (posf_of (layout ch body) t) = true) ->
  decode (S (length bs)) ls 0 bs
  = Ok (combine (starts_from ch 0 0 body) (map (map_insn (posf_of (layout ch body))) body)).
Proof. exact decode_encode. Qed.
Print Assumptions C01_decode_encode.

(* offsets and instructions correspond one to one (the layout is strictly increasing) *)
Theorem C01_offset_designates : forall ch body t, (t <= length body)%nat ->
  index_of (posf_of (layout ch body) t) (layout ch body) 0 = Some t.
Proof. exact offset_designates. Qed.
Print Assumptions C01_offset_designates.
