(* C05 — property theorems only.  Each is closed by [exact <lemma>] and followed by
   Print Assumptions; the statements are pinned here so they cannot be quietly weakened.

   The operations the version graph composes (reading .tiny/.tinydiff text, contracting and
   extending inner class names, applying a diff — the subjects of C03, C04, C11) are parameters
   [o : ops C M D] of every statement, and their laws are explicit premises where needed.
   A directory [d] is the list of its (file name, content) pairs in listing order. *)
From FB Require Import C05.Model C05.Theory1 C05.Theory2 C05.Theory3 C05.Theory4 C05.Theory5 C05.Theory6 C05.Theory7 C05.Example.
From Coq Require Import Permutation.

(* ---- 1. listing-order independence ---- *)
(* permuting a well-formed directory changes neither success nor the graph: same node names,
   same root, same root mapping, same lookup table (by names), same edges (by names) *)
Theorem C05_resolve_perm : forall C M (lr : C -> res M) (d d' : list (file C)),
  well_formed d = true -> nodup_strb (map fst d) = true -> Permutation d d' ->
  match resolve lr d, resolve lr d' with
  | Ok g, Ok g' => graph_equiv g g'
  | Err, Err => True
  | _, _ => False
  end.
Proof. exact @resolve_perm. Qed.
Print Assumptions C05_resolve_perm.

(* ... and the set of answers apply_diffs may give for any lookup name is the same *)
Theorem C05_candidates_perm : forall C M D (o : ops C M D) (d d' : list (file C)) g g',
  well_formed d = true -> nodup_strb (map fst d) = true -> Permutation d d' ->
  resolve (load_root o) d = Ok g -> resolve (load_root o) d' = Ok g' ->
  forall k r, In r (candidates_by_name o g k) <-> In r (candidates_by_name o g' k).
Proof. exact @candidates_perm. Qed.
Print Assumptions C05_candidates_perm.

(* ---- 2. what the candidates are: the folds along the shortest paths from the root ---- *)
Theorem C05_shortest_paths_spec : forall C M (g : graph C M) v path,
  In path (shortest_paths g v) <->
  exists l, path = g_root g :: l /\ fwalk (g_edges g) (g_root g) l /\ last l (g_root g) = v
            /\ (length l <= length (g_nodes g))%nat /\ minimal_to (g_edges g) (g_root g) v 0 l.
Proof. exact @shortest_paths_spec. Qed.
Print Assumptions C05_shortest_paths_spec.

(* trees: exactly one candidate *)
Theorem C05_tree_unique : forall C M D (o : ops C M D) (g : graph C M) v,
  in_degree_le_1 (g_edges g) -> exists r, forall x, In x (candidates o g v) <-> x = r.
Proof. exact @tree_unique. Qed.
Print Assumptions C05_tree_unique.

Theorem C05_tree_dir : forall C M (lr : C -> res M) (d : list (file C)) g,
  well_formed d = true -> resolve lr d = Ok g ->
  (forall f1 f2 p1 p2 v, In f1 d -> In f2 d -> classify (fst f1) = FEdge p1 v -> classify (fst f2) = FEdge p2 v -> p1 = p2) ->
  in_degree_le_1 (g_edges g).
Proof. exact @tree_dir. Qed.
Print Assumptions C05_tree_dir.

(* ---- 3. soundness with respect to a history ---- *)
(* If the root file loads to (something R-related to) H(root) and every edge file p#v reads as a
   diff that turns H(p) into (something R-related to) H(v), then every version reachable from the
   root is answered — along whichever shortest path — by the extension of H(v). *)
Theorem C05_history_sound : forall C M D (o : ops C M D) (R : M -> M -> Prop) (H : str -> M) (d : list (file C)) g,
  well_formed d = true -> resolve (load_root o) d = Ok g ->
  (forall a b c, R a b -> R b c -> R a c) ->
  (forall dd a a' b, R a' a -> apply o dd a = Ok b -> exists b', apply o dd a' = Ok b' /\ R b' b) ->
  (forall a a' e, R a' a -> extend o a = Ok e -> exists e', extend o a' = Ok e' /\ R e' e) ->
  (forall f vr m, In f d -> classify (fst f) = FRoot vr -> load_root o (snd f) = Ok m -> R m (H vr)) ->
  (forall f p v, In f d -> classify (fst f) = FEdge p v ->
     exists dd b, parse_diff o (snd f) = Ok dd /\ apply o dd (H p) = Ok b /\ R b (H v)) ->
  forall k sp i v, get g k = Ok (sp, i) -> nth_error (g_nodes g) i = Some v ->
  (exists vr f L, In f d /\ classify (fst f) = FRoot vr /\ nwalk d vr L /\ last L vr = v) ->
  forall e', extend o (H v) = Ok e' ->
  forall r, In r (candidates_by_name o g k) -> exists e, r = Ok e /\ R e e'.
Proof. exact @history_sound. Qed.
Print Assumptions C05_history_sound.

(* the same with equality: the answer IS extend (H v) *)
Theorem C05_history_sound_eq : forall C M D (o : ops C M D) (H : str -> M) (d : list (file C)) g,
  well_formed d = true -> resolve (load_root o) d = Ok g ->
  (forall f vr, In f d -> classify (fst f) = FRoot vr -> load_root o (snd f) = Ok (H vr)) ->
  (forall f p v, In f d -> classify (fst f) = FEdge p v -> exists dd, parse_diff o (snd f) = Ok dd /\ apply o dd (H p) = Ok (H v)) ->
  forall k sp i v, get g k = Ok (sp, i) -> nth_error (g_nodes g) i = Some v ->
  (exists vr f L, In f d /\ classify (fst f) = FRoot vr /\ nwalk d vr L /\ last L vr = v) ->
  forall r, In r (candidates_by_name o g k) -> r = extend o (H v).
Proof. exact @history_sound_eq. Qed.
Print Assumptions C05_history_sound_eq.

(* the directory is literally the printed history; the laws of C03/C11 (root file round trip)
   and of C04 (diff through the text form) are premises *)
Theorem C05_history_sound_composed : forall C M D (o : ops C M D) (R : M -> M -> Prop) (good : M -> Prop)
    (write_tiny : M -> C) (print_diff : D -> C) (diff_of : M -> M -> res D) (H : str -> M) (d : list (file C)) g,
  well_formed d = true -> resolve (load_root o) d = Ok g ->
  (forall a b c, R a b -> R b c -> R a c) ->
  (forall dd a a' b, R a' a -> apply o dd a = Ok b -> exists b', apply o dd a' = Ok b' /\ R b' b) ->
  (forall a a' e, R a' a -> extend o a = Ok e -> exists e', extend o a' = Ok e' /\ R e' e) ->
  (forall m e m', good m -> extend o m = Ok e -> load_root o (write_tiny e) = Ok m' -> R m' m) ->
  (forall a b dd, good a -> good b -> diff_of a b = Ok dd ->
     exists dd' b', parse_diff o (print_diff dd) = Ok dd' /\ apply o dd' a = Ok b' /\ R b' b) ->
  (forall v, In v (dir_versions d) -> good (H v)) ->
  (forall f vr, In f d -> classify (fst f) = FRoot vr -> exists e, extend o (H vr) = Ok e /\ snd f = write_tiny e) ->
  (forall f p v, In f d -> classify (fst f) = FEdge p v -> exists dd, diff_of (H p) (H v) = Ok dd /\ snd f = print_diff dd) ->
  forall k sp i v, get g k = Ok (sp, i) -> nth_error (g_nodes g) i = Some v ->
  (exists vr f L, In f d /\ classify (fst f) = FRoot vr /\ nwalk d vr L /\ last L vr = v) ->
  forall e', extend o (H v) = Ok e' ->
  forall r, In r (candidates_by_name o g k) -> exists e, r = Ok e /\ R e e'.
Proof. exact @history_sound_composed. Qed.
Print Assumptions C05_history_sound_composed.

(* ---- 4. lookup: every plain version under its name, every a~b under a and under b ---- *)
Theorem C05_lookup : forall C M (lr : C -> res M) (d : list (file C)) g,
  well_formed d = true -> resolve lr d = Ok g ->
  forall v, In v (dir_versions d) ->
  exists i, nth_error (g_nodes g) i = Some v /\
    match split_once sep_split v with
    | None => get g v = Ok (SNone, i)
    | Some (a, b) => get g a = Ok (SFirst, i) /\ get g b = Ok (SSecond, i)
    end.
Proof. exact @lookup. Qed.
Print Assumptions C05_lookup.

(* ---- 5. malformed directories are errors ---- *)
Theorem C05_no_root_err : forall C M (lr : C -> res M) (d : list (file C)),
  (forall f, In f d -> is_tiny_name (fst f) = false) -> resolve lr d = Err.
Proof. exact @no_root_err. Qed.
Print Assumptions C05_no_root_err.

Theorem C05_two_roots_err : forall C M (lr : C -> res M) (d1 d2 d3 : list (file C)) f1 f2,
  is_tiny_name (fst f1) = true -> is_tiny_name (fst f2) = true ->
  resolve lr (d1 ++ f1 :: d2 ++ f2 :: d3) = Err.
Proof. exact @two_roots_err. Qed.
Print Assumptions C05_two_roots_err.

Theorem C05_diff_name_without_hash_err : forall C M (lr : C -> res M) (d1 d2 : list (file C)) f raw,
  strip_suffix ext_tiny (fst f) = None -> strip_suffix ext_diff (fst f) = Some raw -> ~ In sep_edge raw ->
  resolve lr (d1 ++ f :: d2) = Err.
Proof. exact @diff_name_without_hash_err. Qed.
Print Assumptions C05_diff_name_without_hash_err.

Theorem C05_root_unreadable_err : forall C M (lr : C -> res M) (d : list (file C)),
  (forall f, In f d -> is_tiny_name (fst f) = true -> lr (snd f) = Err) -> resolve lr d = Err.
Proof. exact @root_unreadable_err. Qed.
Print Assumptions C05_root_unreadable_err.

(* a cycle reachable from the root, stated on the file names (well-formed directories) ... *)
Theorem C05_cycle_err : forall C M (lr : C -> res M) (d : list (file C)) f vr L Cy,
  well_formed d = true -> In f d -> classify (fst f) = FRoot vr ->
  nwalk d vr L -> Cy <> [] -> nwalk d (last L vr) Cy -> last Cy (last L vr) = last L vr ->
  resolve lr d = Err.
Proof. exact @cycle_err. Qed.
Print Assumptions C05_cycle_err.

(* ... and on the graph the scan built (every directory, collisions of lookup names included) *)
Theorem C05_reachable_cycle_err : forall C M (lr : C -> res M) (d : list (file C)) st r f l c,
  scan_dir scan0 d = Ok st -> sc_root st = Some (r, f) ->
  fwalk (sc_edges st) r l -> c <> [] -> fwalk (sc_edges st) (last l r) c -> last c (last l r) = last l r ->
  resolve lr d = Err.
Proof. exact @reachable_cycle_err. Qed.
Print Assumptions C05_reachable_cycle_err.

(* resolve fails exactly when a walk from the root is longer than the number of nodes *)
Theorem C05_walk_err_iff : forall C (es : list (edge C)) root n ds,
  walk (S n) es root [([], root)] ds = Err <-> exists l, fwalk es root l /\ (S n <= length l)%nat.
Proof. exact @walk_err_iff. Qed.
Print Assumptions C05_walk_err_iff.

(* an unknown name (every directory) *)
Theorem C05_unknown_name_err : forall C M (lr : C -> res M) (d : list (file C)) g name,
  resolve lr d = Ok g -> (forall v, In v (dir_versions d) -> ~ In name (keys v)) -> get g name = Err.
Proof. exact @unknown_name_err. Qed.
Print Assumptions C05_unknown_name_err.

(* a version that is not reachable from the root *)
Theorem C05_unreachable_err : forall C M D (o : ops C M D) (d : list (file C)) g v i sp k,
  well_formed d = true -> resolve (load_root o) d = Ok g ->
  get g k = Ok (sp, i) -> nth_error (g_nodes g) i = Some v ->
  (forall vr f L, In f d -> classify (fst f) = FRoot vr -> nwalk d vr L -> last L vr <> v) ->
  candidates_by_name o g k = [Err].
Proof. exact @unreachable_err_named. Qed.
Print Assumptions C05_unreachable_err.

(* ---- non-vacuity ---- *)
Theorem C05_examples : nonvacuous.
Proof. exact nonvacuous_holds. Qed.
Print Assumptions C05_examples.
