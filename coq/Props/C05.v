(* C05 — property theorems only.  Each is closed by [exact <lemma>] and followed by
   Print Assumptions; the statements are pinned here so they cannot be quietly weakened.

   The operations the version graph composes (reading .tiny/.tinydiff text, contracting and
   extending inner class names, applying a diff — the subjects of C03, C04, C11) are parameters
   [o : ops C M D] of the statements of sections 1-5, and their laws are explicit premises where
   needed; section 6 instantiates them with the models of C03, C04, C11 and discharges the premises.
   A directory [d] is the list of its (file name, content) pairs in listing order. *)
From FB Require Import C05.Model C05.Theory1 C05.Theory2 C05.Theory3 C05.Theory4 C05.Theory5 C05.Theory6 C05.Theory7 C05.Theory8 C05.Example.
From Coq Require Import Permutation.

(* ---- 1. listing-order independence ---- *)
(* permuting a well-formed directory changes neither success nor the graph: same node names,
   same root, same root mapping, same lookup table (by names), same edges (by names) *)
Theorem C05_resolve_perm : forall C M (lr : C -> res M) (d d' : list (file C)),
  well_formed d = true -> nodup_strb (map fst d) = true -> Permutation d d' ->
  match resolve lr d, resolve lr d' with
  | Ok g, Ok g' => graph_equiv g g'
  | Err, Err => True
  | _, _ => False
  end.
Proof. exact @resolve_perm. Qed.
Print Assumptions C05_resolve_perm.

(* ... and the set of answers apply_diffs may give for any lookup name is the same *)
Theorem C05_candidates_perm : forall C M D (o : ops C M D) (d d' : list (file C)) g g',
  well_formed d = true -> nodup_strb (map fst d) = true -> Permutation d d' ->
  resolve (load_root o) d = Ok g -> resolve (load_root o) d' = Ok g' ->
  forall k r, In r (candidates_by_name o g k) <-> In r (candidates_by_name o g' k).
Proof. exact @candidates_perm. Qed.
Print Assumptions C05_candidates_perm.

(* ---- 2. what the candidates are: the folds along the shortest paths from the root ---- *)
Theorem C05_shortest_paths_spec : forall C M (g : graph C M) v path,
  In path (shortest_paths g v) <->
  exists l, path = g_root g :: l /\ fwalk (g_edges g) (g_root g) l /\ last l (g_root g) = v
            /\ (length l <= length (g_nodes g))%nat /\ minimal_to (g_edges g) (g_root g) v 0 l.
Proof. exact @shortest_paths_spec. Qed.
Print Assumptions C05_shortest_paths_spec.

(* trees: exactly one candidate *)
Theorem C05_tree_unique : forall C M D (o : ops C M D) (g : graph C M) v,
  in_degree_le_1 (g_edges g) -> exists r, forall x, In x (candidates o g v) <-> x = r.
Proof. exact @tree_unique. Qed.
Print Assumptions C05_tree_unique.

Theorem C05_tree_dir : forall C M (lr : C -> res M) (d : list (file C)) g,
  well_formed d = true -> resolve lr d = Ok g ->
  (forall f1 f2 p1 p2 v, In f1 d -> In f2 d -> classify (fst f1) = FEdge p1 v -> classify (fst f2) = FEdge p2 v -> p1 = p2) ->
  in_degree_le_1 (g_edges g).
Proof. exact @tree_dir. Qed.
Print Assumptions C05_tree_dir.

(* ---- 3. soundness with respect to a history ---- *)
(* If the root file loads to (something R-related to) H(root) and every edge file p#v reads as a
   diff that turns H(p) into (something R-related to) H(v), then every version reachable from the
   root is answered — along whichever shortest path — by the extension of H(v). *)
Theorem C05_history_sound : forall C M D (o : ops C M D) (R : M -> M -> Prop) (H : str -> M) (d : list (file C)) g,
  well_formed d = true -> resolve (load_root o) d = Ok g ->
  (forall a b c, R a b -> R b c -> R a c) ->
  (forall dd a a' b, R a' a -> apply o dd a = Ok b -> exists b', apply o dd a' = Ok b' /\ R b' b) ->
  (forall a a' e, R a' a -> extend o a = Ok e -> exists e', extend o a' = Ok e' /\ R e' e) ->
  (forall f vr m, In f d -> classify (fst f) = FRoot vr -> load_root o (snd f) = Ok m -> R m (H vr)) ->
  (forall f p v, In f d -> classify (fst f) = FEdge p v ->
     exists dd b, parse_diff o (snd f) = Ok dd /\ apply o dd (H p) = Ok b /\ R b (H v)) ->
  forall k sp i v, get g k = Ok (sp, i) -> nth_error (g_nodes g) i = Some v ->
  (exists vr f L, In f d /\ classify (fst f) = FRoot vr /\ nwalk d vr L /\ last L vr = v) ->
  forall e', extend o (H v) = Ok e' ->
  forall r, In r (candidates_by_name o g k) -> exists e, r = Ok e /\ R e e'.
Proof. exact @history_sound. Qed.
Print Assumptions C05_history_sound.

(* the same with equality: the answer IS extend (H v) *)
Theorem C05_history_sound_eq : forall C M D (o : ops C M D) (H : str -> M) (d : list (file C)) g,
  well_formed d = true -> resolve (load_root o) d = Ok g ->
  (forall f vr, In f d -> classify (fst f) = FRoot vr -> load_root o (snd f) = Ok (H vr)) ->
  (forall f p v, In f d -> classify (fst f) = FEdge p v -> exists dd, parse_diff o (snd f) = Ok dd /\ apply o dd (H p) = Ok (H v)) ->
  forall k sp i v, get g k = Ok (sp, i) -> nth_error (g_nodes g) i = Some v ->
  (exists vr f L, In f d /\ classify (fst f) = FRoot vr /\ nwalk d vr L /\ last L vr = v) ->
  forall r, In r (candidates_by_name o g k) -> r = extend o (H v).
Proof. exact @history_sound_eq. Qed.
Print Assumptions C05_history_sound_eq.

(* the directory is literally the printed history; the laws of C03/C11 (root file round trip)
   and of C04 (diff through the text form) are premises *)
Theorem C05_history_sound_composed : forall C M D (o : ops C M D) (R : M -> M -> Prop) (good : M -> Prop)
    (write_tiny : M -> C) (print_diff : D -> C) (diff_of : M -> M -> res D) (H : str -> M) (d : list (file C)) g,
  well_formed d = true -> resolve (load_root o) d = Ok g ->
  (forall a b c, R a b -> R b c -> R a c) ->
  (forall dd a a' b, R a' a -> apply o dd a = Ok b -> exists b', apply o dd a' = Ok b' /\ R b' b) ->
  (forall a a' e, R a' a -> extend o a = Ok e -> exists e', extend o a' = Ok e' /\ R e' e) ->
  (forall m e m', good m -> extend o m = Ok e -> load_root o (write_tiny e) = Ok m' -> R m' m) ->
  (forall a b dd, good a -> good b -> diff_of a b = Ok dd ->
     exists dd' b', parse_diff o (print_diff dd) = Ok dd' /\ apply o dd' a = Ok b' /\ R b' b) ->
  (forall v, In v (dir_versions d) -> good (H v)) ->
  (forall f vr, In f d -> classify (fst f) = FRoot vr -> exists e, extend o (H vr) = Ok e /\ snd f = write_tiny e) ->
  (forall f p v, In f d -> classify (fst f) = FEdge p v -> exists dd, diff_of (H p) (H v) = Ok dd /\ snd f = print_diff dd) ->
  forall k sp i v, get g k = Ok (sp, i) -> nth_error (g_nodes g) i = Some v ->
  (exists vr f L, In f d /\ classify (fst f) = FRoot vr /\ nwalk d vr L /\ last L vr = v) ->
  forall e', extend o (H v) = Ok e' ->
  forall r, In r (candidates_by_name o g k) -> exists e, r = Ok e /\ R e e'.
Proof. exact @history_sound_composed. Qed.
Print Assumptions C05_history_sound_composed.

(* ---- 4. lookup: every plain version under its name, every a~b under a and under b ---- *)
Theorem C05_lookup : forall C M (lr : C -> res M) (d : list (file C)) g,
  well_formed d = true -> resolve lr d = Ok g ->
  forall v, In v (dir_versions d) ->
  exists i, nth_error (g_nodes g) i = Some v /\
    match split_once sep_split v with
    | None => get g v = Ok (SNone, i)
    | Some (a, b) => get g a = Ok (SFirst, i) /\ get g b = Ok (SSecond, i)
    end.
Proof. exact @lookup. Qed.
Print Assumptions C05_lookup.

(* ---- 5. malformed directories are errors ---- *)
Theorem C05_no_root_err : forall C M (lr : C -> res M) (d : list (file C)),
  (forall f, In f d -> is_tiny_name (fst f) = false) -> resolve lr d = Err.
Proof. exact @no_root_err. Qed.
Print Assumptions C05_no_root_err.

Theorem C05_two_roots_err : forall C M (lr : C -> res M) (d1 d2 d3 : list (file C)) f1 f2,
  is_tiny_name (fst f1) = true -> is_tiny_name (fst f2) = true ->
  resolve lr (d1 ++ f1 :: d2 ++ f2 :: d3) = Err.
Proof. exact @two_roots_err. Qed.
Print Assumptions C05_two_roots_err.

Theorem C05_diff_name_without_hash_err : forall C M (lr : C -> res M) (d1 d2 : list (file C)) f raw,
  strip_suffix ext_tiny (fst f) = None -> strip_suffix ext_diff (fst f) = Some raw -> ~ In sep_edge raw ->
  resolve lr (d1 ++ f :: d2) = Err.
Proof. exact @diff_name_without_hash_err. Qed.
Print Assumptions C05_diff_name_without_hash_err.

Theorem C05_root_unreadable_err : forall C M (lr : C -> res M) (d : list (file C)),
  (forall f, In f d -> is_tiny_name (fst f) = true -> lr (snd f) = Err) -> resolve lr d = Err.
Proof. exact @root_unreadable_err. Qed.
Print Assumptions C05_root_unreadable_err.

(* a cycle reachable from the root, stated on the file names (well-formed directories) ... *)
Theorem C05_cycle_err : forall C M (lr : C -> res M) (d : list (file C)) f vr L Cy,
  well_formed d = true -> In f d -> classify (fst f) = FRoot vr ->
  nwalk d vr L -> Cy <> [] -> nwalk d (last L vr) Cy -> last Cy (last L vr) = last L vr ->
  resolve lr d = Err.
Proof. exact @cycle_err. Qed.
Print Assumptions C05_cycle_err.

(* ... and on the graph the scan built (every directory, collisions of lookup names included) *)
Theorem C05_reachable_cycle_err : forall C M (lr : C -> res M) (d : list (file C)) st r f l c,
  scan_dir scan0 d = Ok st -> sc_root st = Some (r, f) ->
  fwalk (sc_edges st) r l -> c <> [] -> fwalk (sc_edges st) (last l r) c -> last c (last l r) = last l r ->
  resolve lr d = Err.
Proof. exact @reachable_cycle_err. Qed.
Print Assumptions C05_reachable_cycle_err.

(* resolve fails exactly when a walk from the root is longer than the number of nodes *)
Theorem C05_walk_err_iff : forall C (es : list (edge C)) root n ds,
  walk (S n) es root [([], root)] ds = Err <-> exists l, fwalk es root l /\ (S n <= length l)%nat.
Proof. exact @walk_err_iff. Qed.
Print Assumptions C05_walk_err_iff.

(* an unknown name (every directory) *)
Theorem C05_unknown_name_err : forall C M (lr : C -> res M) (d : list (file C)) g name,
  resolve lr d = Ok g -> (forall v, In v (dir_versions d) -> ~ In name (keys v)) -> get g name = Err.
Proof. exact @unknown_name_err. Qed.
Print Assumptions C05_unknown_name_err.

(* a version that is not reachable from the root *)
Theorem C05_unreachable_err : forall C M D (o : ops C M D) (d : list (file C)) g v i sp k,
  well_formed d = true -> resolve (load_root o) d = Ok g ->
  get g k = Ok (sp, i) -> nth_error (g_nodes g) i = Some v ->
  (forall vr f L, In f d -> classify (fst f) = FRoot vr -> nwalk d vr L -> last L vr <> v) ->
  candidates_by_name o g k = [Err].
Proof. exact @unreachable_err_named. Qed.
Print Assumptions C05_unreachable_err.

(* ---- 6. the history theorem with the composed operations INSTANTIATED ----
   [FB.C05.Instance.vg_ops] instantiates the parameters with the models of the other properties:
     parse_tiny := C03 read (2 namespaces)      contract := C11 contract _ "named"
     parse_diff := C04 read (.tinydiff text)    apply    := C04 apply_to _ _ "named"
     extend     := C11 extend _ "named"
   exactly the calls of VersionGraph::resolve / ::apply_diffs.  The theorems below compose the pinned
   theorems C03_read_write, C04_diff_apply_partial, C04_diff_textual, C04_read_print, C04_apply_norm,
   C04_diff_ok_iff, C11_contract_extend, C11_extend_preserves_wf along every path; the bridging lemmas
   (coq/C05/{Compat,Bridge}.v) are pinned first.  Equivalence is C04's [mequiv]: same namespaces, same
   top-level comment, and at every level the same keys with equal infos/comments — equality up to the
   order of every map. *)
From FB Require C05.Sim C05.Compat C05.Bridge C05.Instance C05.InstanceDir C05.InstanceExample.
From FB Require Quill.Mappings C03.Model C04.Model C04.Hyps C04.Theory2 C11.Model.

(* C04's apply respects C04's equivalence, for every well-formed diff (distinct keys per map) *)
Theorem C05_apply_respects_mequiv : forall (d : FB.C04.Model.mdiffs) (t t' : FB.Quill.Mappings.mappings) nsname r,
  FB.C04.Hyps.wf_diff d = true -> FB.C04.Theory2.mequiv t' t -> FB.C04.Model.apply_to d t nsname = Ok r ->
  exists r', FB.C04.Model.apply_to d t' nsname = Ok r' /\ FB.C04.Theory2.mequiv r' r.
Proof. exact FB.C05.Compat.apply_to_compat. Qed.
Print Assumptions C05_apply_respects_mequiv.

Theorem C05_mequiv_trans : forall a b c, FB.C04.Theory2.mequiv a b -> FB.C04.Theory2.mequiv b c -> FB.C04.Theory2.mequiv a c.
Proof. exact FB.C05.Compat.mequiv_trans. Qed.
Print Assumptions C05_mequiv_trans.

Theorem C05_mequiv_sym : forall a b, FB.C04.Theory2.mequiv a b -> FB.C04.Theory2.mequiv b a.
Proof. exact FB.C05.Compat.mequiv_sym. Qed.
Print Assumptions C05_mequiv_sym.

(* C11's extend and contract respect it *)
Theorem C05_extend_respects_mequiv : forall M' M name e,
  FB.C04.Theory2.mequiv M' M -> FB.C11.Model.extend M name = Ok e ->
  exists e', FB.C11.Model.extend M' name = Ok e' /\ FB.C04.Theory2.mequiv e' e.
Proof. exact FB.C05.Bridge.extend_compat. Qed.
Print Assumptions C05_extend_respects_mequiv.

Theorem C05_contract_respects_mequiv : forall M' M name r,
  FB.C04.Theory2.mequiv M' M -> FB.C11.Model.contract M name = Ok r ->
  exists r', FB.C11.Model.contract M' name = Ok r' /\ FB.C04.Theory2.mequiv r' r.
Proof. exact FB.C05.Bridge.contract_compat. Qed.
Print Assumptions C05_contract_respects_mequiv.

(* what C03's reader returns for a written set (its canonical form) is equivalent to the set *)
Theorem C05_canon_mequiv : forall M, FB.Quill.Mappings.wf M = true -> FB.C04.Theory2.mequiv (FB.Quill.Mappings.canon M) M.
Proof. exact FB.C05.Bridge.canon_mequiv. Qed.
Print Assumptions C05_canon_mequiv.

(* history soundness in simulation form (parameters still abstract): per edge file, from ANY
   representative of the parent the diff leads to a representative of the child *)
Theorem C05_history_sim : forall C M D (o : ops C M D) (Inv : str -> M -> Prop) (d : list (file C)) g,
  well_formed d = true -> resolve (load_root o) d = Ok g ->
  (forall f vr m, In f d -> classify (fst f) = FRoot vr -> load_root o (snd f) = Ok m -> Inv vr m) ->
  (forall f p v, In f d -> classify (fst f) = FEdge p v -> forall m, Inv p m ->
     exists dd b, parse_diff o (snd f) = Ok dd /\ apply o dd m = Ok b /\ Inv v b) ->
  forall k sp i v, get g k = Ok (sp, i) -> nth_error (g_nodes g) i = Some v ->
  (exists vr f L, In f d /\ classify (fst f) = FRoot vr /\ nwalk d vr L /\ last L vr = v) ->
  forall r, In r (candidates_by_name o g k) -> exists m, Inv v m /\ r = extend o m.
Proof. exact @FB.C05.Sim.history_sim. Qed.
Print Assumptions C05_history_sim.

(* resolve succeeds: well-formed names, no `.tinydiff` name without `#`, exactly one `.tiny` file
   that loads, and no cycle (every edge increases some rank) *)
Theorem C05_resolve_succeeds : forall C M (lr : C -> res M) (d : list (file C)) (rank : str -> nat),
  well_formed d = true -> has_bad d = false -> tiny_count d = 1%nat ->
  (forall f, In f d -> is_tiny_name (fst f) = true -> exists m, lr (snd f) = Ok m) ->
  (forall f p v, In f d -> classify (fst f) = FEdge p v -> (rank p < rank v)%nat) ->
  exists g, resolve lr d = Ok g.
Proof. exact @FB.C05.Sim.resolve_succeeds. Qed.
Print Assumptions C05_resolve_succeeds.

(* THE END-TO-END THEOREM (any rooted acyclic history: chains, trees, DAGs — every shortest path is
   covered, no confluence hypothesis is needed).  [printed_history H d]:
     every version v mentioned in d has [version_ok (H v)]: wf, two namespaces the second of which is
       "named", every entry named in it, C04-textual, no empty comment (C04's known class F4);
     the `.tiny` file of root vr contains C03.write (C11.extend (H vr) "named"), and [root_ok (H vr)]:
       C11's simple_names and C03's textual on the extended set;
     the file `p#v.tinydiff` contains C04.print (C04.diff (H p) (H v)), and [edge_ok (H p) (H v)]: same
       namespaces, same top-level comment, not in C04's known class F3.
   Then resolve succeeds and every version reachable from the root, looked up under any of its lookup
   names, is answered — along every shortest path — by C11.extend (H v) "named" up to mequiv (and by
   an error exactly if that extension fails). *)
Theorem C05_history_sound_instantiated :
  forall (H : str -> FB.Quill.Mappings.mappings) (d : list (file str)) (rank : str -> nat),
  well_formed d = true -> has_bad d = false -> tiny_count d = 1%nat ->
  (forall f p v, In f d -> classify (fst f) = FEdge p v -> (rank p < rank v)%nat) ->
  FB.C05.Instance.printed_history H d ->
  exists g, resolve (load_root FB.C05.Instance.vg_ops) d = Ok g /\
    forall v, FB.C05.Instance.reachable d v -> forall k, In k (keys v) ->
    exists sp i, get g k = Ok (sp, i) /\ nth_error (g_nodes g) i = Some v
      /\ candidates_by_name FB.C05.Instance.vg_ops g k <> []
      /\ forall r, In r (candidates_by_name FB.C05.Instance.vg_ops g k) ->
           FB.C05.Instance.res_rel FB.C04.Theory2.mequiv r (FB.C11.Model.extend (H v) ns_named).
Proof. exact FB.C05.Instance.history_sound_instantiated. Qed.
Print Assumptions C05_history_sound_instantiated.

(* the definitions used in that statement, pinned by unfolding *)
Theorem C05_instance_definitions :
  (forall c, parse_tiny FB.C05.Instance.vg_ops c = FB.C03.Model.read 2 c)
  /\ (forall m, contract FB.C05.Instance.vg_ops m = FB.C11.Model.contract m ns_named)
  /\ (forall c, parse_diff FB.C05.Instance.vg_ops c = FB.C04.Text.read c)
  /\ (forall dd m, apply FB.C05.Instance.vg_ops dd m = FB.C04.Model.apply_to dd m ns_named)
  /\ (forall m, extend FB.C05.Instance.vg_ops m = FB.C11.Model.extend m ns_named)
  /\ (forall M, FB.C05.Instance.version_ok M =
        (FB.Quill.Mappings.wf M && FB.C04.Hyps.two_ns M && str_eqb (nth 1 (FB.Quill.Mappings.ms_ns M) []) ns_named
         && FB.C04.Hyps.named M && FB.C04.Hyps.textual_mappings M && negb (FB.C04.Hyps.has_empty_comment M))%bool)
  /\ (forall A B, FB.C05.Instance.edge_ok A B =
        (list_eqb str_eqb (FB.Quill.Mappings.ms_ns A) (FB.Quill.Mappings.ms_ns B)
         && opt_eqb str_eqb (FB.Quill.Mappings.ms_doc A) (FB.Quill.Mappings.ms_doc B) && negb (FB.C04.Hyps.f3_class A B))%bool)
  /\ (forall M, FB.C05.Instance.root_ok M =
        (FB.C11.Model.simple_names M 1
         && match FB.C11.Model.extend M ns_named with Ok e => FB.C03.Model.textual e | Err => false end)%bool)
  /\ (forall H (d : list (file str)), FB.C05.Instance.printed_history H d <->
        (forall v, In v (dir_versions d) -> FB.C05.Instance.version_ok (H v) = true)
        /\ (forall f vr, In f d -> classify (fst f) = FRoot vr ->
              FB.C05.Instance.root_ok (H vr) = true
              /\ exists e, FB.C11.Model.extend (H vr) ns_named = Ok e /\ FB.C03.Model.write e = Ok (snd f))
        /\ (forall f p v, In f d -> classify (fst f) = FEdge p v ->
              FB.C05.Instance.edge_ok (H p) (H v) = true
              /\ exists dd, FB.C04.Model.diff (H p) (H v) = Ok dd /\ snd f = FB.C04.Text.print dd))
  /\ (forall C (d : list (file C)) v, FB.C05.Instance.reachable d v <->
        exists vr f L, In f d /\ classify (fst f) = FRoot vr /\ nwalk d vr L /\ last L vr = v)
  /\ (forall A (R : A -> A -> Prop) a b, FB.C05.Instance.res_rel R a b <->
        match a, b with Ok x, Ok y => R x y | Err, Err => True | _, _ => False end).
Proof.
  repeat (split; [intros; reflexivity|]). intros; reflexivity.
Qed.
Print Assumptions C05_instance_definitions.

(* the same for the directory COMPUTED from a history given as data: versions (root first, parents
   before children) with their mapping sets, and edges; [dir_of] writes `<root>.tiny` and one
   `<parent>#<child>.tinydiff` per edge; all hypotheses are the single boolean [hist_ok]
   (version_ok / root_ok / edge_ok as above, no `#` in a parent's name, parents listed before
   children, lookup names of different versions distinct). *)
Theorem C05_history_dir_sound : forall h, FB.C05.InstanceDir.hist_ok h = true ->
  exists vr d g, hd_error (map fst (FB.C05.InstanceDir.h_versions h)) = Some vr
    /\ FB.C05.InstanceDir.dir_of h = Ok d /\ resolve (load_root FB.C05.Instance.vg_ops) d = Ok g /\
    forall L, FB.C05.InstanceDir.ewalk (FB.C05.InstanceDir.h_edges h) vr L -> let v := last L vr in forall k, In k (keys v) ->
    exists sp i, get g k = Ok (sp, i) /\ nth_error (g_nodes g) i = Some v
      /\ candidates_by_name FB.C05.Instance.vg_ops g k <> []
      /\ forall r, In r (candidates_by_name FB.C05.Instance.vg_ops g k) ->
           FB.C05.Instance.res_rel FB.C04.Theory2.mequiv r (FB.C11.Model.extend (FB.C05.InstanceDir.hget h v) ns_named).
Proof. exact FB.C05.InstanceDir.history_dir_sound. Qed.
Print Assumptions C05_history_dir_sound.

(* non-vacuity of the instantiated theorem: a three-version history (root, child, grandchild; nested
   and doubly nested classes; rename, additions, removals, comment edits) satisfies hist_ok, and the
   conclusion is checked by evaluating the instantiated model (vm_compute) — the grandchild's answer
   is equal to extend (H v) only up to order *)
Theorem C05_instantiated_example : FB.C05.InstanceExample.instantiated_nonvacuous.
Proof. exact FB.C05.InstanceExample.instantiated_nonvacuous_holds. Qed.
Print Assumptions C05_instantiated_example.

(* ---- 7. depths, validity of indices, "error iff malformed", the accessors (every directory unless said otherwise) ---- *)
(* the depth resolve records for a node is the number of edges of a shortest walk from the root to it
   (0 for the root, and for a node that cannot be reached from the root) *)
Theorem C05_depth_spec : forall C M (lr : C -> res M) (d : list (file C)) g,
  resolve lr d = Ok g ->
  length (g_depths g) = length (g_nodes g) /\
  nth (g_root g) (g_depths g) 0%nat = 0%nat /\
  forall i, i <> g_root g -> (i < length (g_nodes g))%nat ->
    (nth i (g_depths g) 0%nat = 0%nat /\ forall l, fwalk (g_edges g) (g_root g) l -> last l (g_root g) <> i)
    \/ (exists l, fwalk (g_edges g) (g_root g) l /\ last l (g_root g) = i
                  /\ length l = nth i (g_depths g) 0%nat /\ minimal_to (g_edges g) (g_root g) i 0 l).
Proof. exact @depth_spec. Qed.
Print Assumptions C05_depth_spec.

(* ... so the depth of a version is the number of diffs apply_diffs folds for it (every shortest path has depth+1 nodes) *)
Theorem C05_depth_is_path_length : forall C M (lr : C -> res M) (d : list (file C)) g i path,
  resolve lr d = Ok g -> (i < length (g_nodes g))%nat -> In path (shortest_paths g i) ->
  length path = S (nth i (g_depths g) 0%nat).
Proof. exact @depth_is_path_length. Qed.
Print Assumptions C05_depth_is_path_length.

(* every index resolve hands out is a node: the root, both ends of every edge, every lookup, every node on a walk *)
Theorem C05_indices_valid : forall C M (lr : C -> res M) (d : list (file C)) g,
  resolve lr d = Ok g ->
  (g_root g < length (g_nodes g))%nat
  /\ (forall e, In e (g_edges g) -> (e_src e < length (g_nodes g))%nat /\ (e_dst e < length (g_nodes g))%nat)
  /\ (forall k sp i, get g k = Ok (sp, i) -> (i < length (g_nodes g))%nat)
  /\ (forall l, fwalk (g_edges g) (g_root g) l -> forall x, In x l -> (x < length (g_nodes g))%nat).
Proof. exact @indices_valid. Qed.
Print Assumptions C05_indices_valid.

(* the walk of resolve fails exactly when a cycle can be reached from the root (pigeonhole: a walk with as many
   edges as there are nodes runs through a node twice) *)
Theorem C05_walk_err_iff_cycle : forall C (es : list (edge C)) root n ds,
  (forall e, In e es -> (e_dst e < n)%nat) -> (root < n)%nat ->
  walk (S n) es root [([], root)] ds = Err <->
  exists l c, fwalk es root l /\ c <> [] /\ fwalk es (last l root) c /\ last c (last l root) = last l root.
Proof. exact @walk_err_iff_cycle. Qed.
Print Assumptions C05_walk_err_iff_cycle.

(* EVERY directory: resolve fails iff a `.tinydiff` name has no `#`, or the number of `.tiny` files is not one,
   or the root file does not load, or the graph the scan built has a cycle that can be reached from the root *)
Theorem C05_resolve_err_iff : forall C M (lr : C -> res M) (d : list (file C)),
  resolve lr d = Err <->
  has_bad d = true \/ tiny_count d <> 1%nat \/
  exists st r f, scan_dir scan0 d = Ok st /\ sc_root st = Some (r, f) /\ In f d /\ is_tiny_name (fst f) = true
    /\ (lr (snd f) = Err \/
        exists l c, fwalk (sc_edges st) r l /\ c <> [] /\ fwalk (sc_edges st) (last l r) c /\ last c (last l r) = last l r).
Proof. exact @resolve_err_iff. Qed.
Print Assumptions C05_resolve_err_iff.

(* well-formed directories, on the file names: resolve fails iff the directory is malformed — a `.tinydiff` name
   without `#`, not exactly one `.tiny` file, an unreadable root file, or a cycle among the versions named by the
   `.tinydiff` files that can be reached from the root — and never otherwise *)
Theorem C05_malformed_iff : forall C M (lr : C -> res M) (d : list (file C)),
  well_formed d = true ->
  (resolve lr d = Err <->
   has_bad d = true \/ tiny_count d <> 1%nat \/
   exists f vr, In f d /\ classify (fst f) = FRoot vr /\
     (lr (snd f) = Err \/
      exists L Cy, nwalk d vr L /\ Cy <> [] /\ nwalk d (last L vr) Cy /\ last Cy (last L vr) = last L vr)).
Proof. exact @malformed_iff. Qed.
Print Assumptions C05_malformed_iff.

(* get_all = the single gets in order; it fails iff one of the names is unknown *)
Theorem C05_get_all_spec : forall C M (g : graph C M) (names : list str),
  (forall l, get_all g names = Ok l <-> Forall2 (fun k x => get g k = Ok x) names l)
  /\ (get_all g names = Err <-> exists k, In k names /\ get g k = Err).
Proof. exact @get_all_spec. Qed.
Print Assumptions C05_get_all_spec.

(* the diff apply_diffs applies for a step is the one get_diff reports; get_diff finds a file exactly for the edges *)
Theorem C05_step_get_diff : forall C M D (o : ops C M D) (g : graph C M) a b m,
  step o (g_edges g) a b m = match get_diff o g a b with Ok (Some dd) => apply o dd m | _ => Err end.
Proof. exact @step_get_diff. Qed.
Print Assumptions C05_step_get_diff.

Theorem C05_get_diff_none_iff : forall C M D (o : ops C M D) (g : graph C M) a b,
  get_diff o g a b = Ok None <-> ~ In b (succs (g_edges g) a).
Proof. exact @get_diff_none_iff. Qed.
Print Assumptions C05_get_diff_none_iff.

(* non-vacuity of section 7: depths of a diamond and of the repository's fixture, a well-formed directory whose
   only defect is a cycle entered at two of its members, get_all / get_diff on the fixture *)
Theorem C05_examples8 : nonvacuous8.
Proof. exact nonvacuous8_holds. Qed.
Print Assumptions C05_examples8.

(* ---- 8. the root file: C03's hypothesis on what is written follows from the contracted set ---- *)
From FB Require C05.Theory9.
(* C03's [textual] (every name a writable, readable cell accepted by its name type) survives C11's extension of
   inner class names: extended names are `$`-joins of names that are textual already *)
Theorem C05_textual_extend : forall (M : FB.Quill.Mappings.mappings) (name : str) e,
  FB.C03.Model.textual M = true -> FB.C11.Model.extend M name = Ok e -> FB.C03.Model.textual e = true.
Proof. exact FB.C05.Theory9.textual_extend. Qed.
Print Assumptions C05_textual_extend.

(* so [root_ok] of C05_history_sound_instantiated (which evaluates textual on the EXTENDED root set) can be
   replaced by hypotheses on the contracted root set H root alone *)
Theorem C05_root_ok_from_contracted : forall (M : FB.Quill.Mappings.mappings) e,
  FB.C11.Model.simple_names M 1 = true -> FB.C03.Model.textual M = true -> FB.C11.Model.extend M ns_named = Ok e ->
  FB.C05.Instance.root_ok M = true.
Proof. exact FB.C05.Theory9.root_ok_from_contracted. Qed.
Print Assumptions C05_root_ok_from_contracted.

Theorem C05_examples9 : FB.C05.Theory9.nonvacuous9.
Proof. exact FB.C05.Theory9.nonvacuous9_holds. Qed.
Print Assumptions C05_examples9.

(* ---- non-vacuity ---- *)
Theorem C05_examples : nonvacuous.
Proof. exact nonvacuous_holds. Qed.
Print Assumptions C05_examples.

(* ================================================================================================
   ROUND 5
   ================================================================================================ *)
From FB Require C05.Theory10 C05.Theory11 C05.Theory12.
From FB Require Base.Sort.
From Coq Require Sorted.

(* ---- 9. the directory as listed: resolve sorts the entries by file name first ---- *)
(* [resolve] (sections 1-8) is the function of the SEQUENCE in which the files are processed; VersionGraph::resolve on a
   directory listed in order d is [resolve_dir lr d].  The definitions, pinned: *)
Theorem C05_resolve_dir_definition : forall C M (lr : C -> res M) (d : list (file C)),
  resolve_dir lr d = resolve lr (if dir_sorted then sort_files d else d) /\ dir_sorted = true
  /\ sort_files d = FB.Base.Sort.isort file_leb d
  /\ (forall a b : file C, file_leb a b = match str_cmp (fst a) (fst b) with Gt => false | _ => true end)
  /\ Permutation (sort_files d) d
  /\ Sorted.Sorted (fun a b => file_leb a b = true) (sort_files d).
Proof.
  intros. split; [reflexivity|]. split; [reflexivity|]. split; [reflexivity|]. split; [reflexivity|].
  split; [exact (FB.C05.Theory12.sort_files_perm d)|exact (FB.C05.Theory12.sort_files_sorted d)].
Qed.
Print Assumptions C05_resolve_dir_definition.

(* EVERY directory (collisions of lookup names, non-confluent diamonds, malformed ones): any two listing orders give
   LITERALLY the same result — same node indices, edge order, depths, lookup table, hence the same candidates.
   (Files of a directory have distinct names.)  No well-formedness is needed any more. *)
Theorem C05_resolve_dir_perm : forall C M (lr : C -> res M) (d d' : list (file C)),
  nodup_strb (map fst d) = true -> Permutation d d' -> resolve_dir lr d = resolve_dir lr d'.
Proof. exact @FB.C05.Theory12.resolve_dir_perm. Qed.
Print Assumptions C05_resolve_dir_perm.

(* the theorems about [resolve] do not see the order of the files; the three main ones restated for the directory as listed *)
Theorem C05_dir_get_err_iff : forall C M (lr : C -> res M) (d : list (file C)) g s,
  resolve_dir lr d = Ok g -> (get g s = Err <-> ~ FB.C05.Theory10.lookup_name d s).
Proof. exact @FB.C05.Theory12.dir_get_err_iff. Qed.
Print Assumptions C05_dir_get_err_iff.

Theorem C05_dir_malformed_iff : forall C M (lr : C -> res M) (d : list (file C)),
  well_formed d = true ->
  (resolve_dir lr d = Err <->
   has_bad d = true \/ tiny_count d <> 1%nat \/
   exists f vr, In f d /\ classify (fst f) = FRoot vr /\
     (lr (snd f) = Err \/
      exists L Cy, nwalk d vr L /\ Cy <> [] /\ nwalk d (last L vr) Cy /\ last Cy (last L vr) = last L vr)).
Proof. exact @FB.C05.Theory12.dir_malformed_iff. Qed.
Print Assumptions C05_dir_malformed_iff.

(* the end-to-end theorem of section 6 for the directory as listed, with confluence made explicit: every candidate is
   extend (H v) up to map order, and any two candidates (two shortest paths) agree up to map order *)
Theorem C05_dir_history_sound_instantiated :
  forall (H : str -> FB.Quill.Mappings.mappings) (d : list (file str)) (rank : str -> nat),
  well_formed d = true -> has_bad d = false -> tiny_count d = 1%nat ->
  (forall f p v, In f d -> classify (fst f) = FEdge p v -> (rank p < rank v)%nat) ->
  FB.C05.Instance.printed_history H d ->
  exists g, resolve_dir (load_root FB.C05.Instance.vg_ops) d = Ok g /\
    forall v, FB.C05.Instance.reachable d v -> forall k, In k (keys v) ->
    exists sp i, get g k = Ok (sp, i) /\ nth_error (g_nodes g) i = Some v
      /\ candidates_by_name FB.C05.Instance.vg_ops g k <> []
      /\ (forall r, In r (candidates_by_name FB.C05.Instance.vg_ops g k) ->
            FB.C05.Instance.res_rel FB.C04.Theory2.mequiv r (FB.C11.Model.extend (H v) ns_named))
      /\ (forall r1 r2, In r1 (candidates_by_name FB.C05.Instance.vg_ops g k) -> In r2 (candidates_by_name FB.C05.Instance.vg_ops g k) ->
            FB.C05.Instance.res_rel FB.C04.Theory2.mequiv r1 r2).
Proof. exact FB.C05.Theory12.dir_history_sound_instantiated. Qed.
Print Assumptions C05_dir_history_sound_instantiated.

(* ---- 10. lookup: EVERY string that is not a lookup name is refused (every directory, any processing order) ---- *)
(* lookup names = the plain version strings and both halves of the a~b strings that the file names mention *)
Theorem C05_lookup_name_definition : forall C (d : list (file C)) s,
  (FB.C05.Theory10.lookup_name d s <-> exists v, In v (dir_versions d) /\ In s (keys v))
  /\ (FB.C05.Theory10.lookup_nameb d s = true <-> FB.C05.Theory10.lookup_name d s).
Proof. intros. split; [reflexivity|apply FB.C05.Theory10.lookup_nameb_spec]. Qed.
Print Assumptions C05_lookup_name_definition.

Theorem C05_get_err_iff : forall C M (lr : C -> res M) (d : list (file C)) g s,
  resolve lr d = Ok g -> (get g s = Err <-> ~ FB.C05.Theory10.lookup_name d s).
Proof. exact @FB.C05.Theory10.get_err_iff. Qed.
Print Assumptions C05_get_err_iff.

(* ... decided by a boolean on the file names *)
Theorem C05_get_decides : forall C M (lr : C -> res M) (d : list (file C)) g s,
  resolve lr d = Ok g -> if FB.C05.Theory10.lookup_nameb d s then exists x, get g s = Ok x else get g s = Err.
Proof. exact @FB.C05.Theory10.get_decides. Qed.
Print Assumptions C05_get_decides.

(* where no version string has two `~`, every string that contains `~` is refused: a whole a~b name, a mismatched
   pairing of two existing halves, a key with a `~suffix` *)
Theorem C05_get_tilde_refused : forall C M (lr : C -> res M) (d : list (file C)) g s,
  resolve lr d = Ok g ->
  (forall v a b, In v (dir_versions d) -> split_once sep_split v = Some (a, b) -> ~ In sep_split b) ->
  In sep_split s -> get g s = Err.
Proof. exact @FB.C05.Theory10.get_tilde_refused. Qed.
Print Assumptions C05_get_tilde_refused.

(* well-formed directories: an answer is the version the name belongs to, with the half it is *)
Theorem C05_get_spec_wf : forall C M (lr : C -> res M) (d : list (file C)) g s,
  well_formed d = true -> resolve lr d = Ok g ->
  match get g s with
  | Err => ~ FB.C05.Theory10.lookup_name d s
  | Ok (sp, i) => exists v, In v (dir_versions d) /\ nth_error (g_nodes g) i = Some v /\
      match split_once sep_split v with
      | Some (a, b) => (s = a /\ sp = SFirst) \/ (s <> a /\ s = b /\ sp = SSecond)
      | None => s = v /\ sp = SNone
      end
  end.
Proof. exact @FB.C05.Theory10.get_spec_wf_unfolded. Qed.
Print Assumptions C05_get_spec_wf.

(* ---- 11. the FIFO walker queue of resolve = the level-by-level walk of the model ---- *)
(* [qrun es root q ds r]: the Rust loop `while let Some((path, head)) = walkers.pop_front() { update depth; for v in
   neighbours { if path.contains(v) { bail } walkers.push_back((path + v, v)) } }` started with queue q and depths ds ends
   with r.  The relation is pinned by its one-step unfolding: *)
Theorem C05_qrun_unfold : forall C (es : list (edge C)) root q ds r,
  FB.C05.Theory10.qrun es root q ds r <->
  match q with
  | [] => r = Ok ds
  | w :: q' => if loops es w then r = Err else FB.C05.Theory10.qrun es root (q' ++ expand es w) (upd_depth root ds w) r
  end.
Proof. exact @FB.C05.Theory10.qrun_unfold. Qed.
Print Assumptions C05_qrun_unfold.

(* on a graph with n nodes whose edge targets are nodes: the queue loop ends, and with exactly what [walk] returns *)
Theorem C05_queue_generations : forall C (es : list (edge C)) root n ds r,
  (forall e, In e es -> (e_dst e < n)%nat) ->
  FB.C05.Theory10.qrun es root [([], root)] ds r <-> walk (S n) es root [([], root)] ds = r.
Proof. exact @FB.C05.Theory10.queue_generations. Qed.
Print Assumptions C05_queue_generations.

(* resolve specified with the queue loop (a relation transcribing the Rust function) is what the model computes *)
Theorem C05_resolve_is_fifo : forall C M (lr : C -> res M) (d : list (file C)) out,
  match scan_dir scan0 d with
  | Err => out = Err
  | Ok st =>
      match sc_root st with
      | None => out = Err
      | Some (root, f) =>
          match lr (snd f) with
          | Err => out = Err
          | Ok m =>
              exists rd, FB.C05.Theory10.qrun (sc_edges st) root [([], root)] (repeat O (length (sc_nodes st))) rd
                /\ out = match rd with
                         | Ok ds => Ok (mkGraph root m (sc_tbl st) (sc_nodes st) ds (sc_edges st))
                         | Err => Err
                         end
          end
      end
  end <-> resolve lr d = out.
Proof. exact @FB.C05.Theory10.resolve_is_fifo. Qed.
Print Assumptions C05_resolve_is_fifo.

(* ---- 12. shortest paths on ANY graph whose indices are nodes ---- *)
Theorem C05_shortest_any_graph : forall C M (g : graph C M) v,
  (forall e, In e (g_edges g) -> (e_dst e < length (g_nodes g))%nat) -> (g_root g < length (g_nodes g))%nat ->
  (shortest_paths g v <> [] <-> exists l, fwalk (g_edges g) (g_root g) l /\ last l (g_root g) = v).
Proof. exact @FB.C05.Theory10.shortest_any_graph. Qed.
Print Assumptions C05_shortest_any_graph.

(* ... so `apply_diffs` finds no path exactly for the nodes that no walk from the root reaches *)
Theorem C05_no_path_iff_unreachable : forall C M D (o : ops C M D) (g : graph C M) v,
  (forall e, In e (g_edges g) -> (e_dst e < length (g_nodes g))%nat) -> (g_root g < length (g_nodes g))%nat ->
  (shortest_paths g v = [] <-> forall l, fwalk (g_edges g) (g_root g) l -> last l (g_root g) <> v).
Proof. exact @FB.C05.Theory10.candidates_no_path_iff. Qed.
Print Assumptions C05_no_path_iff_unreachable.

(* ---- 13. confluence: when do all paths give the same answer ---- *)
(* all walks from the root to the same node fold to the same mapping set (and none fails)  <->  the edge files are the
   record of a history: one mapping set per node, every edge file out of a reachable node turns its source's set into
   its target's *)
Theorem C05_confluent_iff_history : forall C M D (o : ops C M D) (g : graph C M),
  (forall e, In e (g_edges g) -> (e_dst e < length (g_nodes g))%nat) -> (g_root g < length (g_nodes g))%nat ->
  ((forall l, fwalk (g_edges g) (g_root g) l -> exists m, fold_path o (g_edges g) (g_root_mapping g) (g_root g :: l) = Ok m) /\
   (forall l1 l2, fwalk (g_edges g) (g_root g) l1 -> fwalk (g_edges g) (g_root g) l2 -> last l1 (g_root g) = last l2 (g_root g) ->
      fold_path o (g_edges g) (g_root_mapping g) (g_root g :: l1) = fold_path o (g_edges g) (g_root_mapping g) (g_root g :: l2)))
  <->
  exists Hm : nat -> M, Hm (g_root g) = g_root_mapping g /\
    forall a b, (exists l, fwalk (g_edges g) (g_root g) l /\ last l (g_root g) = a) -> In b (succs (g_edges g) a) ->
      step o (g_edges g) a b (Hm a) = Ok (Hm b).
Proof. exact @FB.C05.Theory10.confluent_iff_history. Qed.
Print Assumptions C05_confluent_iff_history.

(* instantiated: the printed record of a history is confluent (see also C05_dir_history_sound_instantiated) ... *)
Theorem C05_history_confluent : forall (H : str -> FB.Quill.Mappings.mappings) (d : list (file str)) (rank : str -> nat),
  well_formed d = true -> has_bad d = false -> tiny_count d = 1%nat ->
  (forall f p v, In f d -> classify (fst f) = FEdge p v -> (rank p < rank v)%nat) ->
  FB.C05.Instance.printed_history H d ->
  exists g, resolve (load_root FB.C05.Instance.vg_ops) d = Ok g /\
    forall v, FB.C05.Instance.reachable d v -> forall k, In k (keys v) ->
    forall r1 r2, In r1 (candidates_by_name FB.C05.Instance.vg_ops g k) -> In r2 (candidates_by_name FB.C05.Instance.vg_ops g k) ->
      FB.C05.Instance.res_rel FB.C04.Theory2.mequiv r1 r2.
Proof. exact FB.C05.Theory11.history_confluent. Qed.
Print Assumptions C05_history_confluent.

(* ... so a directory on which two shortest paths fold to different sets is the printed record of NO history *)
Theorem C05_nonconfluent_no_history : forall (d : list (file str)) (rank : str -> nat) g v k r1 r2,
  well_formed d = true -> has_bad d = false -> tiny_count d = 1%nat ->
  (forall f p v, In f d -> classify (fst f) = FEdge p v -> (rank p < rank v)%nat) ->
  resolve (load_root FB.C05.Instance.vg_ops) d = Ok g -> FB.C05.Instance.reachable d v -> In k (keys v) ->
  In r1 (candidates_by_name FB.C05.Instance.vg_ops g k) -> In r2 (candidates_by_name FB.C05.Instance.vg_ops g k) ->
  ~ FB.C05.Instance.res_rel FB.C04.Theory2.mequiv r1 r2 ->
  forall H, ~ FB.C05.Instance.printed_history H d.
Proof. exact FB.C05.Theory11.nonconfluent_no_history. Qed.
Print Assumptions C05_nonconfluent_no_history.

(* such directories exist: r.tiny, r#x, r#y, x#z (pkg/A -> pkg/ViaX), y#z (pkg/A -> pkg/ViaY), real file contents, evaluated
   with the instantiated model: two candidates for z that differ even up to map order *)
Theorem C05_nonconfluent_example : FB.C05.Theory11.nonconfluent_example.
Proof. exact FB.C05.Theory11.nonconfluent_example_holds. Qed.
Print Assumptions C05_nonconfluent_example.

(* non-vacuity of sections 9-10 on the repository's fixture: halves answered; the whole name 1.4~server-0.4, the mismatched
   pairing 1.4~server-0.2, "", the prefix "1.", "1.4~", "~1.4", "1.3#1.4", "1.3.tiny", "1.3 " refused; reversing the listing
   gives literally the same graph, also on a non-confluent diamond (same two candidates in the same order) *)
Theorem C05_examples12 : FB.C05.Theory12.nonvacuous12.
Proof. exact FB.C05.Theory12.nonvacuous12_holds. Qed.
Print Assumptions C05_examples12.

(* ---- 14. the instantiated history theorem WITHOUT its three inherited restrictions is false of the model ---- *)
(* [hist_ok_full] = [hist_ok] (C05_history_dir_sound) minus: no empty comment (C04's open finding F4), not in C04's open
   class F3 (a parameter's first-namespace name), same top-level comment.  [history_sound_instantiated_full] is the
   statement of C05_history_dir_sound under [hist_ok_full]; it is NOT a theorem: *)
From FB Require C05.Theory13.
Theorem C05_history_full_definitions :
  (forall M, FB.C05.Theory13.version_ok_full M =
     (FB.Quill.Mappings.wf M && FB.C04.Hyps.two_ns M && str_eqb (nth 1 (FB.Quill.Mappings.ms_ns M) []) ns_named
      && FB.C04.Hyps.named M && FB.C04.Hyps.textual_mappings M)%bool)
  /\ (forall A B, FB.C05.Theory13.edge_ok_full A B = list_eqb str_eqb (FB.Quill.Mappings.ms_ns A) (FB.Quill.Mappings.ms_ns B))
  /\ (forall h, FB.C05.InstanceDir.hist_ok h = true -> FB.C05.Theory13.hist_ok_full h = true)
  /\ (FB.C05.Theory13.history_sound_instantiated_full <->
      forall h, FB.C05.Theory13.hist_ok_full h = true ->
      exists vr d g, hd_error (map fst (FB.C05.InstanceDir.h_versions h)) = Some vr
        /\ FB.C05.InstanceDir.dir_of h = Ok d /\ resolve (load_root FB.C05.Instance.vg_ops) d = Ok g /\
        forall L, FB.C05.InstanceDir.ewalk (FB.C05.InstanceDir.h_edges h) vr L -> let v := last L vr in forall k, In k (keys v) ->
        exists sp i, get g k = Ok (sp, i) /\ nth_error (g_nodes g) i = Some v
          /\ candidates_by_name FB.C05.Instance.vg_ops g k <> []
          /\ forall r, In r (candidates_by_name FB.C05.Instance.vg_ops g k) ->
               FB.C05.Instance.res_rel FB.C04.Theory2.mequiv r (FB.C11.Model.extend (FB.C05.InstanceDir.hget h v) ns_named)).
Proof.
  split; [reflexivity|]. split; [reflexivity|]. split; [exact FB.C05.Theory13.hist_ok_full_weaker|reflexivity].
Qed.
Print Assumptions C05_history_full_definitions.

Theorem C05_history_sound_instantiated_full_refuted : ~ FB.C05.Theory13.history_sound_instantiated_full.
Proof. exact FB.C05.Theory13.history_sound_instantiated_full_refuted. Qed.
Print Assumptions C05_history_sound_instantiated_full_refuted.

(* one two-version witness per dropped restriction (root r, child v, one edge file; everything else holds) *)
Theorem C05_history_full_refuted_F4 :
  FB.C05.Theory13.hist_ok_full (FB.C05.Theory13.w_hist FB.C05.Theory13.f4_r FB.C05.Theory13.f4_v) = true
  /\ FB.C04.Hyps.has_empty_comment FB.C05.Theory13.f4_v = true
  /\ ~ FB.C05.Theory13.history_dir_conclusion (FB.C05.Theory13.w_hist FB.C05.Theory13.f4_r FB.C05.Theory13.f4_v).
Proof. exact FB.C05.Theory13.f4_refutes. Qed.
Print Assumptions C05_history_full_refuted_F4.

Theorem C05_history_full_refuted_F3 :
  FB.C05.Theory13.hist_ok_full (FB.C05.Theory13.w_hist FB.C05.Theory13.f3_r FB.C05.Theory13.f3_v) = true
  /\ FB.C04.Hyps.f3_class FB.C05.Theory13.f3_r FB.C05.Theory13.f3_v = true
  /\ ~ FB.C05.Theory13.history_dir_conclusion (FB.C05.Theory13.w_hist FB.C05.Theory13.f3_r FB.C05.Theory13.f3_v).
Proof. exact FB.C05.Theory13.f3_refutes. Qed.
Print Assumptions C05_history_full_refuted_F3.

Theorem C05_history_full_refuted_top_comment :
  FB.C05.Theory13.hist_ok_full (FB.C05.Theory13.w_hist FB.C05.Theory13.top_r FB.C05.Theory13.top_v) = true
  /\ FB.Quill.Mappings.ms_doc FB.C05.Theory13.top_r <> FB.Quill.Mappings.ms_doc FB.C05.Theory13.top_v
  /\ ~ FB.C05.Theory13.history_dir_conclusion (FB.C05.Theory13.w_hist FB.C05.Theory13.top_r FB.C05.Theory13.top_v).
Proof. exact FB.C05.Theory13.top_refutes. Qed.
Print Assumptions C05_history_full_refuted_top_comment.
