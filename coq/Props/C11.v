(* C11 — property theorems only.  Each is closed by [exact <lemma>] and followed by
   Print Assumptions; the statements are pinned here so they cannot be quietly weakened.
   Model: C11/Model.v (extend / contract of quill/src/action/extend_inner_class_names.rs),
   specification vocabulary (Ext, Broken, ext_rel, contract_rel): C11/Theory.v, C11/Theory2.v. *)
From FB Require Import C11.Model C11.Theory C11.Theory2 C11.Theory3 C11.Theory4.
From FB Require Props.C18.

(* Extension: the result has the same namespaces and comment; class by class (same order) the
   same comment, fields and methods; in each names row every cell except [ns] is unchanged and
   the cell [ns], when present, becomes the extended name [Ext]: the name itself for a class
   whose source name is not nested, otherwise (extended name of the outer class) $ name,
   recursively.  Last clause: IF asking for the first namespace succeeds at all, then there is no
   class (so nothing could have been rewritten).  The property only speaks of a target namespace
   at a non-first index: whether extend(<first namespace>) on a set WITHOUT classes succeeds
   (the code at present: Ok, unchanged) or is refused like `contract` refuses it is unspecified;
   this theorem does not demand success there and the harness oracle accepts both. *)
Theorem C11_extend_spec : forall M name M',
  extend M name = Ok M' ->
  exists ns, ns_index (ms_ns M) name = Some ns /\ ext_rel M ns M' /\ (ms_classes M <> [] -> ns <> O).
Proof. exact extend_spec. Qed.
Print Assumptions C11_extend_spec.

(* ... and the specification determines the result: nothing else is rewritten *)
Theorem C11_extend_spec_unique : forall M ns M1 M2, ext_rel M ns M1 -> ext_rel M ns M2 -> M1 = M2.
Proof. exact ext_rel_unique. Qed.
Print Assumptions C11_extend_spec_unique.

(* top-level classes and classes without a name in ns come out identical *)
Theorem C11_extend_untouched : forall M ns M',
  ext_rel M ns M' ->
  Forall2 (fun c c' =>
    (nth_name (c_names c) ns = None \/ exists src, class_key c = Some src /\ split_inner src = None) -> c' = c)
    (ms_classes M) (ms_classes M').
Proof. exact ext_rel_untouched. Qed.
Print Assumptions C11_extend_untouched.

(* the recursion of `map` computes exactly Ext / fails exactly on Broken, at any depth;
   fuel = length of the source name is enough *)
Theorem C11_map_name_ok : forall cs ns src b r,
  map_name (length src) cs ns src b = Ok r <-> Ext cs ns src b r.
Proof. exact map_name_ok_iff. Qed.
Print Assumptions C11_map_name_ok.

Theorem C11_map_name_err : forall cs ns src b,
  map_name (length src) cs ns src b = Err <-> Broken cs ns src.
Proof. exact map_name_err_iff. Qed.
Print Assumptions C11_map_name_err.

Theorem C11_map_name_fuel : forall cs ns src b fuel,
  (length src <= fuel)%nat -> map_name fuel cs ns src b = map_name (length src) cs ns src b.
Proof. exact map_name_fuel. Qed.
Print Assumptions C11_map_name_fuel.

(* Contraction: only the cell ns of every class row changes, to its innermost simple name;
   an unknown namespace and the first namespace (whose names are the map keys) are refused *)
Theorem C11_contract_spec : forall M name,
  (forall M', contract M name = Ok M' ->
     exists ns, ns_index (ms_ns M) name = Some ns /\ ns <> O /\ contract_rel M ns M') /\
  (contract M name = Err <-> ns_index (ms_ns M) name = None \/ ns_index (ms_ns M) name = Some O).
Proof. exact contract_spec. Qed.
Print Assumptions C11_contract_spec.

(* Contracting an extended set returns the original (equal, same order) when names are simple *)
Theorem C11_contract_extend : forall M name ns M',
  ns_index (ms_ns M) name = Some ns -> ns <> O -> simple_names M ns = true ->
  extend M name = Ok M' -> contract M' name = Ok M.
Proof. exact contract_extend. Qed.
Print Assumptions C11_contract_extend.

(* The property's failure clause, on the property's domain (target namespace at a non-first index):
   extension fails exactly when a class that has a name in ns has an outer class (at any depth)
   that is not in the set or has no name in ns.  Says nothing about the first namespace. *)
Theorem C11_extend_err_iff_nonfirst : forall M name ns,
  wf M = true -> ns_index (ms_ns M) name = Some ns -> ns <> O ->
  (extend M name = Err <->
   exists c src b, In c (ms_classes M) /\ class_key c = Some src /\
     nth_name (c_names c) ns = Some b /\ Broken (ms_classes M) ns src).
Proof. exact extend_err_nonfirst. Qed.
Print Assumptions C11_extend_err_iff_nonfirst.

(* The same for every namespace name, FOLLOWING THE CODE outside the property's domain: extension
   also fails when the namespace is unknown or when it is the first one and there is a class; the
   right-to-left reading for "first namespace, no class" (= success) is behaviour of the present
   code (no early bail in `extend`), modelled, not a promise of the property. *)
Theorem C11_extend_err_iff : forall M name,
  wf M = true ->
  (extend M name = Err <->
   ns_index (ms_ns M) name = None \/
   (ns_index (ms_ns M) name = Some O /\ ms_classes M <> []) \/
   exists ns c src b, ns_index (ms_ns M) name = Some ns /\ In c (ms_classes M) /\ class_key c = Some src /\
     nth_name (c_names c) ns = Some b /\ Broken (ms_classes M) ns src).
Proof. exact extend_err. Qed.
Print Assumptions C11_extend_err_iff.

(* the same without well-formedness: also rows with fewer than two cells or without a source name fail *)
Theorem C11_extend_err_iff_gen : forall M ns,
  extend_idx M ns = Err <-> exists c, In c (ms_classes M) /\ class_fails (ms_classes M) ns c.
Proof. exact extend_idx_err_gen. Qed.
Print Assumptions C11_extend_err_iff_gen.

Theorem C11_extend_first_namespace : forall M, ms_classes M <> [] -> extend_idx M O = Err.
Proof. exact extend_first_namespace. Qed.
Print Assumptions C11_extend_first_namespace.

(* closed form at any nesting depth: the extended name is m0$m1$...$mk$b where m0..mk are the
   names in ns of the outer classes, outermost first (Chain follows the source name's splits) *)
Theorem C11_extended_name_closed_form : forall cs ns src b r,
  Ext cs ns src b r <-> exists ms, Chain cs ns src ms /\ r = join_dollar (ms ++ [b]).
Proof. exact Ext_chain. Qed.
Print Assumptions C11_extended_name_closed_form.

(* both operations keep the tree well-formed and every class under its key *)
Theorem C11_extend_preserves_wf : forall M ns M',
  wf M = true -> extend_idx M ns = Ok M' ->
  wf M' = true /\ map class_key (ms_classes M') = map class_key (ms_classes M).
Proof. exact extend_idx_wf. Qed.
Print Assumptions C11_extend_preserves_wf.

Theorem C11_contract_preserves_wf : forall M ns,
  wf M = true -> ns <> O ->
  wf (contract_idx M ns) = true /\
  map class_key (ms_classes (contract_idx M ns)) = map class_key (ms_classes M).
Proof. exact contract_idx_wf. Qed.
Print Assumptions C11_contract_preserves_wf.

(* The helpers named by the property's observe_at — get_inner_class_parent / get_inner_class_name
   (split_inner) and from_inner_class (join_inner) — are inverse to each other: C18's theorems,
   pinned here for the constants C11's model uses (C11/Model.v re-exports C18/Model.v). *)
Theorem C11_split_join : forall p i, FB.C18.Theory.inner_ok p i -> split_inner (join_inner p i) = Some (p, i).
Proof. exact FB.Props.C18.C18_split_join. Qed.
Print Assumptions C11_split_join.

Theorem C11_join_split : forall s p i, split_inner s = Some (p, i) -> join_inner p i = s /\ FB.C18.Theory.inner_ok p i.
Proof. exact FB.Props.C18.C18_join_split. Qed.
Print Assumptions C11_join_split.

(* ---------------------------------------------------------------------------------------------
   Round 4 *)

(* The recursive parent lookup of `map` terminates on every class set, because it walks the
   SOURCE NAME, not a user-supplied graph: every outer class name (at any distance) is a proper
   prefix of the nested name, cut in front of a `$`; so it is strictly shorter, the relation has
   no cycle, and fuel = length of the name suffices (C11_map_name_fuel). *)
Theorem C11_ancestor_proper_prefix : forall a s,
  Ancestor a s -> (exists t, s = a ++ cDOLLAR :: t) /\ (length a < length s)%nat /\ a <> s.
Proof. exact ancestor_proper_prefix. Qed.
Print Assumptions C11_ancestor_proper_prefix.

Theorem C11_ancestor_definition : forall a s,
  Ancestor a s <->
  exists p i, split_inner s = Some (p, i) /\ (a = p \/ Ancestor a p).
Proof. exact ancestor_definition. Qed.
Print Assumptions C11_ancestor_definition.

Theorem C11_ancestor_acyclic : forall s, ~ Ancestor s s.
Proof. exact ancestor_acyclic. Qed.
Print Assumptions C11_ancestor_acyclic.

(* Frame: the recursion looks at the class set only through the (source name -> name in ns)
   relation of the ANCESTORS of the source name ... *)
Theorem C11_map_name_frame : forall fuel cs1 cs2 ns src b,
  (forall a, Ancestor a src -> get_class_name cs1 a ns = get_class_name cs2 a ns) ->
  map_name fuel cs1 ns src b = map_name fuel cs2 ns src b.
Proof. exact map_name_frame. Qed.
Print Assumptions C11_map_name_frame.

(* ... so the row of a class comes out the same when a class that is not one of its outer classes
   is added (o = None), removed (o' = None) or replaced (e.g. renamed in ns), anywhere in the set *)
Theorem C11_extend_frame : forall pre o o' post ns l,
  (forall src a, first_name l = Some src -> Ancestor a src -> key_differs o a /\ key_differs o' a) ->
  extend_names (pre ++ opt_cons o post) ns l = extend_names (pre ++ opt_cons o' post) ns l.
Proof. exact extend_frame. Qed.
Print Assumptions C11_extend_frame.

Theorem C11_frame_definitions :
  (forall c l, opt_cons (Some c) l = c :: l) /\ (forall l, opt_cons None l = l) /\
  (forall c a, key_differs (Some c) a <-> class_key c <> Some a) /\ (forall a, key_differs None a <-> True).
Proof. exact frame_definitions. Qed.
Print Assumptions C11_frame_definitions.

(* Contraction looks only at the name in the chosen namespace (never at the source name): what
   it keeps is never splittable again, and contracting twice is contracting once *)
Theorem C11_innermost_spec : forall b,
  ((exists p, split_inner b = Some (p, innermost b)) \/ (split_inner b = None /\ innermost b = b))
  /\ split_inner (innermost b) = None.
Proof. exact innermost_full_spec. Qed.
Print Assumptions C11_innermost_spec.

Theorem C11_contract_idem : forall M name M', contract M name = Ok M' -> contract M' name = Ok M'.
Proof. exact contract_idem. Qed.
Print Assumptions C11_contract_idem.

(* On a set with simple names contraction is the identity; hence contracting the extended set
   gives what contracting the original gives.  Without simple_names this fails (C11_examples3). *)
Theorem C11_contract_after_extend : forall M name ns M',
  wf M = true -> ns_index (ms_ns M) name = Some ns -> ns <> O -> simple_names M ns = true ->
  extend M name = Ok M' -> contract M' name = contract M name /\ contract M name = Ok M.
Proof. exact contract_after_extend. Qed.
Print Assumptions C11_contract_after_extend.

(* Extending an already extended set never fails, and is NOT the identity: the names of the
   outer classes m0, .., mk have become m0, m0$m1, .., m0$..$mk, and the class's name m0$..$mk$b
   gets all of them prepended once more. *)
Theorem C11_extend_twice : forall M ns M',
  extend_idx M ns = Ok M' ->
  (exists M'', extend_idx M' ns = Ok M'') /\
  forall src ms b r2,
    Chain (ms_classes M) ns src ms ->
    (Ext (ms_classes M') ns src (join_dollar (ms ++ [b])) r2 <->
     r2 = join_dollar (map join_dollar (nonempty_prefixes ms) ++ [join_dollar (ms ++ [b])])).
Proof. exact extend_twice. Qed.
Print Assumptions C11_extend_twice.

(* Both operations produce valid object class names from valid ones (what the unsafe
   from_inner_unchecked blocks of from_inner_class / split_inner_class_parent_and_name rely on),
   for whole mapping sets; the test is the implementation's own is_valid_obj_class_name
   (= the JVMS binary-name grammar, C18_obj_class_name) on every name of the chosen namespace *)
Theorem C11_valid_names_preserved : forall M name M',
  (extend M name = Ok M' \/ contract M name = Ok M') ->
  forall ns, ns_index (ms_ns M) name = Some ns ->
  names_validb (ms_classes M) ns = true -> names_validb (ms_classes M') ns = true.
Proof. exact valid_preserved. Qed.
Print Assumptions C11_valid_names_preserved.

Theorem C11_names_valid_definition : forall cs ns,
  names_validb cs ns = true <->
  forall c b, In c cs -> nth_name (c_names c) ns = Some b -> FB.C18.Theory.ClassNameG b.
Proof. exact names_valid_definition. Qed.
Print Assumptions C11_names_valid_definition.

(* ---------------------------------------------------------------------------------------------
   Round 5 *)

(* The extension specification is COMPLETE: on a well-formed set and a target namespace at a non-first
   index, whenever some M' satisfies the specification of C11_extend_spec the extension succeeds and
   returns exactly that M'.  With C11_extend_spec: extend M name = Ok M' <-> ext_rel M ns M' - the rewrite
   is characterised as a function, not only in its safety half. *)
Theorem C11_extend_complete : forall M name ns M',
  wf M = true -> ns_index (ms_ns M) name = Some ns -> ns <> O ->
  ext_rel M ns M' -> extend M name = Ok M'.
Proof. exact extend_complete. Qed.
Print Assumptions C11_extend_complete.

Theorem C11_extend_iff : forall M name ns M',
  wf M = true -> ns_index (ms_ns M) name = Some ns -> ns <> O ->
  (extend M name = Ok M' <-> ext_rel M ns M').
Proof. exact extend_iff. Qed.
Print Assumptions C11_extend_iff.

(* ext_rel spelled out: same namespaces and comment; class by class (same order) the same comment,
   fields and methods; the names row has the same length, every cell except [ns] is unchanged - ANY
   other namespace, before or after the chosen one -, and the cell [ns], when present, is the extended
   name computed from the names the OUTER classes have in that same namespace [ns] *)
Theorem C11_ext_rel_definition : forall M ns M',
  ext_rel M ns M' <->
  ms_ns M' = ms_ns M /\ ms_doc M' = ms_doc M /\
  Forall2 (fun c c' =>
    (length (c_names c') = length (c_names c)
     /\ (forall j, j <> ns -> nth_name (c_names c') j = nth_name (c_names c) j)
     /\ match nth_name (c_names c) ns with
        | None => nth_name (c_names c') ns = None
        | Some b => exists src r, first_name (c_names c) = Some src /\ Ext (ms_classes M) ns src b r
                                  /\ nth_name (c_names c') ns = Some r
        end)
    /\ c_doc c' = c_doc c /\ c_fields c' = c_fields c /\ c_methods c' = c_methods c)
    (ms_classes M) (ms_classes M').
Proof. exact ext_rel_definition. Qed.
Print Assumptions C11_ext_rel_definition.

(* two branches with pairwise equal target names are extended per branch (along the source names);
   nested target names under flat source names are contracted; a second extension differs from the
   first and still contracts to the original; contract(extend M) <> contract M without simple names *)
Theorem C11_examples3 : examples3.
Proof. exact examples3_hold. Qed.
Print Assumptions C11_examples3.

(* non-vacuity (the repository's fixture plus a depth-4 chain satisfies every hypothesis and is
   really rewritten), the failure cases, and necessity of simple_names for the inverse law *)
Theorem C11_examples : examples.
Proof. exact examples_hold. Qed.
Print Assumptions C11_examples.
