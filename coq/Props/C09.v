(* C09 — property theorems only.  Each is closed by [exact <lemma>] and followed by
   Print Assumptions; the statements are pinned here so they cannot be quietly weakened.

   Vocabulary (coq/C09/Model.v): [merge] models Mappings::merge; [wf2 M] = M is a well-formed
   set over exactly two namespaces; [cls M ck], [fld M ck fk], [mth M ck mk], [prm M ck mk i]
   look an entry up along its key path (None when absent; a missing parent has no children);
   [flds], [mths], [prms] are the children of an optional parent; [union eqb ka kb] = ka followed
   by the keys of kb that are not in ka; [row3 a b] = [shared first name; A's name; B's name];
   [first_some a b] = a's comment if it has one, else b's. *)
From FB Require Import C09.Model C09.Theory C09.Theory2 C09.Theory3 C09.Theory4 C09.Theory5 C09.Theory6 C09.Theory7 C09.Theory8 C09.Theory9 C09.Theory10 C09.Theory11 C09.Theory12 C09.Theory13 C09.ModelNames C09.Theory14 C09.Theory15.
From FB Require C08.Model.
From FB Require C03.Theory6.

(* The key-zipping helper shared by diff and merge is a join: on maps with unique keys the
   combiner sees A's entries in A's order (paired with B's entry of the same key when there is
   one), then the entries only B has, in B's order. *)
Theorem C09_zip_is_join : forall (K V W : Type) (eqb : K -> K -> bool) (key : V -> K) (a b : list V) (f : comb V -> res W),
  eqb_ok eqb -> NoDup (map key a) -> NoDup (map key b) ->
  zip_map eqb key a b f = mapM f (zip_list eqb key a b).
Proof. exact (fun K V W eqb key a b f H => zip_map_spec eqb H key a b f). Qed.
Print Assumptions C09_zip_is_join.

(* 1. At every level the keys of the result are the union of the keys of A and B
      (A's keys in A's order, then the keys only B has, in B's order). *)
Theorem C09_merge_keys : forall A B M, wf2 A = true -> wf2 B = true -> merge A B = Ok M ->
  map class_key (ms_classes M) = union ckeqb (map class_key (ms_classes A)) (map class_key (ms_classes B))
  /\ (forall ck, map field_key (flds (cls M ck))
                 = union mkeqb (map field_key (flds (cls A ck))) (map field_key (flds (cls B ck))))
  /\ (forall ck, map meth_key (mths (cls M ck))
                 = union mkeqb (map meth_key (mths (cls A ck))) (map meth_key (mths (cls B ck))))
  /\ (forall ck mk, map param_key (prms (mth M ck mk))
                    = union N.eqb (map param_key (prms (mth A ck mk))) (map param_key (prms (mth B ck mk)))).
Proof. exact merge_keys. Qed.
Print Assumptions C09_merge_keys.

(* [union] is the set union and has no duplicates *)
Theorem C09_union_is_union : forall (K : Type) (eqb : K -> K -> bool) (ka kb : list K),
  eqb_ok eqb -> NoDup ka -> NoDup kb ->
  NoDup (union eqb ka kb) /\ forall k, In k (union eqb ka kb) <-> In k ka \/ In k kb.
Proof. exact (fun K eqb ka kb H => union_spec eqb H ka kb). Qed.
Print Assumptions C09_union_is_union.

(* 1'. ORDERED key lists (round 5).  When the insertion-ordered key list of one side is a prefix of the
       other's - two files listing the same entries in the same order, one of them with a tail - the union
       is the longer list: the tail is neither lost nor duplicated, whichever side is the shorter one.  By
       C09_merge_keys this holds at every level (the theorem is about [union], which every level uses); the
       class level is spelled out.  A positional pairing of the two maps would lose exactly the tail. *)
Theorem C09_union_prefix : forall (K : Type) (eqb : K -> K -> bool) (ka ex : list K),
  eqb_ok eqb -> NoDup (ka ++ ex) ->
  union eqb ka (ka ++ ex) = ka ++ ex /\ union eqb (ka ++ ex) ka = ka ++ ex.
Proof. exact (fun K eqb ka ex H => union_prefix eqb H ka ex). Qed.
Print Assumptions C09_union_prefix.

Theorem C09_merge_class_keys_prefix : forall A B M ex, wf2 A = true -> wf2 B = true -> merge A B = Ok M ->
  (map class_key (ms_classes B) = map class_key (ms_classes A) ++ ex ->
   map class_key (ms_classes M) = map class_key (ms_classes B))
  /\ (map class_key (ms_classes A) = map class_key (ms_classes B) ++ ex ->
      map class_key (ms_classes M) = map class_key (ms_classes A)).
Proof. exact merge_class_keys_prefix. Qed.
Print Assumptions C09_merge_class_keys_prefix.

(* the result is a well-formed set over three namespaces (unique keys at every level, every row
   has three cells, first names present) *)
Theorem C09_merge_wf : forall A B M, wf2 A = true -> wf2 B = true -> merge A B = Ok M ->
  wf M = true /\ length (ms_ns M) = 3%nat.
Proof. exact merge_wf. Qed.
Print Assumptions C09_merge_wf.

(* 2. Columns: namespaces (s, a, b); every entry carries A's name in column a and B's name in
      column b, absent where the side lacks the entry; its comment is the one a side has. *)
Theorem C09_merge_columns : forall A B M, wf2 A = true -> wf2 B = true -> merge A B = Ok M ->
  ms_ns M = [nth 0 (ms_ns A) []; nth 1 (ms_ns A) []; nth 1 (ms_ns B) []]
  /\ ms_doc M = first_some (ms_doc A) (ms_doc B)
  /\ (forall ck c, cls M ck = Some c ->
        class_key c = ck
        /\ c_names c = row3 (option_map c_names (cls A ck)) (option_map c_names (cls B ck))
        /\ c_doc c = first_some (odoc c_doc (cls A ck)) (odoc c_doc (cls B ck)))
  /\ (forall ck fk f, fld M ck fk = Some f ->
        field_key f = fk
        /\ f_names f = row3 (option_map f_names (fld A ck fk)) (option_map f_names (fld B ck fk))
        /\ f_doc f = first_some (odoc f_doc (fld A ck fk)) (odoc f_doc (fld B ck fk)))
  /\ (forall ck mk m, mth M ck mk = Some m ->
        meth_key m = mk
        /\ m_names m = row3 (option_map m_names (mth A ck mk)) (option_map m_names (mth B ck mk))
        /\ m_doc m = first_some (odoc m_doc (mth A ck mk)) (odoc m_doc (mth B ck mk)))
  /\ (forall ck mk i p, prm M ck mk i = Some p ->
        param_key p = i
        /\ p_names p = row3 (option_map p_names (prm A ck mk i)) (option_map p_names (prm B ck mk i))
        /\ p_doc p = first_some (odoc p_doc (prm A ck mk i)) (odoc p_doc (prm B ck mk i))).
Proof. exact merge_columns. Qed.
Print Assumptions C09_merge_columns.

(* 4. merge fails exactly when the first namespaces differ, or an entry present on both sides
      has two different comments (set, class, field, method, parameter), or a parameter present
      on both sides has different first-namespace names (one of them may be absent). *)
Theorem C09_merge_err_iff : forall A B, wf2 A = true -> wf2 B = true ->
  (merge A B = Err <->
   nth 0 (ms_ns A) [] <> nth 0 (ms_ns B) []
   \/ doc_conflict (ms_doc A) (ms_doc B)
   \/ (exists ck x y, cls A ck = Some x /\ cls B ck = Some y /\ doc_conflict (c_doc x) (c_doc y))
   \/ (exists ck fk x y, fld A ck fk = Some x /\ fld B ck fk = Some y /\ doc_conflict (f_doc x) (f_doc y))
   \/ (exists ck mk x y, mth A ck mk = Some x /\ mth B ck mk = Some y /\ doc_conflict (m_doc x) (m_doc y))
   \/ (exists ck mk i x y, prm A ck mk i = Some x /\ prm B ck mk i = Some y
         /\ (doc_conflict (p_doc x) (p_doc y) \/ nth_name (p_names x) 0 <> nth_name (p_names y) 0))).
Proof. exact merge_err_iff. Qed.
Print Assumptions C09_merge_err_iff.

(* 3. Projection: looking every entry of A up in the merged set (by its key path) and keeping
      the columns (s, a) gives back A — names, descriptors, indices, children, order, and A's
      comments ([view] keeps a comment of the merged entry only where A's entry has one: a comment
      contributed by B alone is not part of A).  Likewise B with the columns (s, b).  Together
      with C09_merge_keys (the merged set has no other keys than those of A and B) this is
      "projecting the result back onto (s,a) and (s,b) gives back A and B". *)
Theorem C09_merge_project : forall A B M, wf2 A = true -> wf2 B = true -> merge A B = Ok M ->
  view 1 A M = A /\ view 2 B M = B.
Proof. exact merge_project. Qed.
Print Assumptions C09_merge_project.

(* 3'. The same from the other end: the merged set filtered to the key paths that exist in A,
       reduced to the columns (s, a) and to A's comments, IS A — the same entries in the same
       order.  (For B the filtered set has B's entries in the merged order — shared ones first —
       so the equality holds only up to order: C09_merge_restrict_b below.) *)
Theorem C09_merge_restrict : forall A B M, wf2 A = true -> wf2 B = true -> merge A B = Ok M ->
  restrict 1 A M = A.
Proof. exact merge_restrict. Qed.
Print Assumptions C09_merge_restrict.

(* 3''. The same for B, precisely.  The merged set filtered to the key paths that exist in B, reduced
        to the columns (s, b) and to B's comments, is [reorder A B]: B with, at every level (classes;
        fields and methods of a class; parameters of a method), the entries whose key A's
        corresponding node also has FIRST, in A's order, followed by the other entries in B's order
        ([reord], coq/C09/Theory9.v; an entry of B without a corresponding node in A keeps the order of
        its children).  [reorder A B] is B up to the order of entries: [mappings_equiv] (the relation
        of C03, coq/C03/Theory6.v) = same namespaces and comment, the class list a permutation of B's
        with corresponding classes having equal names and comment, permuted fields, and methods
        permuted with corresponding methods having equal descriptor, names, comment and permuted
        parameters.  Hence the two have the same canonical (sorted) form. *)
Theorem C09_merge_restrict_b : forall A B M, wf2 A = true -> wf2 B = true -> merge A B = Ok M ->
  restrict 2 B M = reorder A B
  /\ C03.Theory6.mappings_equiv B (restrict 2 B M)
  /\ canon (restrict 2 B M) = canon B.
Proof. exact merge_restrict_b. Qed.
Print Assumptions C09_merge_restrict_b.

(* [reord eqb key ka lb] is what the comment says: a duplicate-free rearrangement of lb with the
   same elements — the entries with a key in ka, in ka's order, then the others in lb's order *)
Theorem C09_reord_spec : forall (K V : Type) (eqb : K -> K -> bool) (key : V -> K) (ka : list K) (lb : list V),
  eqb_ok eqb -> NoDup ka -> NoDup (map key lb) ->
  reord eqb key ka lb
  = filter_map (fun k => find_by eqb key k lb) ka ++ filter (fun y => negb (memb eqb (key y) ka)) lb
  /\ Permutation lb (reord eqb key ka lb)
  /\ ((forall y, In y lb -> ~ In (key y) ka) -> reord eqb key ka lb = lb).
Proof.
  exact (fun K V eqb key ka lb Hok Ha Hb =>
    conj eq_refl (conj (reord_perm eqb Hok key ka lb Ha Hb) (reord_disjoint eqb Hok key ka lb))).
Qed.
Print Assumptions C09_reord_spec.

(* "up to order" cannot be dropped: on the example pair the filtered set is the reordered B and is
   not B (B lists C3 before C1; the merged set lists the shared C1 first) *)
Theorem C09_restrict_b_example : restrict_b_example.
Proof. exact restrict_b_example_holds. Qed.
Print Assumptions C09_restrict_b_example.

(* 6. Commutation.  merge B A fails exactly when merge A B fails; when they succeed, merge B A is
      merge A B with the columns a and b exchanged ([swap_ab], coq/C09/Model.v: namespaces
      (s, b, a) and every names row [s-name; b-name; a-name]) UP TO THE ORDER OF ENTRIES at every
      level - merge A B lists A's entries first, merge B A lists B's first ([mappings_equiv], the
      nested-permutation relation of C03; hence equal canonical forms).  So the join does not
      prefer a side: which input is called A only decides the column order and the iteration order. *)
Theorem C09_merge_comm : forall A B, wf2 A = true -> wf2 B = true ->
  (merge A B = Err <-> merge B A = Err)
  /\ (forall M, merge A B = Ok M ->
        exists M', merge B A = Ok M' /\ C03.Theory6.mappings_equiv M' (swap_ab M) /\ canon M' = canon (swap_ab M)).
Proof. exact merge_comm. Qed.
Print Assumptions C09_merge_comm.

(* 6'. The column exchange [swap_ab] is not a private notion: it is what the model of
       Mappings::reorder (property C08, coq/C08/Model.v) returns for the order (s, b, a) on a
       well-formed three-namespace set whose descriptors scan; so merge B A is merge A B reordered
       to (s, b, a), up to the order of entries. *)
Theorem C09_swap_ab_is_reorder : forall M,
  wf M = true -> length (ms_ns M) = 3%nat -> C08.Model.descs_scan M = true ->
  C08.Model.reorder M [0; 2; 1]%nat = Ok (swap_ab M).
Proof. exact swap_ab_is_reorder. Qed.
Print Assumptions C09_swap_ab_is_reorder.

Theorem C09_merge_comm_via_reorder : forall A B M,
  wf2 A = true -> wf2 B = true -> merge A B = Ok M -> C08.Model.descs_scan M = true ->
  exists M' R, merge B A = Ok M' /\ C08.Model.reorder M [0; 2; 1]%nat = Ok R /\ C03.Theory6.mappings_equiv M' R.
Proof. exact merge_comm_via_reorder. Qed.
Print Assumptions C09_merge_comm_via_reorder.

(* non-vacuity of 6, and "up to order" cannot be dropped there: on the example pair merge B A is
   the column-exchanged merge A B in a different order; a conflicting pair fails both ways *)
Theorem C09_merge_comm_example : comm_example.
Proof. exact comm_example_holds. Qed.
Print Assumptions C09_merge_comm_example.

(* 7. Outside the hypotheses (no wf2 at all: rows of any length, empty names put in through
      Names::change_name, empty namespace names through rename_namespaces, duplicate keys): a merge that
      succeeds has rebuilt the header and every row through the checking constructors - three non-empty
      namespaces, three cells per row, no empty name anywhere ([rows_ok], coq/C09/Model.v); an empty
      namespace name on either side is always refused. *)
Theorem C09_merge_rows_ok : forall A B M, merge A B = Ok M -> rows_ok M = true.
Proof. exact merge_rows_ok. Qed.
Print Assumptions C09_merge_rows_ok.

Theorem C09_merge_rejects_empty_namespace : forall A B, In [] (ms_ns A) \/ In [] (ms_ns B) -> merge A B = Err.
Proof. exact merge_rejects_empty_namespace. Qed.
Print Assumptions C09_merge_rejects_empty_namespace.

(* An empty name Some [] in the second column of any class / field / method / parameter row of
   either input makes merge fail, provided only that the keys of every map are pairwise distinct
   ([keys_unique], the part of wf that does not speak about names - C09_wf_keys_unique): the merged
   rows are rebuilt through Names::try_from, which rejects it.  (Replayed on the implementation in the
   `empty-name` correspondence stream.) *)
Theorem C09_merge_rejects_empty_name : forall A B,
  keys_unique A = true -> keys_unique B = true ->
  has_empty_name A || has_empty_name B = true -> merge A B = Err.
Proof. exact merge_rejects_empty_name. Qed.
Print Assumptions C09_merge_rejects_empty_name.

(* (round 7) The same without the restriction to the second column: an empty name Some [] in ANY cell of any class /
   field / method / parameter row of either input ([has_empty_cell], coq/C09/ModelNames.v; rows of any length) makes
   merge fail when keys are pairwise distinct.  With C09_merge_rows_ok (a successful merge contains no empty name) the
   invariant "no empty name" of Names is enforced by merge on its inputs and on its result, whatever the caller did.
   The second-column predicate of C09_merge_rejects_empty_name is a special case (second conjunct). *)
Theorem C09_merge_rejects_empty_cell : forall A B,
  keys_unique A = true -> keys_unique B = true ->
  has_empty_cell A || has_empty_cell B = true -> merge A B = Err.
Proof. exact merge_rejects_empty_cell. Qed.
Print Assumptions C09_merge_rejects_empty_cell.

Theorem C09_bad_row_is_empty_cell : forall l, bad_row l = true -> ebad_row l = true.
Proof. exact bad_row_ebad. Qed.
Print Assumptions C09_bad_row_is_empty_cell.

Theorem C09_empty_cell_example : empty_cell_example.
Proof. exact empty_cell_example_holds. Qed.
Print Assumptions C09_empty_cell_example.

Theorem C09_wf_keys_unique : forall M, wf M = true -> keys_unique M = true.
Proof. exact wf_keys_unique. Qed.
Print Assumptions C09_wf_keys_unique.

Theorem C09_empty_name_example : empty_name_example.
Proof. exact empty_name_example_holds. Qed.
Print Assumptions C09_empty_name_example.

(* 8. (round 7) The row / header API of quill/src/tree/mod.rs that the inputs of merge go through, modelled in
      coq/C09/ModelNames.v and compared call by call in the `names-api` correspondence stream.
      [change_name_at l id from to] = Namespace::<N>::new(id)? followed by Names::change_name on the row l
      (N = length l), returning the old name and the row afterwards.  It succeeds EXACTLY when id is a namespace
      other than the first and `from` is the current name of that cell; then the returned name is `from`, and the
      row afterwards has the same length, `to` in cell id and every other cell unchanged (which determines it).
      In particular the first cell - the key of the node - cannot be edited. *)
Theorem C09_change_name_spec : forall (l : names) (id : nat) (from to old : option str) (l' : names),
  change_name_at l id from to = Ok (old, l') <->
  (0 < id < length l)%nat /\ nth_name l id = from /\ old = from /\ length l' = length l
  /\ nth_name l' id = to /\ (forall j, j <> id -> nth_name l' j = nth_name l j).
Proof. exact change_name_spec. Qed.
Print Assumptions C09_change_name_spec.

(* 8'. The tie to merge.  Names::change_name does not check `to` for emptiness, so a caller can put the empty name
       Some [] into the second column of a class row of A (what the harness' empty-name stream does).  For EVERY
       such edit (any class position, any `from` the API accepts) of a set with pairwise distinct keys: the class
       keys are unchanged (the node is still stored under its own key - the list model applies), keys stay
       unique, and merge refuses the edited set on either side. *)
Theorem C09_change_name_empty_refused : forall A B cs1 c cs2 from old l',
  ms_classes A = cs1 ++ c :: cs2 -> keys_unique A = true -> keys_unique B = true ->
  change_name_at (c_names c) 1 from (Some []) = Ok (old, l') ->
  let A' := with_class_row A cs1 c cs2 l' in
  map class_key (ms_classes A') = map class_key (ms_classes A)
  /\ keys_unique A' = true
  /\ merge A' B = Err /\ merge B A' = Err.
Proof. exact change_name_empty_refused. Qed.
Print Assumptions C09_change_name_empty_refused.

(* 8''. The constructors and the header edit.  Names::from (empty string -> absent name) always produces a row the
        checking constructor Names::try_from accepts, cell by cell as stated; Names::try_from accepts exactly the rows
        without an empty name and returns them unchanged; Namespaces::try_from accepts exactly the headers without an
        empty namespace name; Namespaces::change_names (Mappings::rename_namespaces) succeeds exactly when `from` is
        the current header and then the header is `to`, unchecked. *)
Theorem C09_names_constructors_spec :
  (forall l, names_from (names_of_strs l) = Ok (names_of_strs l)
             /\ length (names_of_strs l) = length l
             /\ (forall i, nth_name (names_of_strs l) i = match nth i l [] with [] => None | s => Some s end))
  /\ (forall l l', names_from l = Ok l' <-> l' = l /\ names_ok (length l) l = true)
  /\ (forall l l', namespaces_from l = Ok l' <-> l' = l /\ ~ In [] l)
  /\ (forall ns from to r, change_names ns from to = Ok r <-> ns = from /\ r = to).
Proof. exact constructors_spec. Qed.
Print Assumptions C09_names_constructors_spec.

(* non-vacuity of 8: accepted and refused edits (first column, index = N, wrong `from`), both constructors on an
   empty string, the unchecked header rename, and a pair that merges until the edit puts the empty name in *)
Theorem C09_names_api_example : names_api_example.
Proof. exact names_api_example_holds. Qed.
Print Assumptions C09_names_api_example.

(* 5. The checks of merge.rs on descriptors, parameter indices (merge_equal) and on the first
      names of classes, fields and methods (merge_names) can never fail: what they compare is
      part of the key under which the zip paired the two entries.  [merge_nc] is merge with these
      checks deleted (coq/C09/Theory6.v); on well-formed inputs it is the same function. *)
Theorem C09_merge_equal_never_fails_on_keys : forall A B, wf2 A = true -> wf2 B = true ->
  merge A B = merge_nc A B.
Proof. exact merge_equal_never_fails_on_keys. Qed.
Print Assumptions C09_merge_equal_never_fails_on_keys.

Theorem C09_merge_equal_args_equal :
  (forall la lb k x y, comb_of (find_by N.eqb param_key k la) (find_by N.eqb param_key k lb) = Some (CAB x y) ->
     merge_equal N.eqb (CAB (p_index x) (p_index y)) = Ok (p_index x))
  /\ (forall la lb k x y, Forall Pfield la -> Forall Pfield lb ->
     comb_of (find_by mkeqb field_key k la) (find_by mkeqb field_key k lb) = Some (CAB x y) ->
     merge_equal str_eqb (CAB (f_desc x) (f_desc y)) = Ok (f_desc x))
  /\ (forall la lb k x y, Forall Pmeth la -> Forall Pmeth lb ->
     comb_of (find_by mkeqb meth_key k la) (find_by mkeqb meth_key k lb) = Some (CAB x y) ->
     merge_equal str_eqb (CAB (m_desc x) (m_desc y)) = Ok (m_desc x)).
Proof. exact merge_equal_args_equal. Qed.
Print Assumptions C09_merge_equal_args_equal.

(* the `unreachable!()` arm of zip_map is not reached *)
Theorem C09_zip_unreachable_not_reached : forall (K V : Type) (eqb : K -> K -> bool) (key : V -> K) (a b : list V) (k : K),
  eqb_ok eqb -> In k (uniq eqb (map key a ++ map key b)) ->
  comb_of (find_by eqb key k a) (find_by eqb key k b) <> None.
Proof. exact (fun K V eqb key a b k H => zip_map_reaches_no_unreachable eqb H key a b k). Qed.
Print Assumptions C09_zip_unreachable_not_reached.

(* non-vacuity: a concrete overlapping pair satisfies the hypotheses and merges to the expected
   set; three concrete pairs show the live conflicts *)
Theorem C09_examples : nonvacuous.
Proof. exact nonvacuous_holds. Qed.
Print Assumptions C09_examples.
