(* C04 — property theorems only.  Each is closed by [exact <lemma>] and followed by
   Print Assumptions; the statements are pinned here so they cannot be quietly weakened. *)
From FB Require Import C04.Model C04.Theory.

(* apply_diff_option: the complete table.  A result is produced exactly in the four consistent
   situations, and it is what the action says ... *)
Theorem C04_option_ok_iff : forall (d : action str) (t r : option str),
  apply_option str_eqb d t = Ok r <->
    (d = ANone /\ r = t)
    \/ (exists b, d = AAdd b /\ t = None /\ r = Some b)
    \/ (exists a, d = ARem a /\ t = Some a /\ r = None)
    \/ (exists a b, d = AEdit a b /\ t = Some a /\ r = Some b).
Proof. exact apply_option_ok_iff. Qed.
Print Assumptions C04_option_ok_iff.

(* ... and it is refused exactly when an addition collides or a stated old value does not match *)
Theorem C04_option_err_iff : forall (d : action str) (t : option str),
  apply_option str_eqb d t = Err <->
    (exists b x, d = AAdd b /\ t = Some x)
    \/ (exists a, d = ARem a /\ t <> Some a)
    \/ (exists a b, d = AEdit a b /\ t <> Some a).
Proof. exact apply_option_err_iff. Qed.
Print Assumptions C04_option_err_iff.
